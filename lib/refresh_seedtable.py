#!/usr/bin/env python3
"""Refresh the generated seed tables inside DESIGN.md (between the roundN-table markers)."""
import subprocess, os
V = os.path.dirname(os.path.dirname(os.path.abspath(__file__)))
p = os.path.join(V, "DESIGN.md")
s = open(p).read()
for rnd, suf, r in (("round5", "7,8", ""), ("round6", "9,10", ""), ("round7", "9,10", "7"), ("round8", "11,12", "8"), ("round9", "11,12", "9"), ("round10", "13,14", "10")):
    b0, b1 = "<!-- %s-table-begin -->\n" % rnd, "<!-- %s-table-end -->" % rnd
    if b0 not in s:
        continue
    tab = subprocess.run(["python3", os.path.join(V, "lib", "mkseedtable.py"), suf] + ([r] if r else []), capture_output=True, text=True).stdout
    a, b = s.index(b0) + len(b0), s.index(b1)
    s = s[:a] + tab + s[b:]
open(p, "w").write(s)
print("DESIGN.md seed tables refreshed")
