#!/usr/bin/env python3
"""Refresh the generated round-5 table inside DESIGN.md (between the round5-table markers)."""
import subprocess, os
V = os.path.dirname(os.path.dirname(os.path.abspath(__file__)))
p = os.path.join(V, "DESIGN.md")
s = open(p).read()
tab = subprocess.run(["python3", os.path.join(V, "lib", "mkseedtable.py"), "7,8"], capture_output=True, text=True).stdout
a, b = s.index("<!-- round5-table-begin -->\n") + len("<!-- round5-table-begin -->\n"), s.index("<!-- round5-table-end -->")
open(p, "w").write(s[:a] + tab + s[b:])
print("DESIGN.md round-5 table refreshed")
