"""Driver for ./check: regen -> prove -> tie -> verdict -> evidence."""
import fcntl, hashlib, json, os, re, subprocess, sys, time, glob, shutil
from concurrent.futures import ThreadPoolExecutor

from terms import to_coq

VERIF = os.path.dirname(os.path.dirname(os.path.abspath(__file__)))
COQ = os.path.join(VERIF, "coq")
BUILD = os.path.join(VERIF, ".build")
REPO = os.environ.get("VERIF_REPO", "/repo")   # VERIF_REPO: only for the coordinator's isolated mutation runs (lib/mutrun.sh)
GOENV = dict(os.environ, GOFLAGS="-mod=mod", GOPROXY="off", GOSUMDB="off", GOTOOLCHAIN="local")
ALLOWED_AXIOMS = set()   # stdlib axioms a theorem may use; each listed in the trusted base if used

def sh(cmd, cwd=None, env=None, timeout=None, inp=None):
    p = subprocess.run(cmd, cwd=cwd, env=env, shell=isinstance(cmd, str), input=inp,
                       stdout=subprocess.PIPE, stderr=subprocess.STDOUT, text=True, timeout=timeout)
    return p.returncode, p.stdout

class Lock:
    def __init__(self, name):
        os.makedirs(BUILD, exist_ok=True)
        self.path = os.path.join(BUILD, name + ".lock")
    def __enter__(self):
        self.f = open(self.path, "w")
        fcntl.flock(self.f, fcntl.LOCK_EX)
    def __exit__(self, *a):
        fcntl.flock(self.f, fcntl.LOCK_UN)
        self.f.close()

def write_if_changed(path, content):
    try:
        if open(path).read() == content:
            return False
    except FileNotFoundError:
        pass
    os.makedirs(os.path.dirname(path), exist_ok=True)
    open(path, "w").write(content)
    return True

# ------------------------------------------------------------------ Go side
def build_go(log, bins=(), race_bins=()):
    """Build harness binaries + Tier-A tools from /repo's current working tree (hooks on)."""
    with Lock("go"):
        os.makedirs(os.path.join(BUILD, "bin"), exist_ok=True)
        hd = os.path.join(VERIF, "harness")
        shutil.copyfile(os.path.join(REPO, "go.sum"), os.path.join(hd, "go.sum"))
        for b in race_bins:
            # race-detector build (supporting exploration of concurrency clauses; thorough tier only)
            rc, out = sh(["go", "build", "-race", "-tags", "verif", "-o", os.path.join(BUILD, "bin", b + "_race"), "./cmd/" + b],
                         cwd=hd, env=GOENV, timeout=1800)
            log.append("go build -race %s rc=%d\n%s" % (b, rc, out[-2000:]))
        for b in ["constdump"] + list(bins):
            rc, out = sh(["go", "build", "-tags", "verif", "-o", os.path.join(BUILD, "bin", b), "./cmd/" + b],
                         cwd=hd, env=GOENV, timeout=1500)
            log.append("go build %s rc=%d\n%s" % (b, rc, out[-4000:]))
            if rc != 0:
                return False, out
        gd = os.path.join(VERIF, "go2coq")
        if os.path.isdir(gd):
            rc, out = sh(["go", "build", "-o", os.path.join(BUILD, "go2coq"), "."], cwd=gd, env=GOENV, timeout=600)
            log.append("go build go2coq rc=%d\n%s" % (rc, out[-4000:]))
            if rc != 0:
                return False, out
    return True, ""

def regen(log):
    """Tier A: regenerate coq/gen/*.v from /repo (constants by execution, pure functions by translation)."""
    problems = []
    with Lock("coq"):
        zh = os.path.join(BUILD, "bin", "constdump")
        rc, out = sh([zh, "constdump", "-out", os.path.join(BUILD, "Consts.v")], timeout=300)
        if rc != 0:
            problems.append("constdump failed: " + out[-2000:])
        else:
            write_if_changed(os.path.join(COQ, "gen", "Consts.v"), open(os.path.join(BUILD, "Consts.v")).read())
        g2c = os.path.join(BUILD, "go2coq")
        if os.path.exists(g2c):
            # Pure.v + one file per group of the spec (PureX.v). A function that cannot be translated is left out of its
            # file: the proofs that mention it stop compiling (= broken obligations of THOSE properties only).
            gdir = os.path.join(BUILD, "gen.%d" % os.getpid())
            shutil.rmtree(gdir, ignore_errors=True)
            os.makedirs(gdir)
            rc, out = sh([g2c, "-repo", REPO, "-spec", os.path.join(VERIF, "go2coq", "spec.json"),
                          "-out", os.path.join(gdir, "Pure.v")], timeout=300)
            log.append("go2coq rc=%d %s" % (rc, out[-3000:]))
            if rc != 0:
                problems.append("go2coq: " + out[-3000:])
            else:
                made = set()
                for f in sorted(glob.glob(os.path.join(gdir, "Pure*.v"))):
                    made.add(os.path.basename(f))
                    write_if_changed(os.path.join(COQ, "gen", os.path.basename(f)), open(f).read())
                for f in glob.glob(os.path.join(COQ, "gen", "Pure*.v")):
                    if os.path.basename(f) not in made:
                        os.remove(f)
            shutil.rmtree(gdir, ignore_errors=True)
    return problems

# ------------------------------------------------------------------ Coq side
def coq_flags():
    fl = []
    for line in open(os.path.join(COQ, "_CoqProject")):
        p = line.split()
        if p and p[0] in ("-Q", "-R"):
            fl += [p[0], os.path.join(COQ, p[1]), p[2]]
    return fl + ["-w", "-notation-overridden,-deprecated-hint-without-locality,-deprecated"]

def gen_coqproject():
    lines = ["-Q theories ZV", "-Q gen ZV.gen", "-Q Props ZV.Props",
             "-arg -w -arg -notation-overridden,-deprecated-hint-without-locality,-deprecated"]
    for d in ("gen", "theories", "Props"):
        for f in sorted(glob.glob(os.path.join(COQ, d, "*.v"))):
            lines.append("%s/%s" % (d, os.path.basename(f)))
    if write_if_changed(os.path.join(COQ, "_CoqProject"), "\n".join(lines) + "\n"):
        try:
            os.remove(os.path.join(COQ, "Makefile"))
        except OSError:
            pass

def make_targets(targets, log, clean=False):
    """Full .vo build of the given targets (and their dependencies). Returns (ok, output)."""
    with Lock("coq"):
        gen_coqproject()
        if not os.path.exists(os.path.join(COQ, "Makefile")) or \
           os.path.getmtime(os.path.join(COQ, "Makefile")) < os.path.getmtime(os.path.join(COQ, "_CoqProject")):
            sh("coq_makefile -f _CoqProject -o Makefile", cwd=COQ)
        if clean:
            sh("make clean", cwd=COQ, timeout=300)
        rc, out = sh(["timeout", "3000", "make", "-j16", "-k"] + targets, cwd=COQ, timeout=3100)
        log.append("make %s rc=%d\n%s" % (" ".join(targets), rc, out[-6000:]))
        return rc == 0, out

def failing_items(make_out):
    """[(file, line, enclosing lemma)] for every error in a make log."""
    res = []
    for m in re.finditer(r'File "\./([^"]+)", line (\d+), characters[^\n]*\nError', make_out):
        f, ln = m.group(1), int(m.group(2))
        name = "?"
        try:
            lines = open(os.path.join(COQ, f)).read().split("\n")[:ln]
            for l in reversed(lines):
                mm = re.match(r"\s*(Theorem|Lemma|Corollary|Example|Definition|Fixpoint)\s+([A-Za-z0-9_']+)", l)
                if mm:
                    name = mm.group(2); break
        except OSError:
            pass
        res.append((f, ln, name))
    return res

def gate_grep():
    """No Admitted/admit/Axiom/... anywhere in the development."""
    bad = []
    pat = re.compile(r"\b(Admitted|admit|Axiom|Axioms|Parameter|Parameters|Conjecture|Abort All|Unset Guard Checking|"
                     r"bypass_check|Admit Obligations|Unset Positivity Checking|Unset Universe Checking|type-in-type)\b")
    for f in glob.glob(os.path.join(COQ, "**", "*.v"), recursive=True):
        txt = re.sub(r"\(\*.*?\*\)", "", open(f).read(), flags=re.S)
        for i, l in enumerate(txt.split("\n")):
            if pat.search(l):
                bad.append("%s:%d: %s" % (os.path.relpath(f, COQ), i + 1, l.strip()))
    gen_coqproject()
    for line in open(os.path.join(COQ, "_CoqProject")):
        if "type-in-type" in line or "impredicative-set" in line:
            bad.append("_CoqProject: " + line.strip())
    return bad

def theorems_of(props_file):
    txt = open(os.path.join(COQ, props_file)).read()
    txt = re.sub(r"\(\*.*?\*\)", "", txt, flags=re.S)
    return re.findall(r"^\s*Theorem\s+([A-Za-z0-9_']+)", txt, flags=re.M)

def print_assumptions(pid, props_file, thms, workdir):
    mod = "ZV.Props." + os.path.basename(props_file)[:-2]
    src = "Require Import %s.\n" % mod
    for t in thms:
        src += 'Print Assumptions %s.\n' % t
    f = os.path.join(workdir, "PA_%s.v" % pid)
    open(f, "w").write(src)
    rc, out = sh(["coqc"] + coq_flags() + [f], cwd=workdir, timeout=600)
    blocks = []
    # output: one block per Print Assumptions, either "Closed under the global context" or "Axioms:\n..."
    cur = None
    for line in out.split("\n"):
        if line.startswith("Closed under the global context"):
            blocks.append([]); cur = None
        elif line.startswith("Axioms:"):
            cur = []; blocks.append(cur)
        elif cur is not None and line.strip():
            if re.match(r"^\S", line):
                cur.append(line.split(":")[0].strip())
    return rc, out, blocks

def eval_cases(pid, cases_by_fn, tie, workdir, log, shard=400):
    """Evaluate the model inside Coq (vm_compute) on the harness cases; returns {fn: [bad indices]} , errors"""
    jobs = []
    for fn, cases in cases_by_fn.items():
        if fn not in tie["fns"]:
            return None, ["harness emitted cases for unknown model function %s" % fn]
        run, eqb, ty = tie["fns"][fn]
        # shards are cut by count and by source size (Coq parses large literals slowly)
        rendered = ["(%s, %s)" % (to_coq(c["in"]), to_coq(c["out"])) for c in cases]
        s0 = 0
        while s0 < len(rendered):
            e0, size = s0, 0
            while e0 < len(rendered) and e0 - s0 < shard and (size < 250000 or e0 == s0):
                size += len(rendered[e0]); e0 += 1
            name = "cases_%s_%s_%d" % (pid, fn, s0)
            src = "From ZV Require Import Prelude %s.\nOpen Scope Z_scope.\n" % " ".join(tie["modules"])
            src += "Definition cs : list (%s) := [\n" % ty
            src += ";\n".join(rendered[s0:e0])
            src += "\n].\nDefinition bad := Eval vm_compute in mismatches %s %s cs.\nPrint bad.\n" % (run, eqb)
            path = os.path.join(workdir, name + ".v")
            open(path, "w").write(src)
            jobs.append((fn, s0, path))
            s0 = e0
    bad = {fn: [] for fn in cases_by_fn}
    errors = []
    def one(j):
        fn, s, path = j
        rc, out = sh(["timeout", "900", "coqc"] + coq_flags() + [path], cwd=workdir, timeout=1000)
        return fn, s, rc, out
    with ThreadPoolExecutor(max_workers=14) as ex:
        for fn, s, rc, out in ex.map(one, jobs):
            m = re.search(r"bad\s*=\s*(\[.*?\])\s*:\s*list Z", out, flags=re.S)
            if rc != 0 or not m:
                errors.append("coqc failed on %s shard %d: %s" % (fn, s, out[-1500:]))
                continue
            body = m.group(1).strip()[1:-1].strip()
            if body:
                for x in body.split(";"):
                    bad[fn].append(s + int(x.strip().replace("%Z", "").strip("()")))
    return bad, errors

# ------------------------------------------------------------------ findings / evidence
def load_known():
    """known_findings.json is the committed union of known_findings.d/*.json (rebuilt by lib/mkmanifest.py)."""
    res = {"findings": [], "fixed": []}
    for p in sorted(glob.glob(os.path.join(VERIF, "known_findings.d", "*.json"))):
        d = json.load(open(p))
        res["findings"] += d.get("findings", [])
        res["fixed"] += d.get("fixed", [])
    return res

def write_evidence(pid, ev):
    # VERIF_EVIDENCE_DIR: used by the coordinator's mutation runs (lib/seedtest.sh) so that a run against a
    # deliberately broken /repo does not overwrite the committed evidence of the unchanged tree
    evdir = os.environ.get("VERIF_EVIDENCE_DIR") or os.path.join(VERIF, "evidence")
    os.makedirs(evdir, exist_ok=True)
    p = os.path.join(evdir, pid + ".json")
    json.dump(ev, open(p, "w"), indent=1, sort_keys=True)

def write_replay(pid, seed, payload):
    os.makedirs(os.path.join(VERIF, "replays"), exist_ok=True)
    p = os.path.join(VERIF, "replays", "%s_seed%d.json" % (pid, seed))
    json.dump(payload, open(p, "w"), indent=1, sort_keys=True)
    return p

def case_key(c):
    return hashlib.sha1(json.dumps([c["fn"], c["in"]], sort_keys=True).encode()).hexdigest()

# ------------------------------------------------------------------ main flow
def run_check(pid, cfg, tier, seed, replay=None):
    t0 = time.time()
    log = []
    workdir = os.path.join(BUILD, "work_" + pid)
    shutil.rmtree(workdir, ignore_errors=True)
    os.makedirs(workdir)
    violations = []       # (description, replay payload, found_input: bool)
    known_hit = []
    notes = []

    race_bins = sorted(set(su["bin"] for su in cfg["suites"] if su.get("race"))) if tier == "thorough" else []
    ok, out = build_go(log, sorted(set(su["bin"] for su in cfg["suites"])), race_bins)
    if not ok:
        # /repo or harness does not compile: nothing can be said; report as infrastructure error
        print("ERROR: go build failed\n" + out[-3000:])
        return 2
    # ---- tie: run the implementation, evaluate the model on the same inputs
    cases, oracle_fails, dist = [], [], {}
    corpus = sorted(glob.glob(os.path.join(VERIF, "corpus", pid, "*.jsonl")))
    harness_errors = []
    for si, suite in enumerate(cfg["suites"]):
        n = suite["n"][tier]
        outp = os.path.join(workdir, "%s_%d.jsonl" % (suite["name"], si))
        binname = suite["bin"]
        suite_env = GOENV
        if suite.get("race") and tier == "thorough" and os.path.exists(os.path.join(BUILD, "bin", binname + "_race")):
            binname += "_race"
            suite_env = dict(GOENV, GORACE="halt_on_error=1 exitcode=66")
        if replay:
            cmd = [os.path.join(BUILD, "bin", binname), suite["name"], "-seed", str(replay["seed"] + si), "-n", str(n), "-out", outp]
        else:
            cmd = [os.path.join(BUILD, "bin", binname), suite["name"], "-seed", str(seed + si), "-n", str(n), "-out", outp]
        cmd += suite.get("args", [])
        try:
            rc, out = sh(cmd, cwd=workdir, timeout=suite.get("timeout", 3000), env=suite_env)
        except subprocess.TimeoutExpired:
            rc, out = 124, "timeout"
        log.append("harness %s rc=%d %s" % (suite["name"], rc, out[-3000:]))
        if rc != 0:
            harness_errors.append("harness suite %s exited %d: %s" % (suite["name"], rc, out[-1500:]))
            continue
        for path in [outp]:
            for line in open(path):
                o = json.loads(line)
                if o["k"] == "case":
                    cases.append(o)
                elif o["k"] == "oracle":
                    oracle_fails.append(o)
                elif o["k"] == "dist":
                    for k, v in o["dist"].items():
                        dist[k] = dist.get(k, 0) + v
    for path in corpus:
        for line in open(path):
            o = json.loads(line)
            if o["k"] == "case":
                o["tag"] = "corpus"
                cases.append(o)

    # ---- regen + prove + evaluate the model, as one critical section (several checks may run at once and
    # share coq/gen and the .vo files)
    with Lock("coqrun"):
        regen_problems = regen(log)

        # ---- prove
        grep_bad = gate_grep()
        targets = [cfg["props"] + "o"] + ["theories/%s.vo" % m for m in cfg["tie"]["modules"]]
        mk_ok, mk_out = make_targets(targets, log, clean=(tier == "thorough" and os.environ.get("VERIF_NOCLEAN") != "1"))
        broken = failing_items(mk_out) if not mk_ok else []
        for p in regen_problems:
            broken.append(("gen", 0, p))
        thms = theorems_of(cfg["props"])
        obligations = len(thms)
        discharged = 0
        axioms_used = set()
        pa_out = ""
        props_vo_ok = os.path.exists(os.path.join(COQ, cfg["props"] + "o")) and mk_ok
        if props_vo_ok and not grep_bad:
            rc, pa_out, blocks = print_assumptions(pid, cfg["props"], thms, workdir)
            if rc == 0 and len(blocks) == len(thms):
                for t, b in zip(thms, blocks):
                    bset = set(b)
                    if bset <= set(cfg.get("allowed_axioms", [])):
                        discharged += 1
                        axioms_used |= bset
                    else:
                        broken.append((cfg["props"], 0, "%s depends on undeclared axioms %s" % (t, sorted(bset))))
            else:
                broken.append((cfg["props"], 0, "Print Assumptions failed: " + pa_out[-800:]))
        for g in grep_bad:
            broken.append(("grep-gate", 0, g))
        coqchk_out = None
        if tier == "thorough" and props_vo_ok and os.environ.get("VERIF_NOCOQCHK") != "1":
            mod = "ZV.Props." + os.path.basename(cfg["props"])[:-2]
            with Lock("coq"):
                rc, coqchk_out = sh(["timeout", "2400", "coqchk", "-silent", "-o"] + coq_flags()[:-2] + [mod], cwd=COQ, timeout=2500)
            if rc != 0:
                broken.append((cfg["props"], 0, "coqchk failed: " + coqchk_out[-800:]))

        tie_model_ok = all(os.path.exists(os.path.join(COQ, "theories/%s.vo" % m)) for m in cfg["tie"]["modules"])
        by_fn = {}
        for c in cases:
            by_fn.setdefault(c["fn"], []).append(c)
        mismatches = []
        tie_errors = []
        if tie_model_ok and cases:
            bad, tie_errors = eval_cases(pid, by_fn, cfg["tie"], workdir, log)
            if bad is not None:
                for fn, idxs in bad.items():
                    for i in idxs:
                        mismatches.append(by_fn[fn][i])
        elif not tie_model_ok:
            tie_errors.append("model modules did not build: " + ", ".join(cfg["tie"]["modules"]))

    # ---- verdict
    known = load_known()
    kf = [k for k in known.get("findings", []) if k["property"] == pid]
    def is_known(key):
        for k in kf:
            if k["key"] == key:
                return k
        return None
    unknown_oracle = []
    for o in oracle_fails:
        k = is_known(o["key"])
        if k:
            if k not in known_hit:
                known_hit.append(k)
        else:
            unknown_oracle.append(o)
    # known findings witnessed through the model (refuted lemma + replay) are printed even if the sampled
    # run did not hit them, as long as the harness' dedicated reproducer ran (key counted in dist)
    for k in kf:
        if k not in known_hit and dist.get("oracle:" + k["key"], 0) > 0 and k.get("always_report"):
            known_hit.append(k)

    rc_final = 0
    replay_path = None
    if unknown_oracle:
        replay_path = write_replay(pid, seed, {"property": pid, "kind": "failing-input", "seed": seed, "tier": tier,
                                              "oracle_failures": unknown_oracle[:20],
                                              "broken_obligations": [list(b) for b in broken],
                                              "model_mismatches": mismatches[:20]})
        print("reason: %d oracle failures, first: %s" % (len(unknown_oracle), json.dumps(unknown_oracle[0])[:600]))
        print("VIOLATION property=%s replay=%s" % (pid, replay_path))
        rc_final = 1
    elif broken or mismatches or tie_errors or harness_errors:
        replay_path = write_replay(pid, seed, {"property": pid, "kind": "no-failing-input-found", "seed": seed, "tier": tier,
                                              "broken_obligations": [list(b) for b in broken],
                                              "correspondence_mismatches": mismatches[:20],
                                              "tie_errors": tie_errors[:5], "harness_errors": harness_errors[:5],
                                              "note": "a theorem or the model/implementation correspondence no longer checks; "
                                                      "the property oracle found no failing input on the implementation"})
        for b in broken[:6]:
            print("reason: obligation/gate broken: %s" % (list(b),))
        for e in (tie_errors + harness_errors)[:4]:
            print("reason: %s" % e[-1200:].replace("\n", " | "))
        if mismatches:
            print("reason: %d correspondence mismatches, first: %s" % (len(mismatches), json.dumps(mismatches[0])[:600]))
        print("VIOLATION property=%s replay=%s no-failing-input-found" % (pid, replay_path))
        rc_final = 1
    for k in known_hit:
        print("KNOWN-FINDING: property=%s %s" % (pid, k["what"]))

    distinct = {}
    for c in cases:
        if c.get("tag") != "trivial":
            distinct[case_key(c)] = 1
    samples = []
    seen_tags = set()
    for c in cases:
        if c["tag"] not in seen_tags and len(samples) < 6:
            seen_tags.add(c["tag"])
            samples.append({"fn": c["fn"], "in": c["in"], "impl_out": c["out"], "tag": c["tag"]})
    for t in thms[:4]:
        samples.append({"obligation": t})
    ev = {
        "property_id": pid, "tier": tier, "seed": seed, "level": "proof",
        "coverage": {
            "obligations": obligations, "discharged": discharged,
            "theorems": thms,
            "checker_cmd": "cd /verif/coq && make -j16 %s  (coqc 8.16.1, full .vo build) ; Print Assumptions on every theorem of %s%s"
                           % (cfg["props"] + "o", cfg["props"], " ; coqchk -silent -o" if coqchk_out is not None else ""),
            "trusted_base": cfg["trusted_base"] + ["axioms reported by Print Assumptions: %s" % (sorted(axioms_used) or "none (closed under the global context)")],
            "traces_validated_against_impl": len(cases),
            "evaluations": len(cases) + sum(v for k, v in dist.items() if k.startswith("oracle:")),
            "distinct_nontrivial": len(distinct),
            "rule": cfg["rule"],
            "samples": samples,
            "explanation": cfg["explanation"],
            "input_distribution": dist,
            "model_mismatches": len(mismatches),
            "oracle_failures": len(oracle_fails),
            "known_findings_hit": [k["key"] for k in known_hit],
            "broken_obligations": [list(b) for b in broken],
            "coqchk": (coqchk_out[-1500:] if coqchk_out else None),
        },
        "assumptions": cfg["assumptions"],
        "wall_s": round(time.time() - t0, 1),
        "violations": 1 if rc_final else 0,
    }
    write_evidence(pid, ev)
    open(os.path.join(workdir, "log.txt"), "w").write("\n\n".join(log))
    print("%s tier=%s seed=%d obligations=%d discharged=%d cases=%d mismatches=%d oracle_fail=%d wall=%.0fs -> %s"
          % (pid, tier, seed, obligations, discharged, len(cases), len(mismatches), len(oracle_fails),
             time.time() - t0, "VIOLATION" if rc_final else "ok"))
    return rc_final
