#!/bin/bash
# Runs the pinned baseline test command (guard OFF) on a scratch worktree of /repo's HEAD and compares the set of
# passing tests with /root/.vp/BASELINE.json (stable_pass). Usage: lib/baseline_check.sh [logfile]
set -u
export GOFLAGS=-mod=mod GOPROXY=off GOSUMDB=off GOTOOLCHAIN=local
WT=$(mktemp -d /tmp/baseline_wt.XXXX)
LOG=${1:-/tmp/baseline_check.json}
git -C /repo worktree add -q --detach "$WT" HEAD || exit 2
(cd "$WT" && go test -json -vet=off -count=1 -timeout 25m ./... > "$LOG" 2>/dev/null)
git -C /repo worktree remove --force "$WT"
python3 - "$LOG" <<'PY'
import json,sys
passed=set(); failed=set()
for l in open(sys.argv[1]):
    try: o=json.loads(l)
    except Exception: continue
    if o.get("Test") and o.get("Action") in ("pass","fail"):
        (passed if o["Action"]=="pass" else failed).add(o["Package"]+"::"+o["Test"])
base=set(json.load(open("/root/.vp/BASELINE.json"))["stable_pass"])
top=lambda s:{x for x in s if "/" not in x.split("::")[1]}
missing=sorted(base-passed)
print("baseline stable_pass=%d passed_now=%d missing=%d failed_now=%d"%(len(base),len(top(passed)),len(missing),len(top(failed))))
for m in missing[:20]: print("  MISSING",m)
for f in sorted(top(failed))[:20]: print("  FAILED",f)
sys.exit(1 if missing else 0)
PY
