#!/usr/bin/env python3
"""lib/seedbatch.py <spec>... ; spec = <seed_dir>:<C1,C2,...>  — confirm (scratch worktree) + isolated mutation run, 4 in parallel.
Reads demo_dest / demo_run from meta.json. Logs to /tmp/seedlogs/<name>.log and prints them at the end."""
import json, os, subprocess, sys, glob
from concurrent.futures import ThreadPoolExecutor
V = os.path.dirname(os.path.dirname(os.path.abspath(__file__)))
os.makedirs("/tmp/seedlogs", exist_ok=True)
def one(spec):
    d, props = spec.split(":")
    d = os.path.abspath(d)
    m = json.load(open(d + "/meta.json"))
    name = os.path.basename(os.path.dirname(d)) + "_" + os.path.basename(d) if os.path.basename(d) in ("1", "2") else os.path.basename(d)
    dest, run = m.get("demo_dest"), m.get("demo_run")
    demo = [f for f in os.listdir(d) if f.endswith("_test.go")]
    log = open("/tmp/seedlogs/%s.log" % name, "w")
    if dest and run and demo:
        src = os.path.basename(dest) if os.path.basename(dest) in demo else demo[0]
        p = subprocess.run([V + "/lib/seedtest.sh", "confirm", d, src, dest] + run.split(), stdout=subprocess.PIPE, stderr=subprocess.STDOUT, text=True)
        log.write("\n".join([l[:260] for l in p.stdout.split("\n") if "conda" not in l][-8:]) + "\n")
    else:
        log.write("NO demo_dest/demo_run in meta.json: %s\n" % m.get("demo"))
    p = subprocess.run([V + "/lib/mutrun.sh", d] + props.split(","), stdout=subprocess.PIPE, stderr=subprocess.STDOUT, text=True)
    log.write("\n".join(l for l in p.stdout.split("\n") if "conda" not in l))
    log.close()
    return name
with ThreadPoolExecutor(max_workers=4) as ex:
    for n in ex.map(one, sys.argv[1:]):
        print("=== " + n); print(open("/tmp/seedlogs/%s.log" % n).read())
