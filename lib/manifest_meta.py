HOOK_COMMITS = ['37a3ad8', 'b66df64', '1b1e7c2', '6ed1727', '02fa441', '6be89cd', '624490c', '10769b6', '13c0987', '363fa85', 'd38f240', '5bd7f8e', '662ea97']
NOT_YET = {}
