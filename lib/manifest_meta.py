HOOK_COMMITS = ["662ea97"]
NOT_YET = {}
META = {}
META["C12"] = dict(
    text="Machine-checked Coq theorems over all difficulties in [1,2^64), all digests, all fused amounts and all candidate sequences (induction), about a Gallina model of pow.go / vm/plasma.go / enoughPlasma whose constants are re-dumped from /repo and whose outputs are compared with the real code on every run. A theorem covers the whole input space, which sampling difficulties cannot (the int64-cast defect at d >= 2^63 was found this way).",
    design_ref="DESIGN.md section 5, C12",
    note="Trusted: Coq kernel; constdump; the harness; SHA3 digest and base-plasma lookup are inputs of the model (observed from the real code). All theorems closed under the global context (no axioms).",
    technique="Coq proof (lia/nia over Z with explicit uint64 wrap, induction over candidate lists) + differential correspondence check",
)
