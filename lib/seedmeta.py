#!/usr/bin/env python3
"""lib/seedmeta.py <seeded/dir> <first_run> <now_caught_by (comma list or NONE)> <check_result text>  — record the coordinator's confirmation"""
import json, sys
d, first, caught, text = sys.argv[1:5]
p = d + "/meta.json"
m = json.load(open(p))
m["confirmed_by_coordinator"] = {
    "ran": ["lib/seedtest.sh confirm: demo without patch PASS; git apply + go build ok; demo with patch FAIL",
            "existing test suite with patch: run by the seeding agent (pass, apart from the wall-clock benchmark TestSimple_MomentumInsertionBenchmark under machine load, which also fails unpatched)",
            "lib/mutrun.sh <dir> <checks>: quick checks against an isolated copy of /repo with the patch applied"],
    "first_run": first, "check_result": text, "caught_by": [] if caught == "NONE" else caught.split(","),
}
json.dump(m, open(p, "w"), indent=1)
