// mutgen: lists small syntactic mutants of Go source files (coordinator tool for lib/mutsweep.py; not part of any
// registered check). Output: one JSON object per line {file, func, line, kind, off, len, repl, orig}.
// A mutant = replace bytes [off, off+len) of the file by repl.
package main

import (
	"encoding/json"
	"flag"
	"fmt"
	"go/ast"
	"go/parser"
	"go/token"
	"os"
	"regexp"
	"strings"
)

type Mut struct {
	File string `json:"file"`
	Func string `json:"func"`
	Line int    `json:"line"`
	Kind string `json:"kind"`
	Off  int    `json:"off"`
	Len  int    `json:"len"`
	Repl string `json:"repl"`
	Orig string `json:"orig"`
}

var swap = map[token.Token][]string{
	token.LSS: {"<="}, token.LEQ: {"<"}, token.GTR: {">="}, token.GEQ: {">"},
	token.EQL: {"!="}, token.NEQ: {"=="}, token.LAND: {"||"}, token.LOR: {"&&"},
	token.ADD: {"-"}, token.SUB: {"+"},
}

func main() {
	root := flag.String("root", "/repo", "repository root")
	fre := flag.String("funcs", "", "regexp on function names (Recv.Name)")
	flag.Parse()
	var re *regexp.Regexp
	if *fre != "" {
		re = regexp.MustCompile(*fre)
	}
	enc := json.NewEncoder(os.Stdout)
	for _, rel := range flag.Args() {
		path := *root + "/" + rel
		src, err := os.ReadFile(path)
		if err != nil {
			fmt.Fprintln(os.Stderr, err)
			continue
		}
		fset := token.NewFileSet()
		f, err := parser.ParseFile(fset, path, src, 0)
		if err != nil {
			fmt.Fprintln(os.Stderr, err)
			continue
		}
		for _, d := range f.Decls {
			fd, ok := d.(*ast.FuncDecl)
			if !ok || fd.Body == nil {
				continue
			}
			name := fd.Name.Name
			if fd.Recv != nil && len(fd.Recv.List) == 1 {
				t := fd.Recv.List[0].Type
				if s, ok := t.(*ast.StarExpr); ok {
					t = s.X
				}
				if id, ok := t.(*ast.Ident); ok {
					name = id.Name + "." + name
				}
			}
			if re != nil && !re.MatchString(name) {
				continue
			}
			emit := func(pos token.Pos, n int, repl, kind string) {
				o := fset.Position(pos).Offset
				ls := o
				for ls > 0 && src[ls-1] != '\n' {
					ls--
				}
				le := o
				for le < len(src) && src[le] != '\n' {
					le++
				}
				enc.Encode(Mut{rel, name, fset.Position(pos).Line, kind, o, n, repl, strings.TrimSpace(string(src[ls:le]))})
			}
			ast.Inspect(fd.Body, func(n ast.Node) bool {
				switch x := n.(type) {
				case *ast.BinaryExpr:
					for _, r := range swap[x.Op] {
						if x.Op == token.ADD {
							// skip string concatenation
							if bl, ok := x.X.(*ast.BasicLit); ok && bl.Kind == token.STRING {
								continue
							}
							if bl, ok := x.Y.(*ast.BasicLit); ok && bl.Kind == token.STRING {
								continue
							}
						}
						emit(x.OpPos, len(x.Op.String()), r, "op:"+x.Op.String()+"->"+r)
					}
				case *ast.IfStmt:
					// guard never taken / always taken
					c0 := fset.Position(x.Cond.Pos()).Offset
					c1 := fset.Position(x.Cond.End()).Offset
					cond := string(src[c0:c1])
					emit(x.Cond.Pos(), c1-c0, "false && ("+cond+")", "if:never")
					if x.Else == nil {
						emit(x.Cond.Pos(), c1-c0, "true || ("+cond+")", "if:always")
					}
				case *ast.BasicLit:
					if x.Kind == token.INT && (x.Value == "1" || x.Value == "0") {
						r := "0"
						if x.Value == "0" {
							r = "1"
						}
						emit(x.Pos(), 1, r, "lit:"+x.Value+"->"+r)
					}
				case *ast.ExprStmt:
					// drop a call statement (e.g. a Delete / Set / common.DealWithErr(...))
					if _, ok := x.X.(*ast.CallExpr); ok {
						s0 := fset.Position(x.Pos()).Offset
						s1 := fset.Position(x.End()).Offset
						if !strings.Contains(string(src[s0:s1]), "\n") && !strings.Contains(string(src[s0:s1]), "Unlock") && !strings.Contains(string(src[s0:s1]), "Lock()") {
							emit(x.Pos(), s1-s0, "_ = 0", "drop-call")
						}
					}
				}
				return true
			})
		}
	}
}
