"""Neutral JSON terms (see harness/term.go) -> Coq concrete syntax."""

def to_coq(t):
    if isinstance(t, bool):
        return "true" if t else "false"
    if isinstance(t, int):
        return "(%d)" % t if t < 0 else "%d" % t
    if isinstance(t, list):
        return "[" + "; ".join(to_coq(x) for x in t) + "]"
    if isinstance(t, dict):
        if "t" in t:
            return "(" + ", ".join(to_coq(x) for x in t["t"]) + ")"
        if "c" in t:
            if not t.get("a"):
                return t["c"]
            return "(" + t["c"] + " " + " ".join(to_coq(x) for x in t["a"]) + ")"
        if "b" in t:
            h = t["b"]
            return "[" + "; ".join(str(int(h[i:i + 2], 16)) for i in range(0, len(h), 2)) + "]"
        if "o" in t:
            return "None" if t["o"] is None else "(Some " + to_coq(t["o"]) + ")"
    if isinstance(t, str):
        # strings are sent as byte lists
        return "[" + "; ".join(str(b) for b in t.encode()) + "]"
    raise ValueError("bad term %r" % (t,))
