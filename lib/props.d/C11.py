import os, sys
sys.path.insert(0, os.path.dirname(os.path.dirname(os.path.abspath(__file__))))
from purefns import pure_fns

_EPOCH = "Z * Z * list (Z * Z * Z * Z)"
PROP = dict(
    props="Props/C11.v",
    tie={"modules": ["TieC11", "TiePure", "Points", "TiePoints"],
         "fns": dict({
             "w_stake": ("w_stake_run", "Z.eqb", "(Z * Z * Z * Z * Z) * Z"),
             "w_liqstake": ("w_liqstake_run", "Z.eqb", "(Z * Z * Z * Z * Z) * Z"),
             "w_sentinel": ("w_sentinel_run", "Z.eqb", "(Z * Z * Z * Z) * Z"),
             "w_stake_amount": ("w_stake_amount_run", "Z.eqb", "(Z * Z) * Z"),
             "w_liq_amount": ("w_liq_amount_run", "Z.eqb", "(Z * Z) * Z"),
             "pillar_one": ("pillar_one_run", "zzz_eqb", "pillar_one_in * (Z * Z * Z)"),
             "pillar_epoch": ("pillar_epoch_run", "status_credits_eqb", "pillar_epoch_in * (Z * list (Z * Z))"),
             "stake_epoch": ("stake_epoch_run", "stake_epoch_eqb", "stake_epoch_in * (Z * list (Z * Z) * Z)"),
             "sentinel_epoch": ("sentinel_epoch_run", "sentinel_epoch_eqb", "sentinel_epoch_in * (Z * list (Z * Z) * list (Z * Z))"),
             "liq_stake_epoch": ("liq_stake_run", "liq_stake_eqb", "liq_stake_in * liq_stake_out"),
             "cursor": ("cursor_run", "cursor_eqb", "(Z * Z * Z * Z * Z) * (list Z * Z)"),
             "points": ("points_run", "points_eqb", "(Z * Z * Z * list (Z * Z * elect) * mom * list top) * (list pres)"),
             "liq_update": ("liq_update_run", "liq_update_eqb", "(Z * Z * Z * Z) * (Z * list (Z * (Z * Z)) * Z)"),
             "collect": ("collect_run", "collect_eqb", "(Z * Z) * (Z * list (Z * Z) * (Z * Z))"),
             "rops": ("rops_run", "rops_eqb", "(Z * list (Z * Z * Z * Z)) * (list (Z * Z) * list (Z * Z))"),
         }, **pure_fns("NetworkZnnRewardPerEpoch", "NetworkQsrRewardPerEpoch", "PillarRewardPerMomentum",
                       "SentinelRewardForEpoch", "LiquidityRewardForEpoch", "StakeQsrRewardPerEpoch"))},
    suites=[{"bin": "c11", "name": "formulas", "n": {"quick": 250, "thorough": 4000}},
            {"bin": "c11", "name": "node", "n": {"quick": 8, "thorough": 60}, "timeout": 900},
            {"bin": "pure", "name": "pure", "n": {"quick": 300, "thorough": 5000}, "args": ["rewards"]}],
    rule="formulas: the real reward routines of /repo (computePillarRewardForEpoch, computeDetailedPillarReward, computeStake/SentinelRewardsForEpoch, "
         "update*Rewards loops, addReward, CollectReward.ReceiveBlock) run on real contract storage with generated epoch statistics (0-6 pillars, "
         "produced </=/> expected, total weight =/</>/0, give-percentages 0..100, shared reward addresses, 0-4 backers with zero and large amounts, "
         "missing pillar infos, details without reward), stake/sentinel entries starting/ending around the epoch borders and the 90 % uptime threshold, "
         "cursor states with 0..45 epochs due and `now` at the due second -1/0/+1; "
         "node: real node, epoch duration from {5,10,15,30,60} min, random pillar registrations/revocations, delegations, give-percentage updates, stakes, "
         "sentinels, skipped momentum slots, Update and CollectReward at random times, and a follower node fed by InsertChain; "
         "batches: Update calls of every reward contract (pillar, stake, sentinel, liquidity before and after the spork) that issue 1,2,3,7,10+ epochs at once with the batch "
         "placed -2..+2 epochs around every first epoch of a reward tick (30, 60, ..., one tick beyond the longer emission table), synthetic storage and, for one boundary per run, a real node "
         "after a network stall; twin nodes: producer and a follower in lock-step on chains with gaps (whole empty periods at the end / beginning / middle of an epoch, empty epochs), one of "
         "the two asked for the statistics of the previous, running and next epoch and period at every momentum, the other never asked; a node asked at every momentum replayed on the points model; "
         "a case is distinct by (function, input)",
    explanation="Theorems: the translated emission functions never panic and the per-contract shares of an epoch add up to at most its emission; "
                "for well-formed epoch statistics everything credited to pillars and backers for an epoch is at most (delegation+producing reward per momentum) x expected momentums "
                "(74 % of the epoch's ZNN emission for a 24 h epoch); stake / sentinel credits are at most their share; any pro-rata split hands out at most the total; "
                "an Update rewards exactly the epochs LastEpoch+1..LastEpoch+k in order, each ended >= RewardTimeLimit ago, and over any history of updates no epoch is rewarded twice; "
                "every epoch issued by a liquidity Update - several per call, possibly on both sides of a reward tick - is minted the emission of its own epoch (C11_liquidity_issues_the_emission_of_its_epoch); "
                "CollectReward mints exactly the deposit, deletes it, a second collect fails; minted + deposited = credited over any history. "
                "Statistics: nodes that reached the same chain by any histories of insertions, rollbacks, restarts and queries answer alike for every finished epoch (C11_statistics_identical_on_all_nodes); "
                "a question about a running epoch stores nothing (C11_running_epoch_query_stores_nothing) and the IsFinished guard in front of the store is needed: without it a point computed in front of "
                "empty periods is served after the epoch has finished (C11_epoch_store_guard_is_load_bearing, witness history). "
                "Modelled: computePillarRewardForEpoch, computeDetailedPillarReward, computeStakeRewardsForEpoch, computeSentinelRewardsForEpoch, the update loops, "
                "CanPerformEpochUpdate/checkAndPerformUpdateEpoch, addReward, CollectRewardMethod.ReceiveBlock; emission tables, percentages and weight functions are translated from source. "
                "Fixed defect (a732e8e): updateLiquidityRewards skipped an epoch when more than MaxEpochsPerUpdate/2 were due; the fixed loop is modelled (C11_liquidity_cursor), the old one kept as C11_liquidity_cursor_refuted.",
    assumptions=["epoch statistics are well-formed (produced <= expected per pillar, weights sum to at most the total weight, one entry per name): "
                 "a hypothesis of C11_pillar_bounded, checked on every statistics object the real consensus module produced during the run",
                 "times are below 2^62 seconds and the epoch ticker's nanosecond arithmetic does not overflow (cursor_ok)",
                 "GetPillarsList returns one PillarInfo per name (the name is the storage key)",
                 "the consensus statistics themselves (consensus/points.go) are an input of the model: observed from the real node, not re-derived from the chain"],
)
META = dict(
    text="Machine-checked Coq theorems over all epochs in uint64, all epoch statistics, pillar/backer/stake/sentinel sets, all update times and all histories of credits and collects, "
         "about go2coq translations of the emission functions and a Gallina model of the reward routines, compared with the real routines on every run. "
         "Sampling scenarios cannot bound the sum over all participants for all epochs, nor show that no update timing rewards an epoch twice.",
    design_ref="DESIGN.md section 5, C11",
    note="Trusted: Coq kernel; go2coq/constdump; the harness. Epoch statistics (consensus/points.go) enter as observed inputs with a well-formedness hypothesis that the harness checks on the real node; "
         "node-to-node agreement of the epoch statistics is C11_statistics_identical_on_all_nodes over the model of consensus/points.go (Points.v, tied to the real node by C06's suite points; hypotheses: hash collision freedom, election as a function of the chain); agreement of the credited amounts themselves is additionally checked by a follower node fed through ChainBridge.InsertChain (oracle), in one scenario in lock-step with one of the two nodes asked for the running epoch's statistics at every momentum (whole contract storage compared after every Update; statistics of every finished epoch compared with a consensus module with an empty DB). computeLiquidityStakeRewardsForEpoch is modelled (C11_liquidity_stake_exact); that it never returns ErrInvalidRewards for percentages <= 100 % is not proved. "
         "Fixed in /repo a732e8e: updateLiquidityRewards advanced the cursor past an unrewarded epoch when more than 10 epochs were due.",
    technique="Coq proof (induction over lists/histories, lia/nia with explicit int64/uint64 wrap) over translated source + differential correspondence check on real contract code",
)
