PROP = dict(
    props="Props/C13.v",
    tie={"modules": ["GoSem", "Abi", "Block", "CodecPb", "Dec", "BlockAccept", "AbiCanon", "TieC13"],
         "fns": {
             "ab_preimage": ("ab_preimage_run", "bytes_eqb", "(ABody * bytes * bytes) * bytes"),
             "mom_preimage": ("mom_preimage_run", "bytes_eqb", "(Mom * bytes * bytes) * bytes"),
             "content_bytes": ("content_bytes_run", "bytes_eqb", "(list AHeader) * bytes"),
             "ab_ser": ("ab_ser_run", "ser_eqb", "AB * (bytes * bool)"),
             "ab_de": ("ab_de_run", "(dres_eqb ab_eqb)", "bytes * dres AB"),
             "mom_ser": ("mom_ser_run", "ser_eqb", "Mom * (bytes * bool)"),
             "mom_de": ("mom_de_run", "(dres_eqb mom_eqb)", "bytes * dres Mom"),
             "content_sort": ("content_sort_run", "(list_eqb aheader_eqb)", "(list AHeader) * (list AHeader)"),
             "print_dec": ("print_dec_run", "bytes_eqb", "Z * bytes"),
             "parse_dec": ("parse_dec_run", "Z.eqb", "bytes * Z"),
             "hex_enc": ("hex_enc_run", "bytes_eqb", "bytes * bytes"),
             "parse_hash": ("parse_hash_run", "obytes_eqb", "bytes * option bytes"),
             "parse_nonce": ("parse_nonce_run", "obytes_eqb", "bytes * option bytes"),
             "big32": ("big32_run", "bytes_eqb", "Z * bytes"),
             "accept_user": ("accept_user_run", "accept_out_eqb", "accept_in * accept_out"),
             "abi_canon": ("abi_canon_run", "obytes_eqb", "(bytes * list ty * bytes) * option bytes"),
         }},
    suites=[{"bin": "c13", "name": "codec", "n": {"quick": 160, "thorough": 4000}, "timeout": 600},
            {"bin": "c13", "name": "node", "n": {"quick": 8, "thorough": 150}, "timeout": 1500},
            {"bin": "c13", "name": "abicanon", "n": {"quick": 4, "thorough": 20}, "timeout": 2400}],
    rule="codec: generated account blocks of all five types and unknown types (every integer from boundary classes of uint64, byte arrays all-zero / all-0xff / random, amounts 0, small, 2^255-1, 2^256-1, powers of 256, random up to 256 bits, variable byte strings of length 0,1,2,31..33,64,127..129,300,1000, descendant trees of depth 0..2) and momentums (0..5 headers) through Serialize/Deserialize, rlp, MarshalJSON/UnmarshalJSON and the rpc form; crafted protos with a missing / mis-sized sub-message, damaged canonical bytes (truncation, bit flip, doubled message, unknown fields, non-minimal varint); decimal / hex texts incl. malformed ones; "
         "node: histories on a real node (transfers with data, sentinel deposit/withdraw, fuse, donate, a failing sentinel registration that is refunded, receives), every accepted block re-delivered with one uncovered or re-derivable field altered, a node holding a variant is handed the producer's momentum, all stored blocks and momentums of the history through the codecs; "
         "abicanon: every method of every embedded contract in the four spork regimes (origin, accelerator, bridge+liquidity, htlc), argument tuples that pass the static checks, their edge cases (every dynamic argument empty / one element / long, all of them together) and random tuples, each packed canonically and in decodable non-canonical encodings (shared, overlapping, reordered, duplicated tails, gaps, unaligned offsets, trailing bytes, dirty ignored bytes of static words and of string padding; kept only if the real decoder returns the same values), every encoding in a user send hashed and signed outside the node and delivered through Supervisor.ApplyBlock, accepted blocks through pool, momentum and ledger read-back; a case is distinct by (function, input)",
    explanation="Theorems: the hash pre-image is injective on the covered fields for well-formed blocks and momentums (fixed widths; Data, descendant hashes and content through hash injectivity on the inputs that occur); protobuf Serialize/Deserialize is the identity on every block tree and momentum, so the hash is preserved; decimal and hex text forms round-trip; for an accepted user block the plasma fields are functions of covered fields and context, and two accepted blocks with the same hash and the same (ChangesHash, PublicKey, Signature) have the same stored bytes and patch; for an accepted contract receive every descendant equals the regenerated one on its covered fields (after fix 3d79e01); an accepted call of an embedded method is stored as delivered and its call data is the canonical packing of the arguments it decodes to (ValidateSendBlock re-packs between the two hash checks; a method that returns before the re-pack accepts every decodable non-canonical encoding: refuted form proved, and checked on every method by the abicanon oracle accepted-call-data-is-canonical). "
                "Refuted and kept as known findings: a user block with another ChangesHash, and a contract block with other uncovered fields (plasma fields, descendants' ChangesHash / key / signature / plasma fields), is accepted with the same hash and stored with different bytes. "
                "Modelled: nom.AccountBlock/Momentum ComputeHash, Proto/DeProto, the protobuf wire form, NewMomentumContent, big.Int decimal text, hex text, the acceptance steps of verifier.AccountBlockTransaction + vm.enoughPlasma/applyBlock that touch uncovered fields, the ABI packer (pack.go, Type.pack, Arguments.Pack) on top of the decoder model of C09 and the re-pack step of ValidateSendBlock. SHA3, ed25519, the VM patch and the regenerated contract block enter as functions of the covered fields (checked by the variant oracles on the real node).",
    assumptions=["SHA3-256 is a function H with 32-byte results; injectivity is assumed only for the two inputs compared in a statement (hash pins content)",
                 "ed25519 verification and PubKeyToAddress are uninterpreted functions of (key, message, signature) / key",
                 "the patch computed by the VM for a block is a function of the chain context and the covered fields of the block (the variant oracles check on the real node that altering uncovered fields never changes the patch)",
                 "the contract receive regenerated by the node (vm.generateEmbeddedReceive) is a function of the chain context and FromBlockHash",
                 "every embedded method's ValidateSendBlock has the shape decode / static checks / Data := PackMethod(decoded) (checked per method and regime by the abicanon suite on the real code, not proved from the Go source)",
                 "proto.Marshal emits known fields in field-number order (google.golang.org/protobuf, checked byte for byte on every case); unknown group fields are outside the decoder model"],
    trusted_base=["RLP and JSON encoders of the libraries are exercised by round-trip oracles on the real code, not modelled"],
)
META = dict(
    text="Machine-checked Coq theorems over all well-formed blocks / momentums (injectivity of the exact ComputeHash pre-image, protobuf round trip of the whole descendant tree by nested induction, decimal/hex round trips over all integers / byte strings) and over all accepted blocks of an acceptance model, tied to /repo by byte-for-byte comparison of pre-image, wire bytes and decoder results (incl. Go panics on malformed sub-messages) on generated and real blocks every run. Sampling encodings cannot show injectivity or that no third party can make a second acceptable variant; the theorem-driven question 'which fields does acceptance pin?' found a forgeable descendant (fixed) and two byte-level variants (known findings).",
    design_ref="DESIGN.md section 5, C13",
    note="Partial: the effect-pinning theorems hold under the hypothesis that excludes the two known findings (same ChangesHash/key/signature for user blocks; contract blocks compared on covered fields only). RLP and JSON document structure are not modelled (round-trip oracles on the real code only); bech32/base64 text forms are not modelled. The call-data theorem speaks about the acceptance steps around ValidateSendBlock with the re-pack as a modelled step; unpack(pack vs) = vs for all values (idempotence of the canonical form) is not proved, it is compared on every tie case. SHA3/ed25519 are uninterpreted. All theorems closed under the global context.",
    technique="Coq proof (list/append injectivity with fixed widths, nested induction over block trees, lia) + differential correspondence check + variant delivery oracles on a real node",
)
