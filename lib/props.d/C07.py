STORE_TB = [
    "hand model coq/theories/Store.v of /repo/common/db (enable_delete, merged, memdb, patch, store, versioned_db: ldbManager Get/Add/Pop/GetPatch with the overlay cache, DB views); specification coq/theories/StoreSpec.v; refinement proof StoreProofs.v (std++ gmap; no axioms)",
    "assumed about goleveldb: a finite map with bytewise-ordered iteration and immutable snapshots; one Write(batch) is atomic",
    "not modelled: the 0x55 key prefix of the frontier sub-database (a bijection on keys), LRU capacity (eviction is the explicit operation OEvict = purge), multi-commit transactions on the LevelDB manager (only momentums use it: one commit each), concurrency (views are values in the model; the harness' sequences are single-threaded)",
]
PROP = dict(
    props="Props/C07.v",
    tie={"modules": ["Store", "StoreSpec", "MemStore", "TieC07"],
         "fns": {"store_run": ("store_run_run", "store_run_eqb", "(list op) * (list ans)"),
                 "mem_run": ("mem_run_run", "store_run_eqb", "(list mop) * (list ans)"),
                 "concurrent_views": ("concurrent_views_run", "Bool.eqb", "Z * bool")}},
    suites=[{"bin": "c07", "name": "store", "n": {"quick": 240, "thorough": 5000}},
            {"bin": "c07", "name": "reorg", "n": {"quick": 100, "thorough": 3000}},
            {"bin": "c07", "name": "mem", "n": {"quick": 150, "thorough": 3000}},
            {"bin": "c07", "name": "deep", "n": {"quick": 3, "thorough": 40}},
            {"bin": "c07", "name": "concurrent", "n": {"quick": 3, "thorough": 60}, "race": True}],
    rule="random operation sequences (40-100 ops) on a real LevelDB manager in a temp dir: commit on the frontier / on stale parents (older, abandoned, zero) / rollback / open view at any identifier (on chain at any depth, abandoned, unknown, zero, right hash wrong height) / get / has / prefix scan / put / delete / snapshot / change set / cache purge / GetPatch / Subset(prefix) / Apply(patch); the same on the in-memory manager with 1-3 commits per transaction (suite mem); keys from a 4-letter alphabet of length 1-3 (shared prefixes) plus all keys of the history, values incl. empty and [0]; every answer is compared with the model (one case = one whole sequence) and with a map-per-version reference (oracle); distinct = distinct sequence; non-trivial = contains at least one of {historical view, pop, stale parent, snapshot, view write, evict} (tag != plain)",
    explanation="Theorems: the model refines the specification on every well-formed operation sequence (C07_refines_spec, induction over the sequence with a simulation relation: decoded frontier = head state, undo patches restore the previous state, cached overlays are valid differences); corollaries for get/has/scan exactness of a view after arbitrary later operations, refusal of stale parents, locality of view writes, snapshots, change sets. Modelled: see trusted_base. The implementation is compared with the model on every run, sequence by sequence.",
    assumptions=["operations are well-formed (wf_ops): a frontier commit has height = frontier height + 1, a hash not on the chain, and does not write keys starting with bytes 0,1,2 (the manager's own keys); Pop only on a non-empty chain (the Go code would dereference a nil patch)",
                 "hash collision freedom on the chain", "goleveldb semantics (snapshots, ordering, batch atomicity)"],
    trusted_base=STORE_TB,
)
META = dict(
    text="Refinement proof in Coq: an executable model of common/db (with the encodings, the overlay cache and the undo/redo patches as the code has them) is proved to answer every operation of every well-formed sequence like a 30-line specification in which a view is the content the store had when its commit was the frontier. The model is tied to /repo by running the real LevelDB manager and the model on the same random sequences each run. Five defects of the unfixed code were found this way and fixed in /repo (historical Has/Get, hidden empty values, stale-parent commits, cache after reorg, non-atomic commit).",
    design_ref="DESIGN.md section 5, C07",
    note="Trusted: Coq kernel; goleveldb as a finite ordered map with snapshots; the harness. Concurrency clause (readers concurrent with a writer): in the model views are immutable values (the theorem), the residual runtime facts (goleveldb snapshot isolation, lock discipline) are not proved. All theorems closed under the global context.",
    technique="Coq refinement proof (simulation relation, induction over operation sequences, std++ gmap) + differential correspondence check of whole operation sequences",
)
