PROP = dict(
    props="Props/C01.v",
    tie={"modules": ["Ledger", "LedgerEmb", "TieC01"],
         "fns": {"c01_seg": ("c01_seg_run", "c01_seg_eqb", "(state * list xop) * option state"),
                 "c01_step": ("c01_step_run", "c01_step_eqb", "(bool * state * op) * (Z * state)")}},
    suites=[{"bin": "c01", "name": "hist", "n": {"quick": 30, "thorough": 1500}, "timeout": 3000}],
    rule="random histories of 55-105 steps (every 15th: a 620-660 momentum history with 600 s epochs in which the producers update the reward contracts, delegators collect and the pillar / liquidity contracts mint) on a real in-process node (transfers of ZNN/QSR/issued tokens with amounts in {0, balance, balance+1, negative, 2^255, 2^255-1, 2^k, random}, "
         "receives incl. competing attempts (already received, other account, unconfirmed, unknown hash), calls to token/plasma/stake/pillar/sentinel/accelerator/liquidity methods with valid and invalid arguments "
         "(refused when sent, or failing when received -> refund), issue/mint/burn/update of user tokens, momentums); "
         "c01_seg: one case per non-empty momentum and per non-empty pool state = (projected state before, blocks as model ops) -> projected state after; "
         "c01_step: one case per candidate block = (local state, block) -> (verdict class, local state after); distinct by (function, input)",
    explanation="Theorems: the invariant (for every token: recorded supply = sum of all balances + amounts of unreceived sends; supply <= max; balances >= 0; plus the well-formedness of markers and sequencer) "
                "is preserved by every step of the model (user send, user receive, contract receive with ANY method outcome, confirmation) and hence by induction by every history; the recorded supply changes only in a successful "
                "IssueToken/Mint/Burn received by the token contract; a failed call returns exactly the amount and token it carried and leaves all balances and the token table unchanged; a refused block changes nothing; "
                "a genesis configuration passing CheckTokenTotalSupply (with supply<=max, balances>=0) satisfies the invariant; below the enforcement height the invariant is refuted (documented protocol history). "
                "Modelled concretely: vm.enoughFunds/applySend/applyReceive/generateEmbeddedReceive/rollbackEmbedded (Save/Reset/Done), AddBalance/SubBalance incl. the panic, per-account received markers, the contract sequencer "
                "(push on confirmation, front/pop), verifier amounts()/fromHash()/sequencer(), Issue/Mint/Burn/UpdateToken with the MaxSupply rules. Concrete bodies imported from the C09/C10 models (theories/Emb.v through the adapter theories/LedgerEmb.v): Donate, DepositQsr, WithdrawQsr, CollectReward, Fuse, CancelFuse, Stake, Cancel - their receives are replayed from (send data, one storage entry, frontier momentum) and the descendants are COMPUTED by the body (input_distribution: c01:method:concrete(...) vs c01:method:parametric:...). "
                "Parametric: every other embedded method (Update of the reward contracts, pillar Register/Delegate/Revoke, sentinel Register/Revoke, accelerator projects, htlc, bridge, liquidity staking, spork, swap) = arbitrary (success + descendant sends | failure); "
                "the text/ABI checks of the token methods and the embedded lookup of descendant/refund sends are boolean inputs.",
    assumptions=["every embedded method other than the token methods changes balances only through the descendant sends it returns (VM discipline; true by inspection: only token.go calls AddBalance/SubBalance; checked on every observed contract receive by the projection equality)",
                 "block hashes are unique ids (collision freedom of the hash): the model refuses a send whose id is already present",
                 "the ledger state at any chain/pool is the fold of the blocks currently on that chain/pool (rollbacks restore earlier store versions exactly: properties C07/C02)",
                 "the frontier is at or above verifier.ReceiverMismatchEnforcementHeight (the harness sets it to 0); below it C01_pre_enforcement_refuted applies",
                 "ABI decoding / text rules of IssueToken, Mint, Burn, UpdateToken and the embedded-method lookup for descendant and refund sends enter as observed booleans"],
)
META = dict(
    text="Machine-checked Coq theorems (induction over all histories of sends, receives, contract receives with arbitrary method outcomes, confirmations) about a Gallina model of vm.go / balance.go / received.go / sequencer.go / token.go, "
         "tied to /repo on every run: each momentum and pool state of random histories on a real node is replayed through the model (trace inclusion + equality of balances, token table, in-flight set, sequencer order), and the property itself "
         "(sum of balances + in-flight = TotalSupply <= MaxSupply, balances >= 0) is evaluated on a full ledger scan after every momentum and pool state.",
    design_ref="DESIGN.md section 5, C01",
    note="Trusted: Coq kernel; harness (ledger scan, id numbering, ABI decoding of token calls); embedded methods other than token.go are a parameter of the model (discipline validated on observed traces). "
         "All theorems closed under the global context. coq/theories/LedgerEmb.v imports Emb.v / VmReceive.v / Abi.v of the contracts engineer (C09/C10): a break there breaks the C01 tie.",
    technique="Coq proof (invariant + induction over op lists, association-list ledger) + trace-inclusion correspondence check + direct property oracle on ledger scans",
)
