PROP = dict(
    props="Props/C05.v",
    tie={"modules": ["Election", "MomentumVerif", "TieC05"],
         "fns": {"election": ("election_run", "election_eqb", "election_in * election_out"),
                 "delegations": ("delegations_run", "delegations_eqb", "delegations_in * list deleg_t"),
                 "producer": ("producer_run", "producer_eqb", "producer_in * producer_out"),
                 "apply": ("apply_run", "apply_eqb", "apply_in * apply_out"),
                 "apply_only": ("apply_only_run", "Z.eqb", "apply_in * Z")}},
    suites=[{"bin": "c05", "name": "election", "n": {"quick": 400, "thorough": 6000}, "timeout": 600},
            {"bin": "c05", "name": "momentum", "n": {"quick": 12, "thorough": 150}, "timeout": 1200},
            {"bin": "c05", "name": "schedule", "n": {"quick": 5, "thorough": 60}, "timeout": 1200},
            {"bin": "c05", "name": "concurrent", "n": {"quick": 4, "thorough": 40}, "timeout": 1200},
            {"bin": "c05", "name": "produce", "n": {"quick": 8, "thorough": 100}, "timeout": 1200},
            {"bin": "c05", "name": "concurrent-race", "n": {"quick": 1, "thorough": 6}, "timeout": 1800},
            {"bin": "c05", "name": "coldstart", "n": {"quick": 2, "thorough": 30}, "timeout": 1200}],
    rule="election: NodeCount in 1..40 (and the production 30/15), RandCount in 0..NodeCount, 1..60 pillars (also exactly NodeCount, NodeCount+-1, 1..3), "
         "weights all equal / many ties and zeros / beyond 64 bits / distinct, names that are prefixes of one another or carry bytes >= 0x80, proof heights from uint64 boundary classes "
         "(2^63-1: seed+1 wraps), through consensus.NewElectionAlgorithm().SelectProducers with the observed rand.Perm tables handed to the model; "
         "momentum: histories on a real node (ZNN transfers between backers, delegate/undelegate, slot gaps from 10 s to > 2 ticks), then a valid next momentum built like pillar/worker_momentum.go, "
         "every single-field mutation of it raw and re-sealed by the elected key (version, chain id, hash, previous hash, height, timestamp = 0 / parent / earlier / off-grid / other slot / now+10 / now+12 / far future / >= 2^63, data, "
         "changes hash, content and prefetched blocks added / dropped / duplicated / reversed / 101 headers, surplus prefetched blocks (made-up user block, contract send, a linked block of a named account, a named block twice), public key, signature), the same momentum signed or fully produced by each non-elected pillar and by a user, "
         "and correctly produced momentums on a stale parent, through Supervisor.ApplyMomentum + AddMomentumTransaction; error mapped by sentinel identity; "
         "schedule: GetMomentumProducer for every slot from before genesis to two ticks past the frontier (and off-grid instants) on the live (half of the runs: reorganised by 1..30) node, "
         "on a second node fed the chain through ChainBridge.InsertChain and on that node after a restart; "
         "concurrent: histories with (nearly) one momentum per tick (30..60 distinct proof momentums); a node with COLD caches (no LRU, consensus DB deleted) is asked for the elections of all ticks by 2..16 goroutines at once "
         "(rotated / shuffled / descending orders, through ElectionByTick and through GetMomentumProducer), in half of the runs next to a writer goroutine that delivers the rest of the chain through ChainBridge.InsertChain "
         "(momentum verification and the insert listeners ask elections of later ticks); every answer is compared with a second cold node asked one tick at a time, with the harness' reference election and (producer / election cases) with the model, "
         "then the node is asked again in the same process (LRU) and after a restart (consensus DB); one election algorithm object (as electionManager.algo) is asked for 16..64 random configurations by 2..16 goroutines and compared with a fresh object per election; "
         "the same family once in a build with the race detector (reports with a frame of the node's code counted); "
         "produce: at many points of a history (several momentums per tick, gaps, (un)delegations) each registered pillar's key, a pillar key without registration and a user key try to PRODUCE the momentum of a slot ahead of the frontier "
         "(next slot, later slots, other ticks, instants inside a slot): directly through the real Supervisor.GenerateMomentum and through a real pillar manager (pillar.NewPillar, SetCoinBase, Process(event) -> worker -> GenerateMomentum -> Broadcaster.CreateMomentum), "
         "with fresh events and with STALE events (computed by ElectionByTick for the coming ticks, then late momentums of the tick before / a reorganisation by 1..12 replace the proof momentum before the event is acted on); "
         "coldstart: histories with several momentums per tick and slot gaps (delegate / undelegate / a pillar drained of all backers / transfers between backers / registration of a fourth and fifth pillar, "
         "delegation to it, its revocation, at any position relative to the tick boundaries) are replayed momentum by momentum through ChainBridge.InsertChain into a node whose consensus DB is DELETED (hz ReopenCold: same chain, "
         "empty consensus LevelDB, new process state) before EVERY momentum (every position inside every tick), and into one where that happens at random positions and the node runs on for 2..12 momentums; after each delivery "
         "(verification and the pre-computing listener electionManager.InsertMomentum have run, for empty and non-empty momentums) the node is asked for the elections of the ticks around its frontier (ElectionByTick, sampled slots through GetMomentumProducer), "
         "in a quarter of the positions again after a plain restart (consensus DB read back); compared with the node that followed from genesis, with the reference election and (sample, a wrong answer always) with the model; "
         "a case is distinct by (function, input)",
    explanation="Theorems: an accepted momentum extends the frontier, is strictly later and at most 10 s ahead, its hash/changes-hash commit to content and executed changes, its signature verifies and its signer is the pillar "
                "the election assigns to its slot (any other signer is rejected), and it is presented with exactly the account blocks its content names (as many distinct blocks as headers, every header names one, per-address linking; also evaluated directly on every momentum the real verifier accepts); for every configuration with at least one pillar and every permutation oracle the election returns exactly NodeCount registered pillars "
                "(no panic, fill-up loop terminates) and depends only on the set of delegations (sorting by (weight desc, name) is canonical); the slot lookup hits exactly slot (ts-start)/BlockTime; "
                "the election cache keyed by proof hash answers like recomputation through any sequence of queries, evictions and rollbacks. "
                "Oracles on the implementation beyond the theorems' reach (runtime statements): concurrent-election-equals-sequential / cached-election-equals-fresh (the list a node derives does not depend on what its other goroutines "
                "were electing at the same moment, and what it stored under the proof hash is the fresh answer), no-data-race-between-concurrent-elections, and own-momentum-only-when-elected (the node's own production path hands out / inserts "
                "a momentum iff its key is the elected producer of that slot on the current chain, also for stale producer events), and cold-started-consensus-schedule-equals-live (what a node with an emptied consensus DB stores and answers "
                "after the insert listeners ran - at whatever position inside a tick it was started - is the schedule of the node that followed from genesis and of the reference election from the ledger as of the proof momentum). "
                "Modelled: SortPDByWeight.Less, ComputePillarDelegations, filterByWeight/filterRandom/shuffleOrder incl. fill-up loop and index panics, findSeed (int64 wrap), ticker.ToTick, genProofTime, "
                "GetMomentumBeforeTime (as its specification), generateProducers slot times, GetMomentumProducer, election cache; getContext, rawMomentumVerifier (all six checks incl. content/prefetch linking), "
                "momentumTransactionVerifier (changes hash, hash, signature, producer), recover in ApplyMomentum, parent check of ldbManager.Add.",
    assumptions=["math/rand Perm(seed,n) is an oracle assumed only to return a permutation of 0..n-1 (observed tables are fed to the model)",
                 "ComputeHash, PatchHash of the executed changes, ed25519.Verify and PubKeyToAddress enter as observed values (cx_hash, cx_exec, cx_sig_ok, mo_producer)",
                 "pillar names are unique (NoDup names) for order independence; at least one active pillar for termination (F4: with none the Go loop does not terminate)",
                 "momentum heights of the own chain are pairwise distinct",
                 "time: whole seconds; time.Time's internal-second wrap is modelled, the int64-nanosecond range of time.Duration (292 years from genesis) is not",
                 "the election cache is keyed by the proof momentum hash and the hash determines the ledger state (collision freedom)"],
)
META = dict(
    text="Machine-checked Coq theorems over all chains, contexts and candidate momentums (accept soundness of the modelled verifier), all pillar/delegation configurations, proof heights and permutation oracles "
         "(one registered pillar per slot, termination, order independence by canonicity of the sort), all cache histories; the Gallina models of consensus/election*.go, verifier/momentum.go and "
         "Supervisor.ApplyMomentum are compared with the real code on every run (real SelectProducers, real nodes, cold/restarted/reorganised nodes).",
    design_ref="DESIGN.md section 5, C05",
    note="Trusted: Coq kernel; constdump; the harness; hashes/signatures/execution and math/rand are oracles whose observed values are inputs of the model. F4 (no active pillar => filterRandom does not terminate) is a hypothesis of C05_one_per_slot and proved as C05_no_pillars_no_schedule; not an alarm. All theorems closed under the global context.",
    technique="Coq proof (induction over lists/fuel, canonical sorting, case analysis of the verifier) + differential correspondence check on real nodes",
)
