PROP = dict(
    props="Props/C16.v",
    tie={"modules": ["Sync", "TieC16"],
         "fns": {"insert_chain": ("insert_chain_run", "insert_chain_eqb", "ic_in * ic_out")}},
    suites=[{"bin": "c16", "name": "sync", "n": {"quick": 30, "thorough": 400}, "timeout": 1500}],
    rule="two producing nodes a and b share a prefix and then diverge (1..12 or 28..40 momentums each, with ZNN sends as content and slot gaps; the branch the receiver is not on overtakes it now and then), "
         "a third node (wired like zenon.NewZenon) starts on a's chain and receives batches from both through ChainBridge.InsertChain: plain extensions and forks of every depth 0..40 ending shorter / equal / "
         "one longer / at the source frontier, every kind of batch preceded by 0..6 already known momentums, all-known re-deliveries, an element corrupted at any position of the unknown (sometimes the known) part "
         "(bad signature, momentum signed by a non-elected pillar, changes hash flipped and re-signed, content header not matching the delivered block, missing / extra / tampered / swapped account block; "
         "surplus account blocks of every kind: a made-up send block of an embedded contract (never looked at by InsertChain) added or put in the place of a named block, a VALID signed user block generated on the producer in the very state "
         "the receiver is in at that point - of an account with and without blocks in the momentum -, a block named by a later momentum of the batch or beyond, an exact or a tampered duplicate of a named block in front of / behind it), "
         "duplicates, a removed middle element, a batch starting above the fork point, reversed batches, crafted heights (0, frontier+k, 2^64-1), the empty batch. "
         "Momentums honest in everything but their slot (content, changes hash from the real supervisor, hash, signature): stamped with second 1..9 of a slot by the pillar elected for that slot - one, or 2..9 of them "
         "with increasing seconds inside ONE slot, in the slot of a momentum the receiver knows / of one delivered in front / of a slot without a momentum at its start, with 0..3 honest momentums produced on top, "
         "as extension and as side chain that is longer than the receiver's only thanks to them -, stamped at the start of a slot 1..3 later by this slot's pillar, signed by the pillar of a slot 1..3 before / after "
         "(and, as control, re-stamped to another slot start by that slot's pillar: adopted); every adopted momentum is checked against a reference election (producers of the tick from the election manager, slot arithmetic in the harness). The receiver's unconfirmed pool is filled "
         "through the verified path (blocks of busy and of quiet accounts acknowledging its frontier or a recent own momentum) and batches are delivered that carry those very blocks: included by an honest "
         "producer where they are valid on its chain, included without verification (force-added / written into the content) where they are not (side chains forking below the acknowledged momentum). "
         "Another writer served first on the insert lock (a ChainBridge over a wrapper of the node's chain whose AcquireInsert runs a callback once before delegating): the node's own pillar producing 1..3 momentums "
         "from its pool, the chain the node follows growing by 1..2 momentums through a second InsertChain, the first part of the very batch arriving twice; the observed batch ends one below / at / one above / further above the frontier "
         "the node has UNDER THE LOCK and forks 0..35 below it (deep histories: 29..31 below the frontier before the other writer), with known prefixes and now and then an invalid element. "
         "The local chain evolves with what it accepts and produces. Observables: result class, index, frontier before/after, stored bytes, pool before/after. A case is distinct by (local chain suffix, pool, batches of the writer served first, batch).",
    explanation="Theorems (for every pair of verification oracles, every local chain and pool, every batch): under the pool invariant (every pooled block passed verification on a state the chain still extends) "
                "the resulting chain is a prefix of the old one extended only by momentums that passed verification, with every account block verified then or while pooled, and the invariant holds again; the same over whole "
                "histories of deliveries and received blocks; a rollback leaves nothing of the old pool (and the variant that keeps it adopts an unverified block: refuted); a failure reports the index, in the delivered batch, "
                "of the element that failed; known momentums change nothing; own momentums are abandoned only if the batch links to an own momentum at most 30 below the frontier and ends above it; "
                "whatever writer was served first on the insert lock, all of this is decided on the state under the lock (after the node's own pillar produced, the delivered chain must end above the pillar's last momentum), "
                "and the variant that reads the frontier store before it locks leaves the chain for an equally long one (refuted); "
                "InsertChain never panics (after fix 777dfea; the old code is refuted). Finding F11: the rollback precedes verification - refuted in general, proved when the delivered chain verifies in order. "
                "Modelled: protocol/chain_bridge.go InsertChain statement by statement (skip known, link check with nil target, depth 30, strictly longer, RollbackTo, block loop with the already-pooled skip and "
                "ForceAddAccountBlockTransaction, ordered apply with index+start), accountPool.DeleteMomentum (pool dropped) / InsertMomentum (confirmed blocks leave) / force add (replaces the account's pooled blocks from that height), "
                "verifier.getContext (previous must be known) and the parent check of ldbManager.Add (a verified momentum not extending the frontier is skipped).",
    assumptions=["full verification is two oracles: bvalid(chain, pool, block) = Supervisor.ApplyBlock, mvalid(chain, momentum) = Supervisor.ApplyMomentum; the tie instantiates them with the generator's knowledge of which element / block it corrupted or had included unverified",
                 "the unconfirmed pool is emptied by a rollback (accountPool.DeleteMomentum): explicit in the model (insert_chain ... clears:=true), compared with the implementation on every run (blocks pooled before and after a call that abandoned own momentums) and by the oracle rollback-drops-unconfirmed-pool",
                 "a block enters the pool only verified (AddAccountBlocks / InsertChain); BlockTypeContractSend blocks are not modelled (the loop skips them; none is generated)",
                 "momentum content vs delivered blocks (verifier.Momentum: as many distinct delivered blocks as headers, every header names one) is part of the oracle mvalid; it is stated and proved on the concrete verifier model in C05 (C05_accepted_content_exact) and, on the real node, by the oracles adopted-momentum-delivered-with-exactly-its-account-blocks and pool-holds-nothing-that-rode-along-with-an-adopted-momentum",
                 "writers of one node are serialised by the insert lock: another writer is a state transformer applied before InsertChain reads (insert_chain_locked); the harness realises it deterministically by running the other writer from a hook in front of the real AcquireInsert",
                 "the local store is a well-formed chain (consecutive heights, linked hashes) where the theorems say wf_chain",
                 "momentum hashes are compared through 40-bit identifiers in the correspondence check",
                 "the oracle adopted-momentum-stamped-at-slot-start-by-elected-pillar trusts the election manager for the ORDER of the producers of a tick (electionManager.ElectionByTick through the hook consensus.VerifElectionByTick, "
                 "evaluated on the receiver's chain after the call); which slot a timestamp belongs to and that it is the slot's first second is computed by the harness from the genesis time, BlockTime and NodeCount, "
                 "not by consensus.GetMomentumProducer / VerifyMomentumProducer"],
)
META = dict(
    text="Machine-checked Coq theorems about a statement-by-statement Gallina model of ChainBridge.InsertChain and the account pool around it, for all local chains and pools, all delivered batches and all verification oracles "
         "(induction over the batch and over histories), tied on every run to three real nodes exchanging forks, corrupted and malformed batches with known prefixes, and chains that carry the receiver's own unconfirmed blocks; "
         "the F9 panic was confirmed, fixed (777dfea) and proved absent, the F11 ordering defect is carried as refuted + partial.",
    design_ref="DESIGN.md section 5, C16",
    note="Known finding insertchain-rollback-before-verify (F11): reproduced by the harness on every run; C16_leave_only_for_valid_refuted / _partial. Downloader/fetcher queues are not modelled (they only choose the batches and compete for the insert lock: modelled as a writer served first). The account-pool priority rule (non-forced adds) and rebuild errors are outside the model. All theorems closed under the global context.",
    technique="Coq proof (induction over delivered batches, list reasoning) + differential correspondence check on real nodes",
)
