PROP = dict(
    props="Props/C16.v",
    tie={"modules": ["Sync", "TieC16"],
         "fns": {"insert_chain": ("insert_chain_run", "insert_chain_eqb", "ic_in * ic_out")}},
    suites=[{"bin": "c16", "name": "sync", "n": {"quick": 30, "thorough": 400}, "timeout": 1500}],
    rule="two producing nodes a and b share a prefix and then diverge (1..12 or 28..40 momentums each, with ZNN sends as content and slot gaps), a third node (wired like zenon.NewZenon) "
         "starts on a's chain and receives batches from both through ChainBridge.InsertChain: plain extensions and forks of every depth 0..40 ending shorter / equal / one longer / at the source frontier, "
         "overlaps with the known part, all-known re-deliveries, an element corrupted at a random position (bad signature, momentum signed by a non-elected pillar, changes hash flipped and re-signed, "
         "missing / extra / tampered account block), duplicates, a removed middle element, a batch starting above the fork point, reversed batches, crafted heights (0, frontier+k, 2^64-1), the empty batch; "
         "the local chain evolves with what it accepts. Observables: result class, index, frontier before/after, stored bytes. A case is distinct by (local chain suffix, batch).",
    explanation="Theorems (for every verification oracle, every local chain, every batch): the resulting chain is a prefix of the old one extended only by momentums that passed verification in order and extended the frontier; "
                "a failure reports the index of the failing element; known momentums change nothing; own momentums are abandoned only if the batch links to an own momentum at most 30 below the frontier and ends above it; "
                "InsertChain never panics (after fix 777dfea; the old code is refuted). Finding F11: the rollback precedes verification - refuted in general, proved when the delivered chain verifies in order. "
                "Modelled: protocol/chain_bridge.go InsertChain statement by statement (skip known, link check with nil target, depth 30, strictly longer, RollbackTo, ordered apply with index+start), "
                "verifier.getContext (previous must be known) and the parent check of ldbManager.Add (a verified momentum not extending the frontier is skipped).",
    assumptions=["full verification of a delivered momentum and its account blocks (Supervisor.ApplyBlock / ApplyMomentum) is an oracle valid(chain, momentum); the tie instantiates it with the generator's knowledge of which element it corrupted",
                 "the local store is a well-formed chain (consecutive heights, linked hashes) where the theorems say wf_chain",
                 "momentum hashes are compared through 40-bit identifiers in the correspondence check"],
)
META = dict(
    text="Machine-checked Coq theorems about a statement-by-statement Gallina model of ChainBridge.InsertChain, for all local chains, all delivered batches and every verification oracle (induction over the batch), "
         "tied on every run to three real nodes exchanging forks, corrupted and malformed batches; the F9 panic was confirmed, fixed (777dfea) and proved absent, the F11 ordering defect is carried as refuted + partial.",
    design_ref="DESIGN.md section 5, C16",
    note="Known finding insertchain-rollback-before-verify (F11): reproduced by the harness on every run; C16_leave_only_for_valid_refuted / _partial. Downloader/fetcher queues are not modelled (they only choose the batches). All theorems closed under the global context.",
    technique="Coq proof (induction over delivered batches, list reasoning) + differential correspondence check on real nodes",
)
