PROP = dict(
    props="Props/C09.v",
    tie={"modules": ["GoSem", "Abi", "VmReceive", "Emb", "TieC09"],
         "fns": {"abi_unpack_method": ("abi_unpack_method_run", "abi_out_eqb", "(bytes * list ty * bytes) * abi_out"),
                 "abi_unpack_empty": ("abi_unpack_empty_run", "Z.eqb", "(bytes * bytes) * Z"),
                 "vm_receive": ("vm_receive_run", "vm_receive_eqb", "(bytes * Z * bytes * bool * list (bytes * Z * bytes)) * (Z * list (bytes * Z * bytes))"),
                 "method_tables": ("method_tables_run", "Bool.eqb", "list (list (bytes * bytes)) * bool"),
                 "vm_receive_removed": ("vm_receive_removed_run", "vm_receive_eqb", "(bytes * Z * bytes) * (Z * list (bytes * Z * bytes))"),
                 "emb_plasma": ("emb_plasma_run", "emb_plasma_eqb", "emb_in pstore * emb_out pstore"),
                 "emb_stake": ("emb_stake_run", "emb_stake_eqb", "emb_in sstore * emb_out sstore"),
                 "emb_htlc": ("emb_htlc_run", "emb_htlc_eqb", "emb_in hstore * emb_out hstore"),
                 "emb_token": ("emb_token_run", "emb_token_eqb", "emb_in tstore * emb_out tstore"),
                 "emb_common": ("emb_common_run", "emb_common_eqb", "emb_in cstore * emb_out cstore")}},
    suites=[{"bin": "c09", "name": "abi", "n": {"quick": 1500, "thorough": 30000}},
            {"bin": "c09", "name": "calls", "n": {"quick": 44, "thorough": 1500}, "timeout": 3000},
            {"bin": "c09", "name": "removed", "n": {"quick": 10, "thorough": 100}},
            {"bin": "c09", "name": "wedge", "n": {"quick": 1, "thorough": 10}}],
    rule="abi: every method of every embedded ABI, canonical encodings of boundary values mutated by truncation, bad selector, hostile offset/length words (0, len+-k, 2^31, 2^32, 2^63+-k, 2^64-k, 2^255, 2^256-k), non-canonical padding, aliased offsets, dropped/inserted words, trailing and random bytes, through the real UnpackMethod/UnpackEmptyMethod under recover; "
         "calls: histories on a real node under each spork regime (origin, accelerator, bridge+liquidity, htlc), every (contract, method) pair of the ABIs, arguments from pools (known entry ids, owners, issued tokens, names, preimages) and boundary classes, amounts {natural, 0, 1, 2^255-1, whole balance,...} x tokens {ZNN, QSR, issued, foreign, zero}, 1/6 of the calls with mutated ABI encodings; every accepted send is received through vm.Supervisor.GenerateAutoReceive under the harness's recover; "
         "removed: a valid call whose method is retired (verif hook) between send and receive, and inclusion of the four real method tables; wedge: the bridge set up through accepted administrator calls with an owned, non-burnable token pair, then a user WrapToken (reproducer of the known finding); a case is distinct by (function, input)",
    explanation="Theorems: the ABI decoder model never panics on any byte string for any well-formed type (all types in use are well formed); generateEmbeddedReceive with a table of non-panicking, frame-respecting methods always yields Applied or Refunded(exactly amount+token to the sender, storage and balances unchanged) and advances the inbox cursor by exactly 1, for a single call and by induction for any queue; the retired-method path refunds (and panicked before fix ea6a52e). "
                "Modelled: vm/abi unpack.go, argument.go (UnpackValues), abi.go (UnpackMethod, UnpackEmptyMethod); vm/vm.go generateEmbeddedReceive, rollbackEmbedded, applySend, vm_context Save/Reset/Done/AddBalance/SubBalance; concrete methods (ValidateSendBlock + ReceiveBlock): common DepositQsr/WithdrawQsr/CollectReward/Donate, plasma Fuse/CancelFuse, stake Stake/Cancel, htlc Create/Reclaim/Unlock/DenyProxyUnlock/AllowProxyUnlock, token Mint/Burn/UpdateToken. "
                "Explored by the harness only (oracle of the property on the real code, thin vm tie): token IssueToken, all pillar, sentinel, swap, spork, accelerator, liquidity and bridge methods, stake/pillar/sentinel/liquidity/accelerator Update.",
    assumptions=["reflection stage of Arguments.Unpack (copying decoded values into the Go parameter struct) is not modelled; it depends only on the static struct of each method and runs on every harness call",
                 "data of an accepted send is a fixed point of ValidateSendBlock's re-encoding (a user block whose data is changed by the re-encoding fails the hash check; checked per accepted call by oracle abi-repack-roundtrip / accepted-data-canonical)",
                 "store I/O errors (leveldb reads/writes under DealWithErr) do not occur",
                 "hash functions of the HTLC contract, regexp verdicts and frontier momentum (time, height) are inputs of the method models",
                 "the sender of a call is a user account or a contract whose refund is deliverable (dest_check (refund_of s) = None); a refund to a contract sender fails in applySend and GenerateAutoReceive then dereferences a nil block (noted, no accepted input found)"],
)
META = dict(
    text="Machine-checked Coq theorems: totality of the ABI decoder model over all byte strings and all well-formed types (explicit Panic at every slice/index, int64 wrap written out), completion of the generateEmbeddedReceive model (Applied or exact refund, cursor +1, induction over any inbox) parametric in the method table, and concrete method models for common/plasma/stake/htlc/token; all tied to /repo on every run by differential evaluation (Go harness on the real code vs vm_compute of the model) plus the property's own oracle on every embedded method under every spork regime.",
    design_ref="DESIGN.md section 5, C09",
    note="The vm theorem is parametric in the method table (table_ok); it is instantiated for the modelled methods (list in the evidence explanation); the other methods are covered by the harness oracle only. Trusted: Coq kernel, constdump (selectors, constants), harness. One defect fixed in /repo (ea6a52e).",
    technique="Coq proof (structural induction over ABI types and inbox queues, lia/nia with explicit int64 wrap) + differential correspondence check + property oracle",
)
