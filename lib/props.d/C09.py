import os, sys
sys.path.insert(0, os.path.dirname(os.path.dirname(os.path.abspath(__file__))))
from purefns import pure_fns

PROP = dict(
    props="Props/C09.v",
    tie={"modules": ["GoSem", "Abi", "VmReceive", "Emb", "TieC09", "TiePure"],
         "fns": {"abi_unpack_method": ("abi_unpack_method_run", "abi_out_eqb", "(bytes * list ty * bytes) * abi_out"),
                 "abi_unpack_empty": ("abi_unpack_empty_run", "Z.eqb", "(bytes * bytes) * Z"),
                 "vm_receive": ("vm_receive_run", "vm_receive_eqb", "(bytes * Z * bytes * bool * list (bytes * Z * bytes)) * (Z * list (bytes * Z * bytes))"),
                 "method_tables": ("method_tables_run", "Bool.eqb", "list (list (bytes * bytes)) * bool"),
                 "vm_receive_removed": ("vm_receive_removed_run", "vm_receive_eqb", "(bytes * Z * bytes) * (Z * list (bytes * Z * bytes))"),
                 "emb_plasma": ("emb_plasma_run", "emb_plasma_eqb", "emb_in pstore * emb_out pstore"),
                 "emb_stake": ("emb_stake_run", "emb_stake_eqb", "emb_in sstore * emb_out sstore"),
                 "emb_htlc": ("emb_htlc_run", "emb_htlc_eqb", "emb_in hstore * emb_out hstore"),
                 "emb_token": ("emb_token_run", "emb_token_eqb", "emb_in tstore * emb_out tstore"),
                 "emb_common": ("emb_common_run", "emb_common_eqb", "emb_in cstore * emb_out cstore"),
                 **pure_fns("NetworkZnnRewardPerEpoch", "NetworkQsrRewardPerEpoch", "PillarRewardPerMomentum",
                            "SentinelRewardForEpoch", "LiquidityRewardForEpoch", "StakeQsrRewardPerEpoch")}},
    suites=[{"bin": "c09", "name": "abi", "n": {"quick": 1500, "thorough": 30000}},
            {"bin": "c09", "name": "calls", "n": {"quick": 44, "thorough": 800}, "timeout": 6000},
            {"bin": "c09", "name": "removed", "n": {"quick": 10, "thorough": 100}},
            {"bin": "c09", "name": "wedge", "n": {"quick": 1, "thorough": 10}},
            # the emission functions run inside every reward contract's Update receive at every chain age: all epochs up
            # to past the end of the schedules, oracle emission-function-does-not-panic
            {"bin": "pure", "name": "pure", "n": {"quick": 500, "thorough": 5000}, "args": ["rewards"]}],
    rule="abi: every method of every embedded ABI, canonical encodings of boundary values mutated by truncation, bad selector, hostile offset/length words (0, len+-k, 2^31, 2^32, 2^63+-k, 2^64-k, 2^255, 2^256-k), non-canonical padding, aliased offsets, dropped/inserted words, trailing and random bytes, through the real UnpackMethod/UnpackEmptyMethod under recover; "
         "calls: histories on a real node under each spork regime (origin, accelerator, bridge+liquidity, htlc), every (contract, method) pair of the ABIs, arguments from pools (known entry ids, owners, issued tokens, names, preimages) and boundary classes, amounts {natural, 0, 1, 2^255-1, whole balance,...} x tokens {ZNN, QSR, issued, foreign, zero}, 1/6 of the calls with mutated ABI encodings; every accepted send is received through vm.Supervisor.GenerateAutoReceive under the harness's recover; every second history of a regime is focused: two user-issued tokens received by their issuers, and (bridge / htlc regimes) the bridge set up by accepted administrator calls (orchestrator, guardians, TSS key, network, an owned and a not-owned token pair with fees from {0, 1, MaximumFee-1, MaximumFee}) and liquidity guardians; half of its steps are deep operations: Token.Mint with every embedded contract as receive address (token -> X.Donate), token owner moved to contracts, donations / burns / liquidity stakes of user-issued tokens, SetTokenPair with boundary fees and minimum amounts, WrapToken at {min-1, min, min+1, 1, whole balance}, UnwrapToken signed by the TSS key towards users and contracts, Redeem, UpdateWrapRequest with the real signature, ChangeTssECDSAPubKey by anybody; every pubkey-typed argument is drawn from a pool of invalid secp256k1 encodings (33 bytes not on the curve, wrong prefix, x >= p, 32/34/64/65 bytes, not base64); the refund of a failed call is compared with the send block as snapshotted before the receive ran and as re-read from the ledger by hash; a failing receive of a call sent by a contract is keyed contract-call-wedges-inbox:<sender>-><receiver>.<method> (only bridge->token.Burn of a token that is neither burnable nor bridge-owned is the known finding); "
         "removed: a valid call whose method is retired (verif hook) between send and receive, and inclusion of the four real method tables; wedge: the bridge set up through accepted administrator calls with an owned, non-burnable token pair, then a user WrapToken (reproducer of the known finding); a case is distinct by (function, input)",
    explanation="Theorems: the ABI decoder model never panics on any byte string for any well-formed type (all types in use are well formed); generateEmbeddedReceive with a table of non-panicking, frame-respecting methods always yields Applied or Refunded(exactly amount+token to the sender, storage and balances unchanged) and advances the inbox cursor by exactly 1, for a single call and by induction for any queue; the retired-method path refunds (and panicked before fix ea6a52e). "
                "Modelled: vm/abi unpack.go, argument.go (UnpackValues), abi.go (UnpackMethod, UnpackEmptyMethod); vm/vm.go generateEmbeddedReceive, rollbackEmbedded, applySend, vm_context Save/Reset/Done/AddBalance/SubBalance; concrete methods (ValidateSendBlock + ReceiveBlock): common DepositQsr/WithdrawQsr/CollectReward/Donate, plasma Fuse/CancelFuse, stake Stake/Cancel, htlc Create/Reclaim/Unlock/DenyProxyUnlock/AllowProxyUnlock, token Mint/Burn/UpdateToken. "
                "Explored by the harness only (oracle of the property on the real code, thin vm tie): token IssueToken, all pillar, sentinel, swap, spork, accelerator, liquidity and bridge methods, stake/pillar/sentinel/liquidity/accelerator Update.",
    assumptions=["reflection stage of Arguments.Unpack (copying decoded values into the Go parameter struct) is not modelled; it depends only on the static struct of each method and runs on every harness call",
                 "data of an accepted send is a fixed point of ValidateSendBlock's re-encoding (a user block whose data is changed by the re-encoding fails the hash check; checked per accepted call by oracle abi-repack-roundtrip / accepted-data-canonical)",
                 "store I/O errors (leveldb reads/writes under DealWithErr) do not occur",
                 "hash functions of the HTLC contract, regexp verdicts and frontier momentum (time, height) are inputs of the method models",
                 "the sender of a call is a user account or a contract whose refund is deliverable (dest_check (refund_of s) = None); a refund to a contract sender fails in applySend and generateEmbeddedReceive returns an internal error (known finding, reproduced by suite wedge through bridge -> token.Burn; the nil-block dereference that followed was fixed in 71f3b89)"],
)
META = dict(
    text="Machine-checked Coq theorems: totality of the ABI decoder model over all byte strings and all well-formed types (explicit Panic at every slice/index, int64 wrap written out), completion of the generateEmbeddedReceive model (Applied or exact refund, cursor +1, induction over any inbox) parametric in the method table, and concrete method models for common/plasma/stake/htlc/token; all tied to /repo on every run by differential evaluation (Go harness on the real code vs vm_compute of the model) plus the property's own oracle on every embedded method under every spork regime.",
    design_ref="DESIGN.md section 5, C09",
    note="The vm theorem is parametric in the method table (table_ok); it is instantiated for the modelled methods (list in the evidence explanation); the other methods are covered by the harness oracle only. Trusted: Coq kernel, constdump (selectors, constants), harness. Three defects fixed in /repo (ea6a52e, 71f3b89, f716bd2).",
    technique="Coq proof (structural induction over ABI types and inbox queues, lia/nia with explicit int64 wrap) + differential correspondence check + property oracle",
)
