PROP = dict(
    props="Props/C10.v",
    tie={"modules": ["GoSem", "Abi", "VmReceive", "Emb", "LockEnv", "Pillar", "Locks", "Liquidity", "Bridge", "TieC09", "TieC10"],
         "fns": {"vm_receive": ("vm_receive_run", "vm_receive_eqb", "(bytes * Z * bytes * bool * list (bytes * Z * bytes)) * (Z * list (bytes * Z * bytes))"),
                 "emb_plasma": ("emb_plasma_run", "emb_plasma_eqb", "emb_in pstore * emb_out pstore"),
                 "emb_stake": ("emb_stake_run", "emb_stake_eqb", "emb_in sstore * emb_out sstore"),
                 "emb_htlc": ("emb_htlc_run", "emb_htlc_eqb", "emb_in hstore * emb_out hstore"),
                 "emb_token": ("emb_token_run", "emb_token_eqb", "emb_in tstore * emb_out tstore"),
                 "emb_common": ("emb_common_run", "emb_common_eqb", "emb_in cstore * emb_out cstore"),
                 "emb_sentinel": ("emb_sentinel_run", "emb_sentinel_eqb", "emb_in2 nstore * emb_out nstore"),
                 "emb_pillar": ("emb_pillar_run", "emb_pillar_eqb", "emb_in2 lstore * emb_out lstore"),
                 "emb_liquidity": ("emb_liquidity_run", "emb_liquidity_eqb", "emb_in qstore * emb_outd qstore"),
                 "emb_bridge": ("emb_bridge_run", "emb_bridge_eqb", "emb_in bstore * emb_outd bstore")}},
    suites=[{"bin": "c10", "name": "locks", "n": {"quick": 16, "thorough": 1500}, "timeout": 3000},
            {"bin": "c10", "name": "bridgeliq", "n": {"quick": 5, "thorough": 400}, "timeout": 3000},
            {"bin": "c10", "name": "liqtreasury", "n": {"quick": 3, "thorough": 30}, "timeout": 3000}],
    rule="histories on a real node (htlc spork regime, lock windows shortened as in the repository's own tests): stake/cancel, fuse/cancel-fuse (incl. genesis fusions), htlc create/unlock/reclaim/deny/allow, QSR deposit/withdraw, sentinel register/revoke, pillar register/revoke, each release attempted by the owner and by others, before and after the lock, repeatedly, with right and wrong preimages, plus random (mostly failing) calls to the same contracts; time advances with momentums; "
         "a case is one receive of a modelled method: (contract tables, balances, frontier time/height, constants, send) -> (status/error, descendants, tables, balances); distinct by (function, input)",
    explanation="Theorems: for every queue of calls processed by generateEmbeddedReceive the stake, plasma, htlc, sentinel, pillar(partial) and QSR-deposit tables stay backed per token (liab <= balance, induction over the queue); success => guard for cancel-stake, cancel-fuse, htlc unlock/reclaim, pillar/sentinel revoke and withdraw-QSR; the revoke-window function of the model is the go2coq translation of PillarGetRevokeStatus/GetSentinelRevokeStatus and means (now-reg) mod (lock+revoke) >= lock; never-twice corollaries. "
                "Oracle on the real code after every momentum: sum of entries read through the definition getters <= contract balance for stake(ZNN), plasma(QSR), htlc(each token), pillar(ZNN, QSR deposits), sentinel(ZNN, QSR incl. deposits); fused total per beneficiary moves with its entries; every payout of a release call goes to the entitled address, inside its time condition, with the entry's amount, once. "
                "Modelled and compared: stake Stake/Cancel, plasma Fuse/CancelFuse, htlc all five methods, DepositQsr/WithdrawQsr on pillar and sentinel, sentinel Register/Revoke, pillar Revoke, CollectReward. Explored by the harness oracles only: pillar Register/RegisterLegacy (burn of the consumed QSR), reward updates, liquidity stake entries, bridge wrap/unwrap.",
    assumptions=["same as C09 for the vm layer (deliverable refunds, store I/O)",
                 "SHA3-256 / SHA-256 of the HTLC contract: section variable H in the theorems, observed digests in the correspondence check",
                 "momentum timestamps are positive (revoke time 0 encodes 'not revoked')",
                 "pillar backing is proved for the modelled steps (Revoke, DepositQsr, WithdrawQsr) under the invariant 'an active pillar holds exactly PillarStakeAmount'; Register is covered by the harness oracle",
                 "liquidity stake entries and bridge requests are not modelled (not claimed by the theorems)"],
)
META = dict(
    text="Machine-checked Coq theorems over all call histories (induction over the inbox queue through the generateEmbeddedReceive model): per-token backing of stake, plasma fusion, HTLC, sentinel, QSR deposits and (partially) pillar collateral; release rules as success=>guard; revoke windows stated on the go2coq translations of the Go functions with the dumped constants; never-twice corollaries. Models tied to /repo by differential evaluation of every modelled receive on a real node, plus the property's own oracle (entries vs balances after every momentum; entitlement, timing, amount and uniqueness of every payout).",
    design_ref="DESIGN.md section 5, C10",
    note="Partial for pillar (Register not modelled), liquidity and bridge (not modelled; explored only through C09's harness). Trusted: Coq kernel, constdump, go2coq, harness.",
    technique="Coq proof (invariant strengthening over the vm model, table-sum lemmas, lia) + differential correspondence check + property oracle",
)
