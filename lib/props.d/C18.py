PROP = dict(
    props="Props/C18.v",
    tie={"modules": ["TieC18"],
         "fns": {"paged_api": ("paged_api_run", "paged_api_eqb", "(Z * Z * Z * Z) * option (list Z)"),
                 "acc_by_height": ("acc_by_height_run", "rpc_out_eqb", "(Z * Z * Z) * (Z * list Z * Z)"),
                 "mom_by_height": ("mom_by_height_run", "rpc_out_eqb", "(Z * Z * Z) * (Z * list Z * Z)"),
                 "acc_by_page": ("acc_by_page_run", "rpc_out_eqb", "(Z * Z * Z) * (Z * list Z * Z)"),
                 "mom_by_page": ("mom_by_page_run", "rpc_out_eqb", "(Z * Z * Z) * (Z * list Z * Z)"),
                 "mom_store_range": ("mom_store_range_run", "paged_api_eqb", "(Z * Z * bool * Z) * option (list Z)"),
                 "epoch_page": ("epoch_page_run", "zlist_eqb", "(Z * Z * Z) * list Z"),
                 "GetRange": ("GetRange18_run", "zz18_eqb", "(Z * Z * Z) * (Z * Z)"),
                 "rpc_session": ("rpc_session_run", "rpc_session_eqb", "(Transport * list Doc) * list ReplyDoc")}},
    suites=[{"bin": "c18", "name": "paging", "n": {"quick": 3, "thorough": 60}},
            {"bin": "c18", "name": "rewards", "n": {"quick": 1, "thorough": 8}},
            {"bin": "c18", "name": "json", "n": {"quick": 4, "thorough": 60}},
            {"bin": "c18", "name": "server", "n": {"quick": 250, "thorough": 4000}},
            {"bin": "c18", "name": "hostile", "n": {"quick": 260, "thorough": 6000}, "timeout": 3000},
            {"bin": "pure", "name": "pure", "n": {"quick": 1500, "thorough": 20000}, "args": ["GetRange"]}],
    rule="paging: random histories on the real node (token issues, fusions, stakes, transfers, receives, blocks left in the pool); every paged list API "
         "(token.GetAll/GetByOwner, pillar.GetAll, plasma/stake entries, sentinel, spork, accelerator (no size limit), ledger unconfirmed/unreceived) called in-process with "
         "sizes {0,1,2,3,n-1,n,n+1,1023,1024,1025,2^16,2^31,2^32-1,2^k,random} x indices {all in-range pages, first page past the end, the smallest indices whose 32-bit product wraps, "
         "multiples of 2^32/size, an index whose wrapped product lands inside the list, 2^31, 2^32-1, random}; Get{AccountBlocks,Momentums}By{Height,Page} for known, unknown and contract addresses with "
         "heights/counts over the full uint64 range (0,1,h-1..h+2,2^63,2^64-3..2^64-1,random); rewards: the epoch pagers on a node with one-hour epochs; "
         "a case is distinct by (function, input); non-trivial = every case (no trivial tag used)",
    explanation="Theorems (about Pure.GetRange, re-translated from rpc/api/utils.go on every run, and the hand model of the by-height/by-page/epoch arithmetic): GetRange returns (min(i*c,n), min(i*c+c,n)) for every uint32 input; "
                "the first k pages of any list concatenate to the list (each element once, in order) and every page beyond the end is empty for every uint32 index; list[start:end] never panics; a reply has at most size <= limit elements; "
                "GetAccountBlocksByHeight / GetMomentumsByHeight return exactly the existing heights of [height, height+count) with Count = frontier height; the By-Page variants are the descending pages of h..1 and partition it; "
                "the reward/history pagers return the descending epoch window; allocation in getMomentumsByRange is bounded by the request for the reachable callers. "
                "Modelled: GetRange + slicing, the pageSize/count guards, MoreByHeight, momentumStore.GetMomentumsByHeight/getMomentumsByRange, nil filtering, the int64(uint32) window arithmetic of Get*ByPage, the epoch cursor of getFrontierRewardByPage/GetPillarEpochHistory. "
                "Lists are abstracted to positions / heights; that the element returned for a position/height is the stored one, Count, JSON round trip of every returned block and momentum are checked by the oracles on the real APIs. "
                "Server robustness (rpc/server fed malformed, huge, deeply nested, batched, oversized requests; survival and error replies counted in input_distribution under server:*) is supporting exploration only.",
    assumptions=["a list / chain is abstracted to its positions / heights 1..h; the content of an element is checked by the harness oracles, not by the theorems",
                 "frontier heights are below 2^63-1 (int64(frontier.Height) does not wrap) and list lengths below 2^32 (uint32(len(list)))",
                 "make([]T,0,cap) fails only for capacities >= 2^40 (alloc_limit stands for the run-time's bound)",
                 "JSON-RPC server, encoding/json and the http layer are not modelled (explored only)"],
)
META = dict(
    text="Machine-checked Coq theorems over every page index/size in uint32, every height/count in uint64 and every list/chain length, about the go2coq translation of api.GetRange (re-translated from /repo on every run) and a Gallina model of the Get*ByHeight / Get*ByPage / reward-pager arithmetic with the wrap-around of the Go integer types, compared with the real LedgerApi and embedded APIs on every run. A theorem over the full index range is what found the uint32 product overflow (page index 2^22 with size 1024 returned page 0 again) and the MoreByHeight wrap, both fixed in /repo.",
    design_ref="DESIGN.md section 5, C18",
    note="PARTIAL: the clause 'malformed, oversized or hostile JSON-RPC requests produce error responses and never terminate the server' is runtime/library behaviour (rpc/server, encoding/json, net/http): the harness feeds the real in-process server malformed/huge/deeply nested/batched/oversized requests and records survival and reply classes in the evidence (input_distribution server:*), it is not a theorem. The JSON round trip of blocks is an oracle on the real code (every block and momentum returned by the APIs), not a proved codec theorem. Proved: paging/range/bounds arithmetic for all inputs. Trusted: Coq kernel, go2coq, constdump, harness. All theorems closed under the global context.",
    technique="Coq proof (lia/nia over Z with explicit uint32/uint64/int64 wrap, induction over page counts and loops) on go2coq-translated and hand-modelled code + differential correspondence check + property oracles on the real RPC APIs",
)
