PROP = dict(
    props="Props/C18.v",
    tie={"modules": ["TieC18", "RpcMsg", "JsonText"],
         "fns": {"paged_api": ("paged_api_run", "paged_api_eqb", "(Z * Z * Z * Z) * option (list Z)"),
                 "acc_by_height": ("acc_by_height_run", "rpc_out_eqb", "(Z * Z * Z) * (Z * list Z * Z)"),
                 "mom_by_height": ("mom_by_height_run", "rpc_out_eqb", "(Z * Z * Z) * (Z * list Z * Z)"),
                 "acc_by_page": ("acc_by_page_run", "rpc_out_eqb", "(Z * Z * Z) * (Z * list Z * Z)"),
                 "mom_by_page": ("mom_by_page_run", "rpc_out_eqb", "(Z * Z * Z) * (Z * list Z * Z)"),
                 "mom_store_range": ("mom_store_range_run", "paged_api_eqb", "(Z * Z * bool * Z) * option (list Z)"),
                 "epoch_page": ("epoch_page_run", "zlist_eqb", "(Z * Z * Z) * list Z"),
                 "GetRange": ("GetRange18_run", "zz18_eqb", "(Z * Z * Z) * (Z * Z)"),
                 "jt_print": ("jt_print_run", "zlist_eqb", "JtPrint * list Z"),
                 "jt_parse": ("jt_parse_run", "jt_parse_eqb", "JtParse * option (list Z)"),
                 "rpc_session": ("rpc_session_run", "rpc_session_eqb", "(Transport * list Doc) * list ReplyDoc")}},
    suites=[{"bin": "c18", "name": "paging", "n": {"quick": 3, "thorough": 60}},
            {"bin": "c18", "name": "rewards", "n": {"quick": 1, "thorough": 8}},
            {"bin": "c18", "name": "json", "n": {"quick": 4, "thorough": 60}},
            {"bin": "c18", "name": "server", "n": {"quick": 250, "thorough": 4000}},
            {"bin": "c18", "name": "hostile", "n": {"quick": 260, "thorough": 6000}, "timeout": 3000},
            {"bin": "pure", "name": "pure", "n": {"quick": 1500, "thorough": 20000}, "args": ["GetRange"]}],
    rule="paging: random histories on the real node (token issues, fusions, stakes, transfers, receives, blocks left in the pool); every paged list API "
         "(token.GetAll/GetByOwner, pillar.GetAll, plasma/stake entries, sentinel, spork, accelerator (no size limit), ledger unconfirmed/unreceived) called in-process with "
         "sizes {0,1,2,3,n-1,n,n+1,1023,1024,1025,2^16,2^31,2^32-1,2^k,random} x indices {all in-range pages, first page past the end, the smallest indices whose 32-bit product wraps, "
         "multiples of 2^32/size, an index whose wrapped product lands inside the list, 2^31, 2^32-1, random}; Get{AccountBlocks,Momentums}By{Height,Page} for known, unknown and contract addresses with "
         "heights/counts over the full uint64 range (0,1,h-1..h+2,2^63,2^64-3..2^64-1,random); rewards: the epoch pagers on a node with one-hour epochs; "
         "json: every block the ledger APIs return (all five block types, contract receives with descendants, paired blocks) and synthetic blocks with boundary values in every field "
         "(amounts 0, +-(2^k+-1), 10^k, 2^256, uint64 boundaries, nil / empty / 16 KiB data, nested descendants) printed and parsed through nom.AccountBlock and api.AccountBlock; "
         "per field the printed text and the parse of canonical and mutated texts (letter case, signs, leading zeros, white space, cut / doubled / swapped / foreign characters, "
         "bech32 with the bech32m constant / other prefixes / payloads one group short or long, base64 without padding / URL alphabet / line breaks / changed unused bits, arrays and null for byte strings, raw number tokens with fraction / exponent / sign / 2^64); "
         "hostile: a child process runs the real rpc/server with the ledger, subscription and embedded APIs behind net/http, the websocket handler and a unix-socket ServeListener; structured JSON-RPC documents "
         "(single and batch; elements null / true / numbers / strings / arrays / nested batches / {} / objects whose jsonrpc, id, method, params members are absent, null, wrong-typed, repeated, matched only under case folding; ids of every JSON kind incl. 30000-digit numbers; "
         "unknown methods, every registered method (77, signatures read by reflection) with good / too many / too few / wrong-typed / huge / null arguments, params as object / scalar / null, notifications, responses sent as requests, subscribe / unsubscribe forms; empty batch, batch of 1, batches of up to 1000, valid probe calls mixed with hostile elements) "
         "and byte-level damage (cut behind every structural character, invalid UTF-8, BOM, trailing garbage, changed bytes, nesting 10 .. 100000, 200000-character tokens, things that are not JSON), HTTP envelopes (oversized, at the limit, content types, methods, empty), "
         "each over http, ipc and websocket, a probe call afterwards; subscription life cycle with hostile unsubscribes and dropped connections; "
         "a case is distinct by (function, input); non-trivial = every case (no trivial tag used)",
    explanation="Theorems (about Pure.GetRange, re-translated from rpc/api/utils.go on every run, and the hand model of the by-height/by-page/epoch arithmetic): GetRange returns (min(i*c,n), min(i*c+c,n)) for every uint32 input; "
                "the first k pages of any list concatenate to the list (each element once, in order) and every page beyond the end is empty for every uint32 index; list[start:end] never panics; a reply has at most size <= limit elements; "
                "GetAccountBlocksByHeight / GetMomentumsByHeight return exactly the existing heights of [height, height+count) with Count = frontier height; the By-Page variants are the descending pages of h..1 and partition it; "
                "the reward/history pagers return the descending epoch window; allocation in getMomentumsByRange is bounded by the request for the reachable callers. "
                "Modelled: GetRange + slicing, the pageSize/count guards, MoreByHeight, momentumStore.GetMomentumsByHeight/getMomentumsByRange, nil filtering, the int64(uint32) window arithmetic of Get*ByPage, the epoch cursor of getFrontierRewardByPage/GetPillarEpochHistory. "
                "Lists are abstracted to positions / heights; that the element returned for a position/height is the stored one and Count are checked by the oracles on the real APIs. "
                "JSON-RPC server (RpcMsg.v, mirrors json.go parseMessage / readBatch, handler.go handleBatch / handleMsg / handleImmediate / handleCallMsg / handleCall and the read loops of http and of the stream transports): for every document class and every sequence of documents on a connection the decision never reaches the nil dereference; "
                "a message / batch is answered with exactly one reply per element that is neither notification nor response, in order, echoing the id (null when none can be echoed), calls with the outcome of dispatch, everything else with 'invalid request', an empty batch with one error object, never with a parse error; at most one reply document per document; over http silence only for an empty body or a document of notifications / responses; "
                "without readBatch's replacement of nil messages a JSON null in message position panics (refuted variant). The model is evaluated on every observed session and compared with the reply documents of the real server over http / ipc / websocket; the oracles server-process-survives, every-request-gets-a-response-or-clean-close, server-still-answers-a-valid-call-afterwards state the clause on the implementation. "
                "JSON text of blocks (JsonText.v): print then parse is the identity for amounts (every integer), uint64 fields (0..2^64-1), nonce / hash hex, bech32 addresses and token standards (bit regrouping 8->5->8, character set, separator search, letter-case rule, checksum comparison), base64 byte strings; "
                "second text forms proved and observed on the real code: amounts take '+', leading zeros, '-0', and read ANY non-number text (\"\", \"abc\", \"1e3\", \" 5\") as 0; uint64 takes null for 0 and nothing else (the printed literal is proved unique); hex takes upper case and nothing else; api.AccountBlock reads every invalid nonce text as the zero nonce (nom.AccountBlock refuses it); "
                "addresses / token standards take all-upper-case, the bech32m checksum and a payload one 5-bit group short (padded); byte strings take line breaks inside the base64 text, any unused low bits in the last character, a JSON array of numbers, null. None of them yields a different block: oracle non-canonical-json-text-rejected-or-same-block; json-roundtrip-same-hash is the clause itself on every block.",
    assumptions=["a list / chain is abstracted to its positions / heights 1..h; the content of an element is checked by the harness oracles, not by the theorems",
                 "frontier heights are below 2^63-1 (int64(frontier.Height) does not wrap) and list lengths below 2^32 (uint32(len(list)))",
                 "make([]T,0,cap) fails only for capacities >= 2^40 (alloc_limit stands for the run-time's bound)",
                 "JSON-RPC: a document is abstracted by the harness to the class the decoder of encoding/json gives it (syntax error / unexpected end / end / value) and a message to the members the handler looks at; encoding/json, net/http and the websocket framing are not modelled; the outcome of registry lookup + argument decoding (not found / invalid params / runs) is computed by the harness from the method signatures the child reports",
                 "bech32: the verification polymod(prefix, data, checksum) in {1, 0x2bc830a3} is modelled as 'the last six characters equal the bech32 or the bech32m checksum of what precedes them' (equal for a BCH code; compared with btcutil on intact and damaged checksums on every run)",
                 "JSON text: only the value text of a field is modelled (string content / number token); string escapes, member-name matching, white space and duplicate members are encoding/json behaviour, exercised by the oracles only"],
)
META = dict(
    text="Machine-checked Coq theorems over every page index/size in uint32, every height/count in uint64 and every list/chain length, about the go2coq translation of api.GetRange (re-translated from /repo on every run) and a Gallina model of the Get*ByHeight / Get*ByPage / reward-pager arithmetic with the wrap-around of the Go integer types, compared with the real LedgerApi and embedded APIs on every run. A theorem over the full index range is what found the uint32 product overflow (page index 2^22 with size 1024 returned page 0 again) and the MoreByHeight wrap, both fixed in /repo.",
    design_ref="DESIGN.md section 5, C18",
    note="PARTIAL: 'never terminate the server' is proved for the modelled decision of rpc/server (message classification, batch handling, reply construction) and observed on the real process for every generated document over every transport; panics inside encoding/json, net/http, the websocket library or inside json.Marshal of a result (handler.runMethod marshals outside callback.call's recover) are covered by the process-survival oracle only. The JSON round trip is proved per scalar field on the text model and tied field by field; the composition into the whole block object (member names, nesting of descendants, momentumAcknowledged) is encoding/json's and is checked by the oracles json-roundtrip-same-hash / non-canonical-json-text-rejected-or-same-block on real and synthetic blocks, not proved. Momentum JSON: oracle only. Proved for all inputs: paging/range/bounds arithmetic, the JSON-RPC decision, the field text forms. Trusted: Coq kernel, go2coq, constdump, harness (its abstraction of bytes to document classes). All theorems closed under the global context.",
    technique="Coq proof (lia/nia over Z with explicit uint32/uint64/int64 wrap, induction over page counts and loops) on go2coq-translated and hand-modelled code + differential correspondence check + property oracles on the real RPC APIs",
)
