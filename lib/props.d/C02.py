PROP = dict(
    props="Props/C02.v",
    tie={"modules": ["Election", "Replay", "TieC02"],
         "fns": {"changes": ("changes_run", "changes_eqb", "list wop * list (bytes * option bytes)"),
                 "replay": ("replay_run", "replay_eqb", "replay_in * replay_out")}},
    suites=[{"bin": "c02", "name": "replay", "n": {"quick": 14, "thorough": 200}, "timeout": 1500},
            {"bin": "c02", "name": "patch", "n": {"quick": 800, "thorough": 10000}, "timeout": 600}],
    rule="replay: a producing node builds a history of about 20..65 momentums (ZNN/QSR sends with data, their receives, plasma fuse, pillar delegate/undelegate incl. an unknown pillar, stake, auto-receives and contract updates); "
         "receiving nodes wired like zenon.NewZenon get the same momentums through ChainBridge.InsertChain under random schedules: batch sizes 1..30, overlaps with known momentums, unlinkable batches from further ahead, "
         "prior AddAccountBlocks gossip of genuine copies of upcoming blocks (random subset, order, up to 5 momentums ahead: distance between acknowledged momentum and frontier), stop + reopen of the leveldb directory; "
         "observables: every InsertChain result, frontier hash, full key/value dump of the frontier store, dumps of historical views (live producer vs restarted receiver); first history also gossips one ChangesHash variant (F10). "
         "Every history also contains, by construction, blocks whose verdict depends on the ledger of the momentum they acknowledge, 0..5 momentums behind the producer's frontier: the only fusion of an account is cancelled (or a fusion added for an account below the cap, "
         "an own block confirmed, a send confirmed, the accelerator spork enforced in every third history) between the acknowledged momentum and the frontier; the valid direction is part of the history, the other direction (a signed block the producer refuses although its frontier ledger would take it) is a probe. "
         "Directed schedules: a long-running receiver fed one momentum per InsertChain call (InsertChain([m+1]) directly followed by InsertChain([m+2]) with the block acknowledging m), one fed in batches, one restarted right before such momentums / probes; "
         "all three must accept every momentum, refuse every probe, agree event by event and end with the producer's frontier hash and full store dump. "
         "Some random schedules hand over the whole rest of the chain in one InsertChain call (more than two election ticks ahead of the receiver's frontier for most histories). "
         "One LONG history per run (500+ momentums, 400+ of them empty, a little traffic of two accounts): user sends / receives that acknowledge an OLD momentum - distance frontier minus acknowledged momentum "
         "at the moment the block is made and gossiped in {1, 5, 59, 60, 61, 299, 300, 301, 359, 360, 361, 400, the oldest momentum the account may still acknowledge, 3 random}, 3..5 accounts per distance - and then wait "
         "0 / 1 / 2 / 5 momentums in the pools (the pillars of those slots produce without them) before a momentum confirms them; receivers: online (momentum by momentum, every such block by gossip when it is made: the twin), "
         "restarted (same gossip, restarted right after it or right before the confirming momentum), late without gossip momentum by momentum, late with the WHOLE history in one InsertChain call, late in batches of 31..256, "
         "late catching up from 1 / 2 / 3 / 10 election ticks behind in one call each (tick = NodeCount * BlockTime = 30 momentums; exactly k ticks, one momentum more, up to a tick more); "
         "oracles producer-momentum-accepted, schedule-independent-acceptance (same InsertChain verdicts and same frontier as the twin for every schedule), frontier hash and full ledger dump equal to the producer's. "
         "Every history (short and long) also gets the POOL-DIFFERS family: a forge node (follows the chain momentum by momentum, pool holds genuine blocks only when a momentum arrives) signs with the owners' keys through Supervisor.GenerateFromTemplate "
         "blocks the producer's chain does not contain: competing versions of user blocks for the same account height (two receives of one send, two sends: newer / older MomentumAcknowledged, other data, other amount, more fused plasma = higher pool priority; also of an account's first block "
         "and on top of genuine blocks of the same momentum), 1..2 blocks signed on top of the unconfirmed version, stray transfers / receives on the head of an account (the chain confirms another block at that height later, or never any); "
         "a receiver (momentum by momentum, or batches of 1..6 cut where gossip is due) gets them through AddAccountBlocks anywhere between 'valid for the first time' and 'right before the momentum of the confirmed version' - only the unconfirmed version, "
         "unconfirmed first then confirmed, confirmed (and its genuine successors) first then unconfirmed; oracles producer-momentum-accepted (failing input: every foreign block given to the receiver for the refused momentum / still in its pool), "
         "schedule-independent-acceptance against the forge, frontier hash and ledger dump equal to the producer's; each is a replay case of the model (foreign block = Gossip of an identifier that is not on the chain). "
         "patch: random Put/Delete sequences over 1..6 keys (empty key, prefixes, random bytes) on db.NewMemDB(), Changes() vs model and vs the same final content written once in random order.",
    explanation="Theorems: the change set is a function of the final overlay (sorted, last write per key); for every honest chain and any two schedules without variant gossip the receiving node's store equals the producer's state at that height "
                "(so equal stores and equal answers), and the producer's next momentum is always accepted; with one gossiped variant of a user block both fail (F10, refuted by witness). "
                "Modelled: memdb.changesInternal/enableDelete.Changes as sorted overlay; ChainBridge.AddAccountBlocks (first copy per identifier is pooled), InsertChain on one chain (skip known, refuse unlinkable, apply in order, "
                "pooled copy wins over the delivered one), ApplyMomentum's changes-hash comparison, restart (store persists, pool lost). Execution and patch hash are arbitrary functions (Section variables).",
    assumptions=["execution of a momentum's blocks over a store and the hash of its state changes are deterministic functions (exec, patch_hash); that the real VM reads only the store as of the acknowledged momentum is checked by the dump comparison, not proved",
                 "no forks in the replay model (forks are C16); gossip events are those the node really pooled",
                 "block and changes hashes enter the correspondence check as 40-bit identifiers; the tie uses a concrete polynomial hash as patch_hash"],
)
META = dict(
    text="Machine-checked Coq theorems: canonicity of the change set over all write sequences, and by induction over arbitrary delivery schedules (batches, gossip, restarts) store equality with the producer for every honest chain; "
         "tied on every run to real nodes replaying a producer's history under random schedules with full ledger dumps compared.",
    design_ref="DESIGN.md section 5, C02",
    note="Fixed in /repo on the way: 417e0a5 (accountPool.canRollback refused to replace a pooled competing version of an account's FIRST block: the node refused the confirmed momentum until restart). Known finding user-block-changeshash-variant (F10, shared with C13): reproduced on every run; C02_variant_refuted + the two _partial theorems (no variant gossip). Historical-view equality of the versioned store itself is C07. All theorems closed under the global context.",
    technique="Coq proof (induction over schedules, sorted-list extensionality) + differential correspondence check on real nodes with full store dumps",
)
