_SPK = "list (Z * bool * Z)"
PROP = dict(
    props="Props/C17.v",
    tie={"modules": ["TieC17"],
         "fns": {
             "is_active": ("is_active_run", "Bool.eqb", "(Z * %s * Z) * bool" % _SPK),
             "lookup": ("lookup_run", "Z.eqb", "(Z * %s * (Z * Z * Z) * bool * Z * Z) * Z" % _SPK),
             "create_validate": ("create_validate_run", "Z.eqb", "(Z * bool * option (Z * Z)) * Z"),
             "activate_validate": ("activate_validate_run", "Z.eqb", "(Z * bool * bool) * Z"),
             "create_receive": ("create_receive_run", "res_eqb", "(Z * bool * option (Z * Z) * Z * Z * Z * Z * %s) * (Z * %s)" % (_SPK, _SPK)),
             "activate_receive": ("activate_receive_run", "res_eqb", "(Z * bool * bool * Z * Z * Z * Z * %s) * (Z * %s)" % (_SPK, _SPK)),
             "unimplemented": ("unimplemented_run", "zlist_eqb", "(Z * %s * list Z) * list Z" % _SPK),
         }},
    suites=[{"bin": "c17", "name": "ops", "n": {"quick": 300, "thorough": 5000}},
            {"bin": "c17", "name": "node", "n": {"quick": 20, "thorough": 200}, "timeout": 900},
            {"bin": "c17", "name": "halt", "n": {"quick": 1, "thorough": 4}, "timeout": 300}],
    rule="ops: the real CreateSpork/ActivateSpork methods (ValidateSendBlock and ReceiveBlock) on real contract storage with generated spork sets, "
         "senders (spork key, community key inside/outside/at the edges of its window, other key), heights, amounts, malformed data; the real GetEmbeddedMethod for all 8 "
         "combinations of the three activity bits x every embedded contract (+ unknown contract, + user address) x every ABI selector (+ foreign, random, short); "
         "GotAllActiveSporksImplemented on generated spork sets / implemented sets; "
         "the real momentum store (IsSporkActive, GetAllDefinedSporks) over the state the real genesis code builds from a GenesisConfig.SporkConfig with 0-5 sporks (created only / activated with enforcement height 0, 1, 2, .. SporkMinHeightDelay+3, < 45, far future), "
         "viewed at every height 1..SporkMinHeightDelay+3 and around each enforcement height, with GetEmbeddedMethod on a context over that store. "
         "node: real node whose genesis configuration has no SporkConfig / an empty one / 1-3 sporks in every state (created only, activated with enforcement heights 0, 1, 2, .. around SporkMinHeightDelay, later, far future; some of them playing the implemented sporks from momentum 1 on, some activated again by transaction), "
         "one history per run with the three implemented sporks shipped activated by the genesis at enforcement heights 0..SporkMinHeightDelay+2 in nesting order; 3-5 sporks created at random heights, roles (accelerator/htlc/bridge/none) assigned at random, activated in random order (incl. twice, wrong key, unknown id); "
         "at every height (so just below / at / above each enforcement height) and on historical stores: IsSporkActive, GetEmbeddedMethod on the real context and full ApplyBlock of gated sends; HTLC creates that execute or refund; a follower node (same genesis configuration) fed by InsertChain in random batches compared at every height and checked against the statement itself (IsSporkActive, lookup, full send) at every early height and around every enforcement height; "
         "halt: child processes with an unknown activated spork (must exit 2 at the enforcement height and again on restart) and a control. A case is distinct by (function, input)",
    explanation="Theorems: a spork is active for a block iff the acknowledged store (height > 1) holds an activated entry with enforcement <= its height, and stays active at later momentums; "
                "the method table is a function of three activity bits of the acknowledged store, so send-time validation and receive-time execution agree and an accepted send is never refunded for a missing method later; "
                "activation needs the designated key, enforces exactly SporkMinHeightDelay after the acknowledged height, is inactive below / active from that height, and cannot be repeated; "
                "the node halts at start and after a stored momentum iff an enforced spork is unknown and never builds on such a store. "
                "Finding F12: 'available only if its own spork is enforced' is refuted (tables nested); proved under nesting order of enforcement.",
    assumptions=["spork ids (hashes) and addresses are abstract identifiers; a fresh id for a created spork (hash of the send block) is a hypothesis of C17_creation_rules",
                 "the spork contract storage holds one entry per id (sp_wf); checked on every observed storage",
                 "the store of the acknowledged momentum (versioned store, C07) is an input of the model: (height, spork entries) observed from the real store",
                 "os.Exit(2) is modelled as the Halted state; observed in child processes"],
)
META = dict(
    text="Machine-checked Coq theorems over all spork sets, heights, senders and (contract, selector) pairs about a Gallina model of the spork contract, IsSporkActive, the GetEmbeddedMethod if-chain over the method tables "
         "dumped from the running binary, and the halt check; compared with the real code on every run. Tests only use a feature well after activation on one node; the theorems cover every height and every order of activation.",
    design_ref="DESIGN.md section 5, C17; section 6 F12",
    note="Trusted: Coq kernel; constdump (tables); harness. Known finding F12: method tables are nested, so bridge/liquidity/accelerator methods are available with only the HTLC spork enforced (refuted + partial theorem). "
         "Agreement between nodes is by construction (function of the acknowledged store) plus C07 for the store itself; a follower node fed by InsertChain is compared with the producer at every height (oracle).",
    technique="Coq proof (case analysis over the if-chain, induction over spork lists and chains; table facts by vm_compute on regenerated tables) + differential correspondence check",
)
