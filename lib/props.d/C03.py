PROP = dict(
    props="Props/C03.v",
    tie={"modules": ["Ledger", "Plasma", "Verifier", "TieC03"],
         "fns": {"c03_apply": ("c03_apply_run", "c03_apply_eqb", "(vctx * vblk) * Z")}},
    suites=[{"bin": "c03", "name": "cands", "n": {"quick": 40, "thorough": 2500}, "timeout": 3000}],
    rule="ledger states reached by random accepted traffic (transfers, contract calls, receives by addressees and by NON-addressees incl. repeated ones, stacks of 1-4 unconfirmed receives/sends per account, momentums with node-generated contract receives) on a real in-process node; "
         "of four histories two enforce the receiver rule from genesis (enforcement height 0), one runs wholly below the enforcement height, one has it in the middle (3-10) so the switch-over is crossed; "
         "FORK candidates: while the pool holds unconfirmed blocks of an account, user sends / calls / receives whose stated predecessor is the confirmed frontier or an unconfirmed block below the pool frontier (control: the pool frontier), amounts around the balance at the stated predecessor and at the pool frontier, fused plasma around what is available at either; one accepted fork candidate per state goes through AddAccountBlockTransaction / ForceAddAccountBlockTransaction and the account state afterwards is compared with 'state at the stated predecessor + this block'; "
         "non-addressee receive candidates (again by an account that already received the send as a non-addressee; by a random other account) in every regime; "
         "at each of 3-5 states per history: valid candidate blocks of every type "
         "(user send, user call, user receive, contract receive re-verified at its own unconfirmed position, a contract send stand-alone, a genesis-type block) and 10 mutations each over 21 fields "
         "(all 22 fields of nom.AccountBlock: Version, ChainIdentifier, BlockType, Hash, PreviousHash, Height, MomentumAcknowledged, Address, ToAddress, Amount incl. nil, TokenStandard, FromBlockHash, DescendantBlocks add/drop/content-under-old-hash/order, Data, FusedPlasma, Difficulty, Nonce, BasePlasma, TotalPlasma, ChangesHash, PublicKey, Signature, signed-by-another-key, sibling swaps; hit counts per field: input_distribution c03:mutated-field:*, and c03:single-field:<field>:{rejected,accepted-and-valid} for single-field corruptions) "
         "x {zero, +-1, max, other valid value, swap}, one third double mutations, half of them re-hashed and re-signed; verdict of vm.Supervisor.ApplyBlock mapped to the error class by sentinel identity; a case is distinct by (ctx, block)",
    explanation="Theorems: accept ctx b = true -> Valid ctx b for ALL node states (ctx) and ALL blocks, where Valid spells the property: hash = hash of the content; user block signed by the key that owns the account / contract block without key and equal (hash and changes-hash) to the regenerated one; "
                "height one above the stated predecessor which is the frontier of the store it is applied on; MomentumAcknowledged on the node's chain, for a user block not older than the predecessor's, for a contract receive exactly the send's confirmation height; "
                "0 <= amount < 2^255 and <= balance; a receive references a send found in the acknowledged momentum's store, addressed to the receiver from the enforcement height on, not marked received, next in line for a contract; PoW honoured. "
                "Corollaries: any (single, double, arbitrary) corruption of a block is refused or itself valid; stand-alone contract sends and genesis-type blocks are never accepted. "
                "Regimes: the enforcement height and the frontier height are fields of ctx; 'not yet received' is the marker of the RECEIVING account (per account in both regimes), 'addressed to the receiver' holds from the enforcement height on. "
                "'references a SEND': accepted receives have a zero ToAddress, so on a ledger of accepted blocks the addressee rule implies it from the enforcement height on (C03_receive_references_send_partial); below it a receive of a confirmed non-send block is accepted (C03_legacy_receive_of_non_send_refuted, known finding, reproduced on the real node every run). "
                "Modelled: Supervisor.ApplyBlock = verifier.AccountBlock (getContext incl. the Previous()-from-first-descendant rule, all() in its order), vm.applyBlock (enoughPlasma via the C12 model, embedded validation flag, enoughFunds/SubBalance, regenerate-and-compare), "
                "verifier.AccountBlockTransaction (hash, signature, producer, descendants), Go panics (nil Amount, nil frontier, base-plasma lookup) as the Panic class.",
    assumptions=["SHA3 (ComputeHash), ed25519 verification, the address of a public key, the PoW check and the regenerated contract receive are inputs of the model, fed with the real results",
                 "embedded-method lookup + ValidateSendBlock of a send to an embedded address is one boolean input",
                 "ctx is the projection of the stores read through the public store API at the candidate's MomentumAcknowledged / Previous (store correctness: C07)",
                 "ChangesHash of user blocks is outside Valid (it is not covered by the hash and not verified: see C13 / F10)",
                 "nobody holds a key whose address is the zero address (hypothesis v_addr b <> 0 of C03_receive_references_send_partial); the block a receive references is on a ledger of accepted blocks, whose non-send blocks have a zero ToAddress (ledger_wf, justified by C03_accepted_receive_zero_to)"],
)
META = dict(
    text="Machine-checked Coq theorem accept ctx b = true -> Valid ctx b over all node states and all candidate blocks (so over every single/double field mutation), about a Gallina transcription of the whole ApplyBlock decision with its error order, "
         "tied to /repo on every run: thousands of valid and mutated candidates of all five block types go through the real Supervisor.ApplyBlock and the model on the extracted context, verdict classes compared by sentinel identity; every accepted candidate is re-checked against the property's clauses with independent computations.",
    design_ref="DESIGN.md section 5, C03",
    note="Trusted: Coq kernel; harness (context extraction through the store API, error classification by sentinel identity; errors without a sentinel are classified by block kind: embedded validation for sends, regenerate-and-compare for contract receives). "
         "Crypto and hashing are oracles fed with real results. All theorems closed under the global context.",
    technique="Coq proof (case analysis over the decision procedure) + differential correspondence check on valid and mutated candidates + independent validity oracle on accepted blocks",
)
