PROP = dict(
    props="Props/C08.v",
    tie={"modules": ["Store", "Crash"],
         "fns": {"crash_point": ("crash_point_run", "Z.eqb", "(Z * Z * bool) * Z")}},
    suites=[{"bin": "c07", "name": "crash", "n": {"quick": 120, "thorough": 2500}},
            {"bin": "c06", "name": "nodecrash", "n": {"quick": 12, "thorough": 300}}],
    rule="fault enumeration on the real store: histories of 2-7 commits, then one commit (patch of >= 2 keys) or one rollback under a fault-injecting goleveldb storage that lets k journal writes through (k = 0..total) and refuses the rest, additionally with the first refused write torn (half of its bytes on disk); the directory is copied at the crash, reopened by a fresh manager and observed (frontier id, full API dump, presence of redo/undo per height); then the operation is re-delivered / the commit rolled back and compared with a crash-free run; suite nodecrash: the same at node level — a real node (chain, consensus, verifier, vm, ChainBridge) whose chain database sits on the fault-injecting storage dies while a momentum delivered by a peer is being committed; the image is reopened by a fresh node, compared with the node states before / after that momentum, and the rest of the chain (the interrupted momentum included) is delivered again and compared with a crash-free node; a case = (writes of the operation, crash point, torn?); distinct by (history, crash point); non-trivial = every case",
    explanation="Theorems: every crash point of a commit / rollback leaves the durable state equal to the state before or the state after (the model issues one atomic batch, as the fixed code does); a restarted store keeps the invariant, so everything that follows (re-delivery, competing momentum, rollback) refines the specification from the same chain. The correspondence check counts the journal writes of the real operation (must be 1) and classifies every reopened crash image.",
    assumptions=["goleveldb applies one Write(batch) atomically and drops a torn journal record on recovery (exercised by the fault injection, not proved)",
                 "fsync honesty of the OS/disk is out of scope"],
    trusted_base=["crash model coq/theories/Crash.v on top of the store model of C07", "fault-injecting storage wrapper in harness/cmd/c07/crash.go (counts and refuses journal writes)"],
)
META = dict(
    text="Machine-checked atomicity of commit and rollback in the store model (one batch) plus preservation of the refinement invariant across a restart, so that continuing after any crash point reaches the crash-free state; tied to the real code by enumerating every journal write of real commits/rollbacks with a fault-injecting storage (before the fix 43 of 55 crash points inside commits were torn).",
    design_ref="DESIGN.md section 5, C08",
    note="Atomicity below one leveldb batch is trusted to goleveldb (journal + checksum), exercised but not proved. Closed under the global context.",
    technique="Coq proof over the crash model + exhaustive fault enumeration of journal writes on the real store",
)
