PROP = dict(
    props="Props/C19.v",
    tie={"modules": ["Dec", "Wallet", "TieC19"],
         "fns": {
             "hexutil_enc": ("hexutil_enc_run", "bytes_eqb", "bytes * bytes"),
             "hexutil_dec": ("hexutil_dec_run", "obytes_eqb19", "bytes * option bytes"),
             "parse_path": ("parse_path_run", "olz_eqb", "bytes * option (list Z)"),
             "derive_class": ("derive_class_run", "dclass_eqb", "bytes * dclass"),
             "format_path": ("format_path_run", "bytes_eqb", "Z * bytes"),
             "derive_index_ok": ("derive_index_ok_run", "Bool.eqb", "Z * bool"),
             "read_kf": ("read_kf_run", "wres_kf_eqb", "KeyFileText * wres KeyFile"),
             "write_kf": ("write_kf_run", "kft_eqb", "KeyFile * KeyFileText"),
         }},
    suites=[{"bin": "c19", "name": "glue", "n": {"quick": 700, "thorough": 20000}, "timeout": 600},
            {"bin": "c19", "name": "keys", "n": {"quick": 10, "thorough": 40}, "timeout": 2400, "args": []}],
    rule="glue: hexutil texts (empty, 0x, missing prefix, 0X, upper case, odd length, non-hex), derivation paths from the grammar and around it (missing quote, double quote, empty segment, sign, letters, leading zeros, numbers around 2^31 and 2^32, 26-digit numbers, 1..5 segments), indices 0,1,2,127,128, 2^31-2..2^31+1, 2^32-1 and random, key-file documents with version / cipher / kdf / hex fields altered one or two at a time; "
         "keys: real argon2id + AES-GCM + bip39 + ed25519 over entropies of 16,20,24,28,32 bytes, passwords (empty, 1 char, ascii, umlauts, CJK+emoji, 300..500 chars, with space, NUL, other case), per key file: write/read/decrypt, 7..8 wrong passwords, one bit (position rotating with byte and file; all eight bits in the thorough tier of the first files) flipped in EVERY byte of ciphertext, nonce and salt of the stored file, derivation repeated, indices 0,1,random,2^31-1, signatures; a case is distinct by (function, input)",
    explanation="Theorems (glue of /repo/wallet, cryptography as parameters with functional laws only): a key file written by Encrypt+Write is read back unchanged and decrypts with the same password to exactly the key store it was made from (hex text round trip of every byte string, open(seal) law); ReadKeyFile refuses every other version, cipher name or kdf name; decryption success means the AEAD accepted (kdf(password, salt), nonce, \"zenon\", ciphertext); a path segment n derives iff n < 2^31 and then with child number n + 2^31 (uint32 arithmetic written out), DeriveWithIndex(i) parses its own formatted path back to [44, 73404, i]; key store, key pairs and addresses are functions of (entropy, index); the recorded base address is the index-0 address; a derived key's signature verifies and its public key maps to its address (under verify(pk(sk), m, sign(sk, m))). "
                "Modelled: keyfile.go ReadKeyFile/Write/Decrypt, keystore.go keyStoreFromEntropy/Encrypt/DeriveForIndexPath, derivation.go regexp + ParseUint + uint32 offset + derive refusal + SLIP-0010 chaining, PubKeyToAddress. NOT a theorem: 'fails with any other password / after any corruption' is a computational property of argon2id and AES-GCM; the harness checks it on the real code for wrong passwords and for a bit flip in every byte of ciphertext, nonce and salt (supporting exploration).",
    assumptions=["argon2.IDKey, AES-256-GCM Seal/Open, bip39.NewMnemonic/NewSeed, HMAC-SHA512, ed25519 key generation / Sign / Verify and SHA3-256 are uninterpreted functions",
                 "law open k n ad (seal k n ad m) = Some m (AES-GCM correctness) is the only property of the cipher used",
                 "law verify (pub sk) m (sign sk m) = true (ed25519 correctness) is used only by C19_sig_address_chain",
                 "encoding/json and the bech32 text form of the base address are the libraries' (round-trip checked by the harness on real files)"],
    trusted_base=["no verified cryptographic library is available: resistance to wrong passwords and tampering is explored by the harness on the real code, not proved"],
)
META = dict(
    text="Machine-checked Coq theorems over all passwords, salts, nonces, entropies, indices and path texts about a Gallina model of the wallet glue (key-file write/read/decrypt, version/cipher/kdf checks, hex text codec, path grammar with ParseUint-32 and the uint32 hardened offset, SLIP-0010 chaining, address derivation), with the cryptographic primitives as parameters constrained only by their functional laws; the model is compared with the real package on every run (hexutil texts, path verdicts and child numbers, derivation outcome per index, ReadKeyFile verdicts and decoded fields, written documents). Package wallet has no tests.",
    design_ref="DESIGN.md section 5, C19",
    note="Level proof for the glue; PARTIAL for the statement's cryptographic half: 'fails with any other password or after any change of ciphertext, nonce or salt' is a computational property of argon2id + AES-GCM and is not a theorem of an executable model (no verified crypto library installed); the model proves decryption success implies the AEAD oracle accepted the derived key and the stored nonce/ciphertext, and the harness exercises wrong passwords and a bit flip in every byte of the three fields on the real code each run. Observed (outside the statement, counted in the evidence): the baseAddress field of a key file is not authenticated and not compared after decryption. All theorems closed under the global context.",
    technique="Coq proof (functional laws of uninterpreted crypto, list/hex/decimal lemmas, lia over uint32 wrap) + differential correspondence check + exhaustive-per-byte corruption oracle on the real code",
)
