PROP = dict(
    props="Props/C14.v",
    tie={"modules": ["TieC14"],
         "fns": {"pool_step": ("pool_step_run", "pool_step_eqb", "(list block * Z * op) * (Z * list Z * Z)"),
                 "higher_priority": ("higher_priority_run", "Z.eqb", "((Z * Z * Z) * (Z * Z * Z)) * Z"),
                 "filter_to_commit": ("filter_to_commit_run", "Z.eqb", "list bool * Z")}},
    suites=[{"bin": "c14", "name": "pool", "n": {"quick": 20, "thorough": 1500}},
            {"bin": "c14", "name": "priority", "n": {"quick": 1500, "thorough": 60000}},
            {"bin": "c14", "name": "race", "n": {"quick": 150, "thorough": 5000}, "timeout": 1500}],
    rule="pool: histories of 40-80 operations over three accounts on the real node: fast-forward inserts (plain sends with data lengths {0,10,100} and fused plasma {base, base+1000, base+21000, base+50000}, token issues producing contract batches), "
         "competing blocks at a random pooled height with worse / equal / better plasma ratio than the incumbent (hash tie-break on equal ratio), forced or not, re-insertion of pooled blocks, bogus blocks straight into the pool "
         "(confirmed height, gap beyond the frontier, wrong previous hash, height 0 / 2^63 / 2^64-1), momentum inserts (real producer) and momentum deletes (RollbackTo 1-2 momentums); after every operation the state of every account is observed; "
         "priority: higherPriority called directly with plasma values from {0..2, around base, cap-2..cap, uniform under the cap, boundary classes of uint64 (products wrap)} x {equal ratio by construction, same plasma, zero base} x hashes {random, equal, differing in first/last byte}; "
         "filterBlocksToCommit on lists of length {0,1,5,99,100,101,150,400} with contract-send runs of {0,1,2,5,50,98..101,150}; a case is distinct by (function, input)",
    explanation="Theorems: for every sequence of operations each account keeps a single hash-linked chain (confirmed blocks, then pooled blocks on top of the last confirmed one); the decision procedure never reaches higherPriority(block, nil) nor a failing Pop; add/force-add never change the confirmed part, an accepted block becomes the frontier and a rejected one changes nothing; "
                "the priority rule is antisymmetric, total for distinct hashes and, under the per-block plasma cap, is 'higher total/base ratio, then smaller hash' without uint64 overflow; after a momentum confirming the next k pooled blocks the rebuild cannot fail and the pool is exactly the previous pool minus those k; "
                "momentum content is a prefix of the candidates cut at a batch boundary, at most MaxAccountBlocksInMomentum long and maximal. "
                "Modelled: addAccountBlockTransaction (fast-forward, already inserted, canRollback, higherPriority with wrapping uint64 products, pop loop, Add), memdbManager.Add/Pop, InsertMomentum/rebuild (filter above the new stable height, re-add, early return), DeleteMomentum, filterBlocksToCommit. "
                "Oracles on the real node after every operation: pool is a linked chain on top of the confirmed frontier; confirmed blocks unchanged by pool operations; other accounts untouched; replacement/rejection follows (ratio, then smaller hash) computed with big integers; rejected block leaves the pool unchanged; after a momentum pool = old pool minus confirmed; content <= limit and ends at a batch boundary.",
    assumptions=["one account at a time: managers of different addresses share no state (checked by the oracle other-accounts-untouched)",
                 "a momentum's content for an account is a prefix of that account's pooled chain (its patches are taken from the pool by vm.applyMomentum; checked by the rebuild-exact oracle)",
                 "block hashes are compared as 256-bit big-endian numbers (bytes.Compare on 32-byte arrays)",
                 "the account chain is shorter than 2^63 blocks"],
)
META = dict(
    text="Machine-checked Coq theorems by induction over all operation sequences (insert, replace, forced insert, momentum insert/delete) and over all uint64 plasma values and block lists, about a Gallina model of chain/account_pool.go (+ memdbManager Add/Pop) with the uint64 products of higherPriority written with wrap and higherPriority(block, nil) as an explicit Panic outcome, compared with the real node after every operation of random histories and with the exported higherPriority/filterBlocksToCommit over the full integer range.",
    design_ref="DESIGN.md section 5, C14",
    note="PARTIAL: 'concurrent readers never observe a half-applied block and there are no data races' is a runtime statement. The theorems show that every ATOMIC operation preserves the invariant; that operations are atomic (the insert lock and the pool's changes mutex) is only explored: the race suite builds the harness with -race and runs 4 reader goroutines (pool content, frontier store, LedgerApi.GetUnconfirmedBlocksByAddress) against the inserting goroutine (inserts, forced replacements, momentums); every reader observation must be a linked chain and the number of race-detector reports is recorded in input_distribution (race:data-race-reports=N). The competing-producer interleaving (generate-then-insert vs. sync) is not exercised. Also noted: a competing block for height 1 of an account is always rejected (ByHeight(0) is missing), which is safe. Proved part: closed under the global context.",
    technique="Coq proof (induction over operation lists and block lists, lia over uint64 products with explicit wrap) + differential correspondence check on the real node + property oracles; race detector run as supporting exploration",
)
