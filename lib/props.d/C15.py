PROP = dict(
    props="Props/C15.v",
    tie={"modules": ["TieC15"],
         "fns": {"handle": ("handle_run", "outcome_eqb", "(Z * Z * req) * outcome"),
                 "handshake": ("handshake_run", "Z.eqb", "(Z * Z * bool * bool * bool * bool) * Z"),
                 "readInt24": ("readInt24_run", "Z.eqb", "list Z * Z"),
                 "read_msg": ("read_msg_run", "zz15_eqb", "(Z * bool * list Z * bool * bool) * (Z * Z)"),
                 "decode_packet": ("decode_packet_run", "Z.eqb", "(Z * bool * bool * Z * bool) * Z"),
                 "session_run": ("session_run", "phase_eqb", "(phase * list event) * phase")}},
    suites=[{"bin": "c15", "name": "handler", "n": {"quick": 200, "thorough": 4000}, "timeout": 3000},
            {"bin": "c15", "name": "frames", "n": {"quick": 500, "thorough": 20000}},
            {"bin": "c15", "name": "packets", "n": {"quick": 800, "thorough": 30000}},
            {"bin": "c15", "name": "session", "n": {"quick": 6, "thorough": 40}, "timeout": 600}],
    rule="handler: the real protocol.ProtocolManager on a mock chain (height 20..60 or 520..670 > MaxHashFetch, with account blocks), SubProtocols[0].Run driven over p2p.MsgPipe in child processes "
         "(a panic on a node goroutine = child exit status); sessions with handshake variants {ok, wrong genesis/network/version, first message not status, garbage status, oversized status}; "
         "after the handshake up to 25 requests per session: GetBlockHashes (known/unknown/zero hash x amounts {0,1,2,3,511,512,513,H-1,H,H+1,2^32,2^63,2^64-1,random}), "
         "GetBlockHashesFromNumber (numbers {0,1,2,H-1..H+2,2^63,2^64-512..2^64-1,random} x amounts, plus the 3x3 grid {0,1,2}^2), GetBlocks (0..1000 hashes, known/unknown mixes), "
         "status after handshake, unknown codes up to 2^64-1, oversized payloads (10 MiB + 1), undecodable payloads per code, well-formed junk BlockHashes/NewBlockHashes/Blocks/NewBlock/Tx, random bytes / random RLP / truncated requests, each followed by a probe request; "
         "frames: 1-4 messages from the real RLPx writer, then bit flips (header, body, MAC), truncation, frame swap into the real ReadMsg; packets: the real encoder's ping/pong/findnode/neighbors, bit flips, truncation, crafted packets (any type byte, truncated / random RLP body, bad signature, bad hash), random bytes into decodePacket; "
         "a case is distinct by (function, input)",
    explanation="Theorems over every chain height < 2^63, every uint64 request parameter, every list of requested hashes, every message size/code: the handler never reaches a nil dereference or an out-of-range slice (explicit Panic outcomes in the model), a hashes reply has <= MaxHashFetch entries, a blocks reply <= MaxBlockFetch, a message above ProtocolMaxMsgSize is rejected before decoding; a session is established only by a valid status; "
                "ReadMsg never slices out of range, allocates <= 2^24 bytes per frame, returns a message only if both MACs verify; decodePacket never indexes out of range and returns a request only with good hash, recoverable signature and known type. "
                "Modelled: handleMsg per message code (size gate, clamps, Number+Amount-1 / Height-Number+1 in uint64 with wrap, lookups as option with Panic where Go dereferences unchecked, reply construction), chainBridge.GetBlockHashesFromHash/GetBlock/GetBlockByNumber, momentumStore.GetMomentumsByHash/GetMomentumsByHeight/getMomentumsByRange, peer.Handshake checks, readInt24, ReadMsg size/padding/slicing, decodePacket length guard/slicing/type switch. "
                "Oracles on the real code: process survival (child exit status), Run's goroutine does not panic, replies within the limits, replies contain only chain hashes/blocks, corrupted frames/packets rejected, frames before a corruption intact, junk from the peer does not change the chain, the message loop still answers a probe after every junk message.",
    assumptions=["the chain is abstracted to heights 1..H; a peer-supplied hash is Some height / None (the harness maps hashes through the real store)",
                 "MAC/hash comparison, signature recovery, AES stream and RLP decoding are oracles of the frame/packet models (their outcomes are inputs; the harness evaluates them independently)",
                 "delivery of well-formed BlockHashes/Blocks/NewBlockHashes/NewBlock/Tx messages into downloader, fetcher and pool is not modelled (ONoReply); explored by the harness only",
                 "make([]T,0,cap) fails only for capacities >= 2^40"],
)
META = dict(
    text="Machine-checked Coq theorems over all chain heights, all uint64 request parameters, all requested-hash lists, all message sizes and codes, all frame headers and packet lengths, about a Gallina model of protocol/handler.go handleMsg (+ chain bridge and momentum store lookups with explicit Panic outcomes at every unchecked dereference), p2p/rlpx.go ReadMsg and p2p/discover/udp.go decodePacket, compared on every run with the real ProtocolManager driven over p2p.MsgPipe in child processes and with the real frame reader / packet decoder on corrupted inputs. Asking for 'no Panic outcome for every request' is what exposes the nil dereference on a peer-supplied hash and the unbounded hashes reply for Number=0/Amount=0 (both fixed in /repo).",
    design_ref="DESIGN.md section 5, C15",
    note="PARTIAL: 'cannot block its message loop indefinitely' and memory growth of downloader/fetcher queues are goroutine/runtime facts, not theorems: the harness sends junk of every message code and checks after each that a probe request is still answered and the process (child) survives; deep RLP nesting and the go-ethereum rlp decoder are library behaviour, fuzzed only. Reply size in BYTES of a blocks reply is bounded only by MaxBlockFetch x momentum size, not by the 10 MiB cap (observed sizes are recorded in input_distribution blocks-reply-bytes). 'only the offending peer is dropped, the node keeps serving the others' is checked per session on one manager (Run returns an error, next session served). InsertChain's nil target (F9) belongs to C16. Proved: no panic / reply bounds / size gate / handshake / frame and packet slicing for all inputs. All theorems closed under the global context.",
    technique="Coq proof (case analysis over message codes, lia over uint64 arithmetic with explicit wrap, induction over requested-hash lists) + differential correspondence check + child-process survival oracles on the real protocol manager, frame reader and packet decoder",
)
