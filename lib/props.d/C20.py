PROP = dict(
    props="Props/C20.v",
    tie={"modules": ["Block", "Genesis", "TieC20"],
         "fns": {
             "check_genesis": ("check_genesis_run", "Bool.eqb", "Config * bool"),
             "state_balance": ("state_balance_run", "Z.eqb", "(list GBlock * bytes * bytes) * Z"),
             "genesis_patch": ("genesis_patch_run", "(list_eqb kv_eqb)", "(list (list kv)) * (list kv)"),
             "genesis_content": ("genesis_content_run", "(list_eqb header_eqb)", "(list GAccount) * (list AHeader)"),
             "init_db": ("init_db_run", "obytes_eqb20", "(option bytes * bytes) * option bytes"),
         }},
    suites=[{"bin": "c20", "name": "genesis", "n": {"quick": 24, "thorough": 600}, "timeout": 900},
            {"bin": "c20", "name": "compat", "n": {"quick": 60, "thorough": 1500}, "timeout": 900}],
    rule="genesis: random consistent configurations (2..7 user accounts with ZNN/QSR and an optional third token, 0..4 pillars with delegations and legacy entries, 0..5 fusions with distinct (owner,id), 0..3 swap entries, optional spork section, optional entries of the plasma / pillar / swap / accelerator contracts; amounts 0, 1..10, up to 10^13); each one: CheckGenesis, construction, 3 permutations of every order-free list, a fresh child process (every 4th), genesis state through chain.Init (every 2nd), and ALL single-entry perturbations (balance +1 / token removed / undeclared token, supply +1, token removed, pillar stake +1 / removed, fusion +1 / removed / nil, swap entry without znn / qsr, swap contract holding 1, contract entry removed with supplies lowered, an entry split into two entries of one address, each section nil) through CheckGenesis; "
         "compat: database created with configuration A, chain.Init with B in {same, permuted, other chain id, other timestamp, other extra data, a perturbation of A, unrelated}; a case is distinct by (function, input)",
    explanation="Theorems: an account's patch does not depend on the order of its entries' writes when the written keys are distinct, and the sorted momentum content with the patches does not depend on the order of accounts or entries (so hash and state, functions of it, do not either); without distinct keys the order matters (refuted by a witness, the mock genesis has such fusions); an accepted configuration has pairwise distinct block addresses, the state balances of every declared token add up to its declared supply, every listed token is declared, and the plasma / pillar / swap contracts hold exactly the sum of fusions / pillar stakes / nothing in the genesis state; chain.Init succeeds iff the database is empty or its first momentum hash equals the configured genesis hash, and never changes the stored hash. "
                "Refuted for the code before fixes 47865a2 and 6ab94f1 (kept as lemmas): a contract with liabilities and no GenesisBlocks entry, and two entries for one address, passed CheckGenesis. "
                "Modelled: checkAccountBalance, CheckFieldsExist/PlasmaInfo/SwapAccount/PillarBalance/TokenTotalSupply as written, the write order of account_block.go with memdb Changes() (sorted, last write wins), the pool's first-block-wins rule, NewMomentumContent, checkGenesisCompatibility. The storage writes of each entry (its Save method) and SHA3 are inputs observed from the real code.",
    assumptions=["the genesis momentum hash and state are functions of (chain identifier, timestamp, extra data, sorted content with per-block patches): supervisor.GenerateGenesisMomentum applies the patches in content order (checked by the permutation / fresh-process oracles on hash and full state dump)",
                 "each configuration entry's Save method writes keys determined by the entry's identity (name, backer, key id hash, token standard, (owner,id), spork id); the writes are observed by running the real Save on a scratch store",
                 "nil amounts inside entries (a Go nil *big.Int) are outside the validator model: the real validators panic on them"],
    trusted_base=["goleveldb memdb iteration order = bytewise key order"],
)
META = dict(
    text="Machine-checked Coq theorems over all configurations: permutation invariance of the genesis construction by a canonical-form argument (sorted, last-write-wins store; sorted content), soundness of the validators as written (induction over the block list), and the start-up comparison; tied to /repo by comparing CheckGenesis verdicts on every single-entry perturbation, per-account patches byte for byte, content order, state balances and chain.Init results on every run. The tests pin two built-in configurations; a theorem covers every configuration and exposed two validator holes (fixed).",
    design_ref="DESIGN.md section 5, C20",
    note="Trusted: Coq kernel; constdump; harness; the Save encodings and SHA3 enter as observed inputs; the momentum-level state is a function of the sorted content with patches (assumption checked by oracles comparing the full state dump across permutations and processes). Duplicate identities inside a section other than GenesisBlocks (e.g. two fusions with the same (owner,id), present in the mock genesis) are accepted by CheckGenesis and make the order of entries matter: the invariance theorem carries the distinctness hypothesis. All theorems closed under the global context.",
    technique="Coq proof (Permutation / StronglySorted canonical forms, induction over lists, lia) + differential correspondence check + perturbation and restart oracles",
)
