import os, sys
sys.path.insert(0, os.path.dirname(os.path.dirname(os.path.abspath(__file__))))
from purefns import pure_fns

PROP = dict(
    props="Props/C12.v",
    tie={"modules": ["TieC12", "TiePure"],
         "fns": dict({"pow_check": ("pow_check_run", "pow_check_eqb", "(Z * bytes) * (bytes * bool)"),
                      "plasma_check": ("plasma_check_run", "plasma_check_eqb", "plasma_in * plasma_out"),
                      "base_plasma": ("base_plasma_run", "Z.eqb", "(bool * bool * bool * Z * Z) * Z")},
                     **pure_fns("DifficultyToPlasma", "GetDifficultyForPlasma", "FussedAmountToPlasma"))},
    suites=[{"bin": "c12", "name": "pow", "n": {"quick": 4000, "thorough": 60000}},
            {"bin": "c12", "name": "plasma", "n": {"quick": 12, "thorough": 150}},
            {"bin": "pure", "name": "pure", "n": {"quick": 1500, "thorough": 20000},
             "args": ["DifficultyToPlasma", "GetDifficultyForPlasma", "FussedAmountToPlasma"]}],
    rule="pow: difficulties from boundary classes (0..3, 2^k-1..2^k+1, 2^63+-2, 2^64-3.., around MaxDifficulty, random over the full range) x random nonces with the real SHA3 digest, plus crafted digests at threshold-2..threshold+2 through the real comparison; "
         "plasma: histories on a real node, candidate user sends with fused plasma in {0, base-1, base, avail, avail+1, cap+-1, random} x difficulty {0, valid PoW, claimed without work}; a case is distinct by (function, input); non-trivial = not tagged trivial",
    explanation="Theorems: the byte comparison is numeric >=; CheckPoWNonce accepts iff digest >= 2^64 - floor(2^64/d) for every d in [1,2^64); an accepted block has base <= total = fused + powPlasma <= cap and fused <= plasma(fused QSR) - plasma of unconfirmed blocks; by induction over any candidate sequence the pool never over-commits. "
                "Modelled: pow.getTargetByDifficulty/greaterDifficulty/CheckPoWNonce, vm.DifficultyToPlasma/FussedAmountToPlasma/AvailablePlasma/enoughPlasma, account.AddChainPlasma, verifier pow(). The base cost is modelled too (vm.GetBasePlasmaForAccountBlock; the per-method costs are dumped from the real method tables on every run). SHA3 and whether the called method exists under the acknowledged spork regime enter as observed inputs. Tier A (regenerated from source by go2coq on every run and proved EQUAL to the hand-written model: C12_*_is_the_source): getTargetByDifficulty, greaterDifficulty, DifficultyToPlasma, FussedAmountToPlasma, AvailablePlasma and enoughPlasma (store reads, GetBasePlasmaForAccountBlock, IsEmbeddedAddress and the result of AddChainPlasma are inputs of the translations); C12_source_accept_sound states the three conditions of the property directly about the translated enoughPlasma.",
    assumptions=["SHA3-256 digest is an input of the model (real digests are fed by the harness)",
                 "base plasma of the block (data length / embedded method table) is read from the implementation and passed to the model",
                 "0 <= committed <= uncommitted chain plasma (an invariant of the account store, checked on every observed state)"],
)
META = dict(
    text="Machine-checked Coq theorems over all difficulties in [1,2^64), all digests, all fused amounts and all candidate sequences (induction), about a Gallina model of pow.go / vm/plasma.go / enoughPlasma whose constants are re-dumped from /repo and whose outputs are compared with the real code on every run. A theorem covers the whole input space, which sampling difficulties cannot (the int64-cast defect at d >= 2^63 was found this way).",
    design_ref="DESIGN.md section 5, C12",
    note="Trusted: Coq kernel; constdump; the harness; SHA3 digest and base-plasma lookup are inputs of the model (observed from the real code). All theorems closed under the global context (no axioms).",
    technique="Coq proof (lia/nia over Z with explicit uint64 wrap, induction over candidate lists) + differential correspondence check",
)
