import os, sys
sys.path.insert(0, os.path.dirname(os.path.dirname(os.path.abspath(__file__))))
from purefns import pure_fns

PROP = dict(
    props="Props/C12.v",
    tie={"modules": ["TieC12", "TiePure"],
         "fns": dict({"pow_check": ("pow_check_run", "pow_check_eqb", "(Z * bytes) * (bytes * bool)"),
                      "plasma_check": ("plasma_check_run", "plasma_check_eqb", "plasma_in * plasma_out"),
                      "base_plasma": ("base_plasma_run", "Z.eqb", "(bool * bool * bool * Z * Z) * Z"),
                      "pool_trace": ("pool_trace_run", "pool_trace_eqb", "pool_in * list (Z * Z)")},
                     **pure_fns("DifficultyToPlasma", "GetDifficultyForPlasma", "FussedAmountToPlasma"))},
    suites=[{"bin": "c12", "name": "pow", "n": {"quick": 4000, "thorough": 60000}},
            {"bin": "c12", "name": "plasma", "n": {"quick": 12, "thorough": 150}},
            {"bin": "pure", "name": "pure", "n": {"quick": 1500, "thorough": 20000},
             "args": ["DifficultyToPlasma", "GetDifficultyForPlasma", "FussedAmountToPlasma"]}],
    rule="pow: difficulties from boundary classes (0..3, 2^k-1..2^k+1, 2^63+-2, 2^64-3.., around MaxDifficulty, random over the full range) x random nonces with the real SHA3 digest, plus crafted digests at threshold-2..threshold+2 through the real comparison; "
         "plasma: histories on a real node, candidate user sends (plain transfers with 0/1/10/100/300/1000/MaxDataLength-1/MaxDataLength/MaxDataLength+1 data bytes, valid calls of embedded methods of the cost classes 52500/73500/94500/105000, calls without a base cost, user receive blocks of what is waiting for the account) with fused plasma in {0, 1, base-1, base, base-pow, base-pow-1, avail, avail+1, cap+-1, random} around the base cost computed by the harness from the dumped method table / data length x difficulty {0, valid PoW, claimed without work} x unhashed fields BasePlasma/TotalPlasma left empty or preset by the sender to {0, 1, real-1, real, real+1, 21000, max, fused} x delivery through Supervisor.ApplyBlock / ChainBridge.AddAccountBlocks (gossip) / ledger.publishRawTransaction (JSON); "
         "pool histories: sequences of 3..7 unconfirmed blocks of one account between two momentums (accounts with 10.5M, with 21000..170000 plasma), the first one or two over-paying with fused plasma far above their base cost (with and without PoW), the others around what is left; the account's committed / uncommitted chain plasma read from the real stores after every candidate and replayed on the model (pool_trace); a case is distinct by (function, input); non-trivial = not tagged trivial",
    explanation="Theorems: the byte comparison is numeric >=; CheckPoWNonce accepts iff digest >= 2^64 - floor(2^64/d) for every d in [1,2^64); an accepted block has base <= total = fused + powPlasma <= cap and fused <= plasma(fused QSR) - plasma of unconfirmed blocks; by induction over any candidate sequence the pool never over-commits (C12_pool_accounting), also after every single step of it (C12_pool_trace_bounded), an accepted candidate books exactly its fused plasma and a refused one nothing (C12_pool_trace_step). "
                "Modelled: pow.getTargetByDifficulty/greaterDifficulty/CheckPoWNonce, vm.DifficultyToPlasma/FussedAmountToPlasma/AvailablePlasma/enoughPlasma, account.AddChainPlasma, verifier pow(). The base cost is modelled too (vm.GetBasePlasmaForAccountBlock; the per-method costs are dumped from the real method tables on every run). SHA3 and whether the called method exists under the acknowledged spork regime enter as observed inputs. Tier A (regenerated from source by go2coq on every run and proved EQUAL to the hand-written model: C12_*_is_the_source): getTargetByDifficulty, greaterDifficulty, DifficultyToPlasma, FussedAmountToPlasma, AvailablePlasma and enoughPlasma (store reads, GetBasePlasmaForAccountBlock, IsEmbeddedAddress and the result of AddChainPlasma are inputs of the translations; the ARGUMENT handed to AddChainPlasma is an output of the translation: C12_enough_plasma_is_the_source states that it is the block's FusedPlasma on the accepting path and that nothing is booked on a refusing one) and the addition of accountStore.AddChainPlasma (chain/account/plasma.go, C12_booked_amount_is_the_source); C12_source_accept_sound states the three conditions of the property and the booked amount directly about the translated enoughPlasma. "
                "Oracles (the base cost is computed by the harness from the dumped method table / the data length, never read from the block or from vm.GetBasePlasmaForAccountBlock): plasma-accept-sound, accepted-block-carries-real-plasma-fields, base-cost-by-type-data-method, base-cost-independent-of-unhashed-fields, block-without-base-cost-refused, chain-plasma-grows-by-fused-plasma, refused-block-books-no-plasma, chain-plasma-is-sum-of-unconfirmed-fused, unconfirmed-fused-plasma-within-fusion.",
    assumptions=["SHA3-256 digest is an input of the model (real digests are fed by the harness)",
                 "whether the called method exists under the spork regime of the acknowledged momentum is observed from the implementation (embedded.GetEmbeddedMethod) and passed to the model and to the harness's own base-cost computation",
                 "0 <= committed <= uncommitted chain plasma (an invariant of the account store, checked on every observed state)"],
)
META = dict(
    text="Machine-checked Coq theorems over all difficulties in [1,2^64), all digests, all fused amounts and all candidate sequences (induction), about a Gallina model of pow.go / vm/plasma.go / enoughPlasma whose constants are re-dumped from /repo and whose outputs are compared with the real code on every run. A theorem covers the whole input space, which sampling difficulties cannot (the int64-cast defect at d >= 2^63 was found this way).",
    design_ref="DESIGN.md section 5, C12",
    note="Trusted: Coq kernel; constdump; the harness; SHA3 digest and base-plasma lookup are inputs of the model (observed from the real code). All theorems closed under the global context (no axioms).",
    technique="Coq proof (lia/nia over Z with explicit uint64 wrap, induction over candidate lists) + differential correspondence check",
)
