import os, sys
sys.path.insert(0, os.path.dirname(os.path.abspath(__file__)))
PROP = dict(
    props="Props/C06.v",
    tie={"modules": ["Store", "StoreSpec", "TieC07"],
         "fns": {"store_run": ("store_run_run", "store_run_eqb", "(list op) * (list ans)")}},
    suites=[{"bin": "c07", "name": "reorg", "n": {"quick": 220, "thorough": 6000}}],
    rule="store-level reorganisations on a real LevelDB manager: sequences (60-100 ops) in which rollbacks are always taken when drawn, so that branches of depth 1..30 are abandoned and replaced, with views opened at every identifier before, during and after the switch (warm overlay cache), cache purges, stale parents; each answer compared with the model and with the map-per-version reference of the CURRENT chain; distinct = distinct sequence; non-trivial = contains a pop and a historical view",
    explanation="Theorems: rollback is an exact inverse (C06_pop_inverse: all later observations equal), a whole abandoned branch leaves no trace (C06_switch_equiv, induction over the branch), and with any interleaving of views/evictions the store answers like the specification whose chain after the switch is the adopted chain (refinement). Store level only: ledger state and every historical view. The unconfirmed pool and the consensus statistics after a node-level reorganisation are exercised by the C16/C02 harnesses (two real nodes) and are not part of this theorem.",
    assumptions=["well-formed operations (see C07)", "hash collision freedom", "goleveldb semantics"],
    trusted_base=["model/specification/refinement proof shared with C07 (coq/theories/Store*.v)"],
)
META = dict(
    text="Machine-checked: for every prefix history, every abandoned branch (any depth, any content) and every later operation sequence, the model of the versioned store answers exactly as if the branch had never been seen; proved through the refinement to a specification in which rollback is 'drop the head of the chain'. The defect that an overlay cached on the abandoned branch survived the switch was found by this theorem's proof obligation (cache validity is not preserved by Pop) and fixed in /repo.",
    design_ref="DESIGN.md section 5, C06",
    note="Proved at the level of the versioned store (ledger state + all historical views). Pool and consensus-statistics clauses are covered by differential two-node exploration elsewhere (C02/C16 harness), not by a theorem. Closed under the global context.",
    technique="Coq refinement proof + induction over branches; differential correspondence check on reorganisation sequences",
)
