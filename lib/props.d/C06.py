import os, sys
sys.path.insert(0, os.path.dirname(os.path.abspath(__file__)))
PROP = dict(
    props="Props/C06.v",
    tie={"modules": ["Points", "TiePoints", "Store", "StoreSpec", "TieC07", "TieC06"],   # Points first: Store.op / run shadow Points.op / run
         "fns": {"store_run": ("store_run_run", "store_run_eqb", "(list op) * (list ans)"),
                 "node_reorg": ("node_reorg_run", "Bool.eqb", "(Z * Z * Z) * bool"),
                 "points": ("points_run", "points_eqb", "(Z * Z * Z * list (Z * Z * elect) * mom * list top) * (list pres)")}},
    suites=[{"bin": "c07", "name": "reorg", "n": {"quick": 140, "thorough": 6000}},
            {"bin": "c07", "name": "deep", "n": {"quick": 4, "thorough": 60}},
            {"bin": "c06", "name": "nodereorg", "n": {"quick": 45, "thorough": 1500}},
            {"bin": "c06", "name": "points", "n": {"quick": 30, "thorough": 1200}}],
    rule="store-level reorganisations on a real LevelDB manager: sequences (60-100 ops) in which rollbacks are always taken when drawn, so that branches of depth 1..30 are abandoned and replaced, with views opened at every identifier before, during and after the switch (warm overlay cache), cache purges, stale parents; each answer compared with the model and with the map-per-version reference of the CURRENT chain; distinct = distinct sequence; non-trivial = contains a pop and a historical view; suite deep: chains of 368+ commits (beyond the 360-height threshold of the second overlay cache), views of the oldest commits before and after a switch of the top of the chain; suite nodereorg (node level): a generator node with real pillars produces prefix+B, is rolled back and produces a shorter branch A (fork depth 1..30, only some accounts active on A); receiver R gets prefix+A through ChainBridge.InsertChain, opens historical views at every height and receives unconfirmed blocks acknowledging A's frontier, then gets B; reference F gets prefix+B only; R and F are compared on frontier, full ledger dump, historical dumps at every height, unconfirmed pool, EpochStats of every epoch (epoch = 60 momentums), pillar weights, producer schedule of the next 12 slots, and again after a restart of R",
    explanation="Theorems: rollback is an exact inverse (C06_pop_inverse: all later observations equal), a whole abandoned branch leaves no trace (C06_switch_equiv, induction over the branch), and with any interleaving of views/evictions the store answers like the specification whose chain after the switch is the adopted chain (refinement). The theorem is at store level (ledger state and every historical view). Pool and consensus statistics after a node-level reorganisation are covered by the two-node differential suite nodereorg (oracles reorg-pool-differs, reorg-consensus-stats-differ, reorg-schedule-differs, reorg-ledger-state-differs, reorg-historical-view-differs), which is exploration, not proof.",
    assumptions=["well-formed operations (see C07)", "hash collision freedom", "goleveldb semantics"],
    trusted_base=["model/specification/refinement proof shared with C07 (coq/theories/Store*.v)"],
)
META = dict(
    text="Machine-checked: for every prefix history, every abandoned branch (any depth, any content) and every later operation sequence, the model of the versioned store answers exactly as if the branch had never been seen; proved through the refinement to a specification in which rollback is 'drop the head of the chain'. The defect that an overlay cached on the abandoned branch survived the switch was found by this theorem's proof obligation (cache validity is not preserved by Pop) and fixed in /repo.",
    design_ref="DESIGN.md section 5, C06",
    note="Proved at the level of the versioned store (ledger state + all historical views). Pool and consensus-statistics clauses are covered by differential two-node exploration elsewhere (C02/C16 harness), not by a theorem. Closed under the global context.",
    technique="Coq refinement proof + induction over branches; differential correspondence check on reorganisation sequences",
)
