#!/bin/bash
# Isolated mutation run (coordinator tool, never part of a registered check):
#   lib/mutrun.sh <seed_dir|patch.diff> <Cxx> [<Cyy> ...]
# Copies /verif (with its built .vo files) and a scratch worktree of /repo's HEAD with the patch applied under /tmp,
# points the copy's harness module and driver at that worktree, runs the quick checks there, prints their verdict
# lines, and removes everything. /repo and /verif themselves are never touched, so several runs can go in parallel.
set -u
export GOFLAGS=-mod=mod GOPROXY=off GOSUMDB=off GOTOOLCHAIN=local
src=$1; shift
[ "$src" = none ] && patch=none || { [ -d "$src" ] && patch="$(cd "$src" && pwd)/patch.diff" || patch="$(realpath "$src")"; }
D=$(mktemp -d /tmp/mut.XXXXXX)
cleanup() { git -C /repo worktree remove --force "$D/repo" >/dev/null 2>&1; rm -rf "$D"; git -C /repo worktree prune; }
trap cleanup EXIT
git -C /repo worktree add -q --detach "$D/repo" HEAD || exit 2
if [ "$src" = none ]; then :; elif [ "${MUT_REVERSE:-0}" = 1 ]; then git -C "$D/repo" apply -R "$patch" || exit 2; else git -C "$D/repo" apply "$patch" || exit 2; fi
mkdir -p "$D/verif"
rsync -a --exclude '.git' --exclude '.build/work_*' --exclude 'replays' --exclude '.build/seed_evidence' /verif/ "$D/verif/"
sed -i "s#=> /repo#=> $D/repo#" "$D/verif/harness/go.mod"
for p in "$@"; do
  (cd "$D/verif" && VERIF_REPO="$D/repo" ./check "$p" --tier "${MUT_TIER:-quick}" --seed "${MUT_SEED:-1}" 2>&1 \
     | grep -E "^(reason|VIOLATION|KNOWN|C[0-9][0-9] tier|ERROR)" | cut -c1-${MUT_COLS:-600})
  [ -n "${MUT_KEEP:-}" ] && mkdir -p "$MUT_KEEP" && cp -r "$D/verif/replays" "$D/verif/evidence/$p.json" "$MUT_KEEP/" 2>/dev/null
done
