#!/usr/bin/env python3
"""Automatic mutation sweep (coordinator tool; never part of a registered check).

  lib/mutsweep.py --prop C14 --files chain/account_pool.go [--funcs RE] [--per 40] [--workers 4] [--seed 1] [--tests]

Generates small syntactic mutants (lib/mutgen) of the given files of /repo's HEAD, and for each one runs the quick check
of the property in an isolated worker (a scratch worktree of /repo + a copy of /verif under /tmp/mutw/<k>, so /repo and
/verif are never touched). A mutant is KILLED when the check exits 1 with a VIOLATION line; a mutant that does not
compile is discarded. With --tests, the package tests of the mutated file are run for the survivors (a survivor that the
repository's own tests kill is of little interest). Results: .build/mutsweep/<prop>.jsonl (+ summary on stdout).
"""
import argparse, json, os, random, re, shutil, subprocess, sys, threading, time, queue

VERIF = os.path.dirname(os.path.dirname(os.path.abspath(__file__)))
GOENV = dict(os.environ, GOFLAGS="-mod=mod", GOPROXY="off", GOSUMDB="off", GOTOOLCHAIN="local")
ROOT = "/tmp/mutw"

def sh(cmd, cwd=None, env=None, timeout=None):
    p = subprocess.run(cmd, cwd=cwd, env=env, shell=isinstance(cmd, str), stdout=subprocess.PIPE, stderr=subprocess.STDOUT,
                       text=True, timeout=timeout)
    return p.returncode, p.stdout

def setup_worker(k):
    d = os.path.join(ROOT, str(k))
    repo, ver = os.path.join(d, "repo"), os.path.join(d, "verif")
    os.makedirs(d, exist_ok=True)
    if not os.path.isdir(repo):
        sh("git -C /repo worktree prune")
        rc, out = sh(["git", "-C", "/repo", "worktree", "add", "-q", "--detach", repo, "HEAD"])
        if rc:
            raise SystemExit(out)
    else:
        sh("git checkout -q --detach %s && git checkout -- ." % subprocess.check_output(["git", "-C", "/repo", "rev-parse", "HEAD"], text=True).strip(), cwd=repo)
    sh(["rsync", "-a", "--delete", "--exclude", ".git", "--exclude", ".build/work_*", "--exclude", "replays", "--exclude", ".build/mutsweep",
        "--exclude", ".build/seed_evidence", VERIF + "/", ver + "/"])
    sh(["sed", "-i", "s#=> /repo#=> %s#" % repo, os.path.join(ver, "harness", "go.mod")])
    return d

def run_mutant(d, prop, m, tests, tier_seed):
    repo, ver = os.path.join(d, "repo"), os.path.join(d, "verif")
    path = os.path.join(repo, m["file"])
    src = open(path, "rb").read()
    try:
        open(path, "wb").write(src[:m["off"]] + m["repl"].encode() + src[m["off"] + m["len"]:])
        pkg = "./" + os.path.dirname(m["file"])
        rc, out = sh(["go", "build", pkg], cwd=repo, env=GOENV, timeout=900)
        if rc != 0:
            return {"status": "nocompile"}
        t0 = time.time()
        rc, out = sh(["./check", prop, "--tier", "quick", "--seed", str(tier_seed)], cwd=ver,
                     env=dict(GOENV, VERIF_REPO=repo), timeout=1500)
        res = {"wall": round(time.time() - t0)}
        lines = [l for l in out.split("\n") if re.match(r"^(reason|VIOLATION|ERROR|C\d\d tier)", l)]
        res["lines"] = [l[:300] for l in lines][:4]
        if rc == 1 and any(l.startswith("VIOLATION") for l in lines):
            res["status"] = "killed"
            res["nofail"] = any("no-failing-input-found" in l for l in lines)
        elif rc == 0:
            res["status"] = "survived"
            if tests:
                rc2, out2 = sh(["go", "test", "-vet=off", "-count=1", "-timeout", "20m", pkg], cwd=repo, env=GOENV, timeout=1500)
                res["pkgtests"] = "pass" if rc2 == 0 else "fail"
        else:
            res["status"] = "error"
            res["tail"] = out[-600:]
        return res
    except subprocess.TimeoutExpired:
        return {"status": "timeout"}
    finally:
        open(path, "wb").write(src)

def main():
    ap = argparse.ArgumentParser()
    ap.add_argument("--prop", required=True)
    ap.add_argument("--files", nargs="+", required=True)
    ap.add_argument("--funcs", default="")
    ap.add_argument("--kinds", default="")
    ap.add_argument("--per", type=int, default=40)
    ap.add_argument("--workers", type=int, default=4)
    ap.add_argument("--seed", type=int, default=1)
    ap.add_argument("--tests", action="store_true")
    a = ap.parse_args()
    mg = os.path.join(VERIF, ".build", "mutgen")
    if not os.path.exists(mg):
        rc, out = sh(["go", "build", "-o", mg, "."], cwd=os.path.join(VERIF, "lib", "mutgen"), env=GOENV)
        if rc:
            raise SystemExit(out)
    cmd = [mg]
    if a.funcs:
        cmd += ["-funcs", a.funcs]
    out = subprocess.check_output(cmd + a.files, text=True)
    muts = [json.loads(l) for l in out.split("\n") if l.strip()]
    muts = [m for m in muts if not re.search(r"\blog\.|\.Debug\(|\.Info\(|\.Error\(|\.Warn\(|fmt\.Sprintf|errors\.Errorf", m["orig"]) or not m["kind"].startswith("drop")]
    muts = [m for m in muts if not (m["kind"] == "drop-call" and re.search(r"log|Log|Debug|Info\(|Warn\(|Printf", m["orig"]))]
    if a.kinds:
        muts = [m for m in muts if re.search(a.kinds, m["kind"])]
    random.Random(a.seed).shuffle(muts)
    muts = muts[:a.per]
    print("%d mutants selected" % len(muts), flush=True)
    q = queue.Queue()
    for m in muts:
        q.put(m)
    os.makedirs(os.path.join(VERIF, ".build", "mutsweep"), exist_ok=True)
    outp = open(os.path.join(VERIF, ".build", "mutsweep", a.prop + ".jsonl"), "a")
    lock = threading.Lock()
    stats = {}
    def worker(k):
        d = setup_worker("%s_%d" % (a.prop, k))
        while True:
            try:
                m = q.get_nowait()
            except queue.Empty:
                return
            r = run_mutant(d, a.prop, m, a.tests, a.seed)
            with lock:
                stats[r["status"]] = stats.get(r["status"], 0) + 1
                rec = dict(m, **r)
                outp.write(json.dumps(rec) + "\n"); outp.flush()
                print("%-9s %s:%d %s [%s]  %s" % (r["status"], m["file"], m["line"], m["kind"], m["func"], m["orig"][:90]) +
                      ("  pkgtests=" + r["pkgtests"] if "pkgtests" in r else ""), flush=True)
    ths = [threading.Thread(target=worker, args=(k,)) for k in range(a.workers)]
    for t in ths: t.start()
    for t in ths: t.join()
    print("summary", a.prop, stats)

main()
