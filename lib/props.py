"""Per-property configuration of ./check: one file per property in lib/props.d/Cxx.py defining PROP and META."""
import glob, importlib.util, os, sys

HERE = os.path.dirname(os.path.abspath(__file__))

COMMON_TB = [
    "Coq 8.16.1 kernel (coqc, full .vo build; thorough tier re-checks with coqchk); no native_compute; vm_compute only in Examples, refutation witnesses, finite sweeps and the in-Coq evaluation of the model on harness cases",
    "Tier A: constants in coq/gen/Consts.v are printed by a Go program linked against /repo on every run (harness/cmd/constdump); functions in coq/gen/Pure.v are translated from /repo's source by go2coq on every run",
    "Tier B: hand-written Gallina model, tied to /repo by the correspondence check (Go harness runs the real code, the model is evaluated inside Coq by vm_compute on the same inputs, outputs compared)",
    "Go harness generators/canonicalisers and the Go property oracle (used only to search for a failing input)",
]

PROPS, META = {}, {}
for f in sorted(glob.glob(os.path.join(HERE, "props.d", "C*.py"))):
    spec = importlib.util.spec_from_file_location("propsd_" + os.path.basename(f)[:-3], f)
    m = importlib.util.module_from_spec(spec)
    spec.loader.exec_module(m)
    pid = os.path.basename(f)[:-3]
    cfg = dict(m.PROP)
    cfg.setdefault("allowed_axioms", [])
    cfg["trusted_base"] = COMMON_TB + cfg.get("trusted_base", [])
    PROPS[pid] = cfg
    META[pid] = m.META

def setup():
    sys.path.insert(0, HERE)
    import driver
    log = []
    bins = sorted(set(su["bin"] for c in PROPS.values() for su in c["suites"]))
    ok, out = driver.build_go(log, bins)
    if not ok:
        print(out); return 1
    probs = driver.regen(log)
    if probs:
        print("\n".join(probs))
    # build every claimed property's targets; a failure here is reported by the property's own check
    targets = []
    for c in PROPS.values():
        targets.append(c["props"] + "o")
        targets += ["theories/%s.vo" % m for m in c["tie"]["modules"]]
    okm, out = driver.make_targets(sorted(set(targets)), log)
    print(out[-3000:])
    return 0
