"""Per-property configuration of ./check."""
import os, subprocess, sys

COMMON_TB = [
    "Coq 8.16.1 kernel (coqc, full .vo build; thorough tier re-checks with coqchk); no native_compute; vm_compute only in Examples, refutation witnesses and the in-Coq evaluation of the model on harness cases",
    "Tier A: constants in coq/gen/Consts.v are printed by a Go program linked against /repo on every run (harness/constdump.go); functions in coq/gen/Pure.v are translated from /repo's source by go2coq on every run",
    "Tier B: hand-written Gallina model, tied to /repo by the correspondence check (Go harness runs the real code, the model is evaluated inside Coq by vm_compute on the same inputs, outputs compared)",
    "Go harness generators/canonicalisers and the Go property oracle (used only to search for a failing input)",
]

def P(**kw):
    kw.setdefault("allowed_axioms", [])
    kw["trusted_base"] = COMMON_TB + kw.get("trusted_base", [])
    return kw

PROPS = {}

PROPS["C12"] = P(
    props="Props/C12.v",
    tie={"modules": ["TieC12"],
         "fns": {"pow_check": ("pow_check_run", "pow_check_eqb", "(Z * bytes) * (bytes * bool)"),
                 "plasma_check": ("plasma_check_run", "plasma_check_eqb", "plasma_in * plasma_out")}},
    suites=[{"name": "pow", "n": {"quick": 4000, "thorough": 60000}},
            {"name": "plasma", "n": {"quick": 12, "thorough": 150}}],
    rule="pow: difficulties from boundary classes (0..3, 2^k-1..2^k+1, 2^63+-2, 2^64-3.., around MaxDifficulty, random over the full range) x random nonces with the real SHA3 digest, plus crafted digests at threshold-2..threshold+2 through the real comparison; "
         "plasma: histories on a real node, candidate user sends with fused plasma in {0, base-1, base, avail, avail+1, cap+-1, random} x difficulty {0, valid PoW, claimed without work}; a case is distinct by (function, input); non-trivial = not tagged trivial",
    explanation="Theorems: the byte comparison is numeric >=; CheckPoWNonce accepts iff digest >= 2^64 - floor(2^64/d) for every d in [1,2^64); an accepted block has base <= total = fused + powPlasma <= cap and fused <= plasma(fused QSR) - plasma of unconfirmed blocks; by induction over any candidate sequence the pool never over-commits. "
                "Modelled: pow.getTargetByDifficulty/greaterDifficulty/CheckPoWNonce, vm.DifficultyToPlasma/FussedAmountToPlasma/AvailablePlasma/enoughPlasma, account.AddChainPlasma, verifier pow(). SHA3 and the base-plasma lookup (method table) enter as observed inputs.",
    assumptions=["SHA3-256 digest is an input of the model (real digests are fed by the harness)",
                 "base plasma of the block (data length / embedded method table) is read from the implementation and passed to the model",
                 "0 <= committed <= uncommitted chain plasma (an invariant of the account store, checked on every observed state)"],
)

def setup():
    here = os.path.dirname(os.path.dirname(os.path.abspath(__file__)))
    sys.path.insert(0, os.path.join(here, "lib"))
    import driver
    log = []
    ok, out = driver.build_go(log)
    if not ok:
        print(out); return 1
    probs = driver.regen(log)
    if probs:
        print("\n".join(probs))
    okm, out = driver.make_targets([], log)
    print(out[-3000:])
    return 0 if okm else 1
