#!/usr/bin/env python3
"""Regenerate MANIFEST.json from lib/props.py + lib/manifest_meta.py."""
import json, os, sys
here = os.path.dirname(os.path.abspath(__file__))
sys.path.insert(0, here)
import props, manifest_meta as mm

checks = []
for pid in sorted(props.PROPS):
    meta = props.META[pid]
    checks.append({
        "property_id": pid,
        "quick_cmd": "./check %s --tier quick" % pid,
        "thorough_cmd": "./check %s --tier thorough" % pid,
        "evidence_file": "/verif/evidence/%s.json" % pid,
        "replay_cmd_template": "./check %s --replay {path}" % pid,
        "engine": "coq-proof+correspondence",
        "level_claimed": {"category": "proof", "text": meta["text"], "design_ref": meta["design_ref"]},
        "level_note": meta["note"],
        "technique": meta["technique"],
    })
claimed = set(props.PROPS)
allp = [json.loads(l)["id"] for l in open(os.path.join(here, "..", "properties.jsonl"))]
na = [{"property_id": p, "reason": mm.NOT_YET.get(p, "check not built yet in this revision; planned in DESIGN.md section 5")}
      for p in allp if p not in claimed]
m = {
    "version": 1,
    "setup_cmd": "./check setup",
    "hooks": {
        "guard": "verif",
        "enable": "go build -tags verif (the harness module /verif/harness replaces github.com/zenon-network/go-zenon by /repo and is built with -tags verif on every run)",
        "baseline_off_cmd": "cd /repo && go test -mod=mod -json -vet=off -count=1 -timeout 25m ./...",
        "source_commits": [h for h in __import__("subprocess").run("git -C /repo log --format=%h --grep='verif hook'", shell=True, capture_output=True, text=True).stdout.split()] or mm.HOOK_COMMITS,
        "add_only": True,
    },
    "engines": [{
        "name": "coq-proof+correspondence", "path": "/verif/check",
        "serves_properties": sorted(claimed),
        "kind_free_text": "Coq 8.16.1 theorems about executable Gallina models (coq/theories, coq/Props); models tied to /repo on every run by regenerated constants/functions (Tier A) and by a differential correspondence check (Go harness vs in-Coq vm_compute evaluation, Tier B)",
    }],
    "checks": checks,
    "not_applicable": na,
    "notes": "All checks: ./check <id> [--tier quick|thorough] [--seed N]; VERIF_SEED / VERIF_TIER honoured. Fix commits and findings: known_findings.json. See DESIGN.md.",
}
json.dump(m, open(os.path.join(here, "..", "MANIFEST.json"), "w"), indent=1)
print("MANIFEST.json: %d checks, %d not claimed" % (len(checks), len(na)))

import glob
kf = {"findings": [], "fixed": []}
for p in sorted(glob.glob(os.path.join(here, "..", "known_findings.d", "*.json"))):
    d = json.load(open(p))
    kf["findings"] += d.get("findings", [])
    kf["fixed"] += d.get("fixed", [])
json.dump(kf, open(os.path.join(here, "..", "known_findings.json"), "w"), indent=1)
