#!/usr/bin/env python3
"""lib/mkseedtable.py <suffixes, e.g. 7,8>  — markdown rows (seeded | what | first run | now caught by) from seeded/*/meta.json"""
import json, glob, os, sys
V = os.path.dirname(os.path.dirname(os.path.abspath(__file__)))
suf = sys.argv[1].split(",")
rnd = sys.argv[2] if len(sys.argv) > 2 else ""
rows = []
for d in sorted(glob.glob(os.path.join(V, "seeded", "C*_*"))):
    name = os.path.basename(d)
    if name.split("_")[1] not in suf:
        continue
    m = json.load(open(os.path.join(d, "meta.json")))
    if rnd:
        if str(m.get("round", "")) != rnd:
            continue
    elif m.get("round") in (7, 8, 9, 10):
        continue
    c = m.get("confirmed_by_coordinator", {})
    what = " ".join(m.get("summary", "").split())
    what = what[:230] + ("…" if len(what) > 230 else "")
    res = " ".join(c.get("check_result", "").split())
    res = res[:330] + ("…" if len(res) > 330 else "")
    rows.append("| %s | %s | %s | %s — %s |" % (name, what.replace("|", "/"), c.get("first_run", "?"), ", ".join(c.get("caught_by", [])) or "—", res.replace("|", "/")))
print("| seeded | what | first run | now caught by |\n|--------|------|-----------|---------------|")
print("\n".join(rows))
