"""Tie entries for the go2coq-translated functions (module TiePure), shared by several properties."""
PURE_FNS = {
    "GetRange": ("GetRange_run", "zz_eqb", "(Z * Z * Z) * (Z * Z)"),
    "DifficultyToPlasma": ("DifficultyToPlasma_run", "Z.eqb", "Z * Z"),
    "GetDifficultyForPlasma": ("GetDifficultyForPlasma_run", "zz_eqb", "Z * (Z * Z)"),
    "FussedAmountToPlasma": ("FussedAmountToPlasma_run", "Z.eqb", "Z * Z"),
    "NetworkZnnRewardPerEpoch": ("NetworkZnnRewardPerEpoch_run", "Z.eqb", "Z * Z"),
    "NetworkQsrRewardPerEpoch": ("NetworkQsrRewardPerEpoch_run", "Z.eqb", "Z * Z"),
    "PillarRewardPerMomentum": ("PillarRewardPerMomentum_run", "zz_eqb", "Z * (Z * Z)"),
    "SentinelRewardForEpoch": ("SentinelRewardForEpoch_run", "zz_eqb", "Z * (Z * Z)"),
    "LiquidityRewardForEpoch": ("LiquidityRewardForEpoch_run", "zz_eqb", "Z * (Z * Z)"),
    "StakeQsrRewardPerEpoch": ("StakeQsrRewardPerEpoch_run", "Z.eqb", "Z * Z"),
    "PillarGetRevokeStatus": ("PillarGetRevokeStatus_run", "bz_eqb", "(Z * Z) * (bool * Z)"),
    "GetSentinelRevokeStatus": ("GetSentinelRevokeStatus_run", "bz_eqb", "(Z * Z) * (bool * Z)"),
}
def pure_fns(*names):
    return {n: PURE_FNS[n] for n in names}
