#!/bin/bash
# Mutation-testing helper for the coordinator (never run by a registered check).
#   lib/seedtest.sh confirm <seed_dir> <demo_src> <demo_dest_rel> <go test args...>
#       scratch worktree of /repo HEAD under /tmp: demo without patch must PASS, with patch must FAIL, go build ok.
#   lib/seedtest.sh suite <seed_dir> <pkgs...>
#       scratch worktree with the patch applied: go test of the given packages (default ./...) must pass.
#   lib/seedtest.sh run <seed_dir> <Cxx> [<Cyy> ...]
#       apply patch.diff to /repo, run ./check Cxx --tier quick for each id, ALWAYS revert /repo afterwards.
set -u
export GOFLAGS=-mod=mod GOPROXY=off GOSUMDB=off GOTOOLCHAIN=local
cmd=$1; shift
sd=$(cd "$1" && pwd); shift
case "$cmd" in
confirm)
  src=$1; dest=$2; shift 2
  WT=$(mktemp -d /tmp/seedconf.XXXX)
  git -C /repo worktree add -q --detach "$WT" HEAD || exit 2
  mkdir -p "$WT/$(dirname "$dest")"; cp "$sd/$src" "$WT/$dest"
  (cd "$WT" && go test -vet=off -count=1 "$@" > "$WT/.without.log" 2>&1); r0=$?
  (cd "$WT" && git apply "$sd/patch.diff" && go build ./... ) > "$WT/.build.log" 2>&1; rb=$?
  (cd "$WT" && go test -vet=off -count=1 "$@" > "$WT/.with.log" 2>&1); r1=$?
  [ $r0 -ne 0 ] && tail -15 "$WT/.without.log"
  [ $rb -ne 0 ] && tail -15 "$WT/.build.log"
  grep -E "^\s+\S+_test.go:|^--- FAIL|^FAIL|^ok" "$WT/.with.log" | head -6 | cut -c1-300
  echo "CONFIRM $(basename "$(dirname "$sd")")/$(basename "$sd"): without rc=$r0 (want 0)  build rc=$rb (want 0)  with rc=$r1 (want !=0)"
  git -C /repo worktree remove --force "$WT"
  ;;
suite)
  WT=$(mktemp -d /tmp/seedsuite.XXXX)
  git -C /repo worktree add -q --detach "$WT" HEAD || exit 2
  (cd "$WT" && git apply "$sd/patch.diff" && go build ./... && go test -vet=off -count=1 -timeout 25m "${@:-./...}" 2>&1 | grep -v "no test files" | tail -30)
  echo "suite rc=${PIPESTATUS[0]}"
  git -C /repo worktree remove --force "$WT"
  ;;
run)
  if [ -n "$(git -C /repo status --porcelain --untracked-files=no)" ]; then echo "/repo not clean"; exit 2; fi
  trap 'git -C /repo checkout -- . ; git -C /repo clean -fdq -- . >/dev/null 2>&1; echo reverted' EXIT
  git -C /repo apply "$sd/patch.diff" || exit 2
  for p in "$@"; do
    (cd /verif && VERIF_EVIDENCE_DIR=/verif/.build/seed_evidence ./check "$p" --tier quick 2>&1 | grep -E "^(reason|VIOLATION|KNOWN|C[0-9][0-9] tier|ERROR)" | cut -c1-700)
  done
  ;;
esac
