package embx

import (
	"encoding/binary"
	"fmt"
	"math/big"
	"math/rand"
	"reflect"
	"sort"
	"strings"
	. "zharness/hz"

	"github.com/zenon-network/go-zenon/common/types"
	"github.com/zenon-network/go-zenon/vm/abi"
	"github.com/zenon-network/go-zenon/vm/embedded/definition"
)

type namedABI struct {
	Name string
	ABI  abi.ABIContract
}

var allABIs = []namedABI{
	{"common", definition.ABICommon}, {"pillars", definition.ABIPillars}, {"token", definition.ABIToken},
	{"plasma", definition.ABIPlasma}, {"stake", definition.ABIStake}, {"sentinel", definition.ABISentinel},
	{"swap", definition.ABISwap}, {"spork", definition.ABISpork}, {"accelerator", definition.ABIAccelerator},
	{"liquidity", definition.ABILiquidity}, {"bridge", definition.ABIBridge}, {"htlc", definition.ABIHtlc},
}

func methodNames(a abi.ABIContract) []string {
	var ns []string
	for n := range a.Methods {
		ns = append(ns, n)
	}
	sort.Strings(ns)
	return ns
}

// ---- abi.Type -> model term (Abi.ty)
func typeTerm(t abi.Type) interface{} {
	switch t.T {
	case abi.IntTy:
		return Con("TInt", I64(int64(t.Size)))
	case abi.UintTy:
		return Con("TUint", I64(int64(t.Size)))
	case abi.BoolTy:
		return Con("TBool")
	case abi.StringTy:
		return Con("TString")
	case abi.BytesTy:
		return Con("TBytes")
	case abi.AddressTy:
		return Con("TAddress")
	case abi.TokenStandardTy:
		return Con("TZts")
	case abi.HashTy:
		return Con("THash")
	case abi.FixedBytesTy:
		return Con("TFixed", I64(int64(t.Size)))
	case abi.SliceTy:
		return Con("TSlice", typeTerm(*t.Elem))
	case abi.ArrayTy:
		return Con("TArray", I64(int64(t.Size)), typeTerm(*t.Elem))
	}
	panic("unknown abi type")
}
func typesTerm(args abi.Arguments) []interface{} {
	r := Lst()
	for _, a := range args {
		r = append(r, typeTerm(a.Type))
	}
	return r
}

// ---- decoded Go value -> model term (Abi.val)
func valTerm(v reflect.Value) interface{} {
	if v.Type() == reflect.TypeOf(&big.Int{}) {
		return Con("VInt", Big(v.Interface().(*big.Int)))
	}
	switch v.Kind() {
	case reflect.Uint8, reflect.Uint16, reflect.Uint32, reflect.Uint64:
		return Con("VInt", U64(v.Uint()))
	case reflect.Int8, reflect.Int16, reflect.Int32, reflect.Int64:
		return Con("VInt", I64(v.Int()))
	case reflect.Bool:
		return Con("VBool", v.Bool())
	case reflect.String:
		return Con("VBytes", Byt([]byte(v.String())))
	case reflect.Array:
		if v.Type().Elem().Kind() == reflect.Uint8 {
			b := make([]byte, v.Len())
			for i := range b {
				b[i] = byte(v.Index(i).Uint())
			}
			return Con("VBytes", Byt(b))
		}
		l := Lst()
		for i := 0; i < v.Len(); i++ {
			l = append(l, valTerm(v.Index(i)))
		}
		return Con("VList", l)
	case reflect.Slice:
		if v.Type().Elem().Kind() == reflect.Uint8 {
			return Con("VBytes", Byt(v.Bytes()))
		}
		l := Lst()
		for i := 0; i < v.Len(); i++ {
			l = append(l, valTerm(v.Index(i)))
		}
		return Con("VList", l)
	case reflect.Interface, reflect.Ptr:
		return valTerm(v.Elem())
	}
	panic(fmt.Sprintf("valTerm: unsupported %v", v.Type()))
}
func valsTerm(vs []interface{}) []interface{} {
	r := Lst()
	for _, v := range vs {
		r = append(r, valTerm(reflect.ValueOf(v)))
	}
	return r
}

// ---- boundary value generators
var bigBoundary = func() []*big.Int {
	p := func(k uint) *big.Int { return new(big.Int).Lsh(big.NewInt(1), k) }
	m1 := func(x *big.Int) *big.Int { return new(big.Int).Sub(x, big.NewInt(1)) }
	return []*big.Int{big.NewInt(0), big.NewInt(1), big.NewInt(2), m1(p(63)), p(63), m1(p(64)), p(64), m1(p(255)), p(255), m1(p(256)),
		big.NewInt(100000000), big.NewInt(1000000000000), new(big.Int).Add(p(128), big.NewInt(7))}
}()

func genBig(rng *rand.Rand) *big.Int {
	if rng.Intn(4) == 0 {
		b := make([]byte, 1+rng.Intn(32))
		rng.Read(b)
		return new(big.Int).SetBytes(b)
	}
	return new(big.Int).Set(bigBoundary[rng.Intn(len(bigBoundary))])
}
func genString(rng *rand.Rand) string {
	switch rng.Intn(7) {
	case 0:
		return ""
	case 1:
		return "a"
	case 2:
		return strings.Repeat("x", 31+rng.Intn(3))
	case 3:
		return strings.Repeat("Zz", 20+rng.Intn(100))
	case 4:
		return "tok-" + fmt.Sprint(rng.Intn(1000))
	case 5:
		return "\x00\xffé世"
	}
	b := make([]byte, rng.Intn(70))
	rng.Read(b)
	return string(b)
}

// genValue builds a Go value acceptable to Pack for the abi type
func genValue(rng *rand.Rand, t abi.Type) interface{} {
	switch t.T {
	case abi.UintTy:
		switch t.Kind {
		case reflect.Uint8:
			return uint8(BoundaryU64(rng))
		case reflect.Uint16:
			return uint16(BoundaryU64(rng))
		case reflect.Uint32:
			return uint32(BoundaryU64(rng))
		case reflect.Uint64:
			return BoundaryU64(rng)
		}
		return genBig(rng)
	case abi.IntTy:
		switch t.Kind {
		case reflect.Int8:
			return int8(BoundaryU64(rng))
		case reflect.Int16:
			return int16(BoundaryU64(rng))
		case reflect.Int32:
			return int32(BoundaryU64(rng))
		case reflect.Int64:
			return int64(BoundaryU64(rng))
		}
		return genBig(rng)
	case abi.BoolTy:
		return rng.Intn(2) == 0
	case abi.StringTy:
		return genString(rng)
	case abi.BytesTy:
		return []byte(genString(rng))
	case abi.AddressTy:
		var a types.Address
		rng.Read(a[:])
		if rng.Intn(3) == 0 {
			a = types.EmbeddedContracts[rng.Intn(len(types.EmbeddedContracts))]
		}
		return a
	case abi.TokenStandardTy:
		var z types.ZenonTokenStandard
		switch rng.Intn(3) {
		case 0:
			z = types.ZnnTokenStandard
		case 1:
			z = types.QsrTokenStandard
		default:
			rng.Read(z[:])
		}
		return z
	case abi.HashTy:
		var h types.Hash
		if rng.Intn(4) != 0 {
			rng.Read(h[:])
		}
		return h
	case abi.SliceTy:
		n := rng.Intn(4)
		s := reflect.MakeSlice(t.Type, n, n)
		for i := 0; i < n; i++ {
			s.Index(i).Set(reflect.ValueOf(genValue(rng, *t.Elem)))
		}
		return s.Interface()
	case abi.ArrayTy:
		s := reflect.New(t.Type).Elem()
		for i := 0; i < t.Size; i++ {
			s.Index(i).Set(reflect.ValueOf(genValue(rng, *t.Elem)))
		}
		return s.Interface()
	}
	panic("genValue: unsupported type " + t.String())
}

func word(x *big.Int) []byte {
	b := x.Bytes()
	if len(b) > 32 {
		b = b[len(b)-32:]
	}
	w := make([]byte, 32)
	copy(w[32-len(b):], b)
	return w
}
func wordU(x uint64) []byte {
	w := make([]byte, 32)
	binary.BigEndian.PutUint64(w[24:], x)
	return w
}

// hostile words for offsets / lengths, relative to the argument area length n
func hostileWord(rng *rand.Rand, n int) []byte {
	p := func(k uint) *big.Int { return new(big.Int).Lsh(big.NewInt(1), k) }
	add := func(x *big.Int, d int64) *big.Int { return new(big.Int).Add(x, big.NewInt(d)) }
	switch rng.Intn(16) {
	case 0:
		return wordU(0)
	case 1:
		return wordU(uint64(rng.Intn(64)))
	case 2:
		return wordU(uint64(n))
	case 3:
		return wordU(uint64(n) - uint64(rng.Intn(70)))
	case 4:
		return wordU(uint64(n) + uint64(rng.Intn(70)))
	case 5:
		return word(add(p(63), int64(rng.Intn(70))-35))
	case 6:
		return word(add(p(64), int64(rng.Intn(70))-35))
	case 7:
		return word(add(p(256), -int64(rng.Intn(70))-1))
	case 8:
		return word(add(p(255), int64(rng.Intn(5))-2))
	case 9:
		return word(add(p(31), int64(rng.Intn(70))-35))
	case 10:
		return word(add(p(32), int64(rng.Intn(70))-35))
	case 11:
		return wordU(uint64(n) / 32 * 32)
	case 12:
		return wordU(uint64(rng.Intn(n+1)) / 32 * 32)
	case 13: // 2^63 - 32 - small: offset+32 just below the int64 limit
		return word(add(p(63), -32-int64(rng.Intn(40))))
	case 14: // 2^64 - small: wraps as uint64
		return word(add(p(64), -int64(rng.Intn(100))))
	}
	b := make([]byte, 32)
	rng.Read(b)
	return b
}

// mutate returns a hostile variant of canonical call data (selector + args)
func mutate(rng *rand.Rand, data []byte, nargs int) ([]byte, string) {
	d := append([]byte{}, data...)
	body := len(d) - 4
	switch rng.Intn(12) {
	case 0:
		return d, "canonical"
	case 1: // truncated
		if len(d) == 0 {
			return d, "canonical"
		}
		cut := []int{0, 1, 3, 4, 5, 4 + 31, 4 + 32, len(d) - 1, len(d) - 31, len(d) - 32, len(d) - 33, rng.Intn(len(d))}[rng.Intn(12)]
		if cut < 0 {
			cut = 0
		}
		if cut > len(d) {
			cut = len(d)
		}
		return d[:cut], "truncated"
	case 2: // bad selector
		if len(d) >= 4 {
			d[rng.Intn(4)] ^= byte(1 << uint(rng.Intn(8)))
		}
		return d, "bad-selector"
	case 3, 4, 5: // hostile head word (offset of a dynamic arg / value of a static one)
		if body >= 32 {
			k := rng.Intn(body / 32)
			if nargs > 0 && rng.Intn(2) == 0 {
				k = rng.Intn(nargs)
			}
			if 4+32*k+32 <= len(d) {
				copy(d[4+32*k:], hostileWord(rng, body))
			}
		}
		return d, "hostile-word"
	case 6: // non canonical padding: garbage into the high bytes of some word
		if body >= 32 {
			k := rng.Intn(body / 32)
			n := 1 + rng.Intn(24)
			rng.Read(d[4+32*k : 4+32*k+n])
		}
		return d, "noncanonical-padding"
	case 7: // trailing garbage
		ex := make([]byte, 1+rng.Intn(70))
		rng.Read(ex)
		return append(d, ex...), "trailing"
	case 8: // random bytes behind a valid selector
		ex := make([]byte, rng.Intn(200))
		rng.Read(ex)
		if len(d) >= 4 {
			return append(d[:4], ex...), "random-body"
		}
		return ex, "random-body"
	case 9: // two hostile words
		if body >= 64 {
			for j := 0; j < 2; j++ {
				k := rng.Intn(body / 32)
				copy(d[4+32*k:], hostileWord(rng, body))
			}
		}
		return d, "hostile-word"
	case 10: // shifted: drop or insert one word in the middle
		if body >= 32 {
			k := rng.Intn(body / 32)
			if rng.Intn(2) == 0 {
				return append(d[:4+32*k], d[4+32*k+32:]...), "word-dropped"
			}
			ins := hostileWord(rng, body)
			return append(d[:4+32*k], append(ins, d[4+32*k:]...)...), "word-inserted"
		}
		return d, "canonical"
	}
	// point a dynamic offset at another offset word / itself
	if body >= 32 && nargs > 0 {
		k := rng.Intn(nargs)
		if 4+32*k+32 <= len(d) {
			copy(d[4+32*k:], wordU(uint64(32*rng.Intn(nargs+1))))
		}
	}
	return d, "aliased-offset"
}

func reflectMakeSlice(t abi.Type, n int) reflect.Value { return reflect.MakeSlice(t.Type, n, n) }
func reflectValueOf(x interface{}) reflect.Value       { return reflect.ValueOf(x) }
