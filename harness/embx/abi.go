package embx

import (
	"fmt"
	"math/rand"
	"reflect"
	"strings"
	. "zharness/hz"

	"github.com/zenon-network/go-zenon/vm/abi"
)

// destination for UnpackMethod built from the method's own argument list: a struct with one exported field
// per argument (several arguments) or a pointer to the argument's Go type (one argument), which is how the
// embedded contracts call it
func destFor(m abi.Method) interface{} {
	if len(m.Inputs) == 1 {
		return reflect.New(m.Inputs[0].Type.Type).Interface()
	}
	var fs []reflect.StructField
	for _, a := range m.Inputs {
		n := strings.TrimLeft(a.Name, "_")
		fs = append(fs, reflect.StructField{Name: strings.ToUpper(n[:1]) + n[1:], Type: a.Type.Type})
	}
	return reflect.New(reflect.StructOf(fs)).Interface()
}

// values held by a destination, in argument order
func destVals(m abi.Method, dst interface{}) []interface{} {
	if len(m.Inputs) == 1 {
		return Lst(valTerm(reflect.ValueOf(dst).Elem()))
	}
	r := Lst()
	v := reflect.ValueOf(dst).Elem()
	for i := range m.Inputs {
		r = append(r, valTerm(v.Field(i)))
	}
	return r
}

// runAbi: hostile byte strings through the real ABIxxx.UnpackMethod (and UnpackValues) under recover
func RunAbi(rng *rand.Rand, n int, out *Out, _ []string) {
	type mref struct {
		abi  namedABI
		name string
	}
	var ms []mref
	for _, a := range allABIs {
		ids := map[string]string{}
		for _, name := range methodNames(a.ABI) {
			ms = append(ms, mref{a, name})
			id := string(a.ABI.Methods[name].Id())
			if other, dup := ids[id]; dup {
				out.Oracle(false, "abi-selector-collision", M{"abi": a.Name, "a": other, "b": name})
			}
			ids[id] = name
		}
	}
	var withArgs []mref
	for _, x := range ms {
		if len(x.abi.ABI.Methods[x.name].Inputs) > 0 {
			withArgs = append(withArgs, x)
		}
	}
	for i := 0; i < n; i++ {
		mr := ms[i%len(ms)]
		if i%3 != 0 { // two thirds of the cases on methods that decode arguments
			mr = withArgs[(i/3*2+i%3)%len(withArgs)]
		}
		m := mr.abi.ABI.Methods[mr.name]
		args := make([]interface{}, len(m.Inputs))
		for j, a := range m.Inputs {
			args[j] = genValue(rng, a.Type)
		}
		canon, err := mr.abi.ABI.PackMethod(mr.name, args...)
		if err != nil {
			out.Oracle(false, "abi-pack-of-generated-values", M{"abi": mr.abi.Name, "method": mr.name, "err": err.Error()})
			continue
		}
		data, tag := mutate(rng, canon, len(m.Inputs))
		if len(m.Inputs) == 0 {
			// UnpackEmptyMethod
			status := int64(0)
			func() {
				defer func() {
					if r := recover(); r != nil {
						status = 2
					}
				}()
				if e := mr.abi.ABI.UnpackEmptyMethod(mr.name, data); e != nil {
					status = 1
				}
			}()
			out.Oracle(status != 2, "abi-unpack-panicked", M{"abi": mr.abi.Name, "method": mr.name, "data": Byt(data)})
			out.Case("abi_unpack_empty", Tup(Byt(m.Id()), Byt(data)), I64(status), tag+[]string{":ok", ":error", ":panic"}[status])
			continue
		}
		status := int64(0)
		var vals []interface{}
		dst := destFor(m)
		func() {
			defer func() {
				if r := recover(); r != nil {
					status = 2
					out.Count("abi:panic:" + fmt.Sprint(r))
				}
			}()
			if e := mr.abi.ABI.UnpackMethod(dst, mr.name, data); e != nil {
				status = 1
			}
		}()
		if status == 0 {
			vals = destVals(m, dst)
			// the values through the exported generic decoder must agree with what landed in the destination
			func() {
				defer func() {
					if r := recover(); r != nil {
						out.Oracle(false, "abi-unpack-panicked", M{"abi": mr.abi.Name, "method": mr.name, "data": Byt(data), "via": "UnpackValues"})
					}
				}()
				vs, e := m.Inputs.UnpackValues(data[4:])
				out.Oracle(e == nil && fmt.Sprint(valsTerm(vs)) == fmt.Sprint(vals), "abi-destination-equals-values",
					M{"abi": mr.abi.Name, "method": mr.name, "data": Byt(data)})
				// re-encoding what was decoded decodes again to the same values (what every ValidateSendBlock relies on
				// when it replaces block.Data by the canonical encoding, and ReceiveBlock's DealWithErr(Unpack) after it)
				if e == nil {
					re, e2 := mr.abi.ABI.PackMethod(mr.name, vs...)
					ok := e2 == nil
					if ok {
						vs2, e3 := m.Inputs.UnpackValues(re[4:])
						ok = e3 == nil && fmt.Sprint(valsTerm(vs2)) == fmt.Sprint(vals)
					}
					out.Oracle(ok, "abi-repack-roundtrip", M{"abi": mr.abi.Name, "method": mr.name, "data": Byt(data)})
				}
			}()
		} else {
			vals = Lst()
		}
		out.Oracle(status != 2, "abi-unpack-panicked", M{"abi": mr.abi.Name, "method": mr.name, "data": Byt(data)})
		out.Case("abi_unpack_method", Tup(Byt(m.Id()), typesTerm(m.Inputs), Byt(data)), Tup(I64(status), vals),
			tag+[]string{":ok", ":error", ":panic"}[status])
		out.Count("abi:method:" + mr.abi.Name + "." + mr.name)
	}
}
