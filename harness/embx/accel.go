package embx

// The accelerator life cycle as a family of histories inside the calls suite (C09), in every regime whose method
// table has the accelerator (accelerator / bridge / htlc sporks). Nothing here judges the accelerator's economics:
// the operations only REACH the contract states (project voting / accepted but not yet active / active without a
// phase / phase voting / phase accepted / phase paid / completed / closed / voting period over / accelerator period
// over), and every call received in those states is judged by the oracles of receiveOne (the receive is produced
// without panic or internal error, applied or refunded exactly, the inbox advances) plus
// refund-leaves-storage-unchanged (a call that is refunded after its method wrote to the storage - AddPhase /
// UpdatePhase whose funds exceed the project's - leaves no trace).
//
//   - CreateProject with the funds around the limits {0, 1, small, Max-1, Max, Max+1} and the fee around
//     ProjectCreationAmount;
//   - votes of the pillars by name and by producer address on projects and on their current phases: yes / no /
//     abstain / not a vote, by the pillar, by somebody else, changed afterwards (the tallies 0, one abstention,
//     yes = no, yes > no around the acceptance rule Total*100 > numPillars*VoteAcceptanceThreshold and Yes > No);
//   - Update() by anybody at EVERY stage, mostly once it is due again (UpdateMinNumMomentums after the last one);
//   - AddPhase / UpdatePhase by the owner and by others at every stage, funds {0, 1, half, the rest, the rest + 1,
//     the project's, more than the project's, Max + 1};
//   - Donate of ZNN / QSR so that the contract's balance is one below, exactly at and above what the accepted phase needs;
//   - the owner receives what was paid out; time passes beyond the voting period (shortened per history).
// Half of the operations are the step that moves the chosen project forward in its life, the other half is any
// operation at the stage the project is in.

import (
	"fmt"
	"math/big"
	"sort"

	g "github.com/zenon-network/go-zenon/chain/genesis/mock"
	"github.com/zenon-network/go-zenon/common/types"
	"github.com/zenon-network/go-zenon/vm/constants"
	"github.com/zenon-network/go-zenon/vm/embedded/definition"
	"github.com/zenon-network/go-zenon/vm/embedded/implementation"
	"github.com/zenon-network/go-zenon/vm/vm_context"
	"github.com/zenon-network/go-zenon/wallet"
)

type accProject struct {
	id    types.Hash
	owner *wallet.KeyPair
}

type accel struct {
	projects []*accProject
}

var (
	accelDefaultVotingPeriod = constants.AcceleratorProjectVotingPeriod
	accelDefaultDuration     = constants.AcceleratorDuration
	accelUpdateGap           = uint64(12) // shortenConstants
)

func resetAccelConstants() {
	constants.AcceleratorProjectVotingPeriod = accelDefaultVotingPeriod
	constants.AcceleratorDuration = accelDefaultDuration
	constants.UpdateMinNumMomentums = accelUpdateGap
}

// accelPeriods: per history, the voting period is the real one (never over inside a history) or a few dozen / a few
// hundred momentums, in one history out of six the accelerator period itself ends inside the history, and the gap
// between two updates of a contract is 4, 6 or 12 momentums
func (w *world) accelPeriods() {
	resetAccelConstants()
	constants.UpdateMinNumMomentums = []uint64{4, 6, 12}[w.rng.Intn(3)]
	switch w.rng.Intn(3) {
	case 0:
		constants.AcceleratorProjectVotingPeriod = int64(10 * (30 + w.rng.Intn(60)))
	case 1:
		constants.AcceleratorProjectVotingPeriod = int64(10 * (150 + w.rng.Intn(300)))
	}
	if w.rng.Intn(6) == 0 {
		constants.AcceleratorDuration = w.now() - g.EmbeddedGenesis.GenesisTimestampSec + int64(10*(40+w.rng.Intn(300)))
		w.out.Count("accel:history-in-which-the-accelerator-period-ends")
	}
}

func (w *world) accelAvailable() bool { return w.regime != "origin" && w.regime != "" }

func (w *world) accNumPillars() uint32 {
	l, err := w.nd.Ch.GetFrontierMomentumStore().GetActivePillars()
	if err != nil {
		return 0
	}
	return uint32(len(l))
}

// the acceptance rule as documented (majority of yes over no, more than VoteAcceptanceThreshold percent of the pillars voted)
func (w *world) accVotesPass(id types.Hash) (pass bool, tally string) {
	b := definition.GetVoteBreakdown(w.storageOf(types.AcceleratorContract), id)
	n := w.accNumPillars()
	tally = fmt.Sprintf("yes%d-no%d-total%d", b.Yes, b.No, b.Total)
	if b.Total > 3 {
		tally = "more-than-3-votes"
	}
	return b.Yes > b.No && uint64(b.Total)*100 > uint64(n)*uint64(constants.VoteAcceptanceThreshold), tally
}

// accStage reads where the project is in its life from the contract's storage at the frontier
func (w *world) accStage(p *accProject) (string, *definition.Project, *definition.Phase) {
	st := w.storageOf(types.AcceleratorContract)
	pr, err := definition.GetProjectEntry(st, p.id)
	if err != nil || pr == nil {
		return "not-created", nil, nil
	}
	switch pr.Status {
	case definition.VotingStatus:
		if pr.CreationTimestamp+constants.AcceleratorProjectVotingPeriod < w.now() {
			return "voting-period-over", pr, nil
		}
		if ok, _ := w.accVotesPass(pr.Id); ok {
			return "accepted-not-yet-active", pr, nil
		}
		return "voting-open", pr, nil
	case definition.ActiveStatus:
		ph, err := pr.GetCurrentPhase(st)
		if err != nil || ph == nil {
			return "active-without-phase", pr, nil
		}
		switch ph.Status {
		case definition.VotingStatus:
			if ok, _ := w.accVotesPass(ph.Id); ok {
				return "phase-accepted", pr, ph
			}
			return "phase-voting", pr, ph
		case definition.PaidStatus:
			return "phase-paid", pr, ph
		}
		return fmt.Sprintf("phase-status-%d", ph.Status), pr, ph
	case definition.ClosedStatus:
		return "closed", pr, nil
	case definition.CompletedStatus:
		ph, _ := pr.GetCurrentPhase(st)
		return "completed", pr, ph
	}
	return fmt.Sprintf("status-%d", pr.Status), pr, nil
}

// accSummary: the stages of all projects the contract has, for the detail of a failing oracle
func (w *world) accSummary() (s string) {
	defer func() {
		if r := recover(); r != nil {
			s = fmt.Sprint("unreadable: ", r)
		}
	}()
	l, err := definition.GetProjectList(w.storageOf(types.AcceleratorContract))
	if err != nil {
		return "unreadable: " + err.Error()
	}
	m := map[string]int{}
	for _, pr := range l {
		st, _, _ := w.accStage(&accProject{id: pr.Id})
		m[st]++
	}
	var ks []string
	for k, n := range m {
		ks = append(ks, fmt.Sprintf("%s:%d", k, n))
	}
	sort.Strings(ks)
	return fmt.Sprint(ks)
}

// storageDigest: every key and value of the contract's storage at the frontier
func (w *world) storageDigest(a types.Address) (h types.Hash, n int) {
	it := w.storageOf(a).NewIterator([]byte{})
	defer it.Release()
	var buf []byte
	for it.Next() {
		k, v := it.Key(), it.Value()
		buf = append(append(append(append(buf, be32(uint32(len(k)))...), k...), be32(uint32(len(v)))...), v...)
		n++
	}
	return types.NewHash(buf), n
}

func (w *world) accUpdateDue() bool {
	fms := w.nd.Ch.GetFrontierMomentumStore()
	ctx := vm_context.NewAccountContext(fms, w.nd.Ch.GetFrontierAccountStore(types.AcceleratorContract), w.nd.Cs.FixedPillarReader(fms.Identifier()))
	return implementation.CanPerformUpdate(ctx) == nil
}

var accUrls = []string{"www.zenon.network", "https://zenon.network/accelerator", "zenon.org"}

func (w *world) accFunds(max, rest, whole *big.Int) *big.Int {
	one := big.NewInt(1)
	return pickBig(w.rng, big.NewInt(0), one, big.NewInt(g.Zexp), big.NewInt(3*g.Zexp), rest, rest, new(big.Int).Add(rest, one), new(big.Int).Sub(rest, one),
		new(big.Int).Rsh(rest, 1), whole, new(big.Int).Add(whole, one), max, new(big.Int).Add(max, one))
}

// ---------------------------------------------------------------- the operations

func (w *world) accCreate() {
	rng := w.rng
	zmax, qmax := constants.ProjectZnnMaximumFunds, constants.ProjectQsrMaximumFunds
	one := big.NewInt(1)
	znn := pickBig(rng, big.NewInt(0), one, big.NewInt(g.Zexp), big.NewInt(2*g.Zexp), big.NewInt(10*g.Zexp), big.NewInt(10*g.Zexp), new(big.Int).Sub(zmax, one), zmax, new(big.Int).Add(zmax, one))
	qsr := pickBig(rng, big.NewInt(0), one, big.NewInt(g.Zexp), big.NewInt(5*g.Zexp), big.NewInt(20*g.Zexp), big.NewInt(20*g.Zexp), new(big.Int).Sub(qmax, one), qmax, new(big.Int).Add(qmax, one))
	fee, zts := new(big.Int).Set(constants.ProjectCreationAmount), types.ZnnTokenStandard
	switch rng.Intn(12) {
	case 0:
		fee.Sub(fee, one)
	case 1:
		fee.Add(fee, one)
	case 2:
		zts = types.QsrTokenStandard
	}
	owner := w.senders[rng.Intn(5)]
	if rng.Intn(6) == 0 {
		owner = w.senders[rng.Intn(len(w.senders))]
	}
	n := len(w.deep.acc.projects)
	if b := w.call(owner, cAccelerator, zts, fee, "accel-create", definition.CreateProjectMethodName,
		fmt.Sprintf("project-%d", n), "a project of the accelerator histories", accUrls[rng.Intn(len(accUrls))], znn, qsr); b != nil {
		w.deep.acc.projects = append(w.deep.acc.projects, &accProject{b.Hash, owner})
		w.out.Count("accel:project-sent")
	}
}

var accPillarNames = []string{g.Pillar1Name, g.Pillar2Name, g.Pillar3Name}
var accPillarKeys = []*wallet.KeyPair{g.Pillar1, g.Pillar2, g.Pillar3}

// accVote: one vote on id; forward = a yes of a pillar that is entitled to vote
func (w *world) accVote(id types.Hash, forward bool, stage string) {
	rng := w.rng
	i := rng.Intn(len(accPillarKeys))
	kp, name := accPillarKeys[i], accPillarNames[i]
	vote := definition.VoteYes
	if !forward {
		vote = []uint8{definition.VoteYes, definition.VoteYes, definition.VoteNo, definition.VoteNo, definition.VoteAbstain, definition.VoteAbstain, definition.VoteNotValid, 255}[rng.Intn(8)]
		switch rng.Intn(10) {
		case 0: // somebody who is no pillar
			kp = w.senders[rng.Intn(5)]
		case 1: // another pillar's name
			name = accPillarNames[(i+1)%len(accPillarNames)]
		case 2:
			name = w.pickName()
		}
	}
	w.out.Count(fmt.Sprintf("accel:vote-%d-at:%s", vote, stage))
	if rng.Intn(2) == 0 {
		w.call(kp, cAccelerator, types.ZnnTokenStandard, z0, "accel-vote", definition.VoteByNameMethodName, id, name, vote)
	} else {
		w.call(kp, cAccelerator, types.ZnnTokenStandard, z0, "accel-vote", definition.VoteByProdAddressMethodName, id, vote)
	}
}

// accUpdate: Update() of the accelerator by anybody; wait: first let momentums pass until the contract accepts the next update
func (w *world) accUpdate(wait bool) {
	if w.pending > 0 {
		w.settle()
	}
	if wait {
		for i := uint64(0); i < constants.UpdateMinNumMomentums+2 && !w.dead && !w.accUpdateDue(); i++ {
			w.settle()
		}
	}
	if w.dead {
		return
	}
	due := w.accUpdateDue()
	// the stages of ALL projects the contract knows at this update
	seen := map[string]bool{}
	for _, p := range w.deep.acc.projects {
		st, _, _ := w.accStage(p)
		if !seen[st] {
			seen[st] = true
			w.out.Count(fmt.Sprintf("accel:update:due=%v:with-a-project:%s", due, st))
		}
	}
	if len(w.deep.acc.projects) == 0 {
		w.out.Count(fmt.Sprintf("accel:update:due=%v:no-project", due))
	}
	w.call(w.senders[w.rng.Intn(len(w.senders))], cAccelerator, types.ZnnTokenStandard, z0, "accel-update", definition.UpdateMethodName)
	w.settle() // received in the state it was sent in
}

// accPhase: AddPhase / UpdatePhase on the project; sane = by the owner with funds that fit
func (w *world) accPhase(p *accProject, pr *definition.Project, method string, sane bool, stage string) {
	rng := w.rng
	st := w.storageOf(types.AcceleratorContract)
	zw, qw := constants.ProjectZnnMaximumFunds, constants.ProjectQsrMaximumFunds
	zrest, qrest := big.NewInt(g.Zexp), big.NewInt(g.Zexp)
	if pr != nil {
		zw, qw = pr.ZnnFundsNeeded, pr.QsrFundsNeeded
		zrest, qrest = new(big.Int).Set(zw), new(big.Int).Set(qw)
		for k, id := range pr.PhaseIds {
			if method == definition.UpdatePhaseMethodName && k == len(pr.PhaseIds)-1 {
				break // the current phase is replaced
			}
			if ph, err := definition.GetPhaseEntry(st, id); err == nil {
				zrest.Sub(zrest, ph.ZnnFundsNeeded)
				qrest.Sub(qrest, ph.QsrFundsNeeded)
			}
		}
	}
	var znn, qsr *big.Int
	kp := p.owner
	if sane {
		// the whole rest (the project completes when this phase is paid), or a part of it
		znn, qsr = new(big.Int).Set(zrest), new(big.Int).Set(qrest)
		if rng.Intn(2) == 0 {
			znn.Rsh(znn, uint(rng.Intn(3)))
			qsr.Rsh(qsr, uint(rng.Intn(3)))
		}
	} else {
		znn = w.accFunds(constants.ProjectZnnMaximumFunds, zrest, zw)
		qsr = w.accFunds(constants.ProjectQsrMaximumFunds, qrest, qw)
		if rng.Intn(3) == 0 {
			kp = w.senders[rng.Intn(len(w.senders))]
		}
	}
	id := p.id
	if !sane && rng.Intn(10) == 0 {
		id = w.pickHash()
	}
	w.out.Count(fmt.Sprintf("accel:%s:owner=%v:at:%s", method, kp == p.owner, stage))
	w.call(kp, cAccelerator, types.ZnnTokenStandard, z0, "accel-phase", method, id,
		fmt.Sprintf("phase-%d", rng.Intn(9)), "a phase of the accelerator histories", accUrls[rng.Intn(len(accUrls))], znn, qsr)
}

// accDonate: the balance of the contract around what the phase needs (one below, exactly, above), or any amount
func (w *world) accDonate(ph *definition.Phase) {
	rng := w.rng
	for _, z := range []types.ZenonTokenStandard{types.ZnnTokenStandard, types.QsrTokenStandard} {
		amt := pickBig(rng, big.NewInt(1), big.NewInt(g.Zexp), big.NewInt(50*g.Zexp))
		class := "any"
		if ph != nil {
			need := ph.ZnnFundsNeeded
			if z == types.QsrTokenStandard {
				need = ph.QsrFundsNeeded
			}
			missing := new(big.Int).Sub(need, w.balanceOf(types.AcceleratorContract, z))
			switch k := rng.Intn(6); {
			case k == 0:
				missing.Sub(missing, big.NewInt(1))
				class = "one-below-the-phase"
			case k <= 3:
				class = "exactly-the-phase"
			default:
				missing.Add(missing, big.NewInt(int64(rng.Intn(3))*g.Zexp))
				class = "above-the-phase"
			}
			if missing.Sign() <= 0 {
				continue
			}
			amt = missing
		} else if rng.Intn(2) == 0 {
			continue
		}
		kp, bal := w.holderOf(z)
		if kp == nil {
			continue
		}
		if amt.Cmp(bal) > 0 {
			amt = new(big.Int).Set(bal)
			class += "-capped-by-the-donor"
		}
		w.out.Count("accel:donate:" + class)
		w.call(kp, cAccelerator, z, amt, "accel-donate", definition.DonateMethodName)
	}
}

// accelOp: one operation of the accelerator life cycle
func (w *world) accelOp() {
	rng := w.rng
	acc := &w.deep.acc
	if len(acc.projects) == 0 || (len(acc.projects) < 5 && rng.Intn(7) == 0) || rng.Intn(25) == 0 {
		w.accCreate()
		if rng.Intn(2) == 0 {
			w.settle()
		}
		return
	}
	p := acc.projects[rng.Intn(len(acc.projects))]
	if rng.Intn(2) == 0 { // the youngest one
		p = acc.projects[len(acc.projects)-1]
	}
	stage, pr, ph := w.accStage(p)
	w.out.Count("accel:op-at:" + stage)
	if rng.Intn(2) == 0 {
		// the step that moves this project forward
		switch stage {
		case "not-created":
			w.settle()
			if s2, _, _ := w.accStage(p); s2 == "not-created" && w.pending == 0 { // refused when received: forgotten
				for i, q := range acc.projects {
					if q == p {
						acc.projects = append(acc.projects[:i], acc.projects[i+1:]...)
						break
					}
				}
			}
		case "voting-open":
			w.accVote(p.id, true, stage)
		case "accepted-not-yet-active":
			w.accUpdate(true)
		case "active-without-phase":
			// both continuations: the next Update() comes due before the owner has added a phase / the owner adds it
			if rng.Intn(2) == 0 {
				w.accUpdate(true)
			} else {
				w.accPhase(p, pr, definition.AddPhaseMethodName, true, stage)
			}
		case "phase-voting":
			if rng.Intn(5) == 0 { // the owner replaces the phase (its votes are dropped)
				w.accPhase(p, pr, definition.UpdatePhaseMethodName, true, stage)
			} else {
				w.accVote(ph.Id, true, stage)
			}
		case "phase-accepted":
			if rng.Intn(6) == 0 {
				w.accPhase(p, pr, definition.UpdatePhaseMethodName, true, stage)
			} else {
				w.accDonate(ph)
				w.accUpdate(true)
			}
		case "phase-paid":
			if rng.Intn(3) == 0 {
				w.userReceive(p.owner)
			} else {
				w.accPhase(p, pr, definition.AddPhaseMethodName, true, stage)
			}
		default: // voting-period-over, closed, completed: Update() sees them, and a new project starts
			if rng.Intn(2) == 0 {
				w.accUpdate(true)
			} else {
				w.accCreate()
			}
		}
	} else {
		// any operation at this stage
		switch k := rng.Intn(16); {
		case k < 3:
			w.accUpdate(rng.Intn(4) != 0)
		case k < 6:
			id := p.id
			if ph != nil && rng.Intn(3) != 0 {
				id = ph.Id
			}
			if rng.Intn(12) == 0 {
				id = w.pickHash()
			}
			w.accVote(id, false, stage)
		case k < 8:
			w.accPhase(p, pr, definition.AddPhaseMethodName, rng.Intn(4) == 0, stage)
		case k < 10:
			w.accPhase(p, pr, definition.UpdatePhaseMethodName, rng.Intn(3) == 0, stage)
		case k < 12:
			w.accDonate(ph)
		case k == 12:
			w.userReceive(p.owner)
		case k == 13: // time passes (voting periods end)
			w.advance(uint64(5 + rng.Intn(40)))
			w.out.Count("accel:time-passes")
		case k == 14:
			w.randomCallTo(cAccelerator)
		default:
			w.accCreate()
		}
	}
	if rng.Intn(3) == 0 {
		w.settle()
	}
}
