package embx

// bridgeliq (C10): histories on a real node with the accelerator, bridge+liquidity and htlc sporks active, the bridge
// (orchestrator info, guardians, TSS key, network, not-owned and owned token pairs) and the liquidity contract
// (guardians, token tuples) set up through accepted administrator calls, lock windows shortened as in the
// repository's own tests.  Operations: liquidity stakes by several users with several durations, cancellations by the
// owner / somebody else / before and after expiry / twice in a row, administrator actions (SetIsHalted,
// UnlockLiquidityStakeEntries, SetTokenTuple, SetAdditionalReward), treasury actions of the spork address (Fund,
// BurnZnn), reward updates; TSS-signed unwrap requests (owned and not-owned pairs) to several recipients, duplicates
// of the same (txHash, logIndex), wrong signatures (other key, request altered after signing, garbage), Redeem by
// anyone before / at / after the redeem delay, twice in a row, after RevokeUnwrapRequest, on a halted bridge.
// ORACLES (the property's own statement on the real code; checkBacked / checkRelease of locks.go plus blAfter here):
// sum of liquidity stake entries per token <= balance of the liquidity contract after every momentum; every payout
// of CancelLiquidityStake / Redeem goes to the entitled address, not before its lock, with the recorded amount, once;
// a registered unwrap request carries a valid TSS signature over exactly its stored fields and never replaces an
// existing request; a redeemed request is marked; a refused call leaves the entry as it was.

import (
	"crypto/ecdsa"
	"encoding/base64"
	"encoding/hex"
	"fmt"
	"math/big"
	"math/rand"
	"strings"
	"time"
	. "zharness/hz"

	ecrypto "github.com/ethereum/go-ethereum/crypto"
	g "github.com/zenon-network/go-zenon/chain/genesis/mock"
	"github.com/zenon-network/go-zenon/chain/nom"
	"github.com/zenon-network/go-zenon/common/types"
	"github.com/zenon-network/go-zenon/vm/constants"
	"github.com/zenon-network/go-zenon/vm/embedded/definition"
	"github.com/zenon-network/go-zenon/wallet"
)

type blUnwrap struct {
	tx  types.Hash
	log uint32
}

type blState struct {
	admin    *wallet.KeyPair
	lp, tk   types.ZenonTokenStandard // lp: not-owned pair + liquidity tuple; tk: owned pair (token owner = bridge) + liquidity tuple
	pairs    []tokPair
	unwraps  []blUnwrap
	otherKey *ecdsa.PrivateKey // a secp256k1 key that is NOT the TSS key
	tuples   []types.ZenonTokenStandard
	repro    *treasuryRepro // set by the reproducers of the known finding (liqtreasury.go)
}

// ---------------------------------------------------------------- reading the contracts

func (w *world) liqEntries() map[string]*definition.LiquidityStakeEntry {
	r := map[string]*definition.LiquidityStakeEntry{}
	err := definition.IterateLiquidityStakeEntries(w.storageOf(types.LiquidityContract), func(e *definition.LiquidityStakeEntry) error {
		r[string(e.StakeAddress.Bytes())+string(e.Id.Bytes())] = e
		return nil
	})
	if err != nil {
		panic(err)
	}
	return r
}

// open liquidity stakes in one token
func (w *world) liqOwed(z types.ZenonTokenStandard) *big.Int {
	owed := new(big.Int)
	for _, e := range w.liqEntries() {
		if e.TokenStandard == z {
			owed.Add(owed, e.Amount)
		}
	}
	return owed
}

func sameLiqEntry(a, b *definition.LiquidityStakeEntry) bool {
	return a.Amount.Cmp(b.Amount) == 0 && a.WeightedAmount.Cmp(b.WeightedAmount) == 0 && a.TokenStandard == b.TokenStandard &&
		a.StartTime == b.StartTime && a.RevokeTime == b.RevokeTime && a.ExpirationTime == b.ExpirationTime
}

func sameUnwrap(a, b *definition.UnwrapTokenRequest) bool {
	return a.RegistrationMomentumHeight == b.RegistrationMomentumHeight && a.NetworkClass == b.NetworkClass && a.ChainId == b.ChainId &&
		a.TransactionHash == b.TransactionHash && a.LogIndex == b.LogIndex && a.ToAddress == b.ToAddress && a.TokenAddress == b.TokenAddress &&
		a.TokenStandard == b.TokenStandard && a.Amount.Cmp(b.Amount) == 0 && a.Signature == b.Signature && a.Redeemed == b.Redeemed && a.Revoked == b.Revoked
}

// the bridge refuses user actions: halted flag, or inside the unhalt period
func (w *world) bridgeHaltedAt(height uint64) bool {
	bi, err := definition.GetBridgeInfoVariable(w.storageOf(types.BridgeContract))
	if err != nil {
		panic(err)
	}
	return bi.Halted || bi.UnhaltedAt+bi.UnhaltDurationInMomentums >= height
}

// the message the orchestrator signs for an unwrap, built here from the STORED request (independent of the
// implementation's own message builder): seven 32-byte words, keccak256, EVM personal-message prefix, keccak256
func unwrapMessageOf(r *definition.UnwrapTokenRequest) []byte {
	word := func(b []byte) []byte {
		out := make([]byte, 32)
		if len(b) > 32 {
			b = b[len(b)-32:]
		}
		copy(out[32-len(b):], b)
		return out
	}
	tok, _ := hex.DecodeString(strings.TrimPrefix(strings.TrimPrefix(r.TokenAddress, "0x"), "0X"))
	var msg []byte
	msg = append(msg, word(new(big.Int).SetUint64(uint64(r.NetworkClass)).Bytes())...)
	msg = append(msg, word(new(big.Int).SetUint64(uint64(r.ChainId)).Bytes())...)
	msg = append(msg, word(r.TransactionHash.Bytes())...)
	msg = append(msg, word(new(big.Int).SetUint64(uint64(r.LogIndex)).Bytes())...)
	msg = append(msg, word(r.ToAddress.Bytes())...)
	msg = append(msg, word(tok)...)
	msg = append(msg, word(r.Amount.Bytes())...)
	h := ecrypto.Keccak256(msg)
	return ecrypto.Keccak256([]byte(fmt.Sprintf("\x19Ethereum Signed Message:\n32%s", h)))
}

func (w *world) tssSignatureValid(r *definition.UnwrapTokenRequest) bool {
	bi, err := definition.GetBridgeInfoVariable(w.storageOf(types.BridgeContract))
	if err != nil {
		return false
	}
	pub, err := base64.StdEncoding.DecodeString(bi.DecompressedTssECDSAPubKey)
	if err != nil || len(pub) != 65 {
		return false
	}
	sig, err := base64.StdEncoding.DecodeString(r.Signature)
	if err != nil || len(sig) != 65 || r.NetworkClass != definition.EvmClass {
		return false
	}
	rec, err := ecrypto.Ecrecover(unwrapMessageOf(r), sig)
	return err == nil && string(rec) == string(pub)
}

// ---------------------------------------------------------------- expected releases (called from expectedRelease)

func (w *world) expectedReleaseBL(c *contractDef, m string, s *nom.AccountBlock) *release {
	switch {
	case c.Name == "liquidity" && m == definition.CancelLiquidityStakeMethodName:
		id := new(types.Hash)
		if definition.ABILiquidity.UnpackMethod(id, m, s.Data) != nil {
			return nil
		}
		e, err := definition.GetLiquidityStakeEntry(w.storageOf(c.Addr), *id, s.Address)
		if err != nil {
			return nil
		}
		// the entry's own expiration, and never before the shortest lock the contract offers has passed since its start -
		// unless the administrator unlocked the entry (UnlockLiquidityStakeEntries brings expirations forward by design)
		k := string(e.StakeAddress.Bytes()) + string(e.Id.Bytes())
		r := &release{kind: "liqstake", key: "liqstake:" + s.Address.String() + id.String(), to: e.StakeAddress, pays: []*big.Int{new(big.Int).Set(e.Amount)},
			zts: []types.ZenonTokenStandard{e.TokenStandard}, notBefore: e.ExpirationTime, ok: e.StakeAddress == s.Address,
			why: fmt.Sprintf("start=%d expiration=%d revoke-time=%d minimum-lock=%d unlocked-by-administrator=%v", e.StartTime, e.ExpirationTime, e.RevokeTime, constants.StakeTimeMinSec, w.unlocked[k])}
		if !w.unlocked[k] && e.Amount.Sign() > 0 {
			r.floor = e.StartTime + constants.StakeTimeMinSec
		}
		return r
	case c.Name == "bridge" && m == definition.RedeemUnwrapMethodName:
		p := new(definition.RedeemParam)
		if definition.ABIBridge.UnpackMethod(p, m, s.Data) != nil {
			return nil
		}
		st := w.storageOf(c.Addr)
		req, err := definition.GetUnwrapTokenRequestByTxHashAndLog(st, p.TransactionHash, p.LogIndex)
		if err != nil || req == nil {
			return nil
		}
		r := &release{kind: "unwrap", key: fmt.Sprintf("unwrap:%s/%d", p.TransactionHash.String(), p.LogIndex), to: req.ToAddress,
			pays: []*big.Int{new(big.Int).Set(req.Amount)}, zts: []types.ZenonTokenStandard{req.TokenStandard}, useHeight: true}
		// the delay configured for the request's token on its network (as configured when the redeem is received)
		delay := int64(-1)
		if ni, err := definition.GetNetworkInfoVariable(st, req.NetworkClass, req.ChainId); err == nil && ni != nil {
			for _, tp := range ni.TokenPairs {
				if tp.TokenStandard == req.TokenStandard {
					delay = int64(tp.RedeemDelay)
				}
			}
		}
		r.ok = req.Redeemed == 0 && req.Revoked == 0 && delay >= 0
		r.notBefore = int64(req.RegistrationMomentumHeight) + delay
		r.why = fmt.Sprintf("redeemed=%d revoked=%d registered-at=%d delay=%d", req.Redeemed, req.Revoked, req.RegistrationMomentumHeight, delay)
		return r
	}
	return nil
}

// ---------------------------------------------------------------- before / after every receive of the two contracts

type blPre struct {
	method    string
	entries   map[string]*definition.LiquidityStakeEntry
	unwrap    *definition.UnwrapTokenRequest // the request named by the call, before the call (nil: none)
	tx        types.Hash
	log       uint32
	liqAdmin  types.Address
	brAdmin   types.Address
	tupleMin  *big.Int // LiquidityStake: minimum of the tuple of the sent token (nil: token not configured)
	duration  int64
	unwrapPrm *definition.UnwrapTokenParam
	liqBal    *big.Int // reproducers: balance and open stakes of the watched token before the call
	liqOwed   *big.Int
}

func (w *world) blBefore(c *contractDef, s *nom.AccountBlock) *blPre {
	if w.bl == nil || (c.Name != "liquidity" && c.Name != "bridge") {
		return nil
	}
	m := methodOf(c, s.Data)
	p := &blPre{method: m}
	if c.Name == "liquidity" {
		st := w.storageOf(c.Addr)
		p.entries = w.liqEntries()
		if li, err := definition.GetLiquidityInfo(st); err == nil {
			p.liqAdmin = li.Administrator
			for _, tt := range li.TokenTuples {
				if tt.TokenStandard == s.TokenStandard.String() && p.tupleMin == nil {
					p.tupleMin = new(big.Int).Set(tt.MinAmount)
				}
			}
		}
		if m == definition.LiquidityStakeMethodName {
			definition.ABILiquidity.UnpackMethod(&p.duration, m, s.Data)
		}
		if rp := w.bl.repro; rp != nil {
			p.liqBal, p.liqOwed = w.balanceOf(c.Addr, rp.zts), w.liqOwed(rp.zts)
		}
		return p
	}
	st := w.storageOf(c.Addr)
	if bi, err := definition.GetBridgeInfoVariable(st); err == nil {
		p.brAdmin = bi.Administrator
	}
	named := false
	switch m {
	case definition.UnwrapTokenMethodName:
		prm := new(definition.UnwrapTokenParam)
		if definition.ABIBridge.UnpackMethod(prm, m, s.Data) == nil {
			p.tx, p.log, named = prm.TransactionHash, prm.LogIndex, true
			p.unwrapPrm = prm
		}
	case definition.RedeemUnwrapMethodName:
		prm := new(definition.RedeemParam)
		if definition.ABIBridge.UnpackMethod(prm, m, s.Data) == nil {
			p.tx, p.log, named = prm.TransactionHash, prm.LogIndex, true
		}
	case definition.RevokeUnwrapRequestMethodName:
		prm := new(definition.RevokeUnwrapParam)
		if definition.ABIBridge.UnpackMethod(prm, m, s.Data) == nil {
			p.tx, p.log, named = prm.TransactionHash, prm.LogIndex, true
		}
	}
	if named {
		if r, err := definition.GetUnwrapTokenRequestByTxHashAndLog(st, p.tx, p.log); err == nil {
			p.unwrap = r
		}
	}
	return p
}

func (w *world) blAfter(c *contractDef, s *nom.AccountBlock, p *blPre, ma *nom.Momentum, retErr error) {
	if p == nil {
		return
	}
	applied := retErr == nil
	if rp := w.bl.repro; rp != nil && c.Name == "liquidity" {
		rp.seen = append(rp.seen, treasuryEvent{method: p.method, sender: s.Address, applied: applied, err: retErr, balBefore: p.liqBal, owedBefore: p.liqOwed,
			balAfter: w.balanceOf(c.Addr, rp.zts), owedAfter: w.liqOwed(rp.zts), now: ma.Timestamp.Unix(), data: s.Data})
	}
	out := w.out
	d := blockDetail(s)
	now := ma.Timestamp.Unix()
	d["now"], d["height"] = I64(now), U64(ma.Height)
	if c.Name == "liquidity" {
		post := w.liqEntries()
		key := string(s.Address.Bytes()) + string(s.Hash.Bytes())
		changed := func(except func(k string, a, b *definition.LiquidityStakeEntry) bool) bool { // an entry other than the excepted ones differs
			for k, a := range p.entries {
				b, ok := post[k]
				if ok && sameLiqEntry(a, b) {
					continue
				}
				if except == nil || !except(k, a, b) {
					return true
				}
			}
			for k, b := range post {
				if _, ok := p.entries[k]; !ok && (except == nil || !except(k, nil, b)) {
					return true
				}
			}
			return false
		}
		switch {
		case !applied:
			out.Oracle(!changed(nil), "refused-call-changed-entry", d)
		case p.method == definition.LiquidityStakeMethodName:
			e := post[key]
			ok := e != nil && p.entries[key] == nil && e.Amount.Cmp(s.Amount) == 0 && e.TokenStandard == s.TokenStandard && e.RevokeTime == 0 &&
				e.StartTime == now && e.ExpirationTime-e.StartTime == p.duration && s.Amount.Sign() > 0
			out.Oracle(ok, "liquidity-entry-differs-from-deposit", d)
			// the period rule of the contract, stated in lockbounds.go: a whole number of units between the minimum and the maximum
			d["period"] = I64(p.duration)
			out.Oracle(stakingPeriodAllowed(p.duration) && e != nil && e.ExpirationTime >= e.StartTime+constants.StakeTimeMinSec, "liquidity-stake-accepted-with-forbidden-period", d)
			// only configured tokens, at least the configured minimum
			out.Oracle(p.tupleMin != nil && s.Amount.Cmp(p.tupleMin) >= 0, "liquidity-stake-of-unconfigured-token-or-below-minimum", d)
			out.Oracle(!changed(func(k string, a, b *definition.LiquidityStakeEntry) bool { return k == key }), "other-entry-changed", d)
		case p.method == definition.CancelLiquidityStakeMethodName:
			var id types.Hash
			if len(s.Data) >= 36 {
				copy(id[:], s.Data[4:36])
			}
			k := string(s.Address.Bytes()) + string(id.Bytes())
			e := post[k]
			out.Oracle(e != nil && e.Amount.Sign() == 0 && e.RevokeTime == now, "cancel-did-not-close-entry", d)
			out.Oracle(!changed(func(kk string, a, b *definition.LiquidityStakeEntry) bool { return kk == k }), "other-entry-changed", d)
		case p.method == definition.UnlockLiquidityStakeEntriesMethodName:
			out.Oracle(s.Address == p.liqAdmin, "unlock-by-non-administrator", d)
			// amounts and owners untouched; only expirations of the named token brought forward to now
			ok := !changed(func(k string, a, b *definition.LiquidityStakeEntry) bool {
				return a != nil && b != nil && a.Amount.Cmp(b.Amount) == 0 && a.TokenStandard == b.TokenStandard && a.TokenStandard == s.TokenStandard &&
					a.RevokeTime == b.RevokeTime && a.StartTime == b.StartTime && a.ExpirationTime > now && b.ExpirationTime == now
			})
			out.Oracle(ok, "unlock-changed-more-than-expirations", d)
			if s.Address == p.liqAdmin { // the entries the administrator unlocked: their minimum lock is waived
				if w.unlocked == nil {
					w.unlocked = map[string]bool{}
				}
				for k, a := range p.entries {
					if b := post[k]; b != nil && b.ExpirationTime != a.ExpirationTime {
						w.unlocked[k] = true
					}
				}
			}
			out.Count("locks:unlock-applied")
		case p.method == definition.UpdateMethodName:
			// the reward update may remove CLOSED entries (amount 0, revoked); nothing else
			ok := !changed(func(k string, a, b *definition.LiquidityStakeEntry) bool {
				return a != nil && b == nil && a.Amount.Sign() == 0 && a.RevokeTime != 0
			})
			out.Oracle(ok, "update-changed-open-entry", d)
		default:
			out.Oracle(!changed(nil), "entry-changed-by-unrelated-method", d)
		}
		return
	}
	// bridge
	st := w.storageOf(c.Addr)
	var post *definition.UnwrapTokenRequest
	if r, err := definition.GetUnwrapTokenRequestByTxHashAndLog(st, p.tx, p.log); err == nil {
		post = r
	}
	unchanged := (p.unwrap == nil && post == nil) || (p.unwrap != nil && post != nil && sameUnwrap(p.unwrap, post))
	switch {
	case p.method != definition.UnwrapTokenMethodName && p.method != definition.RedeemUnwrapMethodName && p.method != definition.RevokeUnwrapRequestMethodName:
		return
	case !applied:
		out.Oracle(unchanged, "refused-call-changed-entry", d)
	case p.method == definition.UnwrapTokenMethodName:
		out.Oracle(p.unwrap == nil, "unwrap-request-overwritten", d)
		prm := p.unwrapPrm
		ok := post != nil && prm != nil && post.ToAddress == prm.ToAddress && post.Amount.Cmp(prm.Amount) == 0 && post.NetworkClass == prm.NetworkClass &&
			post.ChainId == prm.ChainId && post.TokenAddress == strings.ToLower(prm.TokenAddress) && post.Redeemed == 0 && post.Revoked == 0 &&
			post.RegistrationMomentumHeight == ma.Height && post.Signature == prm.Signature
		out.Oracle(ok, "unwrap-request-differs-from-call", d)
		out.Oracle(post != nil && w.tssSignatureValid(post), "unwrap-registered-without-valid-tss-signature", d)
		out.Oracle(!w.bridgeHaltedAt(ma.Height), "unwrap-registered-while-bridge-halted", d)
		out.Count("locks:unwrap-registered")
	case p.method == definition.RedeemUnwrapMethodName:
		out.Oracle(post != nil && post.Redeemed == 1, "redeem-did-not-mark-request", d)
		if p.unwrap != nil && post != nil {
			q := *post
			q.Redeemed = p.unwrap.Redeemed
			out.Oracle(sameUnwrap(p.unwrap, &q), "redeem-changed-request", d)
		}
		out.Oracle(!w.bridgeHaltedAt(ma.Height), "payout-while-bridge-halted", d)
	case p.method == definition.RevokeUnwrapRequestMethodName:
		out.Oracle(s.Address == p.brAdmin, "revoke-by-non-administrator", d)
		out.Oracle(post != nil && post.Revoked == 1, "revoke-did-not-mark-request", d)
		out.Count("locks:unwrap-revoked")
	}
}

// ---------------------------------------------------------------- set-up

type adminCall struct {
	to   types.Address
	data []byte
}

// twiceAll performs several time-challenged administrator calls (different methods) side by side
func (w *world) twiceAll(kp *wallet.KeyPair, delay uint64, calls ...adminCall) {
	for round := 0; round < 2; round++ {
		for _, c := range calls {
			if w.send(kp, c.to, types.ZnnTokenStandard, z0, c.data, "setup") == nil {
				panic("setup call rejected: " + methodOf(contractOf(c.to), c.data))
			}
		}
		w.settle()
		if round == 0 {
			w.advance(delay + 2)
		}
	}
}

func (w *world) blSetup() {
	rng := w.rng
	bl := w.bl
	admin := bl.admin
	w.activate(types.AcceleratorSpork, "spork-accelerator")
	w.activate(types.BridgeAndLiquiditySpork, "spork-bridge")
	w.activate(types.HtlcSpork, "spork-htlc")
	constants.InitialBridgeAdministrator.SetBytes(admin.Address.Bytes())
	k, err := ecrypto.GenerateKey()
	if err != nil {
		panic(err)
	}
	bl.otherKey = k
	// two user-issued tokens, spread over the users
	bl.lp = w.issueToken(g.User1, "lptoken", "LPT", 1000000000000, 1000000000000, false, true)
	bl.tk = w.issueToken(g.User2, "wrapped", "WTK", 1000000000, 1000000000000000, true, true)
	for _, kp := range []*wallet.KeyPair{g.User2, g.User3, g.User4, g.Pillar1} {
		w.send(g.User1, kp.Address, bl.lp, big.NewInt(100000000000), nil, "setup")
	}
	for _, kp := range []*wallet.KeyPair{g.User1, g.User3, g.User4} {
		w.send(g.User2, kp.Address, bl.tk, big.NewInt(100000000), nil, "setup")
	}
	w.settle()
	for _, kp := range []*wallet.KeyPair{g.User1, g.User2, g.User3, g.User4, g.Pillar1} {
		w.userReceive(kp)
	}
	// the bridge becomes the owner of tk (an owned pair is minted on redeem)
	w.send(g.User2, types.TokenContract, types.ZnnTokenStandard, z0, definition.ABIToken.PackMethodPanic(definition.UpdateTokenMethodName, bl.tk, types.BridgeContract, true, true), "setup")
	bc, lc := types.BridgeContract, types.LiquidityContract
	w.must(admin, bc, types.ZnnTokenStandard, z0, definition.ABIBridge.PackMethodPanic(definition.SetOrchestratorInfoMethodName, uint64(6), uint32(3), uint32(15), uint32(10)))
	guardians := []types.Address{g.User1.Address, g.User2.Address, g.User3.Address, g.User4.Address, g.User5.Address}
	w.twiceAll(admin, constants.MinAdministratorDelay,
		adminCall{bc, definition.ABIBridge.PackMethodPanic(definition.NominateGuardiansMethodName, guardians)},
		adminCall{lc, definition.ABILiquidity.PackMethodPanic(definition.NominateGuardiansMethodName, guardians)})
	w.send(admin, bc, types.ZnnTokenStandard, z0, definition.ABIBridge.PackMethodPanic(definition.SetNetworkMethodName, brNetClass, brChainId, "Ethereum", "0x323b5d4c32345ced77393b3530b1eed0f346429d", "{}"), "setup")
	w.twiceAll(admin, constants.MinSoftDelay,
		adminCall{bc, definition.ABIBridge.PackMethodPanic(definition.ChangeTssECDSAPubKeyMethodName, brTssPub, "", "")})
	// token pairs: ZNN and lp not owned, tk owned; redeem delays 1..4; liquidity tuples lp, tk (and now and then ZNN)
	delays := []uint32{1, 2, 3, 5}
	mk := func(z types.ZenonTokenStandard, owned bool) tokPair {
		return tokPair{z, pairAddr(z), owned, feeClasses[rng.Intn(len(feeClasses))], pickBig(rng, big.NewInt(0), big.NewInt(1), big.NewInt(10)), delays[rng.Intn(len(delays))]}
	}
	bl.pairs = []tokPair{mk(types.ZnnTokenStandard, false), mk(bl.lp, false), mk(bl.tk, true)}
	// stake tokens: the two issued tokens.  ZNN / QSR are the contract's treasury (Fund, BurnZnn, additional rewards spend
	// them without regard to stakes): configuring them as stake tokens is the reported finding, reproduced by RunLiqTreasury
	bl.tuples = []types.ZenonTokenStandard{bl.lp, bl.tk}
	for i, p := range bl.pairs {
		calls := []adminCall{{bc, definition.ABIBridge.PackMethodPanic(definition.SetTokenPairMethod, brNetClass, brChainId, p.zts, p.addr, true, true, p.owned, p.min, p.fee, p.delay, `{}`)}}
		if i == 0 {
			calls = append(calls, adminCall{lc, w.tupleData(bl.tuples)})
		}
		w.twiceAll(admin, constants.MinSoftDelay, calls...)
		w.out.Count(fmt.Sprintf("locks:pair:owned=%v:delay=%d", p.owned, p.delay))
	}
	// the bridge gets something to pay not-owned redeems from
	w.call(g.User1, cBridge, types.ZnnTokenStandard, big.NewInt(200*g.Zexp), "setup", definition.WrapTokenMethodName, brNetClass, brChainId, "0xb794f5ea0ba39494ce839613fffba74279579268")
	w.call(g.User1, cBridge, bl.lp, big.NewInt(5000000), "setup", definition.WrapTokenMethodName, brNetClass, brChainId, "0xb794f5ea0ba39494ce839613fffba74279579268")
	w.settle()
	w.out.Count("locks:bridge-and-liquidity-set-up")
}

func (w *world) tupleData(zs []types.ZenonTokenStandard) []byte {
	var names []string
	var zp, qp []uint32
	var mins []*big.Int
	rest := uint32(constants.LiquidityZnnTotalPercentages)
	for i, z := range zs {
		share := rest
		if i < len(zs)-1 {
			share = rest / 2
		}
		rest -= share
		names = append(names, z.String())
		zp, qp = append(zp, share), append(qp, share)
		mins = append(mins, big.NewInt(1000))
	}
	return definition.ABILiquidity.PackMethodPanic(definition.SetTokenTupleMethodName, names, zp, qp, mins)
}

// ---------------------------------------------------------------- operations

func (w *world) waitUntil(cond func() bool, max int) {
	for i := 0; i < max && !w.dead && !cond(); i++ {
		w.settle()
	}
}

func (w *world) blOp() {
	rng := w.rng
	bl := w.bl
	users := w.senders
	kp := users[rng.Intn(len(users))]
	znn := types.ZnnTokenStandard
	other := func(owner *wallet.KeyPair) *wallet.KeyPair {
		if rng.Intn(4) == 0 {
			return users[rng.Intn(len(users))]
		}
		return owner
	}
	adminOr := func() *wallet.KeyPair { // mostly the administrator
		if rng.Intn(5) == 0 {
			return kp
		}
		return bl.admin
	}
	switch op := rng.Intn(40); {
	// ---------------- liquidity
	case op < 7: // stake
		if rng.Intn(3) == 0 { // periods at and beyond the edges of the rule (lockbounds.go)
			w.boundaryLiquidityStake()
			return
		}
		toks := []types.ZenonTokenStandard{bl.lp, bl.lp, bl.tk, znn, types.QsrTokenStandard}
		z := toks[rng.Intn(len(toks))]
		holder, bal := w.holderOf(z)
		if holder == nil {
			w.userReceive(kp)
			return
		}
		amt := pickBig(rng, big.NewInt(999), big.NewInt(1000), big.NewInt(1001), big.NewInt(250000), big.NewInt(77777777), big.NewInt(0))
		if amt.Cmp(bal) > 0 {
			amt = new(big.Int).Set(bal)
		}
		dur := constants.StakeTimeUnitSec * int64(1+rng.Intn(3))
		switch rng.Intn(12) {
		case 0:
			dur = constants.StakeTimeMaxSec
		case 1:
			dur = []int64{0, constants.StakeTimeUnitSec + 1, constants.StakeTimeMaxSec + constants.StakeTimeUnitSec, -constants.StakeTimeUnitSec}[rng.Intn(4)]
		}
		w.call(holder, cLiquidity, z, amt, "bl-liq-stake", definition.LiquidityStakeMethodName, dur)
	case op < 13: // cancel: owner / somebody else, before / after expiry, twice in a row
		// mostly an entry that IS in the contract's storage (open ones preferred), now and then the id of any sent stake call
		var id types.Hash
		var owner *wallet.KeyPair
		var open, all []*definition.LiquidityStakeEntry
		for _, e := range definition.GetAllLiquidityStakeEntries(w.storageOf(types.LiquidityContract)) {
			all = append(all, e)
			if e.Amount.Sign() > 0 {
				open = append(open, e)
			}
		}
		pool := all
		if len(open) > 0 && rng.Intn(5) != 0 {
			pool = open
		}
		if len(pool) > 0 && rng.Intn(8) != 0 {
			e := pool[rng.Intn(len(pool))]
			id, owner = e.Id, KeyOf(e.StakeAddress)
			if rng.Intn(2) == 0 { // wait for the expiry of that entry
				w.waitUntil(func() bool { return w.now() >= e.ExpirationTime }, 10)
				w.out.Count("locks:cancel-after-waiting-for-expiry")
			}
		} else if e := w.pickMade("liquidity." + definition.LiquidityStakeMethodName); e != nil {
			id, owner = e.hash, e.kp
		}
		if owner == nil {
			return
		}
		k := other(owner)
		w.call(k, cLiquidity, znn, z0, "bl-liq-cancel", definition.CancelLiquidityStakeMethodName, id)
		if rng.Intn(3) == 0 {
			w.call(k, cLiquidity, znn, z0, "bl-liq-cancel-again", definition.CancelLiquidityStakeMethodName, id)
		}
	case op == 13: // administrator unlocks the entries of one token (named by the token standard of the send)
		z := []types.ZenonTokenStandard{bl.lp, bl.tk, znn}[rng.Intn(3)]
		w.call(adminOr(), cLiquidity, z, z0, "bl-liq-unlock", definition.UnlockLiquidityStakeEntriesMethodName)
	case op == 14:
		w.call(adminOr(), cLiquidity, znn, z0, "bl-liq-halt", definition.SetIsHaltedMethodName, rng.Intn(2) == 0)
	case op == 15: // reward update (removes closed entries once their epoch is accounted for), reward collection
		if rng.Intn(2) == 0 {
			w.call(kp, cLiquidity, znn, z0, "bl-liq-update", definition.UpdateMethodName)
		} else {
			w.call(kp, cLiquidity, znn, z0, "bl-liq-collect", definition.CollectRewardMethodName)
		}
	case op == 16: // treasury: the spork address moves / burns what the contract holds; donations
		switch rng.Intn(3) {
		case 0:
			w.call(g.Spork, cLiquidity, znn, z0, "bl-liq-fund", definition.FundMethodName, big.NewInt(int64(rng.Intn(3))*g.Zexp), big.NewInt(int64(rng.Intn(3))*g.Zexp))
		case 1:
			w.call(g.Spork, cLiquidity, znn, z0, "bl-liq-burn", definition.BurnZnnMethodName, big.NewInt(int64(rng.Intn(3))*g.Zexp))
		default:
			w.call(kp, cLiquidity, []types.ZenonTokenStandard{znn, types.QsrTokenStandard}[rng.Intn(2)], big.NewInt(int64(1+rng.Intn(5))*g.Zexp), "bl-liq-donate", definition.DonateMethodName)
		}
	case op == 17: // administrator re-configures the tuples (entries of a dropped token stay and can be cancelled)
		if rng.Intn(3) != 0 {
			return
		}
		sets := [][]types.ZenonTokenStandard{{bl.lp}, {bl.lp, bl.tk}, {bl.tk}, {bl.tk, bl.lp}}
		if w.twiceSoft(bl.admin, types.LiquidityContract, w.tupleData(sets[rng.Intn(len(sets))]), constants.MinSoftDelay) {
			w.out.Count("locks:tuples-reconfigured")
		}
	// ---------------- bridge
	case op < 25: // unwrap request: genuine, duplicate, wrong signature
		p := bl.pairs[rng.Intn(len(bl.pairs))]
		to := users[rng.Intn(len(users))].Address
		if rng.Intn(12) == 0 {
			to = embeddedTargets[rng.Intn(len(embeddedTargets))]
		}
		var tx types.Hash
		rng.Read(tx[:])
		log := []uint32{0, 1, 7, 1<<32 - 1}[rng.Intn(4)]
		variant := "genuine"
		if len(bl.unwraps) > 0 && rng.Intn(5) == 0 { // the same (txHash, logIndex) again / the same txHash with another logIndex
			u := bl.unwraps[rng.Intn(len(bl.unwraps))]
			tx, log, variant = u.tx, u.log, "duplicate"
			if rng.Intn(3) == 0 {
				log, variant = u.log+1, "same-tx-other-log"
			}
		}
		amt := pickBig(rng, big.NewInt(1), big.NewInt(100), big.NewInt(100000), big.NewInt(250000), big.NewInt(100000), big.NewInt(1000))
		if p.zts == znn && rng.Intn(2) == 0 {
			amt = big.NewInt(int64(1+rng.Intn(5)) * g.Zexp)
		}
		if rng.Intn(12) == 0 { // more than the bridge holds
			amt = pickBig(rng, big.NewInt(1000*g.Zexp), new(big.Int).Lsh(big.NewInt(1), 200), new(big.Int).Add(w.balanceOf(types.BridgeContract, p.zts), big.NewInt(1)), w.balanceOf(types.BridgeContract, p.zts))
			if amt.Sign() == 0 {
				amt = big.NewInt(1)
			}
		}
		prm := &definition.UnwrapTokenParam{NetworkClass: brNetClass, ChainId: brChainId, TransactionHash: tx, LogIndex: log, ToAddress: to, TokenAddress: p.addr, Amount: amt}
		if rng.Intn(8) == 0 {
			prm.TokenAddress = "0x" + strings.ToUpper(p.addr[2:])
		}
		switch rng.Intn(30) {
		case 0: // a network that is not configured
			prm.ChainId, variant = brChainId+1, "unknown-network"
		case 1: // a token address without a pair
			prm.TokenAddress, variant = "0x00000000000000000000000000000000000000aa", "unknown-token"
		}
		sig := tssSign(unwrapMessageOf(&definition.UnwrapTokenRequest{NetworkClass: prm.NetworkClass, ChainId: prm.ChainId, TransactionHash: tx, LogIndex: log,
			ToAddress: to, TokenAddress: prm.TokenAddress, Amount: amt}))
		if variant == "genuine" {
			switch rng.Intn(10) {
			case 0: // signed by a key that is not the TSS key
				s, err := ecrypto.Sign(unwrapMessageOf(&definition.UnwrapTokenRequest{NetworkClass: prm.NetworkClass, ChainId: prm.ChainId, TransactionHash: tx, LogIndex: log,
					ToAddress: to, TokenAddress: prm.TokenAddress, Amount: amt}), bl.otherKey)
				if err == nil {
					sig, variant = base64.StdEncoding.EncodeToString(s), "signed-by-other-key"
				}
			case 1: // the request is altered after the orchestrator signed it
				switch rng.Intn(4) {
				case 0:
					prm.ToAddress, variant = users[rng.Intn(len(users))].Address, "recipient-altered"
					if prm.ToAddress == to {
						variant = "genuine"
					}
				case 1:
					prm.Amount, variant = new(big.Int).Add(amt, big.NewInt(1)), "amount-altered"
				case 2:
					prm.LogIndex, variant = log+1, "log-index-altered"
				default:
					q := bl.pairs[rng.Intn(len(bl.pairs))]
					if q.addr != p.addr {
						prm.TokenAddress, variant = q.addr, "token-altered"
					}
				}
			case 2:
				sig, variant = pickPubKey(rng), "not-a-signature"
			}
		}
		if w.call(kp, cBridge, znn, z0, "bl-unwrap:"+variant, definition.UnwrapTokenMethodName,
			prm.NetworkClass, prm.ChainId, prm.TransactionHash, prm.LogIndex, prm.ToAddress, prm.TokenAddress, prm.Amount, sig) != nil {
			bl.unwraps = append(bl.unwraps, blUnwrap{prm.TransactionHash, prm.LogIndex})
			w.out.Count("locks:unwrap-sent:" + variant)
			if rng.Intn(3) == 0 { // a redeem queued right behind the request: received at the registration height, before any delay
				w.call(users[rng.Intn(len(users))], cBridge, znn, z0, "bl-redeem-at-once", definition.RedeemUnwrapMethodName, prm.TransactionHash, prm.LogIndex)
			}
		}
	case op < 34: // redeem by anyone: at once, at the delay, later; twice in a row
		if len(bl.unwraps) == 0 {
			return
		}
		u := bl.unwraps[rng.Intn(len(bl.unwraps))]
		if rng.Intn(2) == 0 && len(bl.unwraps) > 3 {
			u = bl.unwraps[len(bl.unwraps)-1-rng.Intn(3)]
		}
		if reqs, err := definition.GetUnwrapTokenRequests(w.storageOf(types.BridgeContract)); err == nil && len(reqs) > 0 && rng.Intn(4) != 0 {
			// mostly a request that IS registered, open ones preferred
			var open []*definition.UnwrapTokenRequest
			for _, r := range reqs {
				if r.Redeemed == 0 && r.Revoked == 0 {
					open = append(open, r)
				}
			}
			if len(open) > 0 && rng.Intn(5) != 0 {
				reqs = open
			}
			r := reqs[rng.Intn(len(reqs))]
			u = blUnwrap{r.TransactionHash, r.LogIndex}
		}
		switch rng.Intn(3) {
		case 0:
			w.settle() // the request is registered (if it is accepted) and the redeem comes at once or a momentum later
		case 1:
			w.settle()
			if req, err := definition.GetUnwrapTokenRequestByTxHashAndLog(w.storageOf(types.BridgeContract), u.tx, u.log); err == nil {
				// the receive of this redeem sees the frontier one momentum ahead: aim at delay-1, delay, delay+1
				target := req.RegistrationMomentumHeight + uint64(rng.Intn(6))
				w.waitUntil(func() bool { return w.nd.FrontierHeight()+1 >= target }, 8)
				w.out.Count("locks:redeem-aimed-at-the-delay")
			}
		}
		w.call(kp, cBridge, znn, z0, "bl-redeem", definition.RedeemUnwrapMethodName, u.tx, u.log)
		if rng.Intn(3) == 0 {
			w.call(users[rng.Intn(len(users))], cBridge, znn, z0, "bl-redeem-again", definition.RedeemUnwrapMethodName, u.tx, u.log)
		}
	case op == 34: // revoke by the administrator (or somebody else), mostly of an OPEN registered request, mostly followed by a
		// redeem once the delay has passed (so that the revocation is the only reason left to refuse it)
		if len(bl.unwraps) == 0 {
			return
		}
		u := bl.unwraps[rng.Intn(len(bl.unwraps))]
		var open *definition.UnwrapTokenRequest
		if reqs, err := definition.GetUnwrapTokenRequests(w.storageOf(types.BridgeContract)); err == nil && rng.Intn(4) != 0 {
			var os []*definition.UnwrapTokenRequest
			for _, r := range reqs {
				if r.Redeemed == 0 && r.Revoked == 0 {
					os = append(os, r)
				}
			}
			if len(os) > 0 {
				open = os[rng.Intn(len(os))]
				u = blUnwrap{open.TransactionHash, open.LogIndex}
			}
		}
		w.call(adminOr(), cBridge, znn, z0, "bl-revoke", definition.RevokeUnwrapRequestMethodName, u.tx, u.log)
		if rng.Intn(3) != 0 {
			if open != nil {
				w.waitUntil(func() bool { return w.nd.FrontierHeight() >= open.RegistrationMomentumHeight+6 }, 8)
				w.out.Count("locks:redeem-of-revoked-after-the-delay")
			}
			w.call(kp, cBridge, znn, z0, "bl-redeem-after-revoke", definition.RedeemUnwrapMethodName, u.tx, u.log)
		}
	case op == 35: // halt / unhalt by the administrator; redeems meanwhile
		halted := false
		if bi, err := definition.GetBridgeInfoVariable(w.storageOf(types.BridgeContract)); err == nil {
			halted = bi.Halted
		}
		if !halted && rng.Intn(3) == 0 {
			w.call(adminOr(), cBridge, znn, z0, "bl-halt", definition.HaltMethodName, "")
		} else {
			w.call(adminOr(), cBridge, znn, z0, "bl-unhalt", definition.UnhaltMethodName)
		}
		if len(bl.unwraps) > 0 {
			u := bl.unwraps[rng.Intn(len(bl.unwraps))]
			w.call(kp, cBridge, znn, z0, "bl-redeem-around-halt", definition.RedeemUnwrapMethodName, u.tx, u.log)
		}
	case op == 36: // more wrapped funds in the bridge
		p := bl.pairs[rng.Intn(len(bl.pairs))]
		if holder, bal := w.holderOf(p.zts); holder != nil {
			amt := pickBig(rng, big.NewInt(1000), big.NewInt(100000), big.NewInt(g.Zexp))
			if amt.Cmp(bal) > 0 {
				amt = bal
			}
			w.call(holder, cBridge, p.zts, amt, "bl-wrap", definition.WrapTokenMethodName, brNetClass, brChainId, "0xb794f5ea0ba39494ce839613fffba74279579268")
		}
	case op == 37: // the administrator changes the redeem delay / redeemable flag of a pair
		if rng.Intn(3) != 0 {
			return
		}
		i := rng.Intn(len(bl.pairs))
		p := bl.pairs[i]
		p.delay = []uint32{1, 2, 3, 5}[rng.Intn(4)]
		data := definition.ABIBridge.PackMethodPanic(definition.SetTokenPairMethod, brNetClass, brChainId, p.zts, p.addr, true, rng.Intn(6) != 0, p.owned, p.min, p.fee, p.delay, `{}`)
		if w.twiceSoft(bl.admin, types.BridgeContract, data, constants.MinSoftDelay) {
			bl.pairs[i] = p
			w.out.Count("locks:pair-reconfigured")
		}
	case op == 38: // users take what the contracts sent them
		w.userReceive(kp)
	default: // a random (mostly failing) call to one of the two contracts
		w.randomCallTo([]*contractDef{cBridge, cLiquidity}[rng.Intn(2)])
	}
}

func bridgeLiqHistory(rng *rand.Rand, out *Out, steps int) {
	resetSporks()
	nd := NewNodeEpoch(600 * time.Second)
	defer nd.Stop()
	defer resetSporks()
	w := &world{nd: nd, rng: rng, out: out, regime: "bridge", locks: true, paidOut: map[string]bool{},
		senders: []*wallet.KeyPair{g.User1, g.User2, g.User3, g.User4, g.Pillar1, g.Pillar2, g.Pillar3},
		tokens:  []types.ZenonTokenStandard{types.ZnnTokenStandard, types.QsrTokenStandard}, made: map[string][]madeEntry{},
		bl: &blState{admin: g.User5}}
	w.blSetup()
	w.checkBacked()
	for s := 0; s < steps && !w.dead; s++ {
		w.blOp()
		if rng.Intn(3) == 0 {
			w.settle()
		}
		if rng.Intn(14) == 0 { // let time pass: expirations, redeem delays, epochs
			for i := 0; i < 1+rng.Intn(6) && !w.dead; i++ {
				w.settle()
			}
		}
	}
	if !w.dead {
		w.settle()
		w.settle()
	}
}

func RunBridgeLiq(rng *rand.Rand, n int, out *Out, _ []string) {
	shortenConstants()
	for h := 0; h < n; h++ {
		bridgeLiqHistory(rng, out, 90+rng.Intn(50))
	}
}
