package embx

// liqtreasury (C10): deterministic reproducers of the KNOWN FINDING "the treasury operations of the liquidity contract
// (Fund, BurnZnn, the burn of the additional reward in Update) test only `balance >= amount` and ignore open liquidity
// stakes; once the administrator has configured ZNN / QSR as a stake token they spend what depositors staked".
// One reproducer per spending path, each under its own oracle key
//     liquidity-treasury-spent-below-stakes:{Fund,BurnZnn,additional-reward}
// emitted ONLY when exactly this situation is observed on the real code:
//   - the stake token is ZNN or QSR and is in the contract's token tuples through an administrator call,
//   - before the treasury call the open stakes of that token were backed, after the receive of THAT call (applied, sent
//     by the spork address / triggered by the administrator's additional reward) the balance is below them, and the
//     balance fell by what the call spent,
//   - the owner's cancellation of the matured stake is refused with ErrInsufficientBalance.
// Every other oracle of the locks machinery stays armed under its generic key (only the generic backing comparison of
// (liquidity, that token) is left to this file).  When the situation does not arise (e.g. the code was repaired) nothing
// is reported but the counter liqtreasury:not-reproduced:<path>.

import (
	"fmt"
	"math/big"
	"math/rand"
	"time"
	. "zharness/hz"

	g "github.com/zenon-network/go-zenon/chain/genesis/mock"
	"github.com/zenon-network/go-zenon/common"
	"github.com/zenon-network/go-zenon/common/types"
	"github.com/zenon-network/go-zenon/vm/constants"
	"github.com/zenon-network/go-zenon/vm/embedded/definition"
	"github.com/zenon-network/go-zenon/wallet"
)

type treasuryEvent struct {
	method                string
	sender                types.Address
	applied               bool
	err                   error
	balBefore, balAfter   *big.Int
	owedBefore, owedAfter *big.Int
	now                   int64
	data                  []byte
}

type treasuryRepro struct {
	zts  types.ZenonTokenStandard
	seen []treasuryEvent
}

const treasuryKey = "liquidity-treasury-spent-below-stakes:"

func (w *world) lastEvent(method string) *treasuryEvent {
	rp := w.bl.repro
	for i := len(rp.seen) - 1; i >= 0; i-- {
		if rp.seen[i].method == method {
			return &rp.seen[i]
		}
	}
	return nil
}

func (w *world) epochTicker() common.Ticker {
	return w.nd.Cs.FixedPillarReader(w.nd.Ch.GetFrontierMomentumStore().Identifier()).EpochTicker()
}

func (w *world) tupleConfigured(z types.ZenonTokenStandard) bool {
	li, err := definition.GetLiquidityInfo(w.storageOf(types.LiquidityContract))
	if err != nil {
		return false
	}
	for _, tt := range li.TokenTuples {
		if tt.TokenStandard == z.String() {
			return true
		}
	}
	return false
}

func (w *world) reproduceTreasury(path string) {
	rng, out := w.rng, w.out
	admin := w.bl.admin
	liq := types.LiquidityContract
	znn, qsr := types.ZnnTokenStandard, types.QsrTokenStandard
	z := znn
	if path != "BurnZnn" && rng.Intn(2) == 0 {
		z = qsr
	}
	w.bl.repro = &treasuryRepro{zts: z}
	miss := func(why string) { out.Count("liqtreasury:not-reproduced:" + path + ":" + why) }
	// 1. the administrator makes the treasury token the (only) stake token
	if !w.twiceSoft(admin, liq, w.tupleData([]types.ZenonTokenStandard{z}), constants.MinSoftDelay) || !w.tupleConfigured(z) {
		miss("tuple-not-configured")
		return
	}
	staker := []*wallet.KeyPair{g.User1, g.User2, g.User3}[rng.Intn(3)]
	if path == "additional-reward" {
		// the reward cursor is brought up to the running epoch first (an epoch without stakes mints its whole reward to the
		// contract), so that the decisive update is the one of the epoch the stake lies in
		for i := 0; i < 6 && !w.dead; i++ {
			w.call(g.User4, cLiquidity, znn, z0, "treasury", definition.UpdateMethodName)
			w.settle()
			le, err := definition.GetLastEpochUpdate(w.storageOf(liq))
			if err != nil {
				miss("no-epoch-cursor")
				return
			}
			_, end := w.epochTicker().ToTime(uint64(le.LastEpoch + 1))
			if w.now() < end.Unix() {
				break
			}
			w.advance(constants.UpdateMinNumMomentums + 1)
		}
	}
	// 2. a user stakes the token for the shortest period; small donations so that both legs of Fund are positive
	s := big.NewInt(int64(6+rng.Intn(10)) * g.Zexp)
	stake := w.call(staker, cLiquidity, z, s, "treasury", definition.LiquidityStakeMethodName, constants.StakeTimeUnitSec)
	w.call(g.User4, cLiquidity, znn, big.NewInt(10), "treasury", definition.DonateMethodName)
	w.call(g.User4, cLiquidity, qsr, big.NewInt(10), "treasury", definition.DonateMethodName)
	w.settle()
	ev := w.lastEvent(definition.LiquidityStakeMethodName)
	if stake == nil || ev == nil || !ev.applied {
		miss("stake-refused")
		return
	}
	stakedAt := ev.now
	// 3. the treasury operation
	half := new(big.Int).Rsh(s, 1)
	spent := new(big.Int)
	var trigger string
	switch path {
	case "Fund":
		// everything the contract holds beyond the stake, plus half of the stake
		spent.Add(new(big.Int).Sub(w.balanceOf(liq, z), s), half)
		a, b := spent, big.NewInt(1)
		if z == qsr {
			a, b = b, a
		}
		w.call(g.Spork, cLiquidity, znn, z0, "treasury", definition.FundMethodName, a, b)
		trigger = definition.FundMethodName
	case "BurnZnn":
		spent.Add(new(big.Int).Sub(w.balanceOf(liq, z), s), half)
		w.call(g.Spork, cLiquidity, znn, z0, "treasury", definition.BurnZnnMethodName, spent)
		trigger = definition.BurnZnnMethodName
	case "additional-reward":
		// wait for the end of the epoch the stake lies in; then the administrator sets the additional reward to everything
		// beyond the stake plus half of it, and anybody's Update burns it
		epoch := w.epochTicker().ToTick(time.Unix(stakedAt, 0))
		_, end := w.epochTicker().ToTime(epoch)
		w.waitUntil(func() bool { return w.now() >= end.Unix() }, 70)
		for i := 0; i < 4; i++ { // mints of earlier updates have arrived
			w.settle()
		}
		spent.Add(new(big.Int).Sub(w.balanceOf(liq, z), s), half)
		a, b := spent, big.NewInt(0)
		if z == qsr {
			a, b = b, a
		}
		if !w.twiceSoft(admin, liq, definition.ABILiquidity.PackMethodPanic(definition.SetAdditionalRewardMethodName, a, b), constants.MinSoftDelay) {
			miss("additional-reward-not-set")
			return
		}
		w.call(g.User4, cLiquidity, znn, z0, "treasury", definition.UpdateMethodName)
		trigger = definition.UpdateMethodName
	}
	w.settle()
	te := w.lastEvent(trigger)
	exact := te != nil && te.applied && te.owedBefore.Cmp(te.balBefore) <= 0 && te.owedAfter.Cmp(te.owedBefore) == 0 && te.owedBefore.Cmp(s) == 0 &&
		te.balAfter.Cmp(te.owedAfter) < 0 && new(big.Int).Sub(te.balBefore, te.balAfter).Cmp(spent) == 0
	if path != "additional-reward" {
		exact = exact && te.sender == *types.SporkAddress
	}
	if !exact {
		miss("treasury-call-did-not-go-below-stakes")
		return
	}
	// 4. the matured stake cannot be paid
	w.waitUntil(func() bool { return w.now() >= stakedAt+constants.StakeTimeUnitSec }, 8)
	w.call(staker, cLiquidity, znn, z0, "treasury", definition.CancelLiquidityStakeMethodName, stake.Hash)
	w.settle()
	ce := w.lastEvent(definition.CancelLiquidityStakeMethodName)
	if ce == nil || ce.applied || ce.err != constants.ErrInsufficientBalance || ce.now < stakedAt+constants.StakeTimeUnitSec || ce.sender != staker.Address {
		miss("matured-cancel-not-refused-for-insufficient-balance")
		return
	}
	out.Count("liqtreasury:reproduced:" + path)
	out.Oracle(false, treasuryKey+path, M{"stake_token": z.String(), "staked": Big(s), "spent_by_treasury_call": Big(spent), "treasury_method": trigger,
		"balance_before": Big(te.balBefore), "balance_after": Big(te.balAfter), "open_stakes": Big(te.owedAfter),
		"cancel": fmt.Sprintf("CancelLiquidityStake(%s) by its owner %s at %d (expired at %d): %v", stake.Hash, staker.Address, ce.now, stakedAt+constants.StakeTimeUnitSec, ce.err)})
}

// RunLiqTreasury: history h reproduces path h mod 3
func RunLiqTreasury(rng *rand.Rand, n int, out *Out, _ []string) {
	shortenConstants()
	paths := []string{"Fund", "BurnZnn", "additional-reward"}
	for h := 0; h < n; h++ {
		func() {
			resetSporks()
			nd := NewNodeEpoch(600 * time.Second)
			defer nd.Stop()
			defer resetSporks()
			w := &world{nd: nd, rng: rng, out: out, regime: "bridge", locks: true, paidOut: map[string]bool{},
				senders: []*wallet.KeyPair{g.User1, g.User2, g.User3, g.User4, g.Pillar1, g.Pillar2, g.Pillar3},
				tokens:  []types.ZenonTokenStandard{types.ZnnTokenStandard, types.QsrTokenStandard}, made: map[string][]madeEntry{},
				bl: &blState{admin: g.User5}}
			w.blSetup()
			w.checkBacked()
			w.reproduceTreasury(paths[h%len(paths)])
		}()
	}
}
