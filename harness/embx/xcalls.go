package embx

// Deep operations of the calls suite (C09): contract-to-contract sends and the bridge / liquidity contracts set up
// through accepted administrator calls, so that the states in which a call FAILS AFTER its method produced
// descendant blocks, and calls SENT BY CONTRACTS, are reached on every run:
//   - tokens issued by users with every (mintable, burnable) combination, owner moved to embedded contracts,
//     initial supply received by the issuer so that user-issued tokens can be donated / wrapped / burned / staked;
//   - Token.Mint with EVERY embedded contract as receive address (the token contract then sends Donate to it);
//   - bridge token pairs with boundary fees {0, 1, MaximumFee-1, MaximumFee}, owned and not owned, boundary
//     minimum amounts; WrapToken at {min-1, min, min+1, 1, whole balance}; UnwrapToken signed by the TSS key towards
//     users and embedded contracts; Redeem; UpdateWrapRequest with the real signature;
//   - ChangeTssECDSAPubKey / every pubkey-typed argument from a pool of invalid encodings of secp256k1 keys.
// The oracles are those of receiveOne (no panic, no internal error, applied or exact refund, inbox advances) plus
// the end-of-history drain of every contract inbox.

import (
	"encoding/base64"
	"encoding/hex"
	"fmt"
	"math/big"
	"math/rand"
	. "zharness/hz"

	ecommon "github.com/ethereum/go-ethereum/common"
	ecrypto "github.com/ethereum/go-ethereum/crypto"
	g "github.com/zenon-network/go-zenon/chain/genesis/mock"
	"github.com/zenon-network/go-zenon/chain/nom"
	"github.com/zenon-network/go-zenon/common/types"
	"github.com/zenon-network/go-zenon/vm"
	"github.com/zenon-network/go-zenon/vm/constants"
	"github.com/zenon-network/go-zenon/vm/embedded/definition"
	"github.com/zenon-network/go-zenon/vm/embedded/implementation"
	"github.com/zenon-network/go-zenon/wallet"
)

// ---------------------------------------------------------------- the send block as it was sent

type sendSnap struct {
	hash       types.Hash
	sender, to types.Address
	amount     *big.Int
	zts        types.ZenonTokenStandard
}

func snapSend(s *nom.AccountBlock) sendSnap {
	return sendSnap{s.Hash, s.Address, s.ToAddress, new(big.Int).Set(s.Amount), s.TokenStandard}
}
func (o sendSnap) same(b *nom.AccountBlock) bool {
	return b.Hash == o.hash && b.Address == o.sender && b.ToAddress == o.to && b.Amount != nil && b.Amount.Cmp(o.amount) == 0 && b.TokenStandard == o.zts
}

// ---------------------------------------------------------------- failures of calls sent by contracts

// KnownWedgeKey is the ONE reproduced path of known_findings.d/C09.json: the bridge's Burn (descendant of a
// WrapToken on an owned pair) refused by the token contract because the token is neither burnable nor owned by
// the bridge; its refund to the bridge contract cannot be applied.
const KnownWedgeKey = "refund-to-contract-sender-fails:bridge->token.Burn:owned-pair-token-not-burnable"

func (w *world) contractSendFailureKey(c *contractDef, s *nom.AccountBlock, mname string) string {
	sn := "?"
	if sc := contractOf(s.Address); sc != nil {
		sn = sc.Name
	}
	if s.Address == types.BridgeContract && c.Addr == types.TokenContract && mname == definition.BurnMethodName {
		// the conditions under which the UNCHANGED Burn.ReceiveBlock refuses the call of the bridge
		if ti, err := definition.GetTokenInfo(w.storageOf(types.TokenContract), s.TokenStandard); err == nil && ti != nil &&
			!ti.IsBurnable && ti.Owner != types.BridgeContract {
			return KnownWedgeKey
		}
	}
	return "contract-call-wedges-inbox:" + sn + "->" + c.Name + "." + mname
}

// wedgePersists: one more momentum, the same block is still the head of the inbox and still cannot be received
func (w *world) wedgePersists(c *contractDef, s *nom.AccountBlock) bool {
	if err := w.nd.MomentumOnly(); err != nil {
		return true
	}
	h := w.nd.InboxHead(c.Addr)
	if h == nil || h.Hash != s.Hash {
		return false
	}
	exec, err, pv := w.nd.AutoReceive(h)
	return pv != nil || err != nil || exec == nil
}

// ---------------------------------------------------------------- pubkey-typed arguments

var pubKeyPool = func() []string {
	b64 := base64.StdEncoding.EncodeToString
	rep := func(b byte, n int) []byte {
		r := make([]byte, n)
		for i := range r {
			r[i] = b
		}
		return r
	}
	tss, _ := base64.StdEncoding.DecodeString(brTssPub)
	pre := func(p byte, rest []byte) []byte { return append([]byte{p}, rest...) }
	l := []string{g.Secp1PubKeyB64, g.Secp2PubKeyB64, brTssPub, "", "!!notbase64", "AAAA",
		b64(rep(0, 33)), b64(rep(0xff, 33)), // 33 bytes, no valid prefix
		b64(pre(2, rep(0, 32))), b64(pre(3, rep(0xff, 32))), // valid prefix, x = 0 / x >= p
		b64(pre(2, rep(5, 32))), b64(pre(3, rep(7, 32))), // valid prefix, x most likely not on the curve
		b64(pre(4, tss[1:])), b64(pre(0, tss[1:])), b64(pre(5, tss[1:])), // a real x under a wrong prefix
		b64(pre(3, tss[1:])),                                    // the other root: valid
		b64(tss[:32]), b64(append(append([]byte{}, tss...), 0)), // 32 and 34 bytes
		b64(pre(4, rep(0, 64))), b64(pre(4, rep(0xff, 64))), b64(rep(0, 65)), b64(rep(1, 64)), // uncompressed forms, invalid points
	}
	return l
}()

func pickPubKey(rng *rand.Rand) string {
	if rng.Intn(6) == 0 { // a random 33-byte string with a valid prefix: on the curve for about half of the x
		b := make([]byte, 33)
		rng.Read(b)
		b[0] = 2 + byte(rng.Intn(2))
		return base64.StdEncoding.EncodeToString(b)
	}
	return pubKeyPool[rng.Intn(len(pubKeyPool))]
}

// ---------------------------------------------------------------- world state of the deep operations

type issuedTok struct {
	zts                types.ZenonTokenStandard
	owner              *wallet.KeyPair
	mintable, burnable bool
	max                *big.Int
}

type tokPair struct {
	zts   types.ZenonTokenStandard
	addr  string
	owned bool
	fee   uint32
	min   *big.Int
	delay uint32
}

type unwrapReq struct {
	tx  types.Hash
	log uint32
}

type deep struct {
	bridgeReady bool
	liqReady    bool
	issued      []issuedTok
	pairs       []tokPair
	unwraps     []unwrapReq
	acc         accel // the accelerator life cycle (accel.go)
}

func tssSign(msg []byte) string {
	raw, _ := base64.StdEncoding.DecodeString(brTssPriv)
	k, err := ecrypto.ToECDSA(raw)
	if err != nil {
		panic(err)
	}
	sig, err := ecrypto.Sign(msg, k)
	if err != nil {
		panic(err)
	}
	return base64.StdEncoding.EncodeToString(sig)
}

// foreign-chain token address of a ZTS (one per token: SetTokenPair refuses duplicates)
func pairAddr(z types.ZenonTokenStandard) string {
	b := make([]byte, 20)
	copy(b, z.Bytes())
	b[19] = 0x5a
	return "0x" + hex.EncodeToString(b)
}

var embeddedTargets = []types.Address{types.AcceleratorContract, types.LiquidityContract, types.BridgeContract, types.TokenContract,
	types.PillarContract, types.StakeContract, types.PlasmaContract, types.SentinelContract, types.SwapContract, types.SporkContract, types.HtlcContract}

func (w *world) balanceOf(a types.Address, z types.ZenonTokenStandard) *big.Int {
	b, err := w.nd.Ch.GetFrontierAccountStore(a).GetBalance(z)
	if err != nil || b == nil {
		return big.NewInt(0)
	}
	return b
}

// holderOf returns a sender that owns a positive balance of the token
func (w *world) holderOf(z types.ZenonTokenStandard) (*wallet.KeyPair, *big.Int) {
	off := w.rng.Intn(len(w.senders))
	for i := range w.senders {
		kp := w.senders[(off+i)%len(w.senders)]
		if b := w.balanceOf(kp.Address, z); b.Sign() > 0 {
			return kp, b
		}
	}
	return nil, nil
}

// userReceive: a user account receives what is pending for it (refunds, payouts, initial supplies); no momentum
func (w *world) userReceive(kp *wallet.KeyPair) {
	ms := w.nd.Ch.GetFrontierMomentumStore()
	hs, err := ms.GetAccountMailbox(kp.Address).GetUnreceivedAccountBlockHashes(8)
	if err != nil {
		return
	}
	for _, h := range hs {
		b := &nom.AccountBlock{BlockType: nom.BlockTypeUserReceive, Address: kp.Address, FromBlockHash: h}
		w.nd.Fill(b)
		if base, err := vm.GetBasePlasmaForAccountBlock(w.ctxFor(b), b); err == nil {
			b.FusedPlasma = base
		}
		Sign(b, kp)
		tx, err := w.nd.Apply(b)
		if err != nil {
			w.out.Count("user-receive-rejected")
			return
		}
		if e := w.nd.Insert(tx); e != nil {
			w.out.Count("insert-failed")
			return
		}
		w.out.Count("user-receive")
	}
}

func (w *world) call(kp *wallet.KeyPair, c *contractDef, zts types.ZenonTokenStandard, amount *big.Int, tag, method string, args ...interface{}) *nom.AccountBlock {
	data, err := c.ABI.PackMethod(method, args...)
	if err != nil {
		w.out.Count("pack-failed:" + c.Name + "." + method)
		return nil
	}
	b := w.send(kp, c.Addr, zts, amount, data, tag)
	if b != nil {
		k := c.Name + "." + method
		w.made[k] = append(w.made[k], madeEntry{b.Hash, kp, args})
	}
	return b
}

var (
	cToken       = contractOf(types.TokenContract)
	cBridge      = contractOf(types.BridgeContract)
	cLiquidity   = contractOf(types.LiquidityContract)
	cAccelerator = contractOf(types.AcceleratorContract)
	z0           = big.NewInt(0)
)

func pickBig(rng *rand.Rand, xs ...*big.Int) *big.Int {
	x := xs[rng.Intn(len(xs))]
	if x.Sign() < 0 {
		return big.NewInt(0)
	}
	return new(big.Int).Set(x)
}

// twiceSoft: a time-challenged administrator call inside a random history (no panic when a send is refused)
func (w *world) twiceSoft(kp *wallet.KeyPair, to types.Address, data []byte, delay uint64) bool {
	if w.send(kp, to, types.ZnnTokenStandard, z0, data, "deep-admin") == nil {
		return false
	}
	w.advance(delay + 2)
	if w.dead || w.send(kp, to, types.ZnnTokenStandard, z0, data, "deep-admin") == nil {
		return false
	}
	w.settle()
	return !w.dead
}

// ---------------------------------------------------------------- contract-to-contract operations (every regime)

func (w *world) c2cOp() {
	rng := w.rng
	dp := w.deep
	op := rng.Intn(12)
	if len(dp.issued) == 0 {
		op = 0
	}
	switch op {
	case 10, 11: // a random call of the generic generator to the contracts that take part in contract-to-contract sends
		w.randomCallTo([]*contractDef{cToken, cAccelerator, cLiquidity}[rng.Intn(3)])
	case 0: // issue a token; small supplies so that mint limits are reached
		kp := w.senders[rng.Intn(5)]
		tot := big.NewInt(int64(rng.Intn(3)) * 50000)
		mx := new(big.Int).Add(tot, big.NewInt(int64(1+rng.Intn(3))*100000))
		mintable, burnable := rng.Intn(4) != 0, rng.Intn(2) == 0
		if !mintable {
			if tot.Sign() == 0 {
				tot = big.NewInt(50000)
			}
			mx = new(big.Int).Set(tot)
		}
		if rng.Intn(5) == 0 {
			// supplies at the edge of the amount range (2^255-1 is the largest amount a send can carry; the issue is
			// answered with a mint of the whole supply, and a mintable token can later be minted up to its maximum)
			edge := new(big.Int).Lsh(big.NewInt(1), 255)
			edge.Sub(edge, big.NewInt(int64(rng.Intn(3))-1))
			mx = edge
			if rng.Intn(2) == 0 {
				tot = new(big.Int).Set(edge)
			}
			w.out.Count("deep:issue-with-supply-at-the-edge-of-the-amount-range")
		}
		n := len(dp.issued)
		if b := w.call(kp, cToken, types.ZnnTokenStandard, constants.TokenIssueAmount, "deep", definition.IssueMethodName,
			fmt.Sprintf("deep-%d", n), fmt.Sprintf("DP%d", n), "", tot, mx, uint8(rng.Intn(19)), mintable, burnable, rng.Intn(4) == 0); b != nil {
			z := types.NewZenonTokenStandard(b.Hash.Bytes())
			dp.issued = append(dp.issued, issuedTok{z, kp, mintable, burnable, mx})
			w.tokens = append(w.tokens, z)
		}
	case 1, 2: // Mint towards an embedded contract (or a user): the token contract sends Donate to the receiver
		t := dp.issued[rng.Intn(len(dp.issued))]
		to := embeddedTargets[rng.Intn(len(embeddedTargets))]
		if rng.Intn(3) == 0 {
			to = embeddedTargets[rng.Intn(2)] // accelerator, liquidity: the contracts that implement Donate
		}
		if rng.Intn(6) == 0 {
			to = w.senders[rng.Intn(len(w.senders))].Address
		}
		if rng.Intn(4) == 0 { // recipients nobody holds a key for: the zero address, a random one, an embedded-looking non-contract
			to = w.pickAddr()
			if rng.Intn(2) == 0 {
				to = types.ZeroAddress
			}
			w.out.Count("deep:mint-to-odd-recipient")
		}
		kp := t.owner
		if rng.Intn(8) == 0 {
			kp = w.senders[rng.Intn(len(w.senders))]
		}
		w.call(kp, cToken, types.ZnnTokenStandard, z0, "deep-mint-to-contract", definition.MintMethodName,
			t.zts, pickBig(rng, big.NewInt(1), big.NewInt(1000), big.NewInt(100000), t.max, new(big.Int).Add(t.max, big.NewInt(1))), to)
	case 4: // move the ownership of a token to an embedded contract (the bridge for owned pairs) or a user
		t := &dp.issued[rng.Intn(len(dp.issued))]
		to := types.BridgeContract
		if rng.Intn(3) == 0 {
			to = embeddedTargets[rng.Intn(len(embeddedTargets))]
		}
		if w.call(t.owner, cToken, types.ZnnTokenStandard, z0, "deep-owner-to-contract", definition.UpdateTokenMethodName,
			t.zts, to, t.mintable, t.burnable) != nil {
			w.out.Count("deep:token-owner-moved")
		}
	case 3, 5, 6: // donation of a user-issued token (and ZNN/QSR) to accelerator / liquidity, boundary amounts
		z := w.tokens[rng.Intn(len(w.tokens))]
		if rng.Intn(3) != 0 {
			z = dp.issued[rng.Intn(len(dp.issued))].zts
		}
		kp, bal := w.holderOf(z)
		if kp == nil {
			w.userReceive(w.senders[rng.Intn(5)])
			return
		}
		c := []*contractDef{cAccelerator, cLiquidity}[rng.Intn(2)]
		w.call(kp, c, z, pickBig(rng, big.NewInt(1), bal, new(big.Int).Rsh(bal, 1), big.NewInt(1000)), "deep-donate", definition.DonateMethodName)
	case 7: // burn of a user-issued token by a holder
		t := dp.issued[rng.Intn(len(dp.issued))]
		kp, bal := w.holderOf(t.zts)
		if kp == nil {
			w.userReceive(t.owner)
			return
		}
		w.call(kp, cToken, t.zts, pickBig(rng, big.NewInt(1), bal, big.NewInt(1000)), "deep-burn", definition.BurnMethodName)
	default: // users receive what contracts sent them
		w.userReceive(w.senders[rng.Intn(len(w.senders))])
		if len(dp.issued) > 0 {
			w.userReceive(dp.issued[rng.Intn(len(dp.issued))].owner)
		}
	}
}

// ---------------------------------------------------------------- bridge (regimes with the bridge spork)

var feeClasses = []uint32{0, 1, 100, constants.MaximumFee - 1, constants.MaximumFee, constants.MaximumFee, 5000}

func (w *world) bridgeOp() {
	rng := w.rng
	dp := w.deep
	if !dp.bridgeReady {
		return
	}
	op := rng.Intn(12)
	if len(dp.pairs) == 0 {
		op = 0
	}
	switch op {
	case 0, 1: // a token pair with boundary fee / minimum; owned pairs for issued tokens
		z := w.tokens[rng.Intn(len(w.tokens))]
		owned := false
		if len(dp.issued) > 0 && rng.Intn(4) != 0 {
			t := dp.issued[rng.Intn(len(dp.issued))]
			z = t.zts
			// the configuration "owned, neither burnable nor owned by the bridge" is the known finding and has its own
			// reproducer (suite wedge); here the owned pairs are those whose Burn the token contract can accept
			ti, err := definition.GetTokenInfo(w.storageOf(types.TokenContract), z)
			owned = err == nil && ti != nil && (ti.IsBurnable || ti.Owner == types.BridgeContract) && rng.Intn(4) != 0
		}
		p := tokPair{z, pairAddr(z), owned, feeClasses[rng.Intn(len(feeClasses))],
			pickBig(rng, big.NewInt(0), big.NewInt(1), big.NewInt(10), big.NewInt(1000)), []uint32{1, 2, 15}[rng.Intn(3)]}
		data, err := definition.ABIBridge.PackMethod(definition.SetTokenPairMethod, brNetClass, brChainId, p.zts, p.addr, rng.Intn(8) != 0, rng.Intn(8) != 0, p.owned, p.min, p.fee, p.delay, `{}`)
		if err != nil || !w.twiceSoft(g.User5, types.BridgeContract, data, constants.MinSoftDelay) {
			return
		}
		for i := range dp.pairs {
			if dp.pairs[i].zts == p.zts {
				dp.pairs = append(dp.pairs[:i], dp.pairs[i+1:]...)
				break
			}
		}
		dp.pairs = append(dp.pairs, p)
		w.out.Count(fmt.Sprintf("deep:pair:owned=%v:fee=%d", p.owned, p.fee))
	case 2, 3, 4, 5: // WrapToken at the boundaries of the pair's minimum and of the holder's balance
		p := dp.pairs[rng.Intn(len(dp.pairs))]
		if rng.Intn(2) == 0 { // the pairs whose wrap makes the bridge call the token contract
			for _, q := range dp.pairs {
				if q.owned {
					p = q
				}
			}
		}
		kp, bal := w.holderOf(p.zts)
		if kp == nil {
			for _, t := range dp.issued {
				if t.zts == p.zts {
					w.userReceive(t.owner)
				}
			}
			return
		}
		one := big.NewInt(1)
		amt := pickBig(rng, one, p.min, new(big.Int).Sub(p.min, one), new(big.Int).Add(p.min, one), bal, big.NewInt(100), big.NewInt(9999), big.NewInt(10001), new(big.Int).Rsh(bal, 2))
		if amt.Cmp(bal) > 0 {
			amt = new(big.Int).Set(bal)
		}
		if w.call(kp, cBridge, p.zts, amt, "deep-wrap", definition.WrapTokenMethodName, brNetClass, brChainId, "0xb794f5ea0ba39494ce839613fffba74279579268") != nil {
			w.out.Count(fmt.Sprintf("deep:wrap:owned=%v:fee=%d", p.owned, p.fee))
		}
	case 6, 7: // UnwrapToken signed by the TSS key, towards users and embedded contracts
		p := dp.pairs[rng.Intn(len(dp.pairs))]
		to := w.senders[rng.Intn(len(w.senders))].Address
		if rng.Intn(3) == 0 {
			to = embeddedTargets[rng.Intn(len(embeddedTargets))]
		}
		var tx types.Hash
		rng.Read(tx[:])
		prm := &definition.UnwrapTokenParam{NetworkClass: brNetClass, ChainId: brChainId, TransactionHash: tx, LogIndex: []uint32{0, 1, 1<<32 - 1}[rng.Intn(3)],
			ToAddress: to, TokenAddress: p.addr, Amount: pickBig(rng, big.NewInt(1), big.NewInt(100), big.NewInt(100000), new(big.Int).Lsh(big.NewInt(1), 200))}
		msg, err := implementation.GetUnwrapTokenRequestMessage(prm)
		if err != nil {
			return
		}
		sig := tssSign(msg)
		if rng.Intn(10) == 0 {
			sig = pickPubKey(rng) // not a signature
		}
		if w.call(w.senders[rng.Intn(len(w.senders))], cBridge, types.ZnnTokenStandard, z0, "deep-unwrap", definition.UnwrapTokenMethodName,
			prm.NetworkClass, prm.ChainId, prm.TransactionHash, prm.LogIndex, prm.ToAddress, prm.TokenAddress, prm.Amount, sig) != nil {
			dp.unwraps = append(dp.unwraps, unwrapReq{tx, prm.LogIndex})
		}
	case 8, 9: // Redeem of a registered unwrap request (twice: the second one must be refused)
		if len(dp.unwraps) == 0 {
			return
		}
		u := dp.unwraps[rng.Intn(len(dp.unwraps))]
		w.call(w.senders[rng.Intn(len(w.senders))], cBridge, types.ZnnTokenStandard, z0, "deep-redeem", definition.RedeemUnwrapMethodName, u.tx, u.log)
	case 10: // UpdateWrapRequest with the orchestrator's real signature
		e := w.pickMade("bridge." + definition.WrapTokenMethodName)
		if e == nil {
			return
		}
		req, err := definition.GetWrapTokenRequestById(w.storageOf(types.BridgeContract), e.hash)
		if err != nil || req == nil {
			return
		}
		ni, err := definition.GetNetworkInfoVariable(w.storageOf(types.BridgeContract), req.NetworkClass, req.ChainId)
		if err != nil || ni == nil {
			return
		}
		ca := ecommon.HexToAddress(ni.ContractAddress)
		msg, err := implementation.GetWrapTokenRequestMessage(req, &ca)
		if err != nil {
			return
		}
		w.call(w.senders[rng.Intn(len(w.senders))], cBridge, types.ZnnTokenStandard, z0, "deep-update-wrap", definition.UpdateWrapRequestMethodName, e.hash, tssSign(msg))
	default: // a key change requested by anybody, with every encoding of a compressed key
		kp := w.senders[rng.Intn(len(w.senders))]
		w.call(kp, cBridge, types.ZnnTokenStandard, z0, "deep-change-tss", definition.ChangeTssECDSAPubKeyMethodName, pickPubKey(rng), pickPubKey(rng), pickPubKey(rng))
	}
}

// ---------------------------------------------------------------- liquidity (regimes with the bridge spork)

func (w *world) setupLiquidity() {
	admin := g.User5
	guardians := []types.Address{g.User1.Address, g.User2.Address, g.User3.Address, g.User4.Address, g.User5.Address}
	w.twice(admin, types.LiquidityContract, definition.ABILiquidity.PackMethodPanic(definition.NominateGuardiansMethodName, guardians), constants.MinAdministratorDelay)
	w.deep.liqReady = true
	// administrator calls whose parallel lists disagree in length, systematically: each of the four lists of SetTokenTuple
	// shorter / longer than the others (two lists at random per history); refused when sent, or failing cleanly when received
	for k := 0; k < 2 && !w.dead; k++ {
		zs := []string{types.ZnnTokenStandard.String(), types.QsrTokenStandard.String()}
		zp, qp := []uint32{5000, 5000}, []uint32{5000, 5000}
		mins := []*big.Int{big.NewInt(1), big.NewInt(1)}
		which, longer := w.rng.Intn(4), w.rng.Intn(2) == 0
		switch which {
		case 0:
			if longer {
				zs = append(zs, zs[0])
			} else {
				zs = zs[:1]
			}
		case 1:
			if longer {
				zp = append(zp, 0)
			} else {
				zp = zp[:1]
			}
		case 2:
			if longer {
				qp = append(qp, 0)
			} else {
				qp = qp[:1]
			}
		default:
			if longer {
				mins = append(mins, big.NewInt(1))
			} else {
				mins = mins[:1]
			}
		}
		if data, err := definition.ABILiquidity.PackMethod(definition.SetTokenTupleMethodName, zs, zp, qp, mins); err == nil {
			w.out.Count(fmt.Sprintf("deep:liquidity-tuples-of-unequal-length:list%d:longer=%v", which, longer))
			w.twiceSoft(admin, types.LiquidityContract, data, constants.MinSoftDelay)
		}
	}
}

func (w *world) liquidityOp() {
	rng := w.rng
	dp := w.deep
	if !dp.liqReady {
		return
	}
	switch rng.Intn(6) {
	case 0: // token tuples over issued tokens, percentages at the boundaries
		var zs []string
		var zp, qp []uint32
		var mins []*big.Int
		n := 1 + rng.Intn(3)
		if n > len(dp.issued) {
			n = len(dp.issued)
		}
		rest := uint32(10000)
		for i := 0; i < n; i++ {
			zs = append(zs, dp.issued[i].zts.String())
			share := rest
			if i < n-1 {
				share = []uint32{0, 1, rest / 2, rest}[rng.Intn(4)]
			}
			rest -= share
			zp, qp = append(zp, share), append(qp, share)
			mins = append(mins, pickBig(rng, big.NewInt(0), big.NewInt(1), big.NewInt(1000)))
		}
		if len(zs) == 0 {
			return
		}
		// the four lists are parallel: now and then ONE of them (any of the four, the last one included) is shorter or
		// longer than the others — the administrator's call has to be refused when it is sent or fail cleanly when received
		if rng.Intn(3) == 0 {
			longer := rng.Intn(2) == 0
			switch rng.Intn(4) {
			case 0:
				if longer {
					zs = append(zs, zs[0])
				} else {
					zs = zs[:len(zs)-1]
				}
			case 1:
				if longer {
					zp = append(zp, 0)
				} else {
					zp = zp[:len(zp)-1]
				}
			case 2:
				if longer {
					qp = append(qp, 0)
				} else {
					qp = qp[:len(qp)-1]
				}
			default:
				if longer {
					mins = append(mins, big.NewInt(1))
				} else {
					mins = mins[:len(mins)-1]
				}
			}
			w.out.Count("deep:liquidity-tuples-of-unequal-length")
		}
		data, err := definition.ABILiquidity.PackMethod(definition.SetTokenTupleMethodName, zs, zp, qp, mins)
		if err != nil {
			w.out.Count("pack-failed:liquidity.SetTokenTuple")
			return
		}
		if w.twiceSoft(g.User5, types.LiquidityContract, data, constants.MinSoftDelay) {
			w.out.Count("deep:liquidity-tuples")
		}
	case 1, 2: // liquidity stake of an issued token
		if len(dp.issued) == 0 {
			return
		}
		t := dp.issued[rng.Intn(len(dp.issued))]
		kp, bal := w.holderOf(t.zts)
		if kp == nil {
			w.userReceive(t.owner)
			return
		}
		w.call(kp, cLiquidity, t.zts, pickBig(rng, big.NewInt(1), big.NewInt(1000), bal), "deep-liq-stake", definition.LiquidityStakeMethodName,
			[]int64{constants.StakeTimeUnitSec, constants.StakeTimeMaxSec, 0}[rng.Intn(3)])
	case 3: // cancel an existing stake
		if e := w.pickMade("liquidity." + definition.LiquidityStakeMethodName); e != nil {
			w.call(e.kp, cLiquidity, types.ZnnTokenStandard, z0, "deep-liq-cancel", definition.CancelLiquidityStakeMethodName, e.hash)
		}
	case 4: // funding of the accelerator by the liquidity contract (liquidity -> accelerator.Donate)
		w.call(g.User5, cLiquidity, types.ZnnTokenStandard, z0, "deep-fund", definition.FundMethodName,
			pickBig(rng, big.NewInt(0), big.NewInt(1), big.NewInt(g.Zexp)), pickBig(rng, big.NewInt(0), big.NewInt(1), big.NewInt(g.Zexp)))
	default:
		w.call(w.senders[rng.Intn(len(w.senders))], cLiquidity, types.ZnnTokenStandard, z0, "deep-liq-update", definition.UpdateMethodName)
	}
}

// deepSetup: the starting state of a focused history, through accepted calls only: two user-issued tokens whose
// initial supply the issuer has received (one of them burnable, so that the bridge can own a pair of it), and in
// the regimes that have them the bridge (orchestrator, guardians, TSS key, network, one owned and one not-owned token
// pair with boundary fees) and the liquidity contract (guardians)
func (w *world) deepSetup() {
	rng := w.rng
	dp := w.deep
	for i := 0; i < 2; i++ {
		kp := w.senders[rng.Intn(5)]
		mintable, burnable := rng.Intn(3) != 0, i == 0 || rng.Intn(2) == 0
		tot := int64(50000 * (1 + rng.Intn(3)))
		mx := tot
		if mintable {
			mx += int64(100000 * (1 + rng.Intn(3)))
		}
		z := w.issueToken(kp, fmt.Sprintf("seed-%d", i), fmt.Sprintf("SD%d", i), tot, mx, mintable, burnable)
		dp.issued = append(dp.issued, issuedTok{z, kp, mintable, burnable, big.NewInt(mx)})
	}
	if w.regime != "bridge" && w.regime != "htlc" {
		return
	}
	w.setupBridge()
	dp.bridgeReady = true
	for i := 0; i < 2; i++ {
		t := dp.issued[i]
		p := tokPair{t.zts, pairAddr(t.zts), i == 0, []uint32{constants.MaximumFee, constants.MaximumFee, 0, 1, constants.MaximumFee - 1}[rng.Intn(5)],
			pickBig(rng, big.NewInt(0), big.NewInt(1), big.NewInt(10)), []uint32{1, 2, 15}[rng.Intn(3)]}
		if i == 1 {
			p.fee = feeClasses[rng.Intn(len(feeClasses))]
		}
		w.setTokenPair(p.zts, p.addr, true, true, p.owned, p.min, p.fee, p.delay)
		dp.pairs = append(dp.pairs, p)
		w.out.Count(fmt.Sprintf("deep:pair:owned=%v:fee=%d", p.owned, p.fee))
		// the issuer wraps once on the new pair
		amt := new(big.Int).Add(p.min, big.NewInt(int64(rng.Intn(20000))))
		if w.call(t.owner, cBridge, p.zts, amt, "deep-wrap", definition.WrapTokenMethodName, brNetClass, brChainId, "0xb794f5ea0ba39494ce839613fffba74279579268") != nil {
			w.out.Count(fmt.Sprintf("deep:wrap:owned=%v:fee=%d", p.owned, p.fee))
		}
	}
	if rng.Intn(2) == 0 {
		w.setupLiquidity()
	}
	w.out.Count("deep:bridge-set-up:" + w.regime)
}

// deepStep: one operation of the focused part of a history
func (w *world) deepStep() {
	k := w.rng.Intn(10)
	switch {
	case w.accelAvailable() && (k >= 8 || !w.deep.bridgeReady && k >= 5):
		// the accelerator life cycle: half of the deep steps where there is no bridge, a fifth where there is one
		w.accelOp()
	case w.deep.bridgeReady && k < 5:
		w.bridgeOp()
	case w.deep.liqReady && k == 5:
		w.liquidityOp()
	default:
		w.c2cOp()
	}
}
