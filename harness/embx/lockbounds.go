package embx

// lockbounds (C10): the LOCKING calls with arguments at and beyond the edges of what the contracts allow, each followed
// by the matching release attempts, and the oracles that judge them against the property's rule computed here,
// independently of the implementation:
//   - a lock the rules forbid must never be accepted (stake / liquidity stake: the period is a whole number of
//     StakeTimeUnitSec between StakeTimeMinSec and StakeTimeMaxSec; htlc: hash type SHA3-256 or SHA-256 with a hash lock
//     of exactly that digest size, not yet expired when it is created; the entry records the call as it was made);
//   - whatever was accepted is released per its own terms AND never earlier than the contract's minimum lock (stake,
//     liquidity stake: StakeTimeMinSec after its start, unless the administrator unlocked it), an htlc only on the
//     preimage of its hash lock under a SUPPORTED hash function.
// Generators: periods negative / zero / one second off / non-multiples / beyond the maximum / huge / at the int64
// boundaries (also where now + period wraps around), hash types outside the supported set, hash locks of every length
// class (0, 1, one short, exact, one long, double), expiration times around the receive time and at the int64
// boundaries, key sizes at the boundaries; every dimension varied on its own and together with the others.

import (
	"bytes"
	"fmt"
	"math"
	"math/big"
	"math/rand"

	g "github.com/zenon-network/go-zenon/chain/genesis/mock"
	"github.com/zenon-network/go-zenon/chain/nom"
	"github.com/zenon-network/go-zenon/common/crypto"
	"github.com/zenon-network/go-zenon/common/types"
	"github.com/zenon-network/go-zenon/vm/constants"
	"github.com/zenon-network/go-zenon/vm/embedded/definition"
	"github.com/zenon-network/go-zenon/wallet"
	. "zharness/hz"
)

// ---------------------------------------------------------------- the rules, stated here

// the staking period rule of the stake and the liquidity contract
func stakingPeriodAllowed(t int64) bool {
	unit := constants.StakeTimeUnitSec
	return t >= constants.StakeTimeMinSec && t <= constants.StakeTimeMaxSec && unit > 0 && t%unit == 0
}

// digest size of a SUPPORTED hash type of the htlc contract (SHA3-256, SHA-256), 0 = not supported
func htlcDigestSize(hashType uint8) int {
	switch hashType {
	case definition.HashTypeSHA3, definition.HashTypeSHA256:
		return 32
	}
	return 0
}

// the digest of a preimage under a supported hash type (nil: the type is not supported, nothing can open such a lock)
func htlcDigest(hashType uint8, pre []byte) []byte {
	switch hashType {
	case definition.HashTypeSHA3:
		return crypto.Hash(pre)
	case definition.HashTypeSHA256:
		return crypto.HashSHA256(pre)
	}
	return nil
}

// the preimage opens the lock of that entry: supported hash, a hash lock of the digest's size, equal digests, key size
func htlcPreimageOpens(h *definition.HtlcInfo, pre []byte) bool {
	n := htlcDigestSize(h.HashType)
	return n > 0 && len(h.HashLock) == n && bytes.Equal(htlcDigest(h.HashType, pre), h.HashLock) && len(pre) <= int(h.KeyMaxSize)
}

// ---------------------------------------------------------------- argument classes

// staking periods: the legal edges, everything one step outside them, the sign flipped, zero, the int64 range and the
// points where now + period leaves it
func stakePeriodClass(rng *rand.Rand, now int64) (int64, string) {
	unit, min, max := constants.StakeTimeUnitSec, constants.StakeTimeMinSec, constants.StakeTimeMaxSec
	k := int64(1 + rng.Intn(12))
	floorMul := func(x int64) int64 { return x - x%unit } // towards zero: a whole number of units
	type pc struct {
		t    int64
		name string
	}
	cs := []pc{
		{min, "min"}, {max, "max"}, {k * unit, "k-units"},
		{0, "zero"}, {1, "one-second"}, {-1, "minus-one-second"},
		{min - 1, "min-1"}, {min + 1, "min+1"}, {min - unit, "min-unit"}, {max + 1, "max+1"}, {max - 1, "max-1"}, {max + unit, "max+unit"},
		{k*unit + unit/2, "non-multiple"}, {k*unit - 1, "multiple-1"},
		{-unit, "minus-unit"}, {-min, "minus-min"}, {-k * unit, "minus-k-units"}, {-max, "minus-max"}, {-(max + unit), "minus-max-unit"},
		{-k*unit - 1, "minus-non-multiple"},
		{math.MaxInt64, "maxint64"}, {math.MinInt64, "minint64"}, {floorMul(math.MaxInt64), "largest-multiple"}, {floorMul(math.MinInt64), "smallest-multiple"},
		{math.MaxInt64 - now, "now+t=maxint64"}, {floorMul(math.MaxInt64 - now), "now+t-near-maxint64-multiple"}, {math.MaxInt64 - now + 1, "now+t-wraps"},
		{floorMul(math.MinInt64 + now), "minus-huge-multiple"}, {1 << 32, "2^32"}, {floorMul(1<<32) + unit, "multiple-above-2^32"}, {-(1 << 32), "-2^32"},
		{100 * unit, "hundred-units"}, {-100 * unit, "minus-hundred-units"},
	}
	c := cs[rng.Intn(len(cs))]
	return c.t, c.name
}

// the longest preimage an Unlock call can carry in a block's data (selector, id, offset, length, the value padded to words)
const htlcMaxPreimageInBlock = (constants.MaxDataLength - 4 - 3*32) / 32 * 32

// (KeyMaxSize, length of the value the hash lock is made of, class name): KeyMaxSize over the whole uint8 range, the length
// at 255 / 256, k bytes above one or several periods of 256 with k below / at / above KeyMaxSize, 257..300, 512, and up to
// what fits a block
func longPreimageClass(rng *rand.Rand) (uint8, int, string) {
	kmax := []int{0, 1, 2, 31, 32, 33, 64, 127, 128, 200, 254, 255, rng.Intn(256), rng.Intn(256), rng.Intn(256), rng.Intn(64)}[rng.Intn(16)]
	periods := 256 * []int{1, 1, 1, 1, 2, 2, 3, 4, 16, 63}[rng.Intn(10)]
	below := 0
	if kmax > 0 {
		below = rng.Intn(kmax)
	}
	type lc struct {
		n    int
		name string
	}
	cs := []lc{
		{255, "255"}, {256, "256"}, {256, "256"}, {257 + rng.Intn(44), "257..300"}, {257 + rng.Intn(44), "257..300"},
		{256 + kmax, "256+keymax"}, {256 + kmax, "256+keymax"}, {256 + kmax + 1, "256+keymax+1"}, {256 + below, "256+below-keymax"}, {256 + below, "256+below-keymax"},
		{256 + kmax - 1, "256+keymax-1"},
		{512, "512"}, {periods, "whole-periods"}, {periods + kmax, "periods+keymax"}, {periods + below, "periods+below-keymax"}, {periods + kmax + 1, "periods+keymax+1"},
		{1024 + rng.Intn(3000), "1024..4023"}, {htlcMaxPreimageInBlock, "fills-the-block"}, {htlcMaxPreimageInBlock - 1 - rng.Intn(300), "nearly-fills-the-block"},
	}
	c := cs[rng.Intn(len(cs))]
	if c.n < 255 {
		c.n, c.name = 256, "256"
	}
	if c.n > htlcMaxPreimageInBlock {
		c.n, c.name = htlcMaxPreimageInBlock, "fills-the-block"
	}
	return uint8(kmax), c.n, c.name + fmt.Sprintf(":wraps-below-keymax=%v", c.n%256 <= kmax)
}

var htlcHashTypes = []uint8{definition.HashTypeSHA3, definition.HashTypeSHA256, 2, 3, 4, 127, 128, 254, 255}
var htlcLockLens = []int{0, 0, 1, 16, 20, 31, 32, 33, 64} // the empty lock twice: the edge every length test has

// ---------------------------------------------------------------- generators (locks suite)

// Stake with a period of the boundary classes (amount and token as the contract wants them, so that the period decides),
// followed by the owner's - now and then somebody else's - attempts to take the stake back at once and a little later
func (w *world) boundaryStake() {
	rng := w.rng
	kp := w.senders[rng.Intn(len(w.senders))]
	t, cls := stakePeriodClass(rng, w.now())
	amt := new(big.Int).Mul(constants.StakeMinAmount, big.NewInt(int64(1+rng.Intn(20))))
	w.out.Count("lockbounds:stake-period:" + cls)
	data, err := definition.ABIStake.PackMethod(definition.StakeMethodName, t)
	if err != nil {
		w.out.Count("pack-failed:stake.Stake")
		return
	}
	b := w.send(kp, types.StakeContract, types.ZnnTokenStandard, amt, data, "lock-bounds")
	if b == nil {
		return
	}
	w.out.Count("lockbounds:stake-sent:" + cls + fmt.Sprintf(":allowed=%v", stakingPeriodAllowed(t)))
	w.made["stake.Stake"] = append(w.made["stake.Stake"], madeEntry{b.Hash, kp, nil})
	cancel := func(k *wallet.KeyPair) {
		w.send(k, types.StakeContract, types.ZnnTokenStandard, z0, definition.ABIStake.PackMethodPanic(definition.CancelStakeMethodName, b.Hash), "lock-bounds-release")
	}
	switch rng.Intn(4) {
	case 0: // at once: received right behind the stake, at its start time
		cancel(kp)
	case 1: // somebody else first, then the owner
		cancel(w.senders[rng.Intn(len(w.senders))])
		cancel(kp)
	case 2: // one momentum later, twice
		w.settle()
		cancel(kp)
		cancel(kp)
	}
}

// htlc.Create over the cross product of the argument classes, followed by unlock attempts of entitled and non-entitled
// parties with the right and with wrong preimages, and reclaim attempts, in random order
func (w *world) boundaryHtlc() {
	rng := w.rng
	kp := w.senders[rng.Intn(len(w.senders))]
	hl := w.senders[rng.Intn(len(w.senders))]
	now := w.now()
	// which dimensions leave the ordinary: mostly ONE of hash lock (type x length) / expiration / key size, so that each
	// rule decides on its own; now and then all of them together
	mode := []string{"lock", "lock", "lock", "expiration", "expiration", "key-size", "all", "long-preimage", "long-preimage"}[rng.Intn(9)]
	w.out.Count("lockbounds:htlc-create:mode=" + mode)
	pre := make([]byte, []int{0, 1, 32, 33, 255, 256, 288}[rng.Intn(7)])
	longKmax := uint8(0)
	if mode == "long-preimage" {
		// the hash lock is the digest of a value LONGER than any key size an entry can allow (KeyMaxSize is a uint8), the
		// key size anything from 0 to 255: lengths at the edge of the type, one period of it above the allowed size, and up to
		// what a block's data holds. A well-formed lock that nothing admissible opens before the expiration.
		var cls string
		var n int
		longKmax, n, cls = longPreimageClass(rng)
		pre = make([]byte, n)
		w.out.Count("lockbounds:htlc-long-preimage:" + cls)
	}
	rng.Read(pre)
	ht, n := uint8(rng.Intn(2)), 32
	if mode == "lock" || mode == "all" {
		ht = htlcHashTypes[rng.Intn(len(htlcHashTypes))]
		if rng.Intn(3) == 0 {
			ht = uint8(rng.Intn(2))
		}
		n = htlcLockLens[rng.Intn(len(htlcLockLens))]
		if rng.Intn(4) == 0 {
			n = 32
		}
	}
	// the lock: the digest of the preimage (under the type's function, or one of the two for an unsupported type) cut or
	// padded to the wanted length
	lock := crypto.Hash(pre)
	if ht%2 == 1 {
		lock = crypto.HashSHA256(pre)
	}
	switch {
	case n < len(lock):
		lock = append([]byte{}, lock[:n]...)
	case n > len(lock):
		pad := make([]byte, n-len(lock))
		rng.Read(pad)
		lock = append(append([]byte{}, lock...), pad...)
	}
	// expiration: mostly well in the future; else around the time the receive will see (the next momentum is 10 s away)
	// and at the edges of int64
	exp := now + int64(10*(3+rng.Intn(30)))
	expCls := "future"
	if mode == "expiration" || (mode == "all" && rng.Intn(2) == 0) {
		type ec struct {
			t    int64
			name string
		}
		es := []ec{{now, "now"}, {now - 1, "now-1"}, {now + 1, "now+1"}, {now + 9, "receive-1"}, {now + 10, "receive"}, {now + 10, "receive"}, {now + 11, "receive+1"}, {now + 11, "receive+1"}, {now + 20, "next"}, {now + 21, "next+1"},
			{0, "zero"}, {-1, "minus-one"}, {1, "one"}, {math.MaxInt64, "maxint64"}, {math.MinInt64, "minint64"}, {-now, "minus-now"}}
		e := es[rng.Intn(len(es))]
		exp, expCls = e.t, e.name
	}
	kmax := uint8(255)
	if mode == "long-preimage" {
		kmax = longKmax
	}
	if mode == "key-size" || (mode == "all" && rng.Intn(2) == 0) { // around the length of the preimage, and the edges of uint8
		kmax = uint8([]int{0, 1, len(pre) - 1, len(pre), len(pre) + 1, 31, 32, 33, 254, 255}[rng.Intn(10)])
	}
	tok := w.tokens[rng.Intn(len(w.tokens))]
	amt := big.NewInt(int64(1+rng.Intn(50)) * g.Zexp)
	if rng.Intn(10) == 0 {
		amt = pickBig(rng, big.NewInt(0), big.NewInt(1))
	}
	lawful := htlcDigestSize(ht) > 0 && n == htlcDigestSize(ht)
	w.out.Count(fmt.Sprintf("lockbounds:htlc-create:supported-type=%v:lock-len=%d", htlcDigestSize(ht) > 0, n))
	w.out.Count("lockbounds:htlc-create:expiration=" + expCls)
	data, err := definition.ABIHtlc.PackMethod(definition.CreateHtlcMethodName, hl.Address, exp, ht, kmax, lock)
	if err != nil {
		w.out.Count("pack-failed:htlc.Create")
		return
	}
	b := w.send(kp, types.HtlcContract, tok, amt, data, "lock-bounds")
	if b == nil {
		return
	}
	w.out.Count(fmt.Sprintf("lockbounds:htlc-sent:lawful-lock=%v", lawful))
	w.pre = append(w.pre, pre)
	w.made["htlc.Create"] = append(w.made["htlc.Create"], madeEntry{b.Hash, kp, []interface{}{hl.Address, exp, ht, kmax, lock, pre, hl}})
	unlock := func(k *wallet.KeyPair, p []byte) {
		w.send(k, types.HtlcContract, types.ZnnTokenStandard, z0, definition.ABIHtlc.PackMethodPanic(definition.UnlockHtlcMethodName, b.Hash, p), "lock-bounds-release")
	}
	wrong := func() []byte {
		switch rng.Intn(5) {
		case 0:
			return []byte{}
		case 1:
			return append([]byte{}, lock...) // the lock itself
		case 2:
			return append([]byte{1}, pre...)
		case 3:
			if len(pre) > 0 {
				return append([]byte{}, pre[:len(pre)-1]...)
			}
		}
		p := make([]byte, 1+rng.Intn(40))
		rng.Read(p)
		return p
	}
	stranger := w.senders[rng.Intn(len(w.senders))]
	if rng.Intn(3) == 0 {
		w.settle()
	}
	if mode == "long-preimage" {
		// exactly the value the lock was made of, by the hash-locked party (now and then by somebody else first)
		if rng.Intn(4) == 0 {
			unlock(stranger, pre)
		}
		unlock(hl, pre)
	}
	for i, k := 0, 1+rng.Intn(3); i < k; i++ {
		switch rng.Intn(6) {
		case 0:
			unlock(hl, pre)
		case 1:
			unlock(stranger, pre)
		case 2:
			unlock(hl, wrong())
		case 3, 4:
			unlock(stranger, wrong())
		default:
			who := kp
			if rng.Intn(3) == 0 {
				who = stranger
			}
			w.send(who, types.HtlcContract, types.ZnnTokenStandard, z0, definition.ABIHtlc.PackMethodPanic(definition.ReclaimHtlcMethodName, b.Hash), "lock-bounds-release")
		}
	}
}

// Fuse with amounts around the minimum and the fusion unit (the lock of a fusion is a number of momentums fixed by the
// contract; what the caller chooses is the amount), followed by the owner's cancel at once
func (w *world) boundaryFuse() {
	rng := w.rng
	kp := w.senders[rng.Intn(len(w.senders))]
	one := big.NewInt(1)
	unit := big.NewInt(constants.CostPerFusionUnit)
	min := constants.FuseMinAmount
	amt := pickBig(rng, min, new(big.Int).Sub(min, one), new(big.Int).Add(min, one), new(big.Int).Add(min, unit), new(big.Int).Sub(new(big.Int).Add(min, unit), one),
		unit, one, new(big.Int).Mul(unit, big.NewInt(int64(11+rng.Intn(30)))))
	b := w.send(kp, types.PlasmaContract, types.QsrTokenStandard, amt, definition.ABIPlasma.PackMethodPanic(definition.FuseMethodName, w.senders[rng.Intn(len(w.senders))].Address), "lock-bounds")
	if b == nil {
		return
	}
	w.made["plasma.Fuse"] = append(w.made["plasma.Fuse"], madeEntry{b.Hash, kp, nil})
	if rng.Intn(2) == 0 {
		w.send(kp, types.PlasmaContract, types.ZnnTokenStandard, z0, definition.ABIPlasma.PackMethodPanic(definition.CancelFuseMethodName, b.Hash), "lock-bounds-release")
	}
}

// ---------------------------------------------------------------- generator (bridgeliq suite)

// LiquidityStake of a configured token (amount at or above the tuple's minimum) with a period of the boundary classes,
// followed by the owner's attempts to take it back at once / a momentum later
func (w *world) boundaryLiquidityStake() {
	rng := w.rng
	bl := w.bl
	z := []types.ZenonTokenStandard{bl.lp, bl.lp, bl.tk}[rng.Intn(3)]
	holder, bal := w.holderOf(z)
	if holder == nil {
		w.userReceive(w.senders[rng.Intn(len(w.senders))])
		return
	}
	amt := pickBig(rng, big.NewInt(1000), big.NewInt(1001), big.NewInt(250000))
	if amt.Cmp(bal) > 0 {
		amt = new(big.Int).Set(bal)
	}
	t, cls := stakePeriodClass(rng, w.now())
	w.out.Count("lockbounds:liquidity-stake-period:" + cls)
	b := w.call(holder, cLiquidity, z, amt, "bl-lock-bounds", definition.LiquidityStakeMethodName, t)
	if b == nil {
		return
	}
	w.out.Count("lockbounds:liquidity-stake-sent:" + cls + fmt.Sprintf(":allowed=%v", stakingPeriodAllowed(t)))
	switch rng.Intn(3) {
	case 0:
		w.call(holder, cLiquidity, types.ZnnTokenStandard, z0, "bl-lock-bounds-release", definition.CancelLiquidityStakeMethodName, b.Hash)
	case 1:
		w.settle()
		w.call(holder, cLiquidity, types.ZnnTokenStandard, z0, "bl-lock-bounds-release", definition.CancelLiquidityStakeMethodName, b.Hash)
	}
}

// ---------------------------------------------------------------- oracles

// an APPLIED locking call: the rules allowed this lock, and the entry records the deposit and the terms of the call
func (w *world) checkLockAccepted(c *contractDef, m string, s *nom.AccountBlock, ma *nom.Momentum) {
	now := ma.Timestamp.Unix()
	switch {
	case c.Name == "stake" && m == definition.StakeMethodName:
		d := blockDetail(s)
		d["now"] = I64(now)
		var t int64
		if definition.ABIStake.UnpackMethod(&t, m, s.Data) != nil {
			w.out.Oracle(false, "stake-accepted-with-forbidden-period", d)
			return
		}
		d["period"] = I64(t)
		w.out.Oracle(stakingPeriodAllowed(t), "stake-accepted-with-forbidden-period", d)
		w.out.Oracle(s.TokenStandard == types.ZnnTokenStandard && s.Amount.Cmp(constants.StakeMinAmount) >= 0, "stake-accepted-with-forbidden-deposit", d)
		e, err := definition.GetStakeInfo(w.storageOf(c.Addr), s.Hash, s.Address)
		ok := err == nil && e != nil && e.Amount.Cmp(s.Amount) == 0 && e.StakeAddress == s.Address && e.RevokeTime == 0 && e.StartTime == now
		// the lock the entry records: the period of the call, which is at least the contract's minimum (no wrap-around: an
		// allowed period is small)
		ok = ok && e.ExpirationTime-e.StartTime == t && e.ExpirationTime >= e.StartTime+constants.StakeTimeMinSec
		if e != nil {
			d["entry_start"], d["entry_expiration"] = I64(e.StartTime), I64(e.ExpirationTime)
		}
		w.out.Oracle(ok, "stake-entry-differs-from-call", d)
	case c.Name == "htlc" && m == definition.CreateHtlcMethodName:
		d := blockDetail(s)
		d["now"] = I64(now)
		p := new(definition.CreateHtlcParam)
		if definition.ABIHtlc.UnpackMethod(p, m, s.Data) != nil {
			w.out.Oracle(false, "htlc-accepted-with-unsupported-hash-lock", d)
			return
		}
		d["hash_type"], d["hash_lock_len"], d["expiration"] = I64(int64(p.HashType)), I64(int64(len(p.HashLock))), I64(p.ExpirationTime)
		n := htlcDigestSize(p.HashType)
		w.out.Oracle(n > 0 && len(p.HashLock) == n, "htlc-accepted-with-unsupported-hash-lock", d)
		w.out.Oracle(p.ExpirationTime > now, "htlc-accepted-already-expired", d)
		w.out.Oracle(s.Amount.Sign() > 0, "htlc-accepted-without-deposit", d)
		h, err := definition.GetHtlcInfo(w.storageOf(c.Addr), s.Hash)
		ok := err == nil && h != nil && h.TimeLocked == s.Address && h.HashLocked == p.HashLocked && h.TokenStandard == s.TokenStandard && h.Amount.Cmp(s.Amount) == 0 &&
			h.ExpirationTime == p.ExpirationTime && h.HashType == p.HashType && h.KeyMaxSize == p.KeyMaxSize && bytes.Equal(h.HashLock, p.HashLock)
		w.out.Oracle(ok, "htlc-entry-differs-from-call", d)
	}
}

// ---------------------------------------------------------------- keeping the chain alive

// The election of the real node does not terminate when NO pillar is active (consensus/election_algorithm.go filterRandom,
// the fill loop over an empty group; recorded with C05 as a hypothesis of its theorems): a history that lets the owners
// revoke every pillar would hang the harness inside InsertMomentum.  A Revoke by the owner of an active pillar is sent
// only while another active pillar remains that has no such Revoke under way (sent since the last momentum).
func (w *world) wouldRevokeLastPillar(kp *wallet.KeyPair, data []byte) bool {
	if methodOf(contractOf(types.PillarContract), data) != definition.RevokeMethodName {
		return false
	}
	name := new(string)
	if definition.ABIPillars.UnpackMethod(name, definition.RevokeMethodName, data) != nil {
		return false
	}
	st := w.storageOf(types.PillarContract)
	p, err := definition.GetPillarInfo(st, *name)
	if err != nil || p == nil || p.StakeAddress != kp.Address || p.RevokeTime != 0 {
		return false
	}
	active, err := definition.GetPillarsList(st, true, definition.AnyPillarType)
	if err != nil {
		return false
	}
	h := w.nd.FrontierHeight()
	left := 0
	for _, a := range active {
		if sent, ok := w.revoking[a.Name]; a.Name != *name && !(ok && sent == h) {
			left++
		}
	}
	if left == 0 {
		return true
	}
	if w.revoking == nil {
		w.revoking = map[string]uint64{}
	}
	w.revoking[*name] = h
	return false
}
