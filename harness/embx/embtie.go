package embx

// Correspondence of the concrete method models (coq/theories/Emb.v) with the implementation: for every receive
// of a modelled method the contract's storage tables and balances are dumped before and after, and the model
// (generate_receive with that method) must produce the same status / error, descendants, tables and balances.

import (
	"encoding/base64"
	"math/big"
	"sort"
	. "zharness/hz"

	"github.com/zenon-network/go-zenon/chain/nom"
	"github.com/zenon-network/go-zenon/common/crypto"
	"github.com/zenon-network/go-zenon/common/db"
	"github.com/zenon-network/go-zenon/common/types"
	"github.com/zenon-network/go-zenon/vm/constants"
	"github.com/zenon-network/go-zenon/vm/embedded"
	"github.com/zenon-network/go-zenon/vm/embedded/definition"
	"github.com/zenon-network/go-zenon/vm/embedded/implementation"
	"github.com/zenon-network/go-zenon/vm/vm_context"
)

type modelled struct {
	fn string
	id int64
}

// (contract, method) -> model function and method number
func (w *world) modelOf(c *contractDef, m string) *modelled {
	if w.locks && w.bl != nil {
		switch c.Name {
		case "liquidity":
			switch m {
			case definition.LiquidityStakeMethodName:
				return &modelled{"emb_liquidity", 1}
			case definition.CancelLiquidityStakeMethodName:
				return &modelled{"emb_liquidity", 2}
			case definition.UnlockLiquidityStakeEntriesMethodName:
				return &modelled{"emb_liquidity", 3}
			case definition.SetIsHaltedMethodName:
				return &modelled{"emb_liquidity", 4}
			case definition.FundMethodName:
				return &modelled{"emb_liquidity", 5}
			case definition.BurnZnnMethodName:
				return &modelled{"emb_liquidity", 6}
			}
		case "bridge":
			switch m {
			case definition.UnwrapTokenMethodName:
				return &modelled{"emb_bridge", 1}
			case definition.RedeemUnwrapMethodName:
				return &modelled{"emb_bridge", 2}
			case definition.RevokeUnwrapRequestMethodName:
				return &modelled{"emb_bridge", 3}
			}
		}
	}
	if w.locks {
		switch c.Name {
		case "sentinel":
			switch m {
			case definition.RegisterSentinelMethodName:
				return &modelled{"emb_sentinel", 1}
			case definition.RevokeSentinelMethodName:
				return &modelled{"emb_sentinel", 2}
			case definition.DepositQsrMethodName:
				return &modelled{"emb_sentinel", 3}
			case definition.WithdrawQsrMethodName:
				return &modelled{"emb_sentinel", 4}
			}
		case "pillar":
			switch m {
			case definition.RevokeMethodName:
				return &modelled{"emb_pillar", 1}
			case definition.DepositQsrMethodName:
				return &modelled{"emb_pillar", 2}
			case definition.WithdrawQsrMethodName:
				return &modelled{"emb_pillar", 3}
			case definition.RegisterMethodName:
				return &modelled{"emb_pillar", 4}
			case definition.LegacyRegisterMethodName:
				return &modelled{"emb_pillar", 5}
			case definition.UpdatePillarMethodName:
				return &modelled{"emb_pillar", 6}
			case definition.DelegateMethodName:
				return &modelled{"emb_pillar", 7}
			case definition.UndelegateMethodName:
				return &modelled{"emb_pillar", 8}
			}
		}
	}
	switch c.Name {
	case "plasma":
		switch m {
		case definition.FuseMethodName:
			return &modelled{"emb_plasma", 1}
		case definition.CancelFuseMethodName:
			return &modelled{"emb_plasma", 2}
		}
	case "stake":
		switch m {
		case definition.StakeMethodName:
			return &modelled{"emb_stake", 1}
		case definition.CancelStakeMethodName:
			return &modelled{"emb_stake", 2}
		}
	case "htlc":
		switch m {
		case definition.CreateHtlcMethodName:
			return &modelled{"emb_htlc", 1}
		case definition.ReclaimHtlcMethodName:
			return &modelled{"emb_htlc", 2}
		case definition.UnlockHtlcMethodName:
			return &modelled{"emb_htlc", 3}
		case definition.DenyHtlcProxyUnlockMethodName:
			return &modelled{"emb_htlc", 4}
		case definition.AllowHtlcProxyUnlockMethodName:
			return &modelled{"emb_htlc", 5}
		}
	case "token":
		switch m {
		case definition.MintMethodName:
			return &modelled{"emb_token", 1}
		case definition.BurnMethodName:
			return &modelled{"emb_token", 2}
		case definition.UpdateTokenMethodName:
			return &modelled{"emb_token", 3}
		}
	}
	switch m {
	case definition.DepositQsrMethodName:
		if c.Name == "pillar" || c.Name == "sentinel" {
			return &modelled{"emb_common", 1}
		}
	case definition.WithdrawQsrMethodName:
		if c.Name == "pillar" || c.Name == "sentinel" {
			return &modelled{"emb_common", 2}
		}
	case definition.CollectRewardMethodName:
		return &modelled{"emb_common", 3}
	case definition.DonateMethodName:
		if c.Name == "accelerator" || c.Name == "liquidity" {
			return &modelled{"emb_common", 4}
		}
	}
	return nil
}

var tieSeen = map[string]int{}

var errCodes = map[error]int64{
	constants.ErrUnpackError: 1, constants.ErrInvalidTokenOrAmount: 2, constants.ErrDataNonExistent: 3, constants.RevokeNotDue: 4,
	constants.ErrNothingToWithdraw: 5, constants.ErrPermissionDenied: 6, constants.ErrInvalidStakingPeriod: 7,
	constants.ErrInvalidHashType: 8, constants.ErrInvalidHashDigest: 9, constants.ErrInvalidExpirationTime: 10,
	constants.ReclaimNotDue: 11, constants.ErrExpired: 12, constants.ErrInvalidPreimage: 13, constants.ErrTokenInvalidText: 14,
	constants.ErrTokenInvalidAmount: 15, constants.ErrIDNotUnique: 16, constants.ErrForbiddenParam: 17,
	constants.ErrAlreadyRegistered: 18, constants.ErrNotEnoughDepositedQsr: 19, constants.ErrAlreadyRevoked: 20, constants.ErrInvalidName: 21, constants.ErrNotActive: 22, constants.ErrNotUnique: 23, constants.ErrNotEnoughSlots: 24,
	constants.ErrInvalidToken: 26, constants.ErrUnknownNetwork: 27, constants.ErrInvalidToAddress: 28, constants.ErrBridgeNotInitialized: 29,
	constants.ErrOrchestratorNotInitialized: 30, constants.ErrTokenNotRedeemable: 31, constants.ErrBridgeHalted: 32, constants.ErrInvalidRedeemPeriod: 33,
	constants.ErrInvalidRedeemRequest: 34, constants.ErrInvalidTransactionHash: 35, constants.ErrTokenNotFound: 36, constants.ErrInvalidECDSASignature: 37,
	constants.ErrSecurityNotInitialized: 38,
	constants.ErrInsufficientBalance:    100, constants.ErrContractMethodNotFound: 101, constants.ErrContractDoesntExist: 101,
}

func errCode(e error) int64 {
	if e == nil {
		return 0
	}
	if c, ok := errCodes[e]; ok {
		return c
	}
	return 99
}

func envTerm(height uint64, now int64) interface{} {
	return Con("Build_env", I64(now), U64(height), Big(constants.FuseMinAmount), I64(constants.CostPerFusionUnit), U64(constants.FuseExpiration),
		Big(constants.StakeMinAmount), I64(constants.StakeTimeMinSec), I64(constants.StakeTimeMaxSec), I64(constants.StakeTimeUnitSec),
		Big(constants.TokenIssueAmount))
}

func sendTerm(s *nom.AccountBlock) interface{} {
	return Con("Build_send", Byt(s.Address.Bytes()), types.IsEmbeddedAddress(s.Address), Big(s.Amount), Byt(s.TokenStandard.Bytes()), Byt(s.Data), Byt(s.Hash.Bytes()))
}

// keys of a storage table (prefix stripped), sorted
func keysWithPrefix(st db.DB, prefix byte) [][]byte {
	it := st.NewIterator([]byte{prefix})
	defer it.Release()
	var ks [][]byte
	for it.Next() {
		if len(it.Value()) == 0 {
			continue
		}
		ks = append(ks, append([]byte{}, it.Key()[1:]...))
	}
	sort.Slice(ks, func(i, j int) bool { return string(ks[i]) < string(ks[j]) })
	return ks
}

func (w *world) storageOf(a types.Address) db.DB { return w.nd.Ch.GetFrontierAccountStore(a).Storage() }

func (w *world) dumpPlasma() interface{} {
	st := w.storageOf(types.PlasmaContract)
	fus := Lst()
	for _, k := range keysWithPrefix(st, 1) {
		var o types.Address
		var id types.Hash
		copy(o[:], k[:20])
		copy(id[:], k[20:])
		f, err := definition.GetFusionInfo(st, o, id)
		if err != nil {
			panic(err)
		}
		fus = append(fus, Tup(Byt(k), Con("Build_fusion", Big(f.Amount), U64(f.ExpirationHeight), Byt(f.Beneficiary.Bytes()))))
	}
	fd := Lst()
	for _, k := range keysWithPrefix(st, 2) {
		var b types.Address
		copy(b[:], k)
		f, err := definition.GetFusedAmount(st, b)
		if err != nil {
			panic(err)
		}
		fd = append(fd, Tup(Byt(k), Big(f.Amount)))
	}
	return Con("Build_pstore", fus, fd)
}

func (w *world) dumpStake() interface{} {
	st := w.storageOf(types.StakeContract)
	l := Lst()
	err := definition.IterateStakeEntries(st, func(e *definition.StakeInfo) error {
		l = append(l, Tup(Byt(append(append([]byte{}, e.StakeAddress.Bytes()...), e.Id.Bytes()...)),
			Con("Build_stake", Big(e.Amount), Big(e.WeightedAmount), I64(e.StartTime), I64(e.RevokeTime), I64(e.ExpirationTime))))
		return nil
	})
	if err != nil {
		panic(err)
	}
	return l
}

func (w *world) dumpHtlc() interface{} {
	st := w.storageOf(types.HtlcContract)
	es := Lst()
	for _, k := range keysWithPrefix(st, 1) {
		var id types.Hash
		copy(id[:], k)
		h, err := definition.GetHtlcInfo(st, id)
		if err != nil {
			panic(err)
		}
		es = append(es, Tup(Byt(k), Con("Build_htlc", Byt(h.TimeLocked.Bytes()), Byt(h.HashLocked.Bytes()), Byt(h.TokenStandard.Bytes()), Big(h.Amount),
			I64(h.ExpirationTime), I64(int64(h.HashType)), I64(int64(h.KeyMaxSize)), Byt(h.HashLock))))
	}
	ps := Lst()
	for _, k := range keysWithPrefix(st, 2) {
		var a types.Address
		copy(a[:], k)
		p, err := definition.GetHtlcProxyUnlockInfo(st, a)
		if err != nil {
			panic(err)
		}
		ps = append(ps, Tup(Byt(k), p.Allowed))
	}
	return Con("Build_hstore", es, ps)
}

func (w *world) dumpToken() interface{} {
	st := w.storageOf(types.TokenContract)
	l := Lst()
	list, err := definition.GetTokenInfoList(st)
	if err != nil {
		panic(err)
	}
	sort.Slice(list, func(i, j int) bool {
		return string(list[i].TokenStandard.Bytes()) < string(list[j].TokenStandard.Bytes())
	})
	for _, t := range list {
		l = append(l, Tup(Byt(t.TokenStandard.Bytes()), Con("Build_token", Byt(t.Owner.Bytes()), Byt([]byte(t.TokenName)), Byt([]byte(t.TokenSymbol)),
			Byt([]byte(t.TokenDomain)), Big(t.TotalSupply), Big(t.MaxSupply), I64(int64(t.Decimals)), t.IsMintable, t.IsBurnable, t.IsUtility)))
	}
	return l
}

// QSR deposits and reward deposits of the addresses this history uses
func (w *world) dumpCommon(c types.Address, extra ...types.Address) interface{} {
	st := w.storageOf(c)
	addrs := append([]types.Address{}, extra...)
	for _, kp := range w.senders {
		addrs = append(addrs, kp.Address)
	}
	sort.Slice(addrs, func(i, j int) bool { return string(addrs[i][:]) < string(addrs[j][:]) })
	q, r := Lst(), Lst()
	var last types.Address
	for i, a := range addrs {
		if i > 0 && a == last {
			continue
		}
		last = a
		a := a
		if c == types.PillarContract || c == types.SentinelContract {
			if d, err := definition.GetQsrDeposit(st, &a); err == nil && d.Qsr.Sign() != 0 {
				q = append(q, Tup(Byt(a.Bytes()), Big(d.Qsr)))
			}
		}
		if d, err := definition.GetRewardDeposit(st, &a); err == nil && (d.Znn.Sign() != 0 || d.Qsr.Sign() != 0) {
			r = append(r, Tup(Byt(a.Bytes()), Tup(Big(d.Znn), Big(d.Qsr))))
		}
	}
	return Con("Build_cstore", q, r)
}

func (w *world) dumpLiquidity() interface{} {
	st := w.storageOf(types.LiquidityContract)
	li, err := definition.GetLiquidityInfo(st)
	if err != nil {
		panic(err)
	}
	tuples := Lst()
	for _, tt := range li.TokenTuples {
		tuples = append(tuples, Con("Build_ltuple", Byt([]byte(tt.TokenStandard)), U64(uint64(tt.ZnnPercentage)), U64(uint64(tt.QsrPercentage)), Big(tt.MinAmount)))
	}
	entries := Lst()
	for _, k := range keysWithPrefix(st, 2) {
		var a types.Address
		var id types.Hash
		copy(a[:], k[:20])
		copy(id[:], k[20:])
		e, err := definition.GetLiquidityStakeEntry(st, id, a)
		if err != nil {
			panic(err)
		}
		entries = append(entries, Tup(Byt(k), Con("Build_lstake", Big(e.Amount), Byt(e.TokenStandard.Bytes()), Big(e.WeightedAmount), I64(e.StartTime), I64(e.RevokeTime), I64(e.ExpirationTime))))
	}
	return Con("Build_qstore", Byt(li.Administrator.Bytes()), li.IsHalted, Big(li.ZnnReward), Big(li.QsrReward), tuples, entries)
}

func be32(x uint32) []byte { return []byte{byte(x >> 24), byte(x >> 16), byte(x >> 8), byte(x)} }

// the unwrap request named by a bridge call (UnwrapToken / Redeem / RevokeUnwrapRequest)
func namedUnwrap(s *nom.AccountBlock) (types.Hash, uint32, bool) {
	switch methodOf(cBridge, s.Data) {
	case definition.UnwrapTokenMethodName:
		prm := new(definition.UnwrapTokenParam)
		if definition.ABIBridge.UnpackMethod(prm, definition.UnwrapTokenMethodName, s.Data) == nil {
			return prm.TransactionHash, prm.LogIndex, true
		}
	case definition.RedeemUnwrapMethodName:
		prm := new(definition.RedeemParam)
		if definition.ABIBridge.UnpackMethod(prm, definition.RedeemUnwrapMethodName, s.Data) == nil {
			return prm.TransactionHash, prm.LogIndex, true
		}
	case definition.RevokeUnwrapRequestMethodName:
		prm := new(definition.RevokeUnwrapParam)
		if definition.ABIBridge.UnpackMethod(prm, definition.RevokeUnwrapRequestMethodName, s.Data) == nil {
			return prm.TransactionHash, prm.LogIndex, true
		}
	}
	return types.Hash{}, 0, false
}

// the bridge tables; of the unwrap requests the one named by the call and the two with the smallest other keys (the
// oracles of blAfter compare ALL requests before / after on the implementation)
func (w *world) dumpBridge(s *nom.AccountBlock) interface{} {
	st := w.storageOf(types.BridgeContract)
	bi, err := definition.GetBridgeInfoVariable(st)
	if err != nil {
		panic(err)
	}
	guardians := 0
	if si, err := definition.GetSecurityInfoVariable(st); err == nil {
		guardians = len(si.Guardians)
	}
	orch := false
	if oi, err := definition.GetOrchestratorInfoVariable(st); err == nil {
		orch = !(oi.WindowSize == 0 || oi.KeyGenThreshold == 0 || oi.ConfirmationsToFinality == 0 || oi.EstimatedMomentumTime == 0)
	}
	nets := Lst()
	nl, err := definition.GetNetworkList(st)
	if err != nil {
		panic(err)
	}
	sort.Slice(nl, func(i, j int) bool {
		return string(append(be32(nl[i].NetworkClass), be32(nl[i].Id)...)) < string(append(be32(nl[j].NetworkClass), be32(nl[j].Id)...))
	})
	for _, n := range nl {
		pairs := Lst()
		for _, tp := range n.TokenPairs {
			pairs = append(pairs, Con("Build_tpair", Byt(tp.TokenStandard.Bytes()), Byt([]byte(tp.TokenAddress)), tp.Bridgeable, tp.Redeemable, tp.Owned,
				Big(tp.MinAmount), U64(uint64(tp.FeePercentage)), U64(uint64(tp.RedeemDelay))))
		}
		nets = append(nets, Tup(Byt(append(be32(n.NetworkClass), be32(n.Id)...)), Con("Build_network", Byt([]byte(n.Name)), pairs)))
	}
	reqs := Lst()
	rl, err := definition.GetUnwrapTokenRequests(st)
	if err != nil {
		panic(err)
	}
	tx, log, named := namedUnwrap(s)
	others := 0
	for _, r := range rl {
		if !(named && r.TransactionHash == tx && r.LogIndex == log) {
			if others >= 2 {
				continue
			}
			others++
		}
		reqs = append(reqs, Tup(Byt(append(append([]byte{}, r.TransactionHash.Bytes()...), be32(r.LogIndex)...)),
			Con("Build_unwrap", U64(r.RegistrationMomentumHeight), U64(uint64(r.NetworkClass)), U64(uint64(r.ChainId)), Byt(r.ToAddress.Bytes()), Byt([]byte(r.TokenAddress)),
				Byt(r.TokenStandard.Bytes()), Big(r.Amount), Byt([]byte(r.Signature)), I64(int64(r.Redeemed)), I64(int64(r.Revoked)))))
	}
	return Con("Build_bstore", Byt(bi.Administrator.Bytes()), len(bi.CompressedTssECDSAPubKey) != 0, bi.Halted, U64(bi.UnhaltedAt), U64(bi.UnhaltDurationInMomentums),
		I64(int64(guardians)), orch, nets, reqs)
}

func (w *world) dumpFor(c *contractDef, m *modelled, s *nom.AccountBlock) interface{} {
	switch m.fn {
	case "emb_plasma":
		return w.dumpPlasma()
	case "emb_stake":
		return w.dumpStake()
	case "emb_htlc":
		return w.dumpHtlc()
	case "emb_token":
		return w.dumpToken()
	case "emb_sentinel":
		return w.dumpSentinel()
	case "emb_pillar":
		return w.dumpPillar()
	case "emb_liquidity":
		return w.dumpLiquidity()
	case "emb_bridge":
		return w.dumpBridge(s)
	}
	return w.dumpCommon(c.Addr, s.Address)
}

// balances of the contract for the tokens that can matter for this call
func (w *world) balTerm(c types.Address, zs []types.ZenonTokenStandard) interface{} {
	l := Lst()
	seen := map[types.ZenonTokenStandard]bool{}
	for _, z := range zs {
		if seen[z] {
			continue
		}
		seen[z] = true
		b, err := w.nd.Ch.GetFrontierAccountStore(c).GetBalance(z)
		if err != nil {
			panic(err)
		}
		l = append(l, Tup(Byt(z.Bytes()), Big(b)))
	}
	return l
}

type embPre struct {
	m      *modelled
	state  interface{}
	bal    interface{}
	tokens []types.ZenonTokenStandard
	donate []interface{}
	hashes []interface{}
}

func (w *world) embBefore(c *contractDef, s *nom.AccountBlock) *embPre {
	m := w.modelOf(c, methodOf(c, s.Data))
	if m == nil {
		return nil
	}
	if m.fn == "emb_token" && w.deep != nil && len(w.tokens) > 6 && w.rng.Intn(3) != 0 {
		// histories with many issued tokens: every token case carries the whole token table; a third of them is compared
		// with the model (the oracles of receiveOne run on all of them)
		return nil
	}
	p := &embPre{m: m}
	p.tokens = []types.ZenonTokenStandard{s.TokenStandard, types.ZnnTokenStandard, types.QsrTokenStandard}
	if m.fn == "emb_token" && m.id == 1 { // Mint: the minted token
		prm := new(definition.MintParam)
		if definition.ABIToken.UnpackMethod(prm, definition.MintMethodName, s.Data) == nil {
			p.tokens = append(p.tokens, prm.TokenStandard)
		}
	}
	if m.fn == "emb_htlc" && (m.id == 2 || m.id == 3) { // the entry's token is paid out
		st := w.storageOf(types.HtlcContract)
		var id types.Hash
		if len(s.Data) >= 36 {
			copy(id[:], s.Data[4:36])
		}
		if h, err := definition.GetHtlcInfo(st, id); err == nil {
			p.tokens = append(p.tokens, h.TokenStandard)
		}
	}
	if m.fn == "emb_liquidity" || m.fn == "emb_bridge" {
		p.tokens = append(p.tokens, w.bl.lp, w.bl.tk)
	}
	p.state = w.dumpFor(c, m, s)
	p.bal = w.balTerm(c.Addr, p.tokens)
	// which contracts accept Donate in this regime (for Mint to an embedded receiver)
	fms := w.nd.Ch.GetFrontierMomentumStore()
	ctx := vm_context.NewAccountContext(fms, w.nd.Ch.GetFrontierAccountStore(types.PlasmaContract), w.nd.Cs.FixedPillarReader(fms.Identifier()))
	p.donate = Lst()
	for _, cc := range contracts {
		if _, err := embedded.GetEmbeddedMethod(ctx, cc.Addr, definition.ABICommon.Methods[definition.DonateMethodName].Id()); err == nil {
			p.donate = append(p.donate, Byt(cc.Addr.Bytes()))
		}
	}
	// hash oracle: digests of the preimage carried by an Unlock call
	p.hashes = Lst()
	if m.fn == "emb_htlc" && m.id == 3 {
		prm := new(definition.UnlockHtlcParam)
		if definition.ABIHtlc.UnpackMethod(prm, definition.UnlockHtlcMethodName, s.Data) == nil {
			p.hashes = append(p.hashes, Tup(I64(int64(definition.HashTypeSHA3)), Byt(prm.Preimage), Byt(crypto.Hash(prm.Preimage))),
				Tup(I64(int64(definition.HashTypeSHA256)), Byt(prm.Preimage), Byt(crypto.HashSHA256(prm.Preimage))))
		}
	}
	if m.fn == "emb_liquidity" {
		// observed: the string form of the sent token standard, the spork address, whether the accelerator spork is enforced
		p.hashes = append(p.hashes, Tup(I64(1), Byt(s.TokenStandard.Bytes()), Byt([]byte(s.TokenStandard.String()))), Tup(I64(2), Byt(types.SporkAddress.Bytes()), Byt(nil)))
		if ok, err := fms.IsSporkActive(types.AcceleratorSpork); err == nil && ok {
			p.hashes = append(p.hashes, Tup(I64(3), Byt(nil), Byt(nil)))
		}
	}
	if m.fn == "emb_bridge" {
		// observed: the string form of every paired token standard; for UnwrapToken the verdict of the implementation's
		// message builder + ECDSA check of the carried signature against the current TSS key
		if nets, err := definition.GetNetworkList(w.storageOf(types.BridgeContract)); err == nil {
			for _, n := range nets {
				for _, tp := range n.TokenPairs {
					p.hashes = append(p.hashes, Tup(I64(1), Byt(tp.TokenStandard.Bytes()), Byt([]byte(tp.TokenStandard.String()))))
				}
			}
		}
		if m.id == 1 {
			code := int64(99)
			prm := new(definition.UnwrapTokenParam)
			if definition.ABIBridge.UnpackMethod(prm, definition.UnwrapTokenMethodName, s.Data) == nil {
				if bi, err := definition.GetBridgeInfoVariable(w.storageOf(types.BridgeContract)); err == nil {
					if msg, err := implementation.GetUnwrapTokenRequestMessage(prm); err == nil {
						code = errCode(constants.ErrInvalidECDSASignature)
						if ok, err := implementation.CheckECDSASignature(msg, bi.DecompressedTssECDSAPubKey, prm.Signature); ok && err == nil {
							code = 0
						}
					}
				}
			}
			p.hashes = append(p.hashes, Tup(I64(100+code), Byt(nil), Byt(nil)))
		}
	}
	if m.fn == "emb_pillar" { // observed verdicts: checkPillarNameStatic on the name carried by the call; CheckSwapSignature + key id of RegisterLegacy
		var name string
		switch m.id {
		case 1, 7:
			n := new(string)
			if definition.ABIPillars.UnpackMethod(n, methodOf(c, s.Data), s.Data) == nil {
				name = *n
			}
		case 4, 6:
			prm := new(definition.RegisterParam)
			if definition.ABIPillars.UnpackMethod(prm, methodOf(c, s.Data), s.Data) == nil {
				name = prm.Name
			}
		case 5:
			prm := new(definition.LegacyRegisterParam)
			if definition.ABIPillars.UnpackMethod(prm, methodOf(c, s.Data), s.Data) == nil {
				name = prm.Name
				if ok, err := implementation.CheckSwapSignature(implementation.SwapRetrieveLegacyPillar, s.Address, prm.PublicKey, prm.Signature); ok && err == nil {
					if pk, e := base64.StdEncoding.DecodeString(prm.PublicKey); e == nil {
						p.hashes = append(p.hashes, Tup(I64(2), Byt(append(append([]byte{}, []byte(prm.PublicKey)...), []byte(prm.Signature)...)), Byt(implementation.PubKeyToKeyIdHash(pk).Bytes())))
					}
				}
			}
		}
		ok := int64(0)
		if len(name) > 0 && len(name) <= constants.PillarNameLengthMax && pillarNameRx.MatchString(name) {
			ok = 1
		}
		p.hashes = append(p.hashes, Tup(I64(ok), Byt([]byte(name)), Byt(nil)))
	}
	return p
}

func (w *world) embAfter(c *contractDef, s *nom.AccountBlock, p *embPre, ma *nom.Momentum, retErr error, blk *nom.AccountBlock) {
	if p == nil {
		return
	}
	ds := Lst()
	for _, x := range blk.DescendantBlocks {
		ds = append(ds, Tup(Byt(x.ToAddress.Bytes()), Big(x.Amount), Byt(x.TokenStandard.Bytes())))
	}
	post := w.dumpFor(c, p.m, s)
	bal := w.balTerm(c.Addr, p.tokens)
	env := envTerm(ma.Height, ma.Timestamp.Unix())
	if p.m.fn == "emb_sentinel" || p.m.fn == "emb_pillar" {
		env = lenvTerm(ma.Timestamp.Unix())
	}
	if p.m.fn == "emb_liquidity" || p.m.fn == "emb_bridge" { // descendants compared with their call data
		ds = Lst()
		for _, x := range blk.DescendantBlocks {
			ds = append(ds, Tup(Byt(x.ToAddress.Bytes()), Big(x.Amount), Byt(x.TokenStandard.Bytes()), Byt(x.Data)))
		}
	}
	in := Tup(I64(p.m.id), env, Byt(c.Addr.Bytes()), p.state, p.bal, sendTerm(s), p.donate, p.hashes)
	tag := methodOf(c, s.Data) + ":" + map[bool]string{true: "applied", false: "refunded"}[retErr == nil]
	if retErr != nil {
		tag += ":" + retErr.Error()
	}
	if (p.m.fn == "emb_liquidity" || p.m.fn == "emb_bridge") && retErr != nil {
		// refusals of the same kind are plentiful in the bridgeliq histories: after the first few of a kind every fourth is
		// compared with the model (the oracles run on all of them)
		tieSeen[p.m.fn+tag]++
		if n := tieSeen[p.m.fn+tag]; n > 6 && n%4 != 0 {
			w.out.Count("tie-sampled-out:" + p.m.fn + ":" + tag)
			return
		}
	}
	w.out.Case(p.m.fn, in, Tup(I64(errCode(retErr)), ds, post, bal), tag)
}

var _ = big.NewInt
