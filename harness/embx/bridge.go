package embx

// Bridge set-up through accepted calls only (administrator = g.User5), as /repo/vm/embedded/tests/z_bridge_test.go
// does it, and the reproducer of the C09 finding "a failing call whose sender is a contract cannot be refunded".

import (
	"fmt"
	"math/big"
	"math/rand"
	. "zharness/hz"

	g "github.com/zenon-network/go-zenon/chain/genesis/mock"
	"github.com/zenon-network/go-zenon/chain/nom"
	"github.com/zenon-network/go-zenon/common/types"
	"github.com/zenon-network/go-zenon/vm"
	"github.com/zenon-network/go-zenon/vm/constants"
	"github.com/zenon-network/go-zenon/vm/embedded/definition"
	"github.com/zenon-network/go-zenon/wallet"
)

const (
	brNetClass = uint32(2)
	brChainId  = uint32(123)
	brTssPub   = "AsAQx1M3LVXCuozDOqO5b9adj/PItYgwZFG/xTDBiZzT" // priv tuSwrTEUyJI1/3y5J8L8DSjzT/AQG2IK3JG+93qhhhI=
	brTssPriv  = "tuSwrTEUyJI1/3y5J8L8DSjzT/AQG2IK3JG+93qhhhI="
)

func (w *world) must(kp *wallet.KeyPair, to types.Address, zts types.ZenonTokenStandard, amt *big.Int, data []byte) *nom.AccountBlock {
	b := w.send(kp, to, zts, amt, data, "setup")
	if b == nil {
		panic("setup call rejected: " + methodOf(contractOf(to), data))
	}
	w.settle()
	return b
}
func (w *world) advance(n uint64) {
	for i := uint64(0); i < n && !w.dead; i++ {
		w.settle()
	}
}

// twice performs a time-challenged administrator call: once to start the challenge, once after the delay
func (w *world) twice(kp *wallet.KeyPair, to types.Address, data []byte, delay uint64) {
	w.must(kp, to, types.ZnnTokenStandard, big.NewInt(0), data)
	w.advance(delay + 2)
	w.must(kp, to, types.ZnnTokenStandard, big.NewInt(0), data)
}

// receiveAll makes a user account receive everything that is pending for it
func (w *world) receiveAll(kp *wallet.KeyPair) {
	ms := w.nd.Ch.GetFrontierMomentumStore()
	hs, err := ms.GetAccountMailbox(kp.Address).GetUnreceivedAccountBlockHashes(50)
	if err != nil {
		panic(err)
	}
	for _, h := range hs {
		b := &nom.AccountBlock{BlockType: nom.BlockTypeUserReceive, Address: kp.Address, FromBlockHash: h}
		w.nd.Fill(b)
		if base, err := vm.GetBasePlasmaForAccountBlock(w.ctxFor(b), b); err == nil {
			b.FusedPlasma = base
		}
		Sign(b, kp)
		tx, err := w.nd.Apply(b)
		if err != nil {
			w.out.Count("user-receive-rejected:" + err.Error())
			continue
		}
		if e := w.nd.Insert(tx); e != nil {
			w.out.Count("insert-failed")
		}
	}
	w.settle()
}

// setupBridge: orchestrator info, guardians, TSS key, one network
func (w *world) setupBridge() {
	admin := g.User5
	bc := types.BridgeContract
	z0 := big.NewInt(0)
	w.must(admin, bc, types.ZnnTokenStandard, z0, definition.ABIBridge.PackMethodPanic(definition.SetOrchestratorInfoMethodName, uint64(6), uint32(3), uint32(15), uint32(10)))
	guardians := []types.Address{g.User1.Address, g.User2.Address, g.User3.Address, g.User4.Address, g.User5.Address}
	w.twice(admin, bc, definition.ABIBridge.PackMethodPanic(definition.NominateGuardiansMethodName, guardians), constants.MinAdministratorDelay)
	w.twice(admin, bc, definition.ABIBridge.PackMethodPanic(definition.ChangeTssECDSAPubKeyMethodName, brTssPub, "", ""), constants.MinSoftDelay)
	w.must(admin, bc, types.ZnnTokenStandard, z0, definition.ABIBridge.PackMethodPanic(definition.SetNetworkMethodName, brNetClass, brChainId, "Ethereum", "0x323b5d4c32345ced77393b3530b1eed0f346429d", "{}"))
}

func (w *world) setTokenPair(zts types.ZenonTokenStandard, tokenAddr string, bridgeable, redeemable, owned bool, min *big.Int, fee, delay uint32) {
	w.twice(g.User5, types.BridgeContract, definition.ABIBridge.PackMethodPanic(definition.SetTokenPairMethod,
		brNetClass, brChainId, zts, tokenAddr, bridgeable, redeemable, owned, min, fee, delay, `{}`), constants.MinSoftDelay)
}

// issueToken: User1 issues a token and receives the initial supply
func (w *world) issueToken(kp *wallet.KeyPair, name, symbol string, total, max int64, mintable, burnable bool) types.ZenonTokenStandard {
	b := w.must(kp, types.TokenContract, types.ZnnTokenStandard, constants.TokenIssueAmount,
		definition.ABIToken.PackMethodPanic(definition.IssueMethodName, name, symbol, "", big.NewInt(total), big.NewInt(max), uint8(1), mintable, burnable, false))
	w.settle()
	w.receiveAll(kp)
	zts := types.NewZenonTokenStandard(b.Hash.Bytes())
	w.tokens = append(w.tokens, zts)
	return zts
}

// RunWedge reproduces, through accepted calls only, the state in which a call SENT BY A CONTRACT fails at its
// receiver: the bridge administrator marks as "owned" a token pair whose token the bridge does not own and that
// is not burnable; a user's WrapToken then makes the bridge send Burn(amount) to the token contract, Burn fails,
// and the refund to the bridge contract cannot be applied (a contract has no method for empty call data).
func RunWedge(rng *rand.Rand, n int, out *Out, _ []string) {
	shortenConstants()
	for h := 0; h < n; h++ {
		resetSporks()
		nd := NewNode()
		w := &world{nd: nd, rng: rng, out: out, regime: "bridge", wedge: true,
			senders: []*wallet.KeyPair{g.User1, g.User2, g.User3, g.User4, g.User5},
			tokens:  []types.ZenonTokenStandard{types.ZnnTokenStandard, types.QsrTokenStandard}, made: map[string][]madeEntry{}}
		w.activate(types.BridgeAndLiquiditySpork, "spork-bridge")
		constants.InitialBridgeAdministrator.SetBytes(g.User5.Address.Bytes())
		w.setupBridge()
		zts := w.issueToken(g.User1, fmt.Sprintf("wedge%d", h), "WDG", 100000, 100000, false, false)
		w.setTokenPair(zts, "0x5aaaa2315678afecb367f032d93f642f64180aa3", true, true, true, big.NewInt(10), 100, 15)
		out.Count("wedge:setup-complete")
		amount := big.NewInt(int64(100 + rng.Intn(5000)))
		b := w.send(g.User1, types.BridgeContract, zts, amount, definition.ABIBridge.PackMethodPanic(definition.WrapTokenMethodName, brNetClass, brChainId, "0xb794f5ea0ba39494ce839613fffba74279579268"), "wrap-owned-not-burnable")
		if b == nil {
			out.Oracle(false, "wedge-reproducer-broken", M{"step": "wrap rejected"})
		} else {
			w.settle() // the bridge receives the wrap and sends Burn; the token contract then has to receive Burn
			if !w.dead {
				out.Count("wedge:not-reproduced")
			}
		}
		nd.Stop()
	}
	resetSporks()
}
