package embx

// locks (C10): histories mixing deposits, cancellations, expiries, revocations, failed calls and withdrawal
// attempts by the wrong owner / too early / repeated / with a wrong preimage / with proxy unlock allowed or denied.
// ORACLE (the property's own statement on the real code): after every momentum, for each lock contract and token,
// the sum of its recorded entries (read through the definition getters) is at most its balance; every payout of a
// release method goes to the entitled address, not before its lock, with the recorded amount, and not twice.

import (
	"fmt"
	"math/big"
	"math/rand"
	"regexp"
	"sort"
	. "zharness/hz"

	g "github.com/zenon-network/go-zenon/chain/genesis/mock"
	"github.com/zenon-network/go-zenon/chain/nom"
	"github.com/zenon-network/go-zenon/common/crypto"
	"github.com/zenon-network/go-zenon/common/types"
	"github.com/zenon-network/go-zenon/vm/constants"
	"github.com/zenon-network/go-zenon/vm/embedded/definition"
	"github.com/zenon-network/go-zenon/vm/embedded/implementation"
	"github.com/zenon-network/go-zenon/wallet"
)

func lenvTerm(now int64) interface{} {
	return Con("Build_lenv", I64(now), I64(constants.SentinelLockTimeWindow), I64(constants.SentinelRevokeTimeWindow),
		Big(constants.SentinelZnnRegisterAmount), Big(constants.SentinelQsrDepositAmount),
		I64(constants.PillarEpochLockTime), I64(constants.PillarEpochRevokeTime), Big(constants.PillarStakeAmount),
		Big(constants.PillarQsrStakeBaseAmount), Big(constants.PillarQsrStakeIncreaseAmount))
}

func (w *world) qsrDeposits(c types.Address) map[types.Address]*big.Int {
	st := w.storageOf(c)
	r := map[types.Address]*big.Int{}
	for _, k := range keysWithPrefix(st, 130) {
		var a types.Address
		copy(a[:], k)
		d, err := definition.GetQsrDeposit(st, &a)
		if err != nil {
			panic(err)
		}
		r[a] = d.Qsr
	}
	return r
}
func depositsTerm(m map[types.Address]*big.Int) []interface{} {
	var ks []types.Address
	for a := range m {
		ks = append(ks, a)
	}
	sort.Slice(ks, func(i, j int) bool { return string(ks[i][:]) < string(ks[j][:]) })
	l := Lst()
	for _, a := range ks {
		l = append(l, Tup(Byt(a.Bytes()), Big(m[a])))
	}
	return l
}

func (w *world) dumpSentinel() interface{} {
	st := w.storageOf(types.SentinelContract)
	l := Lst()
	all := definition.GetAllSentinelInfo(st)
	sort.Slice(all, func(i, j int) bool { return string(all[i].Owner[:]) < string(all[j].Owner[:]) })
	for _, s := range all {
		l = append(l, Tup(Byt(s.Owner.Bytes()), Con("Build_sentinel", I64(s.RegistrationTimestamp), I64(s.RevokeTimestamp), Big(s.ZnnAmount), Big(s.QsrAmount))))
	}
	return Con("Build_nstore", l, depositsTerm(w.qsrDeposits(types.SentinelContract)))
}
func (w *world) dumpPillar() interface{} {
	st := w.storageOf(types.PillarContract)
	ps, err := definition.GetPillarsList(st, false, definition.AnyPillarType)
	if err != nil {
		panic(err)
	}
	sort.Slice(ps, func(i, j int) bool { return ps[i].Name < ps[j].Name })
	l := Lst()
	for _, p := range ps {
		l = append(l, Tup(Byt([]byte(p.Name)), Con("Build_pillar", Byt(p.StakeAddress.Bytes()), Big(p.Amount), I64(p.RegistrationTime), I64(p.RevokeTime),
			Byt(p.BlockProducingAddress.Bytes()), Byt(p.RewardWithdrawAddress.Bytes()), I64(int64(p.GiveBlockRewardPercentage)), I64(int64(p.GiveDelegateRewardPercentage)), I64(int64(p.PillarType)))))
	}
	prod := Lst()
	for _, k := range keysWithPrefix(st, 2) {
		var a types.Address
		copy(a[:], k)
		pp, err := definition.GetProducingPillarName(st, a)
		if err != nil {
			panic(err)
		}
		prod = append(prod, Tup(Byt(k), Byt([]byte(pp.Name))))
	}
	del := Lst()
	for _, k := range keysWithPrefix(st, 4) {
		var a types.Address
		copy(a[:], k)
		d, err := definition.GetDelegationInfo(st, a)
		if err != nil {
			panic(err)
		}
		del = append(del, Tup(Byt(k), Byt([]byte(d.Name))))
	}
	leg := Lst()
	ls, err := definition.GetLegacyPillarList(st)
	if err != nil {
		panic(err)
	}
	sort.Slice(ls, func(i, j int) bool { return string(ls[i].KeyIdHash[:]) < string(ls[j].KeyIdHash[:]) })
	for _, e := range ls {
		leg = append(leg, Tup(Byt(e.KeyIdHash.Bytes()), I64(int64(e.PillarCount))))
	}
	return Con("Build_lstore", l, depositsTerm(w.qsrDeposits(types.PillarContract)), prod, del, leg)
}

var pillarNameRx = regexp.MustCompile("^([a-zA-Z0-9]+[-._]?)*[a-zA-Z0-9]$")

// ---------------------------------------------------------------- backing oracle
func sumBig(xs ...*big.Int) *big.Int {
	s := new(big.Int)
	for _, x := range xs {
		s.Add(s, x)
	}
	return s
}

func (w *world) checkBacked() {
	out := w.out
	bal := func(c types.Address, z types.ZenonTokenStandard) *big.Int {
		b, err := w.nd.Ch.GetFrontierAccountStore(c).GetBalance(z)
		if err != nil {
			panic(err)
		}
		return b
	}
	treasury := false // the token is also treasury of the contract: what it holds beyond its liabilities may be spent
	chk := func(contract string, c types.Address, z types.ZenonTokenStandard, owed *big.Int) {
		b := bal(c, z)
		if w.bl != nil && w.bl.repro != nil && c == types.LiquidityContract && z == w.bl.repro.zts {
			// reproducer of the known finding (liqtreasury.go): it judges this (contract, token) itself, under its own narrow key
			return
		}
		out.Oracle(owed.Cmp(b) <= 0, "liabilities-exceed-balance", M{"contract": contract, "zts": z.String(), "owed": Big(owed), "balance": Big(b)})
		// the induction step of "always holds at least what it owes": what the contract holds beyond its liabilities
		// (genesis surplus, donations) never shrinks - an entry is booked only against a deposit of the same token and
		// of at least that amount, a payout removes at least what it pays. A chain whose genesis surplus is zero would
		// break the invariant itself at this very step.
		if w.surplus == nil {
			w.surplus = map[string]*big.Int{}
		}
		key := contract + "/" + z.String()
		cur := new(big.Int).Sub(b, owed)
		if prev, ok := w.surplus[key]; ok && !treasury {
			out.Oracle(cur.Cmp(prev) >= 0, "liability-booked-without-matching-deposit", M{"contract": contract, "zts": z.String(),
				"surplus_before": Big(prev), "surplus_after": Big(cur), "owed": Big(owed), "balance": Big(b)})
		}
		w.surplus[key] = cur
	}
	// stake
	owed := new(big.Int)
	definition.IterateStakeEntries(w.storageOf(types.StakeContract), func(e *definition.StakeInfo) error { owed.Add(owed, e.Amount); return nil })
	chk("stake", types.StakeContract, types.ZnnTokenStandard, owed)
	// plasma: entries, and fused total per beneficiary against the entries (difference to genesis stays constant)
	st := w.storageOf(types.PlasmaContract)
	owed = new(big.Int)
	perBen := map[types.Address]*big.Int{}
	for _, k := range keysWithPrefix(st, 1) {
		var o types.Address
		var id types.Hash
		copy(o[:], k[:20])
		copy(id[:], k[20:])
		f, err := definition.GetFusionInfo(st, o, id)
		if err != nil {
			panic(err)
		}
		owed.Add(owed, f.Amount)
		if perBen[f.Beneficiary] == nil {
			perBen[f.Beneficiary] = new(big.Int)
		}
		perBen[f.Beneficiary].Add(perBen[f.Beneficiary], f.Amount)
	}
	chk("plasma", types.PlasmaContract, types.QsrTokenStandard, owed)
	for _, k := range keysWithPrefix(st, 2) {
		var b types.Address
		copy(b[:], k)
		f, _ := definition.GetFusedAmount(st, b)
		e := perBen[b]
		if e == nil {
			e = new(big.Int)
		}
		diff := new(big.Int).Sub(f.Amount, e)
		if w.fusedBase == nil {
			w.fusedBase = map[types.Address]*big.Int{}
		}
		if w.fusedInit {
			base := w.fusedBase[b]
			if base == nil {
				base = new(big.Int)
			}
			out.Oracle(diff.Cmp(base) == 0, "fused-total-differs-from-entries", M{"beneficiary": b.String(), "fused": Big(f.Amount), "entries": Big(e), "genesis_difference": Big(base)})
		} else {
			w.fusedBase[b] = diff
		}
	}
	w.fusedInit = true
	// htlc per token
	st = w.storageOf(types.HtlcContract)
	per := map[types.ZenonTokenStandard]*big.Int{}
	for _, k := range keysWithPrefix(st, 1) {
		var id types.Hash
		copy(id[:], k)
		h, err := definition.GetHtlcInfo(st, id)
		if err != nil {
			panic(err)
		}
		if per[h.TokenStandard] == nil {
			per[h.TokenStandard] = new(big.Int)
		}
		per[h.TokenStandard].Add(per[h.TokenStandard], h.Amount)
	}
	for _, z := range w.tokens {
		if per[z] == nil {
			per[z] = new(big.Int)
		}
	}
	for z, o := range per {
		chk("htlc", types.HtlcContract, z, o)
	}
	// pillar: ZNN collateral, QSR deposits
	ps, _ := definition.GetPillarsList(w.storageOf(types.PillarContract), false, definition.AnyPillarType)
	owed = new(big.Int)
	for _, p := range ps {
		owed.Add(owed, p.Amount)
	}
	chk("pillar", types.PillarContract, types.ZnnTokenStandard, owed)
	owed = new(big.Int)
	for _, v := range w.qsrDeposits(types.PillarContract) {
		owed.Add(owed, v)
	}
	chk("pillar", types.PillarContract, types.QsrTokenStandard, owed)
	// sentinel: ZNN, QSR (+ deposits)
	oz, oq := new(big.Int), new(big.Int)
	for _, s := range definition.GetAllSentinelInfo(w.storageOf(types.SentinelContract)) {
		oz.Add(oz, s.ZnnAmount)
		oq.Add(oq, s.QsrAmount)
	}
	for _, v := range w.qsrDeposits(types.SentinelContract) {
		oq.Add(oq, v)
	}
	chk("sentinel", types.SentinelContract, types.ZnnTokenStandard, oz)
	chk("sentinel", types.SentinelContract, types.QsrTokenStandard, oq)
	// liquidity: stake entries per token (a cancelled entry stays with amount 0 until the reward update removes it).  ZNN and
	// QSR are also the contract's treasury (rewards minted to it, Fund / BurnZnn / additional rewards spend them): for
	// them only "liabilities <= balance" is required, not that the surplus never shrinks
	if w.bl != nil {
		per = map[types.ZenonTokenStandard]*big.Int{}
		for _, e := range w.liqEntries() {
			if per[e.TokenStandard] == nil {
				per[e.TokenStandard] = new(big.Int)
			}
			per[e.TokenStandard].Add(per[e.TokenStandard], e.Amount)
		}
		for _, z := range append([]types.ZenonTokenStandard{w.bl.lp, w.bl.tk}, w.tokens...) {
			if per[z] == nil {
				per[z] = new(big.Int)
			}
		}
		for z, o := range per {
			treasury = z == types.ZnnTokenStandard || z == types.QsrTokenStandard
			chk("liquidity", types.LiquidityContract, z, o)
		}
		treasury = false
	}
}

// ---------------------------------------------------------------- payout oracle
type release struct {
	kind      string
	key       string        // identity of the locked entry
	to        types.Address // entitled receiver
	pays      []*big.Int    // expected amounts
	zts       []types.ZenonTokenStandard
	notBefore int64 // lock: frontier time (or height for fusions) must be >= this
	floor     int64 // the contract's minimum lock: frontier time must be >= this whatever the entry says (0 = none)
	preimage  int   // htlc unlock: 1 = the presented preimage opens the entry's lock under a supported hash, -1 = it does not (0 = n/a)
	before    int64 // htlc unlock: must be < this (0 = none)
	useHeight bool
	ok        bool // entitlement checks that can be decided before the call (owner, preimage, proxy)
	why       string
}

// what the property allows this call to release, from the state BEFORE the receive (nil: the call may release nothing)
func (w *world) expectedRelease(c *contractDef, s *nom.AccountBlock) *release {
	m := methodOf(c, s.Data)
	switch {
	case c.Name == "stake" && m == definition.CancelStakeMethodName:
		id := new(types.Hash)
		if definition.ABIStake.UnpackMethod(id, m, s.Data) != nil {
			return nil
		}
		e, err := definition.GetStakeInfo(w.storageOf(c.Addr), *id, s.Address)
		if err != nil {
			return nil
		}
		// the entry's own expiration, and never before the shortest lock the contract offers has passed since its start
		return &release{kind: "stake", key: "stake:" + s.Address.String() + id.String(), to: e.StakeAddress, pays: []*big.Int{new(big.Int).Set(e.Amount)},
			zts: []types.ZenonTokenStandard{types.ZnnTokenStandard}, notBefore: e.ExpirationTime, floor: e.StartTime + constants.StakeTimeMinSec, ok: e.StakeAddress == s.Address,
			why: fmt.Sprintf("start=%d expiration=%d minimum-lock=%d", e.StartTime, e.ExpirationTime, constants.StakeTimeMinSec)}
	case c.Name == "plasma" && m == definition.CancelFuseMethodName:
		id := new(types.Hash)
		if definition.ABIPlasma.UnpackMethod(id, m, s.Data) != nil {
			return nil
		}
		e, err := definition.GetFusionInfo(w.storageOf(c.Addr), s.Address, *id)
		if err != nil {
			return nil
		}
		return &release{kind: "fusion", key: "fusion:" + s.Address.String() + id.String(), to: e.Owner, pays: []*big.Int{new(big.Int).Set(e.Amount)},
			zts: []types.ZenonTokenStandard{types.QsrTokenStandard}, notBefore: int64(e.ExpirationHeight), useHeight: true, ok: e.Owner == s.Address}
	case c.Name == "htlc" && (m == definition.UnlockHtlcMethodName || m == definition.ReclaimHtlcMethodName):
		var id types.Hash
		var pre []byte
		if m == definition.UnlockHtlcMethodName {
			p := new(definition.UnlockHtlcParam)
			if definition.ABIHtlc.UnpackMethod(p, m, s.Data) != nil {
				return nil
			}
			id, pre = p.Id, p.Preimage
		} else {
			p := new(types.Hash)
			if definition.ABIHtlc.UnpackMethod(p, m, s.Data) != nil {
				return nil
			}
			id = *p
		}
		h, err := definition.GetHtlcInfo(w.storageOf(c.Addr), id)
		if err != nil {
			return nil
		}
		r := &release{kind: "htlc", key: "htlc:" + id.String(), pays: []*big.Int{new(big.Int).Set(h.Amount)}, zts: []types.ZenonTokenStandard{h.TokenStandard}}
		if m == definition.ReclaimHtlcMethodName {
			r.to, r.notBefore, r.ok = h.TimeLocked, h.ExpirationTime, h.TimeLocked == s.Address
		} else {
			// the preimage of the entry's hash lock under a SUPPORTED hash function (lockbounds.go); an entry whose hash type or
			// lock length is outside the rules can be opened by nothing
			opens := htlcPreimageOpens(h, pre)
			// proxy unlocks are allowed unless the hash-locked party's last ACCEPTED call denied them (tracked by the
			// harness from the accepted calls; a party that never called has the default: allowed)
			allowed := true
			if pref, ok := w.proxyPref[h.HashLocked]; ok {
				allowed = pref
			} else if pi, err := definition.GetHtlcProxyUnlockInfo(w.storageOf(c.Addr), h.HashLocked); err == nil {
				allowed = pi.Allowed
			}
			r.to, r.before = h.HashLocked, h.ExpirationTime
			r.ok = opens && (allowed || s.Address == h.HashLocked)
			r.preimage = map[bool]int{true: 1, false: -1}[opens]
			r.why = fmt.Sprintf("preimage-opens-lock=%v hash-type=%d lock-len=%d preimage-len=%d max=%d proxy-allowed=%v by-hashlocked=%v", opens, h.HashType, len(h.HashLock), len(pre), h.KeyMaxSize, allowed, s.Address == h.HashLocked)
		}
		return r
	case c.Name == "pillar" && m == definition.RevokeMethodName:
		name := new(string)
		if definition.ABIPillars.UnpackMethod(name, m, s.Data) != nil {
			return nil
		}
		p, err := definition.GetPillarInfo(w.storageOf(c.Addr), *name)
		if err != nil {
			return nil
		}
		cyc := constants.PillarEpochLockTime + constants.PillarEpochRevokeTime
		return &release{kind: "pillar", key: "pillar:" + *name, to: p.StakeAddress, pays: []*big.Int{new(big.Int).Set(p.Amount)}, zts: []types.ZenonTokenStandard{types.ZnnTokenStandard},
			ok: p.StakeAddress == s.Address && p.RevokeTime == 0, notBefore: -cyc, before: p.RegistrationTime} // window checked in checkRelease
	case c.Name == "sentinel" && m == definition.RevokeSentinelMethodName:
		e := definition.GetSentinelInfoByOwner(w.storageOf(c.Addr), s.Address)
		if e == nil {
			return nil
		}
		cyc := constants.SentinelLockTimeWindow + constants.SentinelRevokeTimeWindow
		return &release{kind: "sentinel", key: "sentinel:" + s.Address.String(), to: e.Owner, pays: []*big.Int{new(big.Int).Set(e.ZnnAmount), new(big.Int).Set(e.QsrAmount)},
			zts: []types.ZenonTokenStandard{types.ZnnTokenStandard, types.QsrTokenStandard}, ok: e.RevokeTimestamp == 0, notBefore: -cyc, before: e.RegistrationTimestamp}
	case (c.Name == "pillar" || c.Name == "sentinel") && m == definition.WithdrawQsrMethodName:
		a := s.Address
		d, err := definition.GetQsrDeposit(w.storageOf(c.Addr), &a)
		if err != nil || d.Qsr.Sign() == 0 {
			return nil
		}
		return &release{kind: "qsr", key: "", to: s.Address, pays: []*big.Int{new(big.Int).Set(d.Qsr)}, zts: []types.ZenonTokenStandard{types.QsrTokenStandard}, ok: true}
	case c.Name == "liquidity" || c.Name == "bridge":
		return w.expectedReleaseBL(c, m, s)
	}
	return nil
}

func isReleaseMethod(c *contractDef, m string) bool {
	switch c.Name {
	case "stake":
		return m == definition.CancelStakeMethodName
	case "plasma":
		return m == definition.CancelFuseMethodName
	case "htlc":
		return m == definition.UnlockHtlcMethodName || m == definition.ReclaimHtlcMethodName
	case "pillar":
		return m == definition.RevokeMethodName || m == definition.WithdrawQsrMethodName
	case "sentinel":
		return m == definition.RevokeSentinelMethodName || m == definition.WithdrawQsrMethodName
	case "liquidity":
		return m == definition.CancelLiquidityStakeMethodName
	case "bridge":
		return m == definition.RedeemUnwrapMethodName
	}
	return false
}

// what a receive block pays out: descendant sends that carry value, and Mint calls to the token contract (the bridge
// pays a redeem of an owned pair by having the token contract mint the amount to the recipient)
type payout struct {
	ToAddress     types.Address
	TokenStandard types.ZenonTokenStandard
	Amount        *big.Int
}

func payoutsOf(blk *nom.AccountBlock) []payout {
	var paid []payout
	for _, x := range blk.DescendantBlocks {
		if x.Amount.Sign() > 0 {
			paid = append(paid, payout{x.ToAddress, x.TokenStandard, x.Amount})
		} else if x.ToAddress == types.TokenContract {
			prm := new(definition.MintParam)
			if definition.ABIToken.UnpackMethod(prm, definition.MintMethodName, x.Data) == nil && prm.Amount != nil {
				paid = append(paid, payout{prm.ReceiveAddress, prm.TokenStandard, prm.Amount})
			}
		}
	}
	return paid
}

// the payouts of an APPLIED release call against what the property allows
func (w *world) checkRelease(c *contractDef, s *nom.AccountBlock, r *release, blk *nom.AccountBlock, ma *nom.Momentum) {
	m := methodOf(c, s.Data)
	d := blockDetail(s)
	paid := payoutsOf(blk)
	if r == nil {
		w.out.Oracle(len(paid) == 0, "payout-without-entry", d)
		return
	}
	now := ma.Timestamp.Unix()
	d["entry"] = r.key
	d["why"] = r.why
	w.out.Count("release-applied:" + c.Name + "." + m)
	// entitled party
	okTo := true
	for _, x := range paid {
		okTo = okTo && x.ToAddress == r.to
	}
	w.out.Oracle(okTo && r.ok, "payout-to-unentitled-party", d)
	if r.preimage != 0 {
		w.out.Oracle(r.preimage > 0, "htlc-released-without-preimage-of-its-hash-lock", d)
	}
	// on time
	onTime := true
	switch r.kind {
	case "pillar", "sentinel":
		cyc := -r.notBefore
		lock := constants.PillarEpochLockTime
		if r.kind == "sentinel" {
			lock = constants.SentinelLockTimeWindow
		}
		onTime = (now-r.before)%cyc >= lock
	default:
		t := now
		if r.useHeight {
			t = int64(ma.Height)
		}
		onTime = t >= r.notBefore && (r.before == 0 || now < r.before)
	}
	d["now"] = I64(now)
	w.out.Oracle(onTime, "payout-before-lock-allows", d)
	if r.floor != 0 {
		w.out.Oracle(now >= r.floor, "payout-before-minimum-lock-of-the-contract", d)
	}
	// exact amount(s) of the recorded entry, each token once
	okAmt := true
	nonzero := 0
	for i, p := range r.pays {
		if p.Sign() == 0 {
			continue
		}
		nonzero++
		found := 0
		for _, x := range paid {
			if x.TokenStandard == r.zts[i] && x.Amount.Cmp(p) == 0 {
				found++
			}
		}
		okAmt = okAmt && found == 1
	}
	okAmt = okAmt && len(paid) == nonzero
	w.out.Oracle(okAmt, "payout-amount-differs-from-entry", d)
	// never twice
	if r.key != "" && len(paid) > 0 {
		w.out.Oracle(!w.paidOut[r.key], "payout-twice", d)
		w.paidOut[r.key] = true
	}
}

// ---------------------------------------------------------------- history generator
func (w *world) lockOp() {
	rng := w.rng
	kp := w.senders[rng.Intn(len(w.senders))]
	znn, qsr := types.ZnnTokenStandard, types.QsrTokenStandard
	zero := big.NewInt(0)
	call := func(k *wallet.KeyPair, c types.Address, z types.ZenonTokenStandard, amt *big.Int, data []byte, key string, args ...interface{}) {
		// now and then the deposit arrives in the WRONG token (ZNN for QSR and vice versa) or with an amount just off the
		// required one: the contract has to refuse it (refund), never book it as a liability in its own token
		if amt.Sign() > 0 && c != types.HtlcContract {
			switch rng.Intn(12) {
			case 0:
				if z == znn {
					z = qsr
				} else {
					z = znn
				}
				w.out.Count("locks:deposit-in-wrong-token:" + key)
			case 1:
				amt = new(big.Int).Add(amt, big.NewInt(int64(rng.Intn(3)-1)))
				w.out.Count("locks:deposit-amount-off-by-one:" + key)
			}
		}
		if b := w.send(k, c, z, amt, data, "lock-op"); b != nil {
			w.made[key] = append(w.made[key], madeEntry{b.Hash, k, args})
		}
	}
	other := func(owner *wallet.KeyPair) *wallet.KeyPair { // mostly the owner, sometimes somebody else
		if rng.Intn(4) == 0 {
			return w.senders[rng.Intn(len(w.senders))]
		}
		return owner
	}
	switch rng.Intn(34) {
	case 28, 29:
		w.boundaryStake()
	case 30, 31, 33:
		w.boundaryHtlc()
	case 32:
		w.boundaryFuse()
	case 0, 1:
		t := constants.StakeTimeUnitSec * int64(1+rng.Intn(3))
		call(kp, types.StakeContract, znn, big.NewInt(int64(1+rng.Intn(30))*g.Zexp), definition.ABIStake.PackMethodPanic(definition.StakeMethodName, t), "stake.Stake")
	case 2, 3:
		if e := w.pickMade("stake.Stake"); e != nil {
			call(other(e.kp), types.StakeContract, znn, zero, definition.ABIStake.PackMethodPanic(definition.CancelStakeMethodName, e.hash), "stake.Cancel")
		}
	case 4, 5:
		ben := w.senders[rng.Intn(len(w.senders))].Address
		call(kp, types.PlasmaContract, qsr, big.NewInt(int64(10+rng.Intn(40))*g.Zexp), definition.ABIPlasma.PackMethodPanic(definition.FuseMethodName, ben), "plasma.Fuse")
	case 6, 7:
		if e := w.pickMade("plasma.Fuse"); e != nil && rng.Intn(5) != 0 {
			call(other(e.kp), types.PlasmaContract, znn, zero, definition.ABIPlasma.PackMethodPanic(definition.CancelFuseMethodName, e.hash), "plasma.CancelFuse")
		} else { // a genesis fusion
			ids := []types.Hash{types.HexToHashPanic("117613e734b6cb0fd7b7583f5b0e863a3f0c856cd32fa36f1b60b464d068c5a6"), types.ZeroHash, types.HexToHashPanic("3d3179e499f839b47c60216b57f79e41264d408e2f21aa6f5462f25d5e094924")}
			call(kp, types.PlasmaContract, znn, zero, definition.ABIPlasma.PackMethodPanic(definition.CancelFuseMethodName, ids[rng.Intn(3)]), "plasma.CancelFuse")
		}
	case 8, 9, 10:
		p := make([]byte, []int{0, 1, 32, 40}[rng.Intn(4)])
		rng.Read(p)
		w.pre = append(w.pre, p)
		ht := uint8(rng.Intn(2))
		lock := crypto.Hash(p)
		if ht == 1 {
			lock = crypto.HashSHA256(p)
		}
		hl := w.senders[rng.Intn(len(w.senders))]
		tok := w.tokens[rng.Intn(len(w.tokens))]
		args := []interface{}{hl.Address, w.now() + int64(10*(4+rng.Intn(40))), ht, uint8([]int{0, 1, 32, 255}[rng.Intn(4)]), lock, p, hl}
		call(kp, types.HtlcContract, tok, big.NewInt(int64(1+rng.Intn(50))*g.Zexp),
			definition.ABIHtlc.PackMethodPanic(definition.CreateHtlcMethodName, args[0], args[1], args[2], args[3], args[4]), "htlc.Create", args...)
	case 11, 12:
		if e := w.pickMade("htlc.Create"); e != nil && len(e.args) >= 7 {
			pre := e.args[5].([]byte)
			if rng.Intn(4) == 0 {
				pre = append([]byte{1}, pre...)
			}
			k := e.args[6].(*wallet.KeyPair)
			if rng.Intn(3) == 0 { // a proxy presents the preimage
				k = w.senders[rng.Intn(len(w.senders))]
			}
			call(k, types.HtlcContract, znn, zero, definition.ABIHtlc.PackMethodPanic(definition.UnlockHtlcMethodName, e.hash, pre), "htlc.Unlock")
		}
	case 13:
		if e := w.pickMade("htlc.Create"); e != nil {
			call(other(e.kp), types.HtlcContract, znn, zero, definition.ABIHtlc.PackMethodPanic(definition.ReclaimHtlcMethodName, e.hash), "htlc.Reclaim")
		}
	case 14:
		mn := definition.DenyHtlcProxyUnlockMethodName
		if rng.Intn(3) == 0 {
			mn = definition.AllowHtlcProxyUnlockMethodName
		}
		k := kp
		if e := w.pickMade("htlc.Create"); e != nil && len(e.args) >= 7 && rng.Intn(3) != 0 { // the hash-locked party of an open htlc
			k = e.args[6].(*wallet.KeyPair)
		}
		// an explicit Allow is mostly followed by a Deny of the same party later (Allow -> Deny -> a proxy's unlock)
		if pref, ok := w.proxyPref[k.Address]; ok && pref && rng.Intn(3) != 0 {
			mn = definition.DenyHtlcProxyUnlockMethodName
		} else if !ok && rng.Intn(2) == 0 {
			mn = definition.AllowHtlcProxyUnlockMethodName
		}
		call(k, types.HtlcContract, znn, zero, definition.ABIHtlc.PackMethodPanic(mn), "htlc.proxy")
	case 15:
		c := []types.Address{types.PillarContract, types.SentinelContract}[rng.Intn(2)]
		amt := []*big.Int{constants.SentinelQsrDepositAmount, big.NewInt(int64(1+rng.Intn(1000)) * g.Zexp), new(big.Int).Add(constants.PillarQsrStakeBaseAmount, constants.PillarQsrStakeIncreaseAmount)}[rng.Intn(3)]
		call(kp, c, qsr, amt, definition.ABIPillars.PackMethodPanic(definition.DepositQsrMethodName), "DepositQsr")
	case 16:
		c := []types.Address{types.PillarContract, types.SentinelContract}[rng.Intn(2)]
		k := kp
		// mostly somebody who HAS a deposit there (contract storage), sometimes twice in a row
		if deps := w.qsrDeposits(c); len(deps) > 0 && rng.Intn(4) != 0 {
			var holders []*wallet.KeyPair
			for _, cand := range w.senders {
				if d, ok := deps[cand.Address]; ok && d.Sign() > 0 {
					holders = append(holders, cand)
				}
			}
			if len(holders) > 0 {
				k = holders[rng.Intn(len(holders))]
				w.out.Count("locks:withdraw-by-deposit-holder")
			}
		}
		call(k, c, znn, zero, definition.ABIPillars.PackMethodPanic(definition.WithdrawQsrMethodName), "WithdrawQsr")
		if rng.Intn(3) == 0 {
			call(k, c, znn, zero, definition.ABIPillars.PackMethodPanic(definition.WithdrawQsrMethodName), "WithdrawQsr")
		}
	case 17, 27:
		if rng.Intn(3) != 0 { // deposit the required QSR first (same inbox, FIFO)
			call(kp, types.SentinelContract, qsr, constants.SentinelQsrDepositAmount, definition.ABISentinel.PackMethodPanic(definition.DepositQsrMethodName), "DepositQsr")
		}
		call(kp, types.SentinelContract, znn, constants.SentinelZnnRegisterAmount, definition.ABISentinel.PackMethodPanic(definition.RegisterSentinelMethodName), "sentinel.Register")
	case 18:
		k := kp
		if e := w.pickMade("sentinel.Register"); e != nil && rng.Intn(4) != 0 {
			k = e.kp
		}
		// mostly: the owner of a sentinel that IS registered (contract storage), now and then after waiting for its revoke
		// window, and sometimes twice in a row (the second one must find nothing left to release)
		if all := definition.GetAllSentinelInfo(w.storageOf(types.SentinelContract)); len(all) > 0 && rng.Intn(4) != 0 {
			sort.Slice(all, func(i, j int) bool { return string(all[i].Owner[:]) < string(all[j].Owner[:]) })
			si := all[rng.Intn(len(all))]
			for _, c := range w.senders {
				if c.Address == si.Owner {
					k = c
				}
			}
			if rng.Intn(2) == 0 {
				cyc := constants.SentinelLockTimeWindow + constants.SentinelRevokeTimeWindow
				for i := 0; i < 12 && !w.dead && (w.now()-si.RegistrationTimestamp)%cyc < constants.SentinelLockTimeWindow; i++ {
					w.settle()
				}
			}
			w.out.Count("locks:revoke-of-registered-sentinel")
		}
		call(k, types.SentinelContract, znn, zero, definition.ABISentinel.PackMethodPanic(definition.RevokeSentinelMethodName), "sentinel.Revoke")
		if rng.Intn(3) == 0 {
			call(k, types.SentinelContract, znn, zero, definition.ABISentinel.PackMethodPanic(definition.RevokeSentinelMethodName), "sentinel.Revoke")
		}
	case 19:
		k := []*wallet.KeyPair{g.Pillar4, g.Pillar5, g.Pillar6, kp}[rng.Intn(4)]
		name := fmt.Sprintf("plr-%d", rng.Intn(30))
		prod := w.senders[rng.Intn(len(w.senders))].Address
		if rng.Intn(4) != 0 {
			cost := new(big.Int).Add(constants.PillarQsrStakeBaseAmount, new(big.Int).Mul(constants.PillarQsrStakeIncreaseAmount, big.NewInt(int64(len(w.made["pillar.Register"])))))
			call(k, types.PillarContract, qsr, cost, definition.ABIPillars.PackMethodPanic(definition.DepositQsrMethodName), "DepositQsr")
		}
		call(k, types.PillarContract, znn, constants.PillarStakeAmount,
			definition.ABIPillars.PackMethodPanic(definition.RegisterMethodName, name, prod, k.Address, uint8(rng.Intn(101)), uint8(rng.Intn(101))), "pillar.Register", name)
	case 20:
		names := []string{g.Pillar1Name, g.Pillar2Name, g.Pillar3Name}
		owners := []*wallet.KeyPair{g.Pillar1, g.Pillar2, g.Pillar3}
		i := rng.Intn(3)
		name, k := names[i], owners[i]
		if e := w.pickMade("pillar.Register"); e != nil && rng.Intn(2) == 0 {
			name, k = e.args[0].(string), e.kp
		}
		call(other(k), types.PillarContract, znn, zero, definition.ABIPillars.PackMethodPanic(definition.RevokeMethodName, name), "pillar.Revoke")
	case 21: // RegisterLegacy with a genuine signature (the genesis has three legacy slots for that key)
		k := []*wallet.KeyPair{g.Pillar4, g.Pillar5, g.Pillar6, kp}[rng.Intn(4)]
		name := fmt.Sprintf("leg-%d", rng.Intn(30))
		if rng.Intn(4) != 0 {
			call(k, types.PillarContract, qsr, constants.PillarQsrStakeBaseAmount, definition.ABIPillars.PackMethodPanic(definition.DepositQsrMethodName), "DepositQsr")
		}
		prv, pub := g.Secp1PrvKey, g.Secp1PubKeyB64
		if rng.Intn(5) == 0 {
			prv, pub = g.Secp2PrvKey, g.Secp2PubKeyB64
		}
		if sig, err := implementation.SignLegacyPillarMessage(k.Address, prv, pub); err == nil {
			call(k, types.PillarContract, znn, constants.PillarStakeAmount,
				definition.ABIPillars.PackMethodPanic(definition.LegacyRegisterMethodName, name, w.senders[rng.Intn(len(w.senders))].Address, k.Address, uint8(rng.Intn(101)), uint8(rng.Intn(101)), pub, sig), "pillar.Register", name)
		}
	case 22: // UpdatePillar by the owner (or somebody else), new or taken producer address
		names := []string{g.Pillar1Name, g.Pillar2Name, g.Pillar3Name}
		owners := []*wallet.KeyPair{g.Pillar1, g.Pillar2, g.Pillar3}
		i := rng.Intn(3)
		name, k := names[i], owners[i]
		if e := w.pickMade("pillar.Register"); e != nil && rng.Intn(2) == 0 {
			name, k = e.args[0].(string), e.kp
		}
		call(other(k), types.PillarContract, znn, zero, definition.ABIPillars.PackMethodPanic(definition.UpdatePillarMethodName, name,
			w.senders[rng.Intn(len(w.senders))].Address, w.senders[rng.Intn(len(w.senders))].Address, uint8(rng.Intn(120)), uint8(rng.Intn(101))), "pillar.UpdatePillar")
	case 23:
		name := []string{g.Pillar1Name, g.Pillar2Name, g.Pillar3Name, "plr-1", "no-such-pillar"}[rng.Intn(5)]
		if e := w.pickMade("pillar.Register"); e != nil && rng.Intn(2) == 0 {
			name = e.args[0].(string)
		}
		call(kp, types.PillarContract, znn, zero, definition.ABIPillars.PackMethodPanic(definition.DelegateMethodName, name), "pillar.Delegate")
	case 24:
		call(kp, types.PillarContract, znn, zero, definition.ABIPillars.PackMethodPanic(definition.UndelegateMethodName), "pillar.Undelegate")
	default:
		w.randomLockCall()
	}
}

// a random (mostly failing) call to one of the lock contracts, from the C09 generator
func (w *world) randomLockCall() {
	for i := 0; i < 20; i++ {
		before := w.rng.Int63()
		_ = before
		c := &contracts[w.rng.Intn(len(contracts))]
		switch c.Name {
		case "stake", "plasma", "htlc", "pillar", "sentinel":
			w.randomCallTo(c)
			return
		}
	}
}

func locksHistory(rng *rand.Rand, out *Out, steps int) {
	resetSporks()
	nd := NewNode()
	defer nd.Stop()
	defer resetSporks()
	w := &world{nd: nd, rng: rng, out: out, regime: "htlc", locks: true, paidOut: map[string]bool{},
		senders: []*wallet.KeyPair{g.User1, g.User2, g.User3, g.User4, g.User5, g.Pillar1, g.Pillar2, g.Pillar3, g.Pillar4, g.Pillar5, g.Pillar6},
		tokens:  []types.ZenonTokenStandard{types.ZnnTokenStandard, types.QsrTokenStandard}, made: map[string][]madeEntry{}}
	w.activate(types.HtlcSpork, "spork-htlc")
	w.checkBacked()
	for s := 0; s < steps && !w.dead; s++ {
		w.lockOp()
		if rng.Intn(3) == 0 {
			w.settle()
		}
		if rng.Intn(12) == 0 { // let time pass: expirations, revoke windows
			for i := 0; i < 1+rng.Intn(6) && !w.dead; i++ {
				w.settle()
			}
		}
	}
	if !w.dead {
		w.settle()
		w.settle()
	}
}

func RunLocks(rng *rand.Rand, n int, out *Out, _ []string) {
	shortenConstants()
	for h := 0; h < n; h++ {
		locksHistory(rng, out, 70+rng.Intn(50))
	}
}

var _ = implementation.SignRetrieveAssetsMessage
