package embx

// calls: structure-aware exploration of EVERY embedded contract method under each spork regime on a real node.
// Oracle = the statement of C09 evaluated on the implementation: an accepted send to a contract gets a receive
// block produced without panic / internal error, which either applies the call or refunds exactly the sent
// amount+token to the sender, and the inbox advances so that the next queued call is processed.

import (
	"bytes"
	"fmt"
	"math/big"
	"math/rand"
	"strings"
	. "zharness/hz"

	g "github.com/zenon-network/go-zenon/chain/genesis/mock"
	"github.com/zenon-network/go-zenon/chain/nom"
	"github.com/zenon-network/go-zenon/common"
	"github.com/zenon-network/go-zenon/common/crypto"
	"github.com/zenon-network/go-zenon/common/types"
	"github.com/zenon-network/go-zenon/vm"
	"github.com/zenon-network/go-zenon/vm/abi"
	"github.com/zenon-network/go-zenon/vm/constants"
	"github.com/zenon-network/go-zenon/vm/embedded"
	"github.com/zenon-network/go-zenon/vm/embedded/definition"
	"github.com/zenon-network/go-zenon/vm/embedded/implementation"
	"github.com/zenon-network/go-zenon/vm/vm_context"
	"github.com/zenon-network/go-zenon/wallet"
)

type contractDef struct {
	Name string
	Addr types.Address
	ABI  abi.ABIContract
}

var contracts = []contractDef{
	{"plasma", types.PlasmaContract, definition.ABIPlasma}, {"pillar", types.PillarContract, definition.ABIPillars},
	{"token", types.TokenContract, definition.ABIToken}, {"sentinel", types.SentinelContract, definition.ABISentinel},
	{"swap", types.SwapContract, definition.ABISwap}, {"stake", types.StakeContract, definition.ABIStake},
	{"spork", types.SporkContract, definition.ABISpork}, {"liquidity", types.LiquidityContract, definition.ABILiquidity},
	{"accelerator", types.AcceleratorContract, definition.ABIAccelerator}, {"htlc", types.HtlcContract, definition.ABIHtlc},
	{"bridge", types.BridgeContract, definition.ABIBridge},
}

func contractOf(a types.Address) *contractDef {
	for i := range contracts {
		if contracts[i].Addr == a {
			return &contracts[i]
		}
	}
	return nil
}
func methodOf(c *contractDef, data []byte) string {
	if c == nil || len(data) < 4 {
		return "?"
	}
	if m, err := c.ABI.MethodById(data[:4]); err == nil {
		return m.Name
	}
	return "?"
}

// shortened lock times, as /repo/vm/embedded/tests/utils_test.go does, so that expiries are reached
func shortenConstants() {
	constants.SentinelLockTimeWindow = 40
	constants.SentinelRevokeTimeWindow = 20
	constants.PillarEpochLockTime = 60
	constants.PillarEpochRevokeTime = 30
	constants.RewardTimeLimit = 0
	constants.UpdateMinNumMomentums = 12
	constants.FuseExpiration = 6
	constants.StakeTimeUnitSec = 30
	constants.StakeTimeMinSec = constants.StakeTimeUnitSec * 1
	constants.StakeTimeMaxSec = constants.StakeTimeUnitSec * 12
	constants.MinAdministratorDelay = 6
	constants.MinSoftDelay = 3
	constants.MinUnhaltDurationInMomentums = 3
	constants.SporkMinHeightDelay = 2
}

var regimes = []string{"origin", "accelerator", "bridge", "htlc"}
var sporkDefaults = [3]types.Hash{types.AcceleratorSpork.SporkId, types.BridgeAndLiquiditySpork.SporkId, types.HtlcSpork.SporkId}

func resetSporks() {
	types.AcceleratorSpork.SporkId, types.BridgeAndLiquiditySpork.SporkId, types.HtlcSpork.SporkId = sporkDefaults[0], sporkDefaults[1], sporkDefaults[2]
}

type world struct {
	nd        *Node
	rng       *rand.Rand
	out       *Out
	regime    string
	senders   []*wallet.KeyPair
	hashes    []types.Hash               // ids of interest: hashes of accepted sends
	tokens    []types.ZenonTokenStandard // ZNN, QSR + issued
	names     []string
	pre       [][]byte               // htlc preimages used
	made      map[string][]madeEntry // accepted calls per contract.method, to aim later calls at existing entries
	wedge     bool                   // reproducer of the contract-sender refund finding
	locks     bool                   // C10 mode: backing + payout oracles, sentinel/pillar models
	paidOut   map[string]bool        // entries already paid out (never twice)
	fusedBase map[types.Address]*big.Int
	fusedInit bool
	surplus   map[string]*big.Int // balance - liabilities per contract and token at the last check (locks suite)
	dead      bool                // a receive panicked / failed internally: the inbox is wedged, history abandoned
	deep      *deep               // state of the deep operations (xcalls.go)
	bl        *blState            // C10 suite bridgeliq (bridgeliq.go)
	unlocked  map[string]bool     // liquidity stake entries whose expiration the administrator brought forward (lockbounds.go)
	revoking  map[string]uint64   // pillar name -> frontier height at which its owner's Revoke was sent (lockbounds.go)
	pending   int
	proxyPref map[types.Address]bool // htlc: the last ACCEPTED AllowProxyUnlock (true) / DenyProxyUnlock (false) of an address
}

type madeEntry struct {
	hash types.Hash
	kp   *wallet.KeyPair
	args []interface{}
}

func (w *world) pickMade(key string) *madeEntry {
	l := w.made[key]
	if len(l) == 0 {
		return nil
	}
	if w.rng.Intn(2) == 0 && len(l) > 3 {
		return &l[len(l)-1-w.rng.Intn(3)]
	}
	return &l[w.rng.Intn(len(l))]
}

func (w *world) now() int64 {
	m, _ := w.nd.Ch.GetFrontierMomentumStore().GetFrontierMomentum()
	return m.Timestamp.Unix()
}

func (w *world) ctxFor(b *nom.AccountBlock) vm_context.AccountVmContext {
	ms := w.nd.Ch.GetMomentumStore(b.MomentumAcknowledged)
	as := w.nd.Ch.GetAccountStore(b.Address, b.Previous())
	return vm_context.NewAccountContext(ms, as, w.nd.Cs.FixedPillarReader(b.MomentumAcknowledged))
}

// send builds, signs and applies a user send; returns the accepted block or nil
func (w *world) send(kp *wallet.KeyPair, to types.Address, zts types.ZenonTokenStandard, amount *big.Int, data []byte, tag string) *nom.AccountBlock {
	// in every suite: with no active pillar left the election of the real node spins for ever (C05's recorded
	// no-pillars-no-schedule case), which would only show up here as a suite timeout
	if to == types.PillarContract && w.wouldRevokeLastPillar(kp, data) {
		w.out.Count("locks:revoke-of-the-last-active-pillar-not-sent")
		return nil
	}
	b := &nom.AccountBlock{BlockType: nom.BlockTypeUserSend, Address: kp.Address, ToAddress: to, TokenStandard: zts, Amount: new(big.Int).Set(amount), Data: data}
	w.nd.Fill(b)
	if base, err := vm.GetBasePlasmaForAccountBlock(w.ctxFor(b), b); err == nil {
		b.FusedPlasma = base
	} else {
		b.FusedPlasma = constants.AccountBlockBasePlasma * 5
	}
	Sign(b, kp)
	tx, err := w.nd.Apply(b)
	c := contractOf(to)
	mname := methodOf(c, data)
	cn := "?"
	if c != nil {
		cn = c.Name
	}
	if err != nil {
		e := err.Error()
		if i := strings.Index(e, " - "); i > 0 {
			e = e[:i]
		}
		if len(e) > 60 {
			e = e[:60]
		}
		w.out.Count("send-rejected:" + e)
		w.out.Count("call-rejected:" + w.regime + ":" + cn + "." + mname)
		if err == constants.ErrVmRunPanic {
			// a panic while validating a send is contained by applyBlock's recover: not a C09 violation, but counted
			w.out.Count("send-validation-panic:" + cn + "." + mname)
		}
		return nil
	}
	if e := w.nd.Insert(tx); e != nil {
		w.out.Count("insert-failed")
		return nil
	}
	w.out.Count("call-accepted:" + w.regime + ":" + cn + "." + mname + ":" + tag)
	// an accepted user block carries data that ValidateSendBlock's re-encoding leaves unchanged (otherwise the
	// hash check after the vm run would have failed): what ReceiveBlock's DealWithErr(Unpack) relies on
	w.out.Oracle(bytes.Equal(tx.Block.Data, data), "accepted-data-canonical", M{"contract": cn, "method": mname, "data": Byt(data)})
	w.hashes = append(w.hashes, b.Hash)
	if to == types.SporkContract {
		// a node exits the process when a spork it does not implement activates (chain/momentum_event); every spork
		// this history creates is declared implemented so that random Activate calls can be explored
		types.ImplementedSporksMap[b.Hash] = true
	}
	w.pending++
	return tx.Block
}

func blockDetail(s *nom.AccountBlock) M {
	c := contractOf(s.ToAddress)
	cn := "?"
	if c != nil {
		cn = c.Name
	}
	return M{"contract": cn, "method": methodOf(c, s.Data), "sender": s.Address.String(), "amount": Big(s.Amount),
		"zts": s.TokenStandard.String(), "data": Byt(s.Data), "sender_is_contract": types.IsEmbeddedAddress(s.Address)}
}

// settle: confirm the pool, then generate the receive block for every queued call (what the producing pillar does)
func (w *world) settle() {
	for round := 0; round < 12 && !w.dead; round++ {
		if err := w.nd.MomentumOnly(); err != nil {
			if strings.HasPrefix(err.Error(), "no key for producer") {
				// a limit of the harness, not a failure of the node: the history made a pillar produce under an address the
				// harness holds no key for (a registration / UpdatePillar naming somebody else's or a contract's address as
				// producer) and that pillar is elected now: the history ends here
				w.out.Count("history-ended:elected-producer-address-without-key")
				w.dead = true
				return
			}
			w.out.Oracle(false, "momentum-production-failed", M{"err": err.Error()})
			w.dead = true
			return
		}
		if w.locks {
			w.checkBacked()
		}
		progressed := false
		for _, c := range contracts {
			for !w.dead {
				head := w.nd.InboxHead(c.Addr)
				if head == nil {
					break
				}
				progressed = true
				w.receiveOne(&c, head)
			}
		}
		if !progressed {
			return
		}
	}
}

func (w *world) receiveOne(c *contractDef, s *nom.AccountBlock) {
	out := w.out
	mname := methodOf(c, s.Data)
	key := c.Name + "." + mname
	balBefore, _ := w.nd.Ch.GetFrontierAccountStore(c.Addr).GetBalance(s.TokenStandard)
	pre := w.embBefore(c, s)
	var rel *release
	var blp *blPre
	if w.locks {
		rel = w.expectedRelease(c, s)
		blp = w.blBefore(c, s)
	}
	// what was really sent, fixed BEFORE the producer code runs (the receive path must not be able to change what the
	// refund is compared with); after the run the send block is re-read from the ledger by hash
	orig := snapSend(s)
	stBefore, _ := w.storageDigest(c.Addr)
	exec, err, pv := w.nd.AutoReceive(s)
	d := blockDetail(s)
	if c.Addr == types.AcceleratorContract && (pv != nil || err != nil || exec == nil) {
		d["accelerator_projects"] = w.accSummary() // the stages of the projects the call met
	}
	if pv != nil {
		// a panic of GenerateAutoReceive is a crash of the producing pillar, whoever sent the call
		d["panic"] = fmt.Sprint(pv)
		out.Oracle(false, "receive-panicked", d)
		w.dead = true
		return
	}
	out.Oracle(true, "receive-panicked", nil)
	if err != nil || exec == nil || exec.Transaction == nil {
		d["err"] = fmt.Sprint(err)
		d["persistent"] = w.wedgePersists(c, s)
		if types.IsEmbeddedAddress(s.Address) && s.Amount.Sign() > 0 {
			// the call was sent by a contract and carries value: one key per (sender contract -> receiver.method), so
			// that only the reproduced path of known_findings.d/C09.json is matched by it
			out.Oracle(false, w.contractSendFailureKey(c, s, mname), d)
		} else {
			out.Oracle(false, "receive-internal-error", d)
		}
		w.dead = true
		return
	}
	out.Oracle(true, "receive-internal-error", nil)
	blk := exec.Transaction.Block
	status := common.BytesToUint64(blk.Data)
	if exec.ReturnedError == nil {
		out.Count("receive-applied:" + key)
		out.Oracle(status == 1, "receive-status-matches", d)
	} else {
		e := exec.ReturnedError.Error()
		if len(e) > 50 {
			e = e[:50]
		}
		out.Count("receive-refunded:" + key + ":" + e)
		// exactly the sent amount+token back to the sender, nothing else: compared with the send block as it was before
		// the receive ran AND as the ledger has it now (re-read by hash)
		ok := status == 2
		led, lerr := w.nd.Ch.GetFrontierMomentumStore().GetAccountBlockByHash(s.Hash)
		ok = ok && lerr == nil && led != nil && orig.same(led)
		if orig.amount.Sign() > 0 {
			ok = ok && len(blk.DescendantBlocks) == 1
			if ok {
				r := blk.DescendantBlocks[0]
				ok = r.ToAddress == orig.sender && r.Address == orig.to && r.Amount.Cmp(orig.amount) == 0 && r.TokenStandard == orig.zts &&
					r.BlockType == nom.BlockTypeContractSend && len(r.Data) == 0
				d["refund_amount"] = Big(r.Amount)
			}
		} else {
			ok = ok && len(blk.DescendantBlocks) == 0
		}
		out.Oracle(ok, "refund-exact", d)
	}
	// model tie for the vm layer: (amount, refundable, method failed?, descendants produced) -> descendants of the receive block
	ds := Lst()
	for _, x := range blk.DescendantBlocks {
		ds = append(ds, Tup(Byt(x.ToAddress.Bytes()), Big(x.Amount), Byt(x.TokenStandard.Bytes())))
	}
	applied := exec.ReturnedError == nil
	mds := Lst()
	if applied {
		mds = ds
	}
	out.Case("vm_receive",
		Tup(Byt(orig.sender.Bytes()), Big(orig.amount), Byt(orig.zts.Bytes()), applied, mds),
		Tup(I64(int64(status)), ds), map[bool]string{true: "applied", false: "refunded"}[applied])

	if e := w.nd.Insert(exec.Transaction); e != nil {
		d["err"] = e.Error()
		out.Oracle(false, "receive-block-not-insertable", d)
		w.dead = true
		return
	}
	out.Oracle(true, "receive-block-not-insertable", nil)
	if exec.ReturnedError == nil && c.Addr == types.HtlcContract && (mname == definition.AllowHtlcProxyUnlockMethodName || mname == definition.DenyHtlcProxyUnlockMethodName) {
		// the proxy-unlock preference of the sender is what its last accepted call said, kept here independently of
		// the contract's storage; and the storage must say the same
		if w.proxyPref == nil {
			w.proxyPref = map[types.Address]bool{}
		}
		want := mname == definition.AllowHtlcProxyUnlockMethodName
		w.proxyPref[s.Address] = want
		got := true
		if pi, err := definition.GetHtlcProxyUnlockInfo(w.storageOf(c.Addr), s.Address); err == nil {
			got = pi.Allowed
		}
		out.Oracle(got == want, "htlc-proxy-preference-is-the-last-accepted-call", M{"address": s.Address.String(), "call": mname, "stored_allowed": got})
	}
	if ma, e := w.nd.Ch.GetFrontierMomentumStore().GetMomentumByHeight(blk.MomentumAcknowledged.Height); e == nil && ma != nil {
		w.embAfter(c, s, pre, ma, exec.ReturnedError, blk)
		if w.locks {
			w.blAfter(c, s, blp, ma, exec.ReturnedError)
		}
		if w.locks && exec.ReturnedError == nil {
			w.checkLockAccepted(c, mname, s, ma)
			if isReleaseMethod(c, mname) {
				w.checkRelease(c, s, rel, blk, ma)
			} else if c.Name == "stake" || c.Name == "plasma" || c.Name == "htlc" || c.Name == "pillar" || c.Name == "sentinel" || c.Name == "liquidity" || c.Name == "bridge" {
				// any other applied call of a lock contract moves value only to the token contract (burn of consumed QSR, burn
				// of a wrapped owned token, burn of the liquidity treasury) - or, for Fund of the liquidity contract called by
				// the spork address, to the accelerator
				ok := true
				for _, x := range blk.DescendantBlocks {
					ok = ok && (x.Amount.Sign() == 0 || x.ToAddress == types.TokenContract ||
						(c.Name == "liquidity" && mname == definition.FundMethodName && x.ToAddress == types.AcceleratorContract && s.Address == *types.SporkAddress))
				}
				out.Oracle(ok, "payout-by-non-release-method", d)
			}
		}
	}
	// the inbox cursor moved by exactly one: the head is now a different block
	h2 := w.nd.InboxHead(c.Addr)
	out.Oracle(h2 == nil || h2.Hash != s.Hash, "inbox-advanced", d)
	if exec.ReturnedError != nil {
		balAfter, _ := w.nd.Ch.GetFrontierAccountStore(c.Addr).GetBalance(s.TokenStandard)
		out.Oracle(balBefore.Cmp(balAfter) == 0, "refund-leaves-balance-unchanged", d)
		// "either applies the call or returns the amount": a refunded call leaves nothing behind in the contract's storage,
		// also when its method had written before it failed (the receive block of the refund is on the ledger now)
		stAfter, _ := w.storageDigest(c.Addr)
		out.Oracle(stBefore == stAfter, "refund-leaves-storage-unchanged", d)
	}
	w.pending--
}

// ---------------------------------------------------------------- argument generation

var amountClasses = func() []*big.Int {
	p := func(k uint) *big.Int { return new(big.Int).Lsh(big.NewInt(1), k) }
	m1 := func(x *big.Int) *big.Int { return new(big.Int).Sub(x, big.NewInt(1)) }
	return []*big.Int{big.NewInt(0), big.NewInt(1), big.NewInt(g.Zexp), big.NewInt(10 * g.Zexp), big.NewInt(1000 * g.Zexp),
		m1(p(255)), m1(p(63)), p(64), big.NewInt(g.Zexp + 1), big.NewInt(5000 * g.Zexp), big.NewInt(15000 * g.Zexp), big.NewInt(50000 * g.Zexp), big.NewInt(150000 * g.Zexp)}
}()

func (w *world) pickAddr() types.Address {
	switch w.rng.Intn(10) {
	case 0:
		return types.ZeroAddress
	case 1:
		return types.EmbeddedContracts[w.rng.Intn(len(types.EmbeddedContracts))]
	case 2:
		var a types.Address
		w.rng.Read(a[:])
		return a
	case 3:
		var a types.Address // an embedded-looking address that is no contract
		w.rng.Read(a[:])
		a[0] = types.ContractAddrByte
		return a
	}
	return w.senders[w.rng.Intn(len(w.senders))].Address
}
func (w *world) pickHash() types.Hash {
	var h types.Hash
	switch {
	case len(w.hashes) > 0 && w.rng.Intn(10) < 7:
		k := len(w.hashes)
		if w.rng.Intn(2) == 0 && k > 6 {
			return w.hashes[k-1-w.rng.Intn(6)]
		}
		return w.hashes[w.rng.Intn(k)]
	case w.rng.Intn(3) == 0:
		return h
	}
	w.rng.Read(h[:])
	return h
}
func (w *world) pickToken() types.ZenonTokenStandard {
	switch w.rng.Intn(8) {
	case 0:
		return types.ZeroTokenStandard
	case 1:
		var z types.ZenonTokenStandard
		w.rng.Read(z[:])
		return z
	case 2, 3:
		if len(w.hashes) > 0 { // a token that an Issue call among the known sends would have created
			return types.NewZenonTokenStandard(w.hashes[w.rng.Intn(len(w.hashes))].Bytes())
		}
	}
	return w.tokens[w.rng.Intn(len(w.tokens))]
}
func (w *world) pickName() string {
	switch w.rng.Intn(8) {
	case 0:
		return ""
	case 1:
		return strings.Repeat("a", 39+w.rng.Intn(3))
	case 2:
		return g.Pillar1Name
	case 3:
		return "bad name!"
	case 4:
		if len(w.names) > 0 {
			return w.names[w.rng.Intn(len(w.names))]
		}
	}
	n := fmt.Sprintf("name-%d", w.rng.Intn(40))
	w.names = append(w.names, n)
	return n
}
func (w *world) pickString(arg string) string {
	la := strings.ToLower(arg)
	switch {
	case strings.Contains(la, "symbol"):
		return []string{"TST", "ABC1", "", "ZNN", "toolongsymbol", "lower"}[w.rng.Intn(6)]
	case strings.Contains(la, "domain"):
		return []string{"zenon.network", "", "bad domain", strings.Repeat("a", 130) + ".com"}[w.rng.Intn(4)]
	case strings.Contains(la, "name"):
		return w.pickName()
	case strings.Contains(la, "url"):
		return []string{"https://zenon.network", "", "x", strings.Repeat("w", 129)}[w.rng.Intn(4)]
	case strings.Contains(la, "pubkey") || strings.Contains(la, "publickey"):
		return pickPubKey(w.rng)
	case strings.Contains(la, "signature"):
		return []string{"", "AAAA", strings.Repeat("A", 88), "!!"}[w.rng.Intn(4)]
	case strings.Contains(la, "metadata"):
		return []string{"{}", "", `{"a":1}`, "{", strings.Repeat("m", 5000)}[w.rng.Intn(5)]
	case strings.Contains(la, "address"): // string-typed foreign-chain addresses (bridge)
		return []string{"0xb794f5ea0ba39494ce839613fffba74279579268", "", "0x00", "zz"}[w.rng.Intn(4)]
	}
	switch w.rng.Intn(6) {
	case 0:
		return ""
	case 1:
		return strings.Repeat("d", 239+w.rng.Intn(3))
	case 2:
		return strings.Repeat("L", 3000)
	}
	return "some description " + fmt.Sprint(w.rng.Intn(100))
}

func (w *world) genArg(t abi.Type, name string) interface{} {
	rng := w.rng
	la := strings.ToLower(name)
	switch t.T {
	case abi.AddressTy:
		return w.pickAddr()
	case abi.HashTy:
		return w.pickHash()
	case abi.TokenStandardTy:
		return w.pickToken()
	case abi.StringTy:
		return w.pickString(name)
	case abi.BoolTy:
		return rng.Intn(2) == 0
	case abi.BytesTy:
		switch {
		case strings.Contains(la, "hashlock"):
			if len(w.pre) > 0 && rng.Intn(3) != 0 {
				p := w.pre[rng.Intn(len(w.pre))]
				if rng.Intn(2) == 0 {
					return crypto.Hash(p)
				}
				return crypto.HashSHA256(p)
			}
			b := make([]byte, []int{32, 32, 32, 31, 33, 0}[rng.Intn(6)])
			rng.Read(b)
			return b
		case strings.Contains(la, "preimage"):
			if len(w.pre) > 0 && rng.Intn(4) != 0 {
				return w.pre[rng.Intn(len(w.pre))]
			}
		}
		b := make([]byte, []int{0, 1, 32, 33, 255, 256, 1000}[rng.Intn(7)])
		rng.Read(b)
		return b
	case abi.UintTy:
		switch t.Kind.String() {
		case "uint8":
			return uint8([]int{0, 1, 2, 3, 18, 19, 32, 100, 101, 255, rng.Intn(256)}[rng.Intn(11)])
		case "uint16":
			return uint16(BoundaryU64(rng))
		case "uint32":
			return uint32([]uint64{0, 1, 2, 100, 1 << 31, 1<<32 - 1, uint64(rng.Intn(50)), BoundaryU64(rng)}[rng.Intn(8)])
		case "uint64":
			return []uint64{0, 1, 10, uint64(w.nd.FrontierHeight()), uint64(w.nd.FrontierHeight()) + 5, 1 << 63, ^uint64(0), BoundaryU64(rng)}[rng.Intn(8)]
		}
		if rng.Intn(3) == 0 {
			return genBig(rng)
		}
		return new(big.Int).Set(amountClasses[rng.Intn(len(amountClasses))])
	case abi.IntTy:
		now := w.now()
		switch t.Kind.String() {
		case "int64":
			if strings.Contains(la, "duration") || strings.Contains(la, "time") && !strings.Contains(la, "expiration") {
				return []int64{constants.StakeTimeUnitSec, constants.StakeTimeUnitSec * 2, constants.StakeTimeMaxSec, constants.StakeTimeMaxSec + constants.StakeTimeUnitSec, 0, -constants.StakeTimeUnitSec, 1, int64(BoundaryU64(rng))}[rng.Intn(8)]
			}
			return []int64{now + 30, now + 100, now + 1, now, now - 10, 0, -1, 1<<63 - 1, -1 << 63, int64(BoundaryU64(rng))}[rng.Intn(10)]
		case "int32":
			return int32(BoundaryU64(rng))
		}
		return genBig(rng)
	case abi.SliceTy:
		n := rng.Intn(7)
		s := reflectMakeSlice(t, n)
		for i := 0; i < n; i++ {
			s.Index(i).Set(reflectValueOf(w.genArg(*t.Elem, name)))
		}
		return s.Interface()
	}
	return genValue(rng, t)
}

// natural (token, amount) of a method; boundary classes are mixed in by the caller
func (w *world) naturalPayment(c *contractDef, m string) (types.ZenonTokenStandard, *big.Int) {
	z := func(v *big.Int) (types.ZenonTokenStandard, *big.Int) {
		return types.ZnnTokenStandard, new(big.Int).Set(v)
	}
	q := func(v *big.Int) (types.ZenonTokenStandard, *big.Int) {
		return types.QsrTokenStandard, new(big.Int).Set(v)
	}
	k := big.NewInt(int64(1 + w.rng.Intn(20)))
	switch m {
	case definition.FuseMethodName:
		return q(new(big.Int).Mul(k, big.NewInt(10*g.Zexp)))
	case definition.StakeMethodName:
		return z(new(big.Int).Mul(k, constants.StakeMinAmount))
	case definition.DepositQsrMethodName:
		return q([]*big.Int{big.NewInt(1), big.NewInt(1000 * g.Zexp), constants.SentinelQsrDepositAmount, constants.PillarQsrStakeBaseAmount, new(big.Int).Add(constants.PillarQsrStakeBaseAmount, constants.PillarQsrStakeIncreaseAmount)}[w.rng.Intn(5)])
	case definition.RegisterMethodName, definition.LegacyRegisterMethodName:
		if c.Addr == types.SentinelContract {
			return z(constants.SentinelZnnRegisterAmount)
		}
		return z(constants.PillarStakeAmount)
	case definition.IssueMethodName:
		return z(constants.TokenIssueAmount)
	case definition.CreateProjectMethodName:
		return z(constants.ProjectCreationAmount)
	case definition.BurnMethodName, definition.DonateMethodName, definition.CreateHtlcMethodName, definition.LiquidityStakeMethodName, definition.WrapTokenMethodName:
		return w.tokens[w.rng.Intn(len(w.tokens))], new(big.Int).Mul(k, big.NewInt(g.Zexp))
	}
	return types.ZnnTokenStandard, big.NewInt(0)
}

func (w *world) randomCall() { w.randomCallTo(&contracts[w.rng.Intn(len(contracts))]) }

func (w *world) randomCallTo(c *contractDef) {
	rng := w.rng
	names := methodNames(c.ABI)
	mname := names[rng.Intn(len(names))]
	m := c.ABI.Methods[mname]
	kp := w.senders[rng.Intn(len(w.senders))]
	if c.Addr == types.SporkContract && rng.Intn(3) != 0 {
		kp = g.Spork
	}
	args := make([]interface{}, len(m.Inputs))
	for i, a := range m.Inputs {
		args[i] = w.genArg(a.Type, a.Name)
	}
	// specialised shaping so that deep states are reached
	switch mname {
	case definition.IssueMethodName:
		if rng.Intn(3) != 0 {
			tot := big.NewInt(int64(rng.Intn(1000)) * g.Zexp)
			mx := new(big.Int).Add(tot, big.NewInt(int64(rng.Intn(3))*g.Zexp))
			if mx.Sign() == 0 {
				mx = big.NewInt(1)
			}
			if rng.Intn(4) == 0 {
				// otherwise valid issue with the supply at a boundary of the amount range (the token contract answers an
				// issue with a mint of the whole supply to the issuer: a descendant send of that amount)
				tot = new(big.Int).Set(bigBoundary[rng.Intn(len(bigBoundary))])
				if rng.Intn(2) == 0 { // the edge of the amount range itself: 2^255-1 is the largest amount a send may carry
					tot = new(big.Int).Lsh(big.NewInt(1), 255)
					tot.Sub(tot, big.NewInt(int64(rng.Intn(3))-1))
				}
				mx = new(big.Int).Set(tot)
				if rng.Intn(4) == 0 {
					mx.Add(mx, big.NewInt(1))
				}
				w.out.Count("calls:issue-with-boundary-supply")
			}
			args = []interface{}{fmt.Sprintf("tok%d", rng.Intn(100)), fmt.Sprintf("T%d", rng.Intn(100)), "", tot, mx, uint8(rng.Intn(19)), mx.Cmp(tot) != 0 || rng.Intn(2) == 0, rng.Intn(2) == 0, rng.Intn(2) == 0}
		}
	case definition.CreateHtlcMethodName:
		if rng.Intn(3) != 0 {
			p := make([]byte, []int{0, 1, 32, 255}[rng.Intn(4)])
			rng.Read(p)
			w.pre = append(w.pre, p)
			ht := uint8(rng.Intn(2))
			lock := crypto.Hash(p)
			if ht == 1 {
				lock = crypto.HashSHA256(p)
			}
			args = []interface{}{w.senders[rng.Intn(len(w.senders))].Address, w.now() + int64(10*(1+rng.Intn(40))), ht, uint8([]int{0, 1, 32, 255}[rng.Intn(4)]), lock}
		}
	case definition.CancelStakeMethodName: // "Cancel" on stake
		if e := w.pickMade("stake.Stake"); c.Addr == types.StakeContract && e != nil && rng.Intn(4) != 0 {
			args = []interface{}{e.hash}
			if rng.Intn(5) != 0 {
				kp = e.kp
			}
		}
	case definition.CancelFuseMethodName:
		if e := w.pickMade("plasma.Fuse"); e != nil && rng.Intn(4) != 0 {
			args = []interface{}{e.hash}
			if rng.Intn(5) != 0 {
				kp = e.kp
			}
		}
	case definition.UnlockHtlcMethodName:
		if e := w.pickMade("htlc.Create"); e != nil && rng.Intn(5) != 0 {
			pre := w.genArg(m.Inputs[1].Type, "preimage")
			for _, p := range w.pre { // the preimage belonging to that entry's lock
				if lk, ok := e.args[4].([]byte); ok && (bytes.Equal(crypto.Hash(p), lk) || bytes.Equal(crypto.HashSHA256(p), lk)) && rng.Intn(5) != 0 {
					pre = p
				}
			}
			args = []interface{}{e.hash, pre}
			if hl, ok := e.args[0].(types.Address); ok && rng.Intn(3) != 0 {
				if k := KeyOf(hl); k != nil {
					kp = k
				}
			}
		}
	case definition.ReclaimHtlcMethodName:
		if e := w.pickMade("htlc.Create"); e != nil && rng.Intn(5) != 0 {
			args = []interface{}{e.hash}
			if rng.Intn(4) != 0 {
				kp = e.kp
			}
		}
	case definition.MintMethodName:
		if e := w.pickMade("token.IssueToken"); e != nil && rng.Intn(5) != 0 {
			args = []interface{}{types.NewZenonTokenStandard(e.hash.Bytes()), []*big.Int{big.NewInt(1), big.NewInt(g.Zexp), big.NewInt(2 * g.Zexp), amountClasses[rng.Intn(len(amountClasses))]}[rng.Intn(4)], w.pickAddr()}
			if rng.Intn(5) != 0 {
				kp = e.kp
			}
		}
	case definition.UpdateTokenMethodName:
		if e := w.pickMade("token.IssueToken"); e != nil && rng.Intn(5) != 0 {
			args = []interface{}{types.NewZenonTokenStandard(e.hash.Bytes()), w.pickAddr(), rng.Intn(2) == 0, rng.Intn(2) == 0}
			if rng.Intn(5) != 0 {
				kp = e.kp
			}
		}
	case definition.RevokeMethodName: // pillar.Revoke(name) / sentinel.Revoke()
		if e := w.pickMade("pillar.Register"); c.Addr == types.PillarContract && e != nil && rng.Intn(4) != 0 {
			args = []interface{}{e.args[0]}
			kp = e.kp
		}
		if e := w.pickMade("sentinel.Register"); c.Addr == types.SentinelContract && e != nil && rng.Intn(4) != 0 {
			kp = e.kp
		}
	case definition.UpdatePillarMethodName:
		if e := w.pickMade("pillar.Register"); e != nil && rng.Intn(3) != 0 {
			args = []interface{}{e.args[0], w.pickAddr(), w.pickAddr(), uint8(rng.Intn(101)), uint8(rng.Intn(101))}
			kp = e.kp
		}
	case definition.AddPhaseMethodName, definition.UpdatePhaseMethodName:
		if e := w.pickMade("accelerator.CreateProject"); e != nil && rng.Intn(4) != 0 {
			args = []interface{}{e.hash, "phase-" + fmt.Sprint(rng.Intn(9)), "phase description", "www.zenon.network", big.NewInt(int64(rng.Intn(100)) * g.Zexp), big.NewInt(int64(rng.Intn(1000)) * g.Zexp)}
			kp = e.kp
		}
	case definition.CreateProjectMethodName:
		if rng.Intn(3) != 0 {
			args = []interface{}{"proj-" + fmt.Sprint(rng.Intn(50)), "a project", "www.zenon.network", big.NewInt(int64(rng.Intn(5000)) * g.Zexp), big.NewInt(int64(rng.Intn(50000)) * g.Zexp)}
		}
	case definition.VoteByNameMethodName:
		if e := w.pickMade("accelerator.CreateProject"); e != nil && rng.Intn(4) != 0 {
			i := rng.Intn(3)
			args = []interface{}{e.hash, []string{g.Pillar1Name, g.Pillar2Name, g.Pillar3Name}[i], uint8(rng.Intn(4))}
			kp = []*wallet.KeyPair{g.Pillar1, g.Pillar2, g.Pillar3}[i]
		}
	case definition.VoteByProdAddressMethodName:
		if e := w.pickMade("accelerator.CreateProject"); e != nil && rng.Intn(4) != 0 {
			args = []interface{}{e.hash, uint8(rng.Intn(4))}
			kp = []*wallet.KeyPair{g.Pillar1, g.Pillar2, g.Pillar3}[rng.Intn(3)]
		}
	case definition.RetrieveAssetsMethodName:
		if rng.Intn(3) != 0 {
			prv, pub := g.Secp1PrvKey, g.Secp1PubKeyB64
			if rng.Intn(3) == 0 {
				prv, pub = g.Secp2PrvKey, g.Secp2PubKeyB64
			}
			if sig, err := implementation.SignRetrieveAssetsMessage(kp.Address, prv, pub); err == nil {
				args = []interface{}{pub, sig}
			}
		}
	case definition.LegacyRegisterMethodName:
		if rng.Intn(3) != 0 {
			if sig, err := implementation.SignLegacyPillarMessage(kp.Address, g.Secp1PrvKey, g.Secp1PubKeyB64); err == nil {
				args = []interface{}{w.pickName(), w.pickAddr(), kp.Address, uint8(rng.Intn(101)), uint8(rng.Intn(101)), g.Secp1PubKeyB64, sig}
			}
		}
	case definition.RegisterMethodName:
		if c.Addr == types.PillarContract && rng.Intn(2) == 0 {
			args = []interface{}{w.pickName(), w.senders[rng.Intn(len(w.senders))].Address, kp.Address, uint8(rng.Intn(101)), uint8(rng.Intn(101))}
		}
	}
	data, err := c.ABI.PackMethod(mname, args...)
	if err != nil {
		w.out.Count("pack-failed:" + c.Name + "." + mname)
		return
	}
	tag := "canonical"
	if rng.Intn(6) == 0 {
		data, tag = mutate(rng, data, len(m.Inputs))
	}
	zts, amount := w.naturalPayment(c, mname)
	switch rng.Intn(10) {
	case 0:
		amount = new(big.Int).Set(amountClasses[rng.Intn(len(amountClasses))])
	case 1:
		zts = w.pickToken()
	case 2:
		zts = w.pickToken()
		amount = new(big.Int).Set(amountClasses[rng.Intn(len(amountClasses))])
	case 3: // everything the sender owns of that token
		bal, _ := w.nd.Ch.GetFrontierAccountStore(kp.Address).GetBalance(zts)
		amount = new(big.Int).Set(bal)
	}
	if b := w.send(kp, c.Addr, zts, amount, data, tag); b != nil {
		k := c.Name + "." + mname
		w.made[k] = append(w.made[k], madeEntry{b.Hash, kp, args})
		if mname == definition.IssueMethodName {
			w.tokens = append(w.tokens, types.NewZenonTokenStandard(b.Hash.Bytes()))
		}
	}
}

func (w *world) activate(spork *types.ImplementedSpork, name string) {
	nd := w.nd
	b := w.send(g.Spork, types.SporkContract, types.ZnnTokenStandard, big.NewInt(0),
		definition.ABISpork.PackMethodPanic(definition.SporkCreateMethodName, name, "activate "+name), "setup")
	if b == nil {
		panic("spork create rejected")
	}
	w.settle()
	w.send(g.Spork, types.SporkContract, types.ZnnTokenStandard, big.NewInt(0),
		definition.ABISpork.PackMethodPanic(definition.SporkActivateMethodName, b.Hash), "setup")
	w.settle()
	spork.SporkId = b.Hash
	types.ImplementedSporksMap[b.Hash] = true
	for i := 0; i < 40; i++ {
		if ok, _ := nd.Ch.GetFrontierMomentumStore().IsSporkActive(spork); ok {
			return
		}
		nd.MomentumOnly()
	}
	panic("spork did not activate")
}

// focus: half of the steps are deep operations (xcalls.go) on a bridge / liquidity set up by the administrator
func callsHistory(rng *rand.Rand, out *Out, regime string, steps int, focus bool) {
	resetSporks()
	nd := NewNode()
	defer nd.Stop()
	defer resetSporks()
	w := &world{nd: nd, rng: rng, out: out, regime: regime,
		senders: []*wallet.KeyPair{g.User1, g.User2, g.User3, g.User4, g.User5, g.Pillar1, g.Pillar2, g.Pillar3, g.Pillar4, g.Pillar5, g.Pillar6, g.Spork},
		tokens:  []types.ZenonTokenStandard{types.ZnnTokenStandard, types.QsrTokenStandard}, made: map[string][]madeEntry{}, deep: &deep{}}
	switch regime {
	case "accelerator":
		w.activate(types.AcceleratorSpork, "spork-accelerator")
	case "bridge":
		w.activate(types.BridgeAndLiquiditySpork, "spork-bridge")
		constants.InitialBridgeAdministrator.SetBytes(g.User5.Address.Bytes())
	case "htlc":
		w.activate(types.HtlcSpork, "spork-htlc")
		constants.InitialBridgeAdministrator.SetBytes(g.User5.Address.Bytes())
	}
	// which (contract, method) pairs exist in this regime, from the real lookup
	fms := nd.Ch.GetFrontierMomentumStore()
	ctx := vm_context.NewAccountContext(fms, nd.Ch.GetFrontierAccountStore(types.PlasmaContract), nd.Cs.FixedPillarReader(fms.Identifier()))
	for _, c := range contracts {
		for _, mn := range methodNames(c.ABI) {
			if _, err := embedded.GetEmbeddedMethod(ctx, c.Addr, c.ABI.Methods[mn].Id()); err == nil {
				out.Count("method-available:" + regime + ":" + c.Name + "." + mn)
			}
		}
	}
	if w.accelAvailable() {
		w.accelPeriods()
		defer resetAccelConstants()
	}
	deepShare := 1 // of 16 steps
	if focus {
		deepShare = 8
		w.deepSetup()
	}
	for s := 0; s < steps && !w.dead; s++ {
		if rng.Intn(16) < deepShare {
			w.deepStep()
		} else if w.deep.bridgeReady && rng.Intn(4) == 0 {
			w.randomCallTo(cBridge)
		} else {
			w.randomCall()
		}
		if rng.Intn(3) == 0 {
			w.settle()
		}
		if rng.Intn(25) == 0 { // let time pass: lock windows, expirations
			for i := 0; i < 1+rng.Intn(8) && !w.dead; i++ {
				w.settle()
			}
		}
	}
	if !w.dead {
		w.settle()
		w.settle()
		// nothing is left queued: no accepted input wedged an inbox (a failure during the final settle is reported there)
		for _, c := range contracts {
			if w.dead {
				break
			}
			h := nd.InboxHead(c.Addr)
			dd := M{"contract": c.Name}
			if h != nil {
				dd = blockDetail(h)
				dd["height"] = U64(nd.FrontierHeight())
			}
			out.Oracle(h == nil, "inbox-drained", dd)
		}
	}
	_ = bytes.Equal
}

func RunCalls(rng *rand.Rand, n int, out *Out, _ []string) {
	shortenConstants()
	for h := 0; h < n; h++ {
		callsHistory(rng, out, regimes[h%len(regimes)], 60+rng.Intn(60), (h/len(regimes))%2 == 1)
	}
}
