package embx

// removed: the path of vm.generateEmbeddedReceive for "a method is deleted in a spork and someone calls it before
// the spork" (ErrContractMethodNotFound at receive time): the call must be refunded, not crash the producer.

import (
	"fmt"
	"math/big"
	"math/rand"
	. "zharness/hz"

	g "github.com/zenon-network/go-zenon/chain/genesis/mock"
	"github.com/zenon-network/go-zenon/chain/nom"
	"github.com/zenon-network/go-zenon/common/types"
	"github.com/zenon-network/go-zenon/vm/embedded"
	"github.com/zenon-network/go-zenon/vm/embedded/definition"
	"github.com/zenon-network/go-zenon/wallet"
)

// the four method tables are nested (origin < accelerator < bridge+liquidity < htlc): a spork activation never
// takes a contract or a method away, so a call accepted under one regime still finds its method (and its contract)
// when it is received under a later one
func tablesOracle(out *Out) {
	tabs := embedded.VerifMethodTables()
	terms := Lst()
	ok := true
	for i := range tabs {
		l := Lst()
		for _, e := range tabs[i] {
			l = append(l, Tup(Byt(e.Contract.Bytes()), Byt(e.Selector)))
		}
		terms = append(terms, l)
		if i > 0 {
			for _, e := range tabs[i-1] {
				found := false
				for _, f := range tabs[i] {
					found = found || (f.Contract == e.Contract && f.Name == e.Name && string(f.Selector) == string(e.Selector))
				}
				if !found {
					ok = false
					out.Oracle(false, "method-tables-not-monotone", M{"table": I64(int64(i)), "contract": e.Contract.String(), "method": e.Name})
				}
			}
		}
	}
	out.Oracle(ok, "method-tables-not-monotone", nil)
	out.Case("method_tables", terms, ok, "tables")
}

func RunRemoved(rng *rand.Rand, n int, out *Out, _ []string) {
	shortenConstants()
	tablesOracle(out)
	type call struct {
		c      types.Address
		method string
		zts    types.ZenonTokenStandard
		amount *big.Int
		data   []byte
	}
	for h := 0; h < n; h++ {
		resetSporks()
		nd := NewNode()
		w := &world{nd: nd, rng: rng, out: out, regime: "origin", senders: []*wallet.KeyPair{g.User1, g.User2, g.User3},
			tokens: []types.ZenonTokenStandard{types.ZnnTokenStandard, types.QsrTokenStandard}, made: map[string][]madeEntry{}}
		calls := []call{
			{types.PlasmaContract, definition.FuseMethodName, types.QsrTokenStandard, big.NewInt(int64(10+rng.Intn(50)) * g.Zexp), definition.ABIPlasma.PackMethodPanic(definition.FuseMethodName, g.User2.Address)},
			{types.StakeContract, definition.StakeMethodName, types.ZnnTokenStandard, big.NewInt(int64(1+rng.Intn(50)) * g.Zexp), definition.ABIStake.PackMethodPanic(definition.StakeMethodName, int64(30))},
			{types.PillarContract, definition.DepositQsrMethodName, types.QsrTokenStandard, big.NewInt(int64(1 + rng.Intn(5000))), definition.ABIPillars.PackMethodPanic(definition.DepositQsrMethodName)},
			{types.PillarContract, definition.WithdrawQsrMethodName, types.ZnnTokenStandard, big.NewInt(0), definition.ABIPillars.PackMethodPanic(definition.WithdrawQsrMethodName)},
			{types.TokenContract, definition.BurnMethodName, types.ZnnTokenStandard, big.NewInt(int64(1 + rng.Intn(5000))), definition.ABIToken.PackMethodPanic(definition.BurnMethodName)},
		}
		cl := calls[h%len(calls)]
		kp := w.senders[rng.Intn(len(w.senders))]
		s := w.send(kp, cl.c, cl.zts, cl.amount, cl.data, "to-be-removed")
		if s == nil {
			nd.Stop()
			continue
		}
		if err := nd.MomentumOnly(); err != nil {
			panic(err)
		}
		restore := embedded.VerifRemoveMethod(cl.c, cl.method)
		exec, err, pv := nd.AutoReceive(s)
		restore()
		d := blockDetail(s)
		ok := pv == nil && err == nil && exec != nil && exec.ReturnedError != nil
		if ok {
			blk := exec.Transaction.Block
			if s.Amount.Sign() > 0 {
				ok = len(blk.DescendantBlocks) == 1 && blk.DescendantBlocks[0].ToAddress == s.Address &&
					blk.DescendantBlocks[0].Amount.Cmp(s.Amount) == 0 && blk.DescendantBlocks[0].TokenStandard == s.TokenStandard &&
					blk.DescendantBlocks[0].BlockType == nom.BlockTypeContractSend
			} else {
				ok = len(blk.DescendantBlocks) == 0
			}
			if ok {
				ok = nd.Insert(exec.Transaction) == nil && nd.MomentumOnly() == nil && nd.InboxHead(cl.c) == nil
			}
		}
		d["panic"] = fmt.Sprint(pv)
		d["err"] = fmt.Sprint(err)
		out.Oracle(ok, "method-removed-refunds", d)
		ds := Lst()
		st := int64(9)
		if pv == nil && err == nil && exec != nil {
			st = 2
			for _, x := range exec.Transaction.Block.DescendantBlocks {
				ds = append(ds, Tup(Byt(x.ToAddress.Bytes()), Big(x.Amount), Byt(x.TokenStandard.Bytes())))
			}
		}
		out.Case("vm_receive_removed", Tup(Byt(s.Address.Bytes()), Big(s.Amount), Byt(s.TokenStandard.Bytes())), Tup(I64(st), ds), "method-removed")
		nd.Stop()
	}
	resetSporks()
}
