package hz

// Momentums of OTHER producers (C04): the momentum verifier (verifier/momentum.go content()) only asks that the blocks
// of one account are listed in chain order and that the listed blocks are exactly the prefetched ones; the sorted
// order of nom.NewMomentumContent is a habit of this implementation's own producer, not a rule. A producer may also
// leave blocks out (pillar/…filterBlocksToCommit does when there are more than 100). The order in which a momentum
// lists its blocks is the order in which they are confirmed (vm.MomentumVM.applyMomentum applies the headers one by
// one; chain/momentum/ledger_store.go AddAccountBlockTransaction appends a send to an embedded contract to the
// contract's sequencer at that moment, descendant sends of a contract receive together with their parent).
//
//   PermutedContent     a random listing of pool blocks that the verifier accepts (random interleaving of the
//                       per-account sequences, optionally a per-account prefix only)
//   BuildNextListed     the elected producer signs a momentum with exactly that listing
//   (*Node) MomentumListed   build + insert + the contract receives a producer generates afterwards
//   ListedOrder / FifoListedOracle   the C04 FIFO clause read directly off the momentums' content

import (
	"bytes"
	"fmt"
	"math/rand"
	"sort"
	"time"

	"github.com/zenon-network/go-zenon/chain"
	"github.com/zenon-network/go-zenon/chain/nom"
	"github.com/zenon-network/go-zenon/common/types"
)

// a unit of listing: one user block, or a contract receive preceded by its batched descendant sends
type listUnit struct{ blocks []*nom.AccountBlock }

// PermutedContent orders blocks (the unconfirmed blocks of any number of accounts, as GetNewMomentumContent returns
// them) into a listing: per account the chain order is kept (the verifier requires it) and a contract receive keeps
// its batched sends right in front of it; the accounts are interleaved at random. With partial > 0 every account
// contributes only a random prefix of its units with probability partial/8 (never nothing at all for everybody).
// Returns the blocks in listing order.
func PermutedContent(rng *rand.Rand, blocks []*nom.AccountBlock, partial int) []*nom.AccountBlock {
	by := map[types.Address][]*nom.AccountBlock{}
	var addrs []types.Address
	for _, b := range blocks {
		if _, ok := by[b.Address]; !ok {
			addrs = append(addrs, b.Address)
		}
		by[b.Address] = append(by[b.Address], b)
	}
	sort.Slice(addrs, func(i, j int) bool { return bytes.Compare(addrs[i].Bytes(), addrs[j].Bytes()) < 0 })
	queues := make([][]listUnit, 0, len(addrs))
	for _, a := range addrs {
		l := by[a]
		sort.Slice(l, func(i, j int) bool { return l[i].Height < l[j].Height })
		var units []listUnit
		var batch []*nom.AccountBlock
		for _, b := range l {
			batch = append(batch, b)
			if b.BlockType != nom.BlockTypeContractSend {
				units = append(units, listUnit{batch})
				batch = nil
			}
		}
		// (an incomplete batch at the end is not listed: the receive that carries it is not in the pool)
		if partial > 0 && rng.Intn(8) < partial {
			units = units[:rng.Intn(len(units)+1)]
		}
		if len(units) > 0 {
			queues = append(queues, units)
		}
	}
	var res []*nom.AccountBlock
	for len(queues) > 0 {
		i := rng.Intn(len(queues))
		if len(res)+len(queues[i][0].blocks) > chain.MaxAccountBlocksInMomentum {
			break
		}
		res = append(res, queues[i][0].blocks...)
		queues[i] = queues[i][1:]
		if len(queues[i]) == 0 {
			queues = append(queues[:i], queues[i+1:]...)
		}
	}
	return res
}

// IsSortedListing: the listing is the one nom.NewMomentumContent would give to the same blocks.
func IsSortedListing(blocks []*nom.AccountBlock) bool {
	want := nom.NewMomentumContent(blocks)
	for i, b := range blocks {
		if *want[i] != b.Header() {
			return false
		}
	}
	return true
}

// BuildNextListed lets the pillar elected for (prev.Timestamp + dt) produce a momentum on top of prev whose content is
// exactly `listed`, in that order.
func BuildNextListed(nd *Node, prev *nom.Momentum, dt int64, listed []*nom.AccountBlock) (*nom.MomentumTransaction, error) {
	t := time.Unix(int64(prev.TimestampUnix)+dt, 0)
	exp, err := nd.Cs.GetMomentumProducer(t)
	if err != nil {
		return nil, err
	}
	if exp == nil {
		return nil, fmt.Errorf("no producer")
	}
	kp := KeyOf(*exp)
	if kp == nil {
		return nil, fmt.Errorf("no key for producer %v", exp)
	}
	content := make(nom.MomentumContent, len(listed))
	for i, b := range listed {
		hd := b.Header()
		content[i] = &hd
	}
	m := &nom.Momentum{ChainIdentifier: nd.Ch.ChainIdentifier(), PreviousHash: prev.Hash, Height: prev.Height + 1,
		TimestampUnix: uint64(t.Unix()), Content: content, Version: 1}
	m.EnsureCache()
	return nd.Sv.GenerateMomentum(&nom.DetailedMomentum{Momentum: m, AccountBlocks: listed}, kp.Signer)
}

// GenerateContractReceives does what pillar/worker.go work() does after its momentum: for every embedded contract, as
// long as its sequencer has a next entry at the (fixed) frontier momentum, generate the receive and insert it.
func (n *Node) GenerateContractReceives() (int, error) {
	ms := n.Ch.GetFrontierMomentumStore()
	made := 0
	for {
		one := false
		for _, c := range types.EmbeddedContracts {
			hd := n.Ch.GetFrontierAccountStore(c).SequencerFront(ms.GetAccountMailbox(c))
			if hd == nil {
				continue
			}
			send, err := ms.GetAccountBlock(*hd)
			if err != nil || send == nil {
				return made, fmt.Errorf("sequencer head %v not found: %v", hd, err)
			}
			res, err := n.Sv.GenerateAutoReceive(send)
			if err != nil {
				return made, err
			}
			if res == nil || res.Transaction == nil {
				return made, fmt.Errorf("no block returned for %v", hd)
			}
			if err := n.Insert(res.Transaction); err != nil {
				return made, err
			}
			made++
			one = true
		}
		if !one {
			return made, nil
		}
	}
}

// MomentumListed: the next momentum (+10 s, elected producer) with a random listing of the pool (see PermutedContent),
// inserted like a momentum received from the network, then the contract receives. Returns whether the listing
// differed from the sorted one, and the listed blocks.
func (n *Node) MomentumListed(rng *rand.Rand, partial int) (unsorted bool, listed []*nom.AccountBlock, err error) {
	listed = PermutedContent(rng, n.Ch.GetNewMomentumContent(), partial)
	tx, err := BuildNextListed(n, FrontierOf(n.Ch), 10, listed)
	if err != nil {
		return false, listed, err
	}
	if err = AddMomentum(n.Ch, tx); err != nil {
		return false, listed, err
	}
	_, err = n.GenerateContractReceives()
	return !IsSortedListing(listed), listed, err
}

// ListedOrder reads, straight from the momentum store (no cache), for every embedded contract the sends addressed to it in
// the order in which the momentums 2..frontier list them: momentum by momentum, header by header; a batched contract
// send is confirmed with (and at the position of) the contract receive that carries it.
func ListedOrder(ch chain.Chain) (map[types.Address][]types.Hash, error) {
	ms := ch.GetFrontierMomentumStore()
	res := map[types.Address][]types.Hash{}
	top := ms.Identifier().Height
	for h := uint64(1); h <= top; h++ {
		m, err := ms.GetMomentumByHeight(h)
		if err != nil || m == nil {
			return nil, fmt.Errorf("momentum %d: %v", h, err)
		}
		for _, hd := range m.Content {
			b, err := ms.GetAccountBlock(*hd)
			if err != nil || b == nil {
				return nil, fmt.Errorf("momentum %d lists %v, not in the store: %v", h, hd, err)
			}
			if b.BlockType == nom.BlockTypeContractSend {
				continue
			}
			for _, s := range append([]*nom.AccountBlock{b}, b.DescendantBlocks...) {
				if s.IsSendBlock() && types.IsEmbeddedAddress(s.ToAddress) {
					res[s.ToAddress] = append(res[s.ToAddress], s.Hash)
				}
			}
		}
	}
	return res, nil
}

// FifoListedOracle: the FIFO clause of C04 against the LISTED order. For every embedded contract the FromBlockHash
// sequence along its account chain (confirmed blocks, then - withPool - the unconfirmed ones) is a prefix of the sends
// addressed to it in listed confirmation order.
func FifoListedOracle(ch chain.Chain, withPool bool) (bool, M) {
	detail := M{"pool": withPool}
	order, err := ListedOrder(ch)
	if err != nil {
		detail["scan-failed"] = err.Error()
		return false, detail
	}
	ms := ch.GetFrontierMomentumStore()
	detail["height"] = ms.Identifier().Height
	ok := true
	seen := map[types.Address]bool{}
	contracts := append([]types.Address{}, types.EmbeddedContracts...)
	for c := range order {
		contracts = append(contracts, c)
	}
	for _, c := range contracts {
		if seen[c] {
			continue
		}
		seen[c] = true
		var as interface {
			Frontier() (*nom.AccountBlock, error)
			ByHeight(uint64) (*nom.AccountBlock, error)
		}
		if withPool {
			as = ch.GetFrontierAccountStore(c)
		} else {
			as = ms.GetAccountStore(c)
		}
		fr, err := as.Frontier()
		if err != nil {
			detail["scan-failed"] = err.Error()
			return false, detail
		}
		var got []types.Hash
		for h := uint64(1); fr != nil && h <= fr.Height; h++ {
			b, err := as.ByHeight(h)
			if err != nil || b == nil {
				detail["scan-failed"] = fmt.Sprintf("%v height %d: %v", c, h, err)
				return false, detail
			}
			if b.BlockType == nom.BlockTypeContractReceive {
				got = append(got, b.FromBlockHash)
			}
		}
		in := order[c]
		if len(got) > len(in) {
			ok = false
			detail["fifo-more-receives-than-listed"] = fmt.Sprintf("%v: %d receives, %d sends listed", c, len(got), len(in))
			continue
		}
		for i := range got {
			if got[i] != in[i] {
				ok = false
				detail["fifo-listed-order"] = fmt.Sprintf("%v receive #%d is for %v, the send listed at position %d of its inbox is %v", c, i+1, got[i], i+1, in[i])
				break
			}
		}
	}
	return ok, detail
}
