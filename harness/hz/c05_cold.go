package hz

// Cold consensus state for the C05 concurrency family: the same chain, but nothing remembered about elections
// (neither the LRU of the process nor the consensus LevelDB), so that every election has to be computed again.

import (
	"io"
	"os"
	"path/filepath"
)

// ReopenCold = restart of the node after its consensus DB (stored elections and points) was deleted; the chain is kept.
func (b *BareNode) ReopenCold() *BareNode {
	b.Stop()
	if err := os.RemoveAll(filepath.Join(b.Dir, "consensus")); err != nil {
		panic(err)
	}
	return b.Reopen()
}

// CloneCold stops the node and opens an independent node over a copy of its data directory without the consensus DB
// (the directory of the clone is removed by its Destroy). The original stays stopped: Reopen it if it is needed again.
func (b *BareNode) CloneCold() *BareNode {
	b.Stop()
	dst, err := os.MkdirTemp("", "zc")
	if err != nil {
		panic(err)
	}
	err = filepath.Walk(b.Dir, func(p string, info os.FileInfo, err error) error {
		if err != nil {
			return err
		}
		rel, _ := filepath.Rel(b.Dir, p)
		if rel == "." {
			return nil
		}
		if info.IsDir() {
			if rel == "consensus" {
				return filepath.SkipDir
			}
			return os.MkdirAll(filepath.Join(dst, rel), 0o755)
		}
		if filepath.Base(p) == "LOCK" {
			return nil
		}
		in, err := os.Open(p)
		if err != nil {
			return err
		}
		defer in.Close()
		o, err := os.Create(filepath.Join(dst, rel))
		if err != nil {
			return err
		}
		defer o.Close()
		_, err = io.Copy(o, in)
		return err
	})
	if err != nil {
		panic(err)
	}
	n := OpenBare(dst)
	n.owned = true
	return n
}
