package hz

// A deterministic interleaving device for everything that happens under the chain's insert lock (C16).
//
// chain.AcquireInsert serialises the writers of a node: the pillar producing a momentum, the fetcher inserting an
// announced momentum, the downloader importing a batch, the handler pooling broadcast account blocks. Whatever a
// writer decides has to be decided on the state it sees ONCE IT HOLDS THE LOCK. To put "another writer was served
// first" under test without goroutines and timing, the receiving node's ChainBridge is built over a wrapper of its
// chain.Chain whose AcquireInsert runs a callback once, right before it delegates to the real AcquireInsert: the
// callback is a writer that got the lock first (it takes and releases the real lock itself). Everything else of
// the chain is the real chain (embedded interface).

import (
	"sync"
	"time"

	"github.com/zenon-network/go-zenon/chain"
	"github.com/zenon-network/go-zenon/chain/nom"
	"github.com/zenon-network/go-zenon/consensus"
	"github.com/zenon-network/go-zenon/protocol"
	"github.com/zenon-network/go-zenon/verifier"
	"github.com/zenon-network/go-zenon/vm"
)

// PreLockChain is the real chain; only AcquireInsert is intercepted (once).
type PreLockChain struct {
	chain.Chain
	hook func()
	Ran  bool // the callback has run (i.e. the bridge asked for the insert lock)
}

func (h *PreLockChain) AcquireInsert(reason string) sync.Locker {
	if f := h.hook; f != nil {
		h.hook = nil
		h.Ran = true
		f()
	}
	return h.Chain.AcquireInsert(reason)
}

// NewBridgeWithPreLockHook gives a ChainBridge of the bare node b, wired like b.Br, in which the first request for
// the insert lock is preceded by hook() = a writer served first. The hook may use b.Br / b.Ch freely (they are the
// unwrapped ones). One bridge per observed call.
func NewBridgeWithPreLockHook(b *BareNode, hook func()) protocol.ChainBridge {
	br, _ := NewBridgeWithPreLockHookOn(b.Ch, b.Cs, b.Sv, hook)
	return br
}

// NewBridgeWithPreLockHookOn: the same over any (chain, consensus, supervisor); also returns the wrapper, whose Ran
// field tells whether the lock was asked for at all.
func NewBridgeWithPreLockHookOn(ch chain.Chain, cs consensus.Consensus, sv *vm.Supervisor, hook func()) (protocol.ChainBridge, *PreLockChain) {
	w := &PreLockChain{Chain: ch, hook: hook}
	return protocol.NewChainBridge(w, cs, verifier.NewVerifier(ch, cs), sv), w
}

// ProduceOnBare lets the receiving node's own pillar produce the next momentum (the pillar elected for frontier
// timestamp + dt, content = the node's unconfirmed blocks), the way pillar/worker_momentum.go does, and inserts it
// under the insert lock. Returns the produced momentum with its account blocks.
func ProduceOnBare(b *BareNode, dt int64) (*nom.DetailedMomentum, error) {
	prev := FrontierOf(b.Ch)
	t := time.Unix(int64(prev.TimestampUnix)+dt, 0)
	exp, err := b.Cs.GetMomentumProducer(t)
	if err != nil {
		return nil, err
	}
	kp := KeyOf(*exp)
	blocks := b.Ch.GetNewMomentumContent()
	m := &nom.Momentum{ChainIdentifier: b.Ch.ChainIdentifier(), PreviousHash: prev.Hash, Height: prev.Height + 1,
		TimestampUnix: uint64(t.Unix()), Content: nom.NewMomentumContent(blocks), Version: 1}
	m.EnsureCache()
	tx, err := b.Sv.GenerateMomentum(&nom.DetailedMomentum{Momentum: m, AccountBlocks: blocks}, kp.Signer)
	if err != nil {
		return nil, err
	}
	if err := AddMomentum(b.Ch, tx); err != nil {
		return nil, err
	}
	return &nom.DetailedMomentum{Momentum: tx.Momentum, AccountBlocks: blocks}, nil
}
