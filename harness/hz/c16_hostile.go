package hz

// A hostile (faulty / malicious) ELECTED producer (C16): the harness owns the pillar keys, so it can sign momentums
// whose content does not correspond to the account blocks that were applied. BuildNextWith lets the real supervisor
// compute the changes of exactly the given blocks (a subset of the producing node's unconfirmed blocks, per account a
// prefix of what is pooled); the caller then rewrites the content and re-signs: "changes hash computed without
// applying what the content lists".

import (
	"time"

	"github.com/zenon-network/go-zenon/chain/nom"
	"github.com/zenon-network/go-zenon/common/db"
	"github.com/zenon-network/go-zenon/common/types"
)

// BuildNextWith = BuildNext with the content chosen by the caller (blocks must be unconfirmed blocks of nd).
func BuildNextWith(nd *Node, prev *nom.Momentum, dt int64, blocks []*nom.AccountBlock) (*nom.MomentumTransaction, error) {
	t := time.Unix(int64(prev.TimestampUnix)+dt, 0)
	exp, err := nd.Cs.GetMomentumProducer(t)
	if err != nil {
		return nil, err
	}
	kp := KeyOf(*exp)
	m := &nom.Momentum{ChainIdentifier: nd.Ch.ChainIdentifier(), PreviousHash: prev.Hash, Height: prev.Height + 1,
		TimestampUnix: uint64(t.Unix()), Content: nom.NewMomentumContent(blocks), Version: 1}
	m.EnsureCache()
	return nd.Sv.GenerateMomentum(&nom.DetailedMomentum{Momentum: m, AccountBlocks: blocks}, kp.Signer)
}

// EmptyChangesHash = the changes hash of a momentum that applies nothing.
func EmptyChangesHash() types.Hash { return db.PatchHash(db.NewPatch()) }
