package hz

// A hostile ELECTED producer whose momentum lists account blocks that do not extend the confirmed account chains (C16,
// clause "every momentum and account block passes full verification in order"): the honest supervisor refuses to
// generate such a momentum (its verifier runs first), so the changes are computed the way vm.MomentumVM.applyMomentum
// computes them - the pool's patch of every listed header applied to the momentum store of the parent - without asking
// the verifier. That is what the modified binary of a byzantine pillar does.

import (
	"fmt"
	"time"

	"github.com/zenon-network/go-zenon/chain/nom"
	"github.com/zenon-network/go-zenon/common/db"
	"github.com/zenon-network/go-zenon/vm/vm_context"
)

// BuildNextListing: the momentum on top of prev stamped prev.Timestamp+dt (a slot start), produced by the pillar elected
// for that slot, whose content lists exactly `listed` (unconfirmed blocks of nd, each with a patch in nd's pool), whatever
// their place on their account chains. Nothing is stored.
func BuildNextListing(nd *Node, prev *nom.Momentum, dt int64, listed []*nom.AccountBlock) (m *nom.Momentum, err error) {
	defer func() {
		if r := recover(); r != nil {
			m, err = nil, fmt.Errorf("panic: %v", r)
		}
	}()
	t := time.Unix(int64(prev.TimestampUnix)+dt, 0)
	exp, err := nd.Cs.GetMomentumProducer(t)
	if err != nil {
		return nil, err
	}
	kp := KeyOf(*exp)
	m = &nom.Momentum{ChainIdentifier: nd.Ch.ChainIdentifier(), PreviousHash: prev.Hash, Height: prev.Height + 1,
		TimestampUnix: uint64(t.Unix()), Content: nom.NewMomentumContent(listed), Version: 1}
	m.EnsureCache()
	st := nd.Ch.GetMomentumStore(prev.Identifier())
	if st == nil {
		return nil, fmt.Errorf("no momentum store for %v", prev.Identifier())
	}
	ctx := vm_context.NewMomentumVMContext(st)
	for _, h := range m.Content {
		p := nd.Ch.GetPatch(h.Address, h.Identifier())
		if p == nil {
			return nil, fmt.Errorf("no patch for %v", h)
		}
		if err := ctx.AddAccountBlockTransaction(*h, p); err != nil {
			return nil, err
		}
	}
	changes, err := ctx.Changes()
	if err != nil {
		return nil, err
	}
	m.ChangesHash = db.PatchHash(changes)
	m.PublicKey = kp.Public
	m.Hash = m.ComputeHash()
	m.Signature = kp.Sign(m.Hash.Bytes())
	return m, nil
}
