package hz

// Helpers to build candidate account blocks and contract calls on a real node (shared by C01 / C04 / C03 harnesses).

import (
	"math/big"
	"math/rand"
	"time"

	g "github.com/zenon-network/go-zenon/chain/genesis/mock"
	"github.com/zenon-network/go-zenon/chain/nom"
	"github.com/zenon-network/go-zenon/common"
	"github.com/zenon-network/go-zenon/common/types"
	"github.com/zenon-network/go-zenon/verifier"
	"github.com/zenon-network/go-zenon/vm"
	"github.com/zenon-network/go-zenon/vm/constants"
	"github.com/zenon-network/go-zenon/vm/embedded"
	"github.com/zenon-network/go-zenon/vm/embedded/definition"
	"github.com/zenon-network/go-zenon/vm/vm_context"
	"github.com/zenon-network/go-zenon/wallet"
	"github.com/zenon-network/go-zenon/zenon/mock"
)

// Actors: the genesis users that own fused plasma.
func Actors() []*wallet.KeyPair {
	return []*wallet.KeyPair{g.User1, g.User2, g.User3, g.User4, g.User5}
}

// Context returns the vm context the supervisor would build for the block.
func (n *Node) Context(b *nom.AccountBlock) vm_context.AccountVmContext {
	ms := n.Ch.GetMomentumStore(b.MomentumAcknowledged)
	as := n.Ch.GetAccountStore(b.Address, b.Previous())
	if ms == nil || as == nil {
		return nil
	}
	return vm_context.NewAccountContext(ms, as, n.Cs.FixedPillarReader(b.MomentumAcknowledged))
}

// SetPlasma gives the block exactly its base plasma as fused plasma (what Supervisor.setBlockPlasma does);
// if the base cannot be computed (unknown method) a generous default is used so that verification proceeds.
func (n *Node) SetPlasma(b *nom.AccountBlock) {
	ctx := n.Context(b)
	if ctx == nil {
		b.FusedPlasma = 200000
		return
	}
	base, err := vm.GetBasePlasmaForAccountBlock(ctx, b)
	if err != nil {
		base = 200000
	}
	b.FusedPlasma = base
}

// SendValidates runs the embedded lookup + ValidateSendBlock of vm.applySend on a copy of the block.
// true for non-embedded destinations.
func (n *Node) SendValidates(b *nom.AccountBlock) bool {
	if !types.IsEmbeddedAddress(b.ToAddress) {
		return true
	}
	ctx := n.Context(b)
	if ctx == nil {
		return false
	}
	method, err := embedded.GetEmbeddedMethod(ctx, b.ToAddress, b.Data)
	if err != nil {
		return false
	}
	cp := *b
	cp.Data = append([]byte{}, b.Data...)
	if cp.Amount == nil {
		cp.Amount = new(big.Int)
	}
	defer func() { recover() }()
	return method.ValidateSendBlock(&cp) == nil
}

// Call is a contract call template.
type Call struct {
	Name   string
	To     types.Address
	Zts    types.ZenonTokenStandard
	Amount *big.Int
	Data   []byte
}

func zexp(n int64) *big.Int { return new(big.Int).Mul(big.NewInt(n), big.NewInt(g.Zexp)) }

var tokNames = []string{"alpha", "beta.tok", "gam-ma", "delta9", "eps_1"}

// RandomCall draws a call to an embedded contract with valid or invalid arguments. tokens = issued user tokens,
// owned = those owned by the caller (both may be empty); many calls fail at receive time (-> refund when they carry an amount).
func RandomCall(rng *rand.Rand, from types.Address, tokens []types.ZenonTokenStandard, owned []types.ZenonTokenStandard, users []types.Address) Call {
	pickTok := func() types.ZenonTokenStandard {
		if len(owned) > 0 && rng.Intn(4) != 0 {
			return owned[rng.Intn(len(owned))]
		}
		if len(tokens) > 0 && rng.Intn(4) != 0 {
			return tokens[rng.Intn(len(tokens))]
		}
		return []types.ZenonTokenStandard{types.ZnnTokenStandard, types.QsrTokenStandard}[rng.Intn(2)]
	}
	switch rng.Intn(24) {
	case 0, 1, 2: // issue
		total := big.NewInt(int64(rng.Intn(5000)))
		max := new(big.Int).Add(total, big.NewInt(int64((rng.Intn(4)+2)/3)*int64(1+rng.Intn(20000))))
		mintable := max.Cmp(total) != 0 || rng.Intn(2) == 0
		if rng.Intn(8) == 0 { // invalid supply rules (refused when sending)
			max = new(big.Int).Sub(total, big.NewInt(1))
		}
		if max.Sign() == 0 {
			max = big.NewInt(1)
			mintable = total.Sign() == 0 || mintable
			if total.Sign() == 0 {
				mintable = true
			}
		}
		return Call{"token.Issue", types.TokenContract, types.ZnnTokenStandard, new(big.Int).Set(constants.TokenIssueAmount),
			definition.ABIToken.PackMethodPanic(definition.IssueMethodName, tokNames[rng.Intn(len(tokNames))], "T"+string(rune('A'+rng.Intn(26))), "",
				total, max, uint8(rng.Intn(10)), mintable, rng.Intn(2) == 0, false)}
	case 3, 4, 5: // mint
		to := users[rng.Intn(len(users))]
		switch rng.Intn(6) {
		case 0:
			to = types.LiquidityContract
		case 1:
			to = types.PillarContract // no Donate method: the mint fails
		case 2:
			to = types.AcceleratorContract
		}
		amt := big.NewInt(int64(1 + rng.Intn(300)))
		if rng.Intn(4) == 0 {
			amt = big.NewInt(int64(1 + rng.Intn(30000)))
		}
		if rng.Intn(6) == 0 {
			amt = new(big.Int).Lsh(big.NewInt(1), 70) // above max supply
		}
		zt := pickTok()
		if len(owned) > 0 && rng.Intn(8) != 0 {
			zt = owned[rng.Intn(len(owned))]
		}
		return Call{"token.Mint", types.TokenContract, types.ZnnTokenStandard, big.NewInt(0),
			definition.ABIToken.PackMethodPanic(definition.MintMethodName, zt, amt, to)}
	case 6, 7, 8: // burn
		return Call{"token.Burn", types.TokenContract, pickTok(), big.NewInt(int64(1 + rng.Intn(400))),
			definition.ABIToken.PackMethodPanic(definition.BurnMethodName)}
	case 9: // update token
		return Call{"token.Update", types.TokenContract, types.ZnnTokenStandard, big.NewInt(0),
			definition.ABIToken.PackMethodPanic(definition.UpdateTokenMethodName, pickTok(), users[rng.Intn(len(users))], rng.Intn(2) == 0, rng.Intn(2) == 0)}
	case 10: // fuse
		amt := zexp(int64(10 + rng.Intn(40)))
		if rng.Intn(5) == 0 {
			amt = zexp(1) // below the minimum
		}
		return Call{"plasma.Fuse", types.PlasmaContract, types.QsrTokenStandard, amt,
			definition.ABIPlasma.PackMethodPanic(definition.FuseMethodName, users[rng.Intn(len(users))])}
	case 11: // cancel fuse of an unknown id
		var id types.Hash
		rng.Read(id[:])
		return Call{"plasma.CancelFuse", types.PlasmaContract, types.ZnnTokenStandard, big.NewInt(0),
			definition.ABIPlasma.PackMethodPanic(definition.CancelFuseMethodName, id)}
	case 12: // stake
		dur := int64(constants.StakeTimeMinSec * int64(1+rng.Intn(12)))
		if rng.Intn(5) == 0 {
			dur = 17
		}
		return Call{"stake.Stake", types.StakeContract, types.ZnnTokenStandard, zexp(int64(1 + rng.Intn(30))),
			definition.ABIStake.PackMethodPanic(definition.StakeMethodName, dur)}
	case 13:
		var id types.Hash
		rng.Read(id[:])
		return Call{"stake.Cancel", types.StakeContract, types.ZnnTokenStandard, big.NewInt(0),
			definition.ABIStake.PackMethodPanic(definition.CancelStakeMethodName, id)}
	case 14:
		c := []types.Address{types.PillarContract, types.SentinelContract}[rng.Intn(2)]
		return Call{"common.DepositQsr", c, types.QsrTokenStandard, zexp(int64(1 + rng.Intn(200))),
			definition.ABICommon.PackMethodPanic(definition.DepositQsrMethodName)}
	case 15:
		c := []types.Address{types.PillarContract, types.SentinelContract}[rng.Intn(2)]
		return Call{"common.WithdrawQsr", c, types.ZnnTokenStandard, big.NewInt(0),
			definition.ABICommon.PackMethodPanic(definition.WithdrawQsrMethodName)}
	case 16: // sentinel registration without the QSR deposit: fails when received, 5000 ZNN refunded
		return Call{"sentinel.Register", types.SentinelContract, types.ZnnTokenStandard, new(big.Int).Set(constants.SentinelZnnRegisterAmount),
			definition.ABISentinel.PackMethodPanic(definition.RegisterSentinelMethodName)}
	case 17:
		c := []types.Address{types.PillarContract, types.SentinelContract, types.StakeContract}[rng.Intn(3)]
		return Call{"common.CollectReward", c, types.ZnnTokenStandard, big.NewInt(0),
			definition.ABICommon.PackMethodPanic(definition.CollectRewardMethodName)}
	case 18:
		c := []types.Address{types.AcceleratorContract, types.LiquidityContract}[rng.Intn(2)]
		amt := big.NewInt(int64(rng.Intn(3)) * int64(1+rng.Intn(1000)))
		return Call{"common.Donate", c, pickTok(), amt, definition.ABICommon.PackMethodPanic(definition.DonateMethodName)}
	case 19:
		return Call{"pillar.Delegate", types.PillarContract, types.ZnnTokenStandard, big.NewInt(0),
			definition.ABIPillars.PackMethodPanic(definition.DelegateMethodName, []string{g.Pillar1Name, g.Pillar2Name, "nobody"}[rng.Intn(3)])}
	case 22: // pillar registration without the QSR deposit: accepted when sent, fails when received; the 15000 ZNN have to
		// come back out of what the call itself brought, not out of the collateral the contract holds for the genesis pillars
		return Call{"pillar.Register", types.PillarContract, types.ZnnTokenStandard, new(big.Int).Set(constants.PillarStakeAmount),
			definition.ABIPillars.PackMethodPanic(definition.RegisterMethodName, "plr-"+string(rune('a'+rng.Intn(26))), users[rng.Intn(len(users))], from, uint8(rng.Intn(101)), uint8(rng.Intn(101)))}
	case 23: // a hash-time-lock that is valid when sent and already expired when received (refund out of a contract that holds others' deposits), or a plain valid one
		var lock [32]byte
		rng.Read(lock[:])
		exp := time.Now().Unix()
		if common.Clock != nil {
			exp = common.Clock.Now().Unix()
		}
		exp += []int64{1, 5, 9, 11, 15, 400}[rng.Intn(6)]
		return Call{"htlc.Create", types.HtlcContract, []types.ZenonTokenStandard{types.ZnnTokenStandard, types.QsrTokenStandard}[rng.Intn(2)], zexp(int64(1 + rng.Intn(20))),
			definition.ABIHtlc.PackMethodPanic(definition.CreateHtlcMethodName, users[rng.Intn(len(users))], exp, uint8(0), uint8(32), lock[:])}
	case 20: // unknown selector
		d := make([]byte, 4+rng.Intn(40))
		rng.Read(d)
		return Call{"unknown-method", types.EmbeddedContracts[rng.Intn(len(types.EmbeddedContracts))], types.ZnnTokenStandard, big.NewInt(int64(rng.Intn(2) * 100)), d}
	default: // embedded-prefixed address that is no contract
		var a types.Address
		rng.Read(a[:])
		a[0] = types.ContractAddrByte
		return Call{"no-such-contract", a, types.ZnnTokenStandard, big.NewInt(int64(rng.Intn(2) * 100)), nil}
	}
}

// NewNodeEpoch is NewNode with a custom epoch duration (consensus supports 600 s as the shortest epoch).
func NewNodeEpoch(d time.Duration) *Node {
	verifier.ReceiverMismatchEnforcementHeight = 0
	t := &FakeT{}
	z := mock.NewMockZenonWithCustomEpochDuration(t, d)
	Quiet()
	return &Node{T: t, Z: z, Ch: z.Chain(), Cs: z.Consensus(), Sv: vm.NewSupervisor(z.Chain(), z.Consensus())}
}
