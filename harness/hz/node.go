package hz

import (
	"fmt"

	"github.com/inconshreveable/log15"
	"github.com/zenon-network/go-zenon/common"
	"math/big"
	"os"

	"github.com/zenon-network/go-zenon/chain"
	g "github.com/zenon-network/go-zenon/chain/genesis/mock"
	"github.com/zenon-network/go-zenon/chain/nom"
	"github.com/zenon-network/go-zenon/common/types"
	"github.com/zenon-network/go-zenon/consensus"
	"github.com/zenon-network/go-zenon/verifier"
	"github.com/zenon-network/go-zenon/vm"
	"github.com/zenon-network/go-zenon/wallet"
	"github.com/zenon-network/go-zenon/zenon/mock"
)

// fakeT satisfies common.T for the mock node.
type FakeT struct{ dirs []string }

func (t *FakeT) Fatalf(format string, args ...interface{}) { panic(fmt.Sprintf(format, args...)) }
func (t *FakeT) TempDir() string {
	d, err := os.MkdirTemp("", "zh")
	if err != nil {
		panic(err)
	}
	t.dirs = append(t.dirs, d)
	return d
}
func (t *FakeT) Cleanup() {
	for _, d := range t.dirs {
		os.RemoveAll(d)
	}
}

// Node is a real in-process node (real chain, consensus, verifier, vm, pillars) on the mock genesis.
type Node struct {
	T  *FakeT
	Z  mock.MockZenon
	Ch chain.Chain
	Cs consensus.Consensus
	Sv *vm.Supervisor
}

func NewNode() *Node {
	// the property statements are for the enforced regime (C03 names the enforcement height)
	verifier.ReceiverMismatchEnforcementHeight = 0
	t := &FakeT{}
	z := mock.NewMockZenon(t)
	Quiet()
	return &Node{T: t, Z: z, Ch: z.Chain(), Cs: z.Consensus(), Sv: vm.NewSupervisor(z.Chain(), z.Consensus())}
}
func (n *Node) Stop() {
	n.Z.StopPanic()
	n.T.Cleanup()
}

func KeyOf(addr types.Address) *wallet.KeyPair {
	for _, kp := range g.AllKeyPairs {
		if kp.Address == addr {
			return kp
		}
	}
	return nil
}

// Fill sets the fields the supervisor's setAll would set, without touching plasma fields.
func (n *Node) Fill(b *nom.AccountBlock) {
	st := n.Ch.GetFrontierMomentumStore()
	fm, err := st.GetFrontierMomentum()
	if err != nil {
		panic(err)
	}
	if b.MomentumAcknowledged.IsZero() {
		b.MomentumAcknowledged = fm.Identifier()
	}
	if b.PreviousHash == types.ZeroHash && b.Height == 0 {
		fr := n.Ch.GetFrontierAccountStore(b.Address).Identifier()
		b.PreviousHash = fr.Hash
		b.Height = fr.Height + 1
	}
	b.ChainIdentifier = n.Ch.ChainIdentifier()
	if b.Version == 0 {
		b.Version = 1
	}
	if b.Amount == nil {
		b.Amount = big.NewInt(0)
	}
}

func Sign(b *nom.AccountBlock, kp *wallet.KeyPair) {
	b.Hash = b.ComputeHash()
	b.Signature = kp.Sign(b.Hash.Bytes())
	b.PublicKey = kp.Public
}

// Apply runs full verification + vm on a block (no insertion).
func (n *Node) Apply(b *nom.AccountBlock) (*nom.AccountBlockTransaction, error) {
	return n.Sv.ApplyBlock(b)
}

// Insert adds an applied transaction to the node's pool.
func (n *Node) Insert(tx *nom.AccountBlockTransaction) error {
	ins := n.Ch.AcquireInsert("zharness")
	defer ins.Unlock()
	return n.Ch.AddAccountBlockTransaction(ins, tx)
}

func (n *Node) Momentum() { n.Z.InsertNewMomentum() }

func (n *Node) FrontierHeight() uint64 {
	return n.Ch.GetFrontierMomentumStore().Identifier().Height
}

func Quiet() {
	for _, l := range mock.AllLoggers {
		l.SetHandler(log15.DiscardHandler())
	}
	common.ConsensusLogger.SetHandler(log15.DiscardHandler())
	common.PillarLogger.SetHandler(log15.LvlFilterHandler(log15.LvlInfo, common.PillarLogger.GetHandler()))
}
