package hz

// What the implementation charges for a call of an embedded method, per method table (C12).
// The method is looked up exactly as vm.GetBasePlasmaForAccountBlock does - embedded.GetEmbeddedMethod - under a
// context in which exactly the sporks of the regime are enforced (0 origin, 1 accelerator, 2 + bridge-and-liquidity,
// 3 + htlc: the nesting order of GetEmbeddedMethod), and priced with constants.AlphanetPlasmaTable. Used by constdump
// (Consts.MethodPlasmaKeys / MethodPlasmaVals) and by the C12 harness, which judges these prices against its own table.

import (
	"math/big"

	"github.com/zenon-network/go-zenon/common/types"
	"github.com/zenon-network/go-zenon/vm/constants"
	"github.com/zenon-network/go-zenon/vm/embedded"
	"github.com/zenon-network/go-zenon/vm/vm_context"
)

var RegimeNames = []string{"origin", "accelerator", "bridge-and-liquidity", "htlc"}

// sporkOnlyContext answers the three spork questions of GetEmbeddedMethod; nothing else of the context is read there
type sporkOnlyContext struct {
	vm_context.AccountVmContext
	regime int
}

func (c sporkOnlyContext) IsAcceleratorSporkEnforced() bool        { return c.regime >= 1 }
func (c sporkOnlyContext) IsBridgeAndLiquiditySporkEnforced() bool { return c.regime >= 2 }
func (c sporkOnlyContext) IsHtlcSporkEnforced() bool               { return c.regime >= 3 }

type MethodCost struct {
	Regime   int
	Contract types.Address
	Name     string
	Selector []byte
	Plasma   uint64
	Priced   bool // GetEmbeddedMethod found it and GetPlasma answered without error
}

// MethodCosts lists every callable (contract, method) of every method table with the price the implementation asks
func MethodCosts() []MethodCost {
	var res []MethodCost
	for r, tbl := range embedded.VerifMethodTables() {
		for _, e := range tbl {
			if e.Selector == nil {
				continue
			}
			mc := MethodCost{Regime: r, Contract: e.Contract, Name: e.Name, Selector: e.Selector}
			if m, err := embedded.GetEmbeddedMethod(sporkOnlyContext{regime: r}, e.Contract, e.Selector); err == nil {
				if p, err := m.GetPlasma(&constants.AlphanetPlasmaTable); err == nil {
					mc.Plasma, mc.Priced = p, true
				}
			}
			res = append(res, mc)
		}
	}
	return res
}

// MethodCostKey: (regime+1) ‖ 20-byte contract address ‖ 4-byte selector read as one big-endian number
func MethodCostKey(regime int, contract types.Address, data []byte) *big.Int {
	if len(data) < 4 {
		return big.NewInt(0)
	}
	return new(big.Int).SetBytes(append(append([]byte{byte(regime + 1)}, contract[:]...), data[:4]...))
}
