package hz

import "math/rand"

// BoundaryU64 draws from boundary classes of uint64 (small, 2^k+-1, top of range, 2^63+-2, random).
func BoundaryU64(rng *rand.Rand) uint64 {
	switch rng.Intn(10) {
	case 0:
		return uint64(rng.Intn(4))
	case 1:
		k := uint(rng.Intn(64))
		return (uint64(1) << k) + uint64(rng.Intn(3)) - 1
	case 2:
		return ^uint64(0) - uint64(rng.Intn(3))
	case 3:
		return (uint64(1) << 63) + uint64(rng.Intn(5)) - 2
	case 4:
		return 141750000 + uint64(rng.Intn(5)) - 2 // around MaxDifficultyForAccountBlock
	case 5:
		return uint64(rng.Intn(1 << 20))
	case 6:
		return rng.Uint64() >> uint(rng.Intn(64))
	default:
		return rng.Uint64()
	}
}
