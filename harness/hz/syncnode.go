package hz

// Helpers for the node-level properties (C05 cold/warm schedule, C16 sync, C02 replay):
// a second kind of node wired exactly like zenon.NewZenon (chain over a leveldb directory, consensus,
// verifier, supervisor, chain bridge) but without pillars and without p2p, which can be stopped and
// reopened over the same directory; plus access to the ChainBridge of a mock node.

import (
	"github.com/syndtr/goleveldb/leveldb"
	"os"
	"path/filepath"
	"time"

	"github.com/zenon-network/go-zenon/chain"
	"github.com/zenon-network/go-zenon/chain/genesis"
	g "github.com/zenon-network/go-zenon/chain/genesis/mock"
	"github.com/zenon-network/go-zenon/chain/nom"
	"github.com/zenon-network/go-zenon/common"
	"github.com/zenon-network/go-zenon/common/db"
	"github.com/zenon-network/go-zenon/common/types"
	"github.com/zenon-network/go-zenon/consensus"
	"github.com/zenon-network/go-zenon/protocol"
	"github.com/zenon-network/go-zenon/verifier"
	"github.com/zenon-network/go-zenon/vm"
)

// BareNode is the receiving side of a sync: everything a full node has between the p2p layer and the disk.
type BareNode struct {
	Dir   string
	Ch    chain.Chain
	Cs    consensus.Consensus
	Sv    *vm.Supervisor
	Br    protocol.ChainBridge
	owned bool
	open  bool
	cldb  *leveldb.DB
}

// OpenBare opens (or creates) a node over dir; dir == "" makes a temporary directory removed by Destroy.
func OpenBare(dir string) *BareNode {
	verifier.ReceiverMismatchEnforcementHeight = 0
	owned := false
	if dir == "" {
		d, err := os.MkdirTemp("", "zb")
		if err != nil {
			panic(err)
		}
		dir, owned = d, true
	}
	ch := chain.NewChain(db.NewLevelDBManager(dir), genesis.NewGenesis(g.EmbeddedGenesis))
	// the consensus DB (stored elections and points) is a LevelDB next to the chain's, as in zenon.NewZenon: it
	// survives a restart (Reopen), so what a restarted node reads back from it is part of what the harnesses compare
	cdb, cldb := db.NewLevelDB(filepath.Join(dir, "consensus"))
	cs := consensus.NewConsensus(cdb, ch, true)
	common.DealWithErr(ch.Init())
	common.DealWithErr(cs.Init())
	common.DealWithErr(ch.Start())
	common.DealWithErr(cs.Start())
	sv := vm.NewSupervisor(ch, cs)
	br := protocol.NewChainBridge(ch, cs, verifier.NewVerifier(ch, cs), sv)
	Quiet()
	return &BareNode{Dir: dir, Ch: ch, Cs: cs, Sv: sv, Br: br, owned: owned, open: true, cldb: cldb}
}

// Stop closes consensus and chain (leveldb closed); the directory stays.
func (b *BareNode) Stop() {
	if !b.open {
		return
	}
	b.open = false
	common.DealWithErr(b.Cs.Stop())
	common.DealWithErr(b.Ch.Stop())
	if b.cldb != nil {
		b.cldb.Close()
	}
}

// Reopen = process restart over the same data directory (cold caches).
func (b *BareNode) Reopen() *BareNode {
	b.Stop()
	n := OpenBare(b.Dir)
	n.owned = b.owned
	b.owned = false
	return n
}
func (b *BareNode) Destroy() {
	b.Stop()
	if b.owned {
		os.RemoveAll(b.Dir)
	}
}
func (b *BareNode) Frontier() *nom.Momentum {
	m, err := b.Ch.GetFrontierMomentumStore().GetFrontierMomentum()
	if err != nil {
		panic(err)
	}
	return m
}

// BridgeOf gives the ChainBridge of a mock node (the path by which it adopts somebody else's momentums).
func BridgeOf(n *Node) protocol.ChainBridge {
	return protocol.NewChainBridge(n.Ch, n.Cs, verifier.NewVerifier(n.Ch, n.Cs), n.Sv)
}

// DetailedAt returns momentum h of ch with its account blocks, as chainBridge.GetBlock serves it to peers.
func DetailedAt(ch chain.Chain, h uint64) *nom.DetailedMomentum {
	store := ch.GetFrontierMomentumStore()
	m, err := store.GetMomentumByHeight(h)
	if err != nil || m == nil {
		return nil
	}
	d, err := store.PrefetchMomentum(m)
	if err != nil {
		panic(err)
	}
	return d
}

// DetailedRange = momentums lo..hi (inclusive).
func DetailedRange(ch chain.Chain, lo, hi uint64) []*nom.DetailedMomentum {
	var r []*nom.DetailedMomentum
	for h := lo; h <= hi; h++ {
		d := DetailedAt(ch, h)
		if d == nil {
			break
		}
		r = append(r, d)
	}
	return r
}

// WireCopy passes a detailed momentum through its serialisations, as if it had travelled over the network:
// the receiver never shares pointers (cached producer, timestamps, big.Ints) with the sender.
func WireCopy(d *nom.DetailedMomentum) *nom.DetailedMomentum {
	mb, err := d.Momentum.Serialize()
	if err != nil {
		panic(err)
	}
	m, err := nom.DeserializeMomentum(mb)
	if err != nil {
		panic(err)
	}
	r := &nom.DetailedMomentum{Momentum: m, AccountBlocks: make([]*nom.AccountBlock, 0, len(d.AccountBlocks))}
	for _, b := range d.AccountBlocks {
		r.AccountBlocks = append(r.AccountBlocks, WireCopyBlock(b))
	}
	return r
}
func WireCopyBlock(b *nom.AccountBlock) *nom.AccountBlock {
	bb, err := b.Serialize()
	if err != nil {
		panic(err)
	}
	c, err := nom.DeserializeAccountBlock(bb)
	if err != nil {
		panic(err)
	}
	return c
}
func WireCopyAll(ds []*nom.DetailedMomentum) []*nom.DetailedMomentum {
	r := make([]*nom.DetailedMomentum, len(ds))
	for i, d := range ds {
		r[i] = WireCopy(d)
	}
	return r
}

// FrozenClock: common.Clock is one global shared by every mock node in the process (each NewMockZenon
// re-binds it to its own chain). With several nodes alive the harness pins it to the genesis time, which
// makes the pillar worker's "too late to broadcast" test never fire.
type FrozenClock struct{ T time.Time }

func (c FrozenClock) Now() time.Time { return c.T }
func FreezeClock() {
	common.Clock = FrozenClock{T: time.Unix(int64(g.EmbeddedGenesis.GenesisTimestampSec), 0)}
}

func HH(m *nom.Momentum) types.HashHeight { return m.Identifier() }

// ---- producing momentums outside the mock's fixed +10 s rhythm (same steps as pillar/worker_momentum.go)

func FrontierOf(ch chain.Chain) *nom.Momentum {
	m, err := ch.GetFrontierMomentumStore().GetFrontierMomentum()
	if err != nil {
		panic(err)
	}
	return m
}

// BuildNext lets the pillar elected for (prev.Timestamp + dt) produce a momentum on top of prev containing the
// node's unconfirmed account blocks (withContent) or nothing.
func BuildNext(nd *Node, prev *nom.Momentum, dt int64, withContent bool) (*nom.MomentumTransaction, []*nom.AccountBlock, error) {
	t := time.Unix(int64(prev.TimestampUnix)+dt, 0)
	exp, err := nd.Cs.GetMomentumProducer(t)
	if err != nil {
		return nil, nil, err
	}
	kp := KeyOf(*exp)
	var blocks []*nom.AccountBlock
	if withContent {
		blocks = nd.Ch.GetNewMomentumContent()
	}
	m := &nom.Momentum{ChainIdentifier: nd.Ch.ChainIdentifier(), PreviousHash: prev.Hash, Height: prev.Height + 1,
		TimestampUnix: uint64(t.Unix()), Content: nom.NewMomentumContent(blocks), Version: 1}
	m.EnsureCache()
	tx, err := nd.Sv.GenerateMomentum(&nom.DetailedMomentum{Momentum: m, AccountBlocks: blocks}, kp.Signer)
	return tx, blocks, err
}
func AddMomentum(ch chain.Chain, tx *nom.MomentumTransaction) error {
	ins := ch.AcquireInsert("zharness momentum")
	defer ins.Unlock()
	return ch.AddMomentumTransaction(ins, tx)
}
func RollbackTo(ch chain.Chain, id types.HashHeight) error {
	ins := ch.AcquireInsert("zharness rollback")
	defer ins.Unlock()
	return ch.RollbackTo(ins, id)
}

// ProduceAt = BuildNext on the frontier + insertion (no contract auto-receives: use nd.Momentum() for those).
func ProduceAt(nd *Node, dt int64) error {
	tx, _, err := BuildNext(nd, FrontierOf(nd.Ch), dt, true)
	if err != nil {
		return err
	}
	return AddMomentum(nd.Ch, tx)
}
