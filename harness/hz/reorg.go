package hz

// Reorganisation and restart of the in-process node (used by the C04 harness).

import (
	"fmt"

	"github.com/zenon-network/go-zenon/verifier"
	"github.com/zenon-network/go-zenon/vm"
	"github.com/zenon-network/go-zenon/zenon/mock"
)

// RollbackTo removes the frontier momentums down to the given height (chain.MomentumPool.RollbackTo); the account
// pool is dropped by the DeleteMomentum event.
func (n *Node) RollbackTo(height uint64) error {
	ms := n.Ch.GetFrontierMomentumStore()
	m, err := ms.GetMomentumByHeight(height)
	if err != nil {
		return err
	}
	if m == nil {
		return fmt.Errorf("no momentum at height %d", height)
	}
	ins := n.Ch.AcquireInsert("zharness-rollback")
	defer ins.Unlock()
	return n.Ch.RollbackTo(ins, m.Identifier())
}

// fixedT hands the mock node an existing data directory.
type fixedT struct{ dir string }

func (t *fixedT) Fatalf(format string, args ...interface{}) { panic(fmt.Sprintf(format, args...)) }
func (t *fixedT) TempDir() string                           { return t.dir }

// Restart stops the node (closing leveldb) and starts a new one on the same data directory: the chain is reloaded
// from disk, the unconfirmed pool and all caches are gone.
func (n *Node) Restart() {
	if len(n.T.dirs) == 0 {
		panic("no data directory")
	}
	dir := n.T.dirs[len(n.T.dirs)-1]
	n.Z.StopPanic()
	enf := verifier.ReceiverMismatchEnforcementHeight
	z := mock.NewMockZenon(&fixedT{dir: dir})
	Quiet()
	verifier.ReceiverMismatchEnforcementHeight = enf
	n.Z, n.Ch, n.Cs = z, z.Chain(), z.Consensus()
	n.Sv = vm.NewSupervisor(z.Chain(), z.Consensus())
}
