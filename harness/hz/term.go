package hz

import (
	"bufio"
	"encoding/hex"
	"encoding/json"
	"fmt"
	"math/big"
	"os"
)

// Neutral term language shared with the driver (lib/terms.py turns it into Coq syntax).
//   integer        -> Z literal
//   bool           -> true/false
//   []any          -> list
//   {"t":[...]}    -> tuple
//   {"c":N,"a":[]} -> constructor application
//   {"b":"hex"}    -> byte string (list Z)
//   {"o":x}/{"o":null} -> Some x / None

type M = map[string]interface{}

func Tup(xs ...interface{}) M           { return M{"t": xs} }
func Con(n string, xs ...interface{}) M { return M{"c": n, "a": xs} }
func Byt(b []byte) M                    { return M{"b": hex.EncodeToString(b)} }
func Some(x interface{}) M              { return M{"o": x} }
func None() M                           { return M{"o": nil} }
func Lst(xs ...interface{}) []interface{} {
	if xs == nil {
		return []interface{}{}
	}
	return xs
}
func Big(x *big.Int) json.Number {
	if x == nil {
		return json.Number("0")
	}
	return json.Number(x.String())
}
func U64(x uint64) json.Number { return json.Number(fmt.Sprintf("%d", x)) }
func I64(x int64) json.Number  { return json.Number(fmt.Sprintf("%d", x)) }

// Output: one JSON object per line.
//
//	{"k":"case","in":term,"out":term,"tag":"..."}       model correspondence case
//	{"k":"oracle","ok":bool,"key":"...","detail":...}   direct property oracle on the implementation
//	{"k":"dist", ...}                                   generator distribution counters
type Out struct {
	W     *bufio.Writer
	F     *os.File
	dist  map[string]int
	Cases int
	Fails int
}

func NewOut(path string) *Out {
	f, err := os.Create(path)
	if err != nil {
		panic(err)
	}
	return &Out{W: bufio.NewWriterSize(f, 1<<20), F: f, dist: map[string]int{}}
}
func (o *Out) Emit(m M) {
	b, err := json.Marshal(m)
	if err != nil {
		panic(err)
	}
	o.W.Write(b)
	o.W.WriteByte('\n')
}
func (o *Out) Case(fn string, in, out interface{}, tag string) {
	o.Cases++
	o.dist["case:"+fn+":"+tag]++
	o.Emit(M{"k": "case", "fn": fn, "in": in, "out": out, "tag": tag})
}

// Oracle records the verdict of the property's own statement evaluated on the implementation.
func (o *Out) Oracle(ok bool, key string, detail interface{}) {
	o.dist["oracle:"+key]++
	if !ok {
		o.Fails++
		o.Emit(M{"k": "oracle", "ok": false, "key": key, "detail": detail})
	}
}
func (o *Out) Count(key string) { o.dist[key]++ }
func (o *Out) Close() {
	o.Emit(M{"k": "dist", "dist": o.dist})
	o.W.Flush()
	o.F.Close()
}
