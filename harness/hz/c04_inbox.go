package hz

// Contract inboxes with sends IN LINE (C04): the pillar's worker empties every inbox right after its momentum, so on a
// node driven by its own producer nobody ever sees a contract with one or more sends waiting - the only state in which
// the next-in-line check of verifier.accountBlockVerifier.sequencer() decides anything. A momentum of another producer
// arrives without the receives (they come later, relayed or inside the next momentum), and then contract receives for
// the contract can reach the node by three doors:
//   the node's own generator for a CHOSEN send        vm.Supervisor.GenerateAutoReceive
//   a relayed, correctly formed ContractReceive        protocol.ChainBridge.AddAccountBlocks (ApplyBlock + pool)
//   inside a delivered momentum                         protocol.ChainBridge.InsertChain (ApplyBlock + forced pool add)
//
//   (*Node) MomentumListedUndrained   a momentum as another producer lists it, WITHOUT the worker's receives afterwards
//   Inboxes                           per embedded contract: the sends addressed to it in listed confirmation order and the
//                                     from-hashes its chain (confirmed + pool) has received - read off the ledger, not off
//                                     the sequencer; the line = the sends not received, its first entry the head
//   ContractReceiveFor                a correctly formed ContractReceive of contract c for a given from-hash on top of c's
//                                     frontier (the form vm.generateEmbeddedReceive gives it before execution)
//   DeliveredMomentumWith             a momentum on top of the frontier that lists exactly the given blocks

import (
	"math/rand"
	"time"

	"github.com/zenon-network/go-zenon/chain"
	"github.com/zenon-network/go-zenon/chain/nom"
	"github.com/zenon-network/go-zenon/common/types"
	"github.com/zenon-network/go-zenon/vm"
)

// MomentumListedUndrained: MomentumListed without GenerateContractReceives: the sends to contracts the momentum confirms
// stay in line.
func (n *Node) MomentumListedUndrained(rng *rand.Rand, partial int) (unsorted bool, listed []*nom.AccountBlock, err error) {
	listed = PermutedContent(rng, n.Ch.GetNewMomentumContent(), partial)
	tx, err := BuildNextListed(n, FrontierOf(n.Ch), 10, listed)
	if err != nil {
		return false, listed, err
	}
	if err = AddMomentum(n.Ch, tx); err != nil {
		return false, listed, err
	}
	return !IsSortedListing(listed), listed, nil
}

// Inbox of one contract as the property speaks of it.
type Inbox struct {
	Order []types.Hash // the sends addressed to the contract, in the order the momentums list them
	Got   []types.Hash // the FromBlockHash of the contract receives along its chain (confirmed + pool)
}

func (i *Inbox) has(h types.Hash) bool {
	for _, g := range i.Got {
		if g == h {
			return true
		}
	}
	return false
}

// Line: the sends the contract has not received, in confirmation order; Line()[0] is the head, the one send a contract
// receive may be for.
func (i *Inbox) Line() []types.Hash {
	var l []types.Hash
	if i == nil {
		return l
	}
	for _, h := range i.Order {
		if !i.has(h) {
			l = append(l, h)
		}
	}
	return l
}

// Received: the sends of Order the contract has received, in confirmation order.
func (i *Inbox) Received() []types.Hash {
	var l []types.Hash
	if i == nil {
		return l
	}
	for _, h := range i.Order {
		if i.has(h) {
			l = append(l, h)
		}
	}
	return l
}

func (i *Inbox) Pending() int { return len(i.Line()) }

// Inboxes reads every embedded contract's inbox off the ledger (momentum contents + the contract's account chain).
func Inboxes(ch chain.Chain) (map[types.Address]*Inbox, error) {
	order, err := ListedOrder(ch)
	if err != nil {
		return nil, err
	}
	res := map[types.Address]*Inbox{}
	seen := map[types.Address]bool{}
	contracts := append([]types.Address{}, types.EmbeddedContracts...)
	for c := range order {
		contracts = append(contracts, c)
	}
	for _, c := range contracts {
		if seen[c] {
			continue
		}
		seen[c] = true
		as := ch.GetFrontierAccountStore(c)
		fr, err := as.Frontier()
		if err != nil {
			return nil, err
		}
		var got []types.Hash
		for h := uint64(1); fr != nil && h <= fr.Height; h++ {
			b, err := as.ByHeight(h)
			if err != nil {
				return nil, err
			}
			if b != nil && b.BlockType == nom.BlockTypeContractReceive {
				got = append(got, b.FromBlockHash)
			}
		}
		res[c] = &Inbox{Order: order[c], Got: got}
	}
	return res, nil
}

// ContractReceiveFor: a correctly formed ContractReceive of c for `from` on top of c's frontier (pool included),
// acknowledging the momentum that confirmed the send (the frontier momentum when the hash is not a confirmed block): the
// block that executing the send on that state gives (vm.generateEmbeddedReceive through the verif export: changes hash,
// status data, descendant sends), i.e. what a producer that does NOT ask whether the send is next in line would make and
// relay - the receiving node's VM regenerates and compares, so anything less is refused for its form. Where the VM cannot
// run the send at all (not a call of an embedded contract, unknown hash) the bare template with `data` stands in.
func (n *Node) ContractReceiveFor(c types.Address, from types.Hash, data []byte) (blk *nom.AccountBlock, executed bool) {
	ms := n.Ch.GetFrontierMomentumStore()
	b := &nom.AccountBlock{BlockType: nom.BlockTypeContractReceive, Address: c, FromBlockHash: from, Data: data}
	if h, err := ms.GetBlockConfirmationHeight(from); err == nil && h > 0 {
		if m, err := ms.GetMomentumByHeight(h); err == nil && m != nil {
			b.MomentumAcknowledged = m.Identifier()
		}
	}
	n.Fill(b)
	b.Hash = b.ComputeHash()
	if g := n.executedReceive(b); g != nil {
		return g, true
	}
	return b, false
}

// ContractReceiveAt: the same on top of an EARLIER unconfirmed version of c's chain (prev = a block of c still in the
// pool, or its confirmed frontier): a competing block for the position above prev.
func (n *Node) ContractReceiveAt(c types.Address, from types.Hash, prev types.HashHeight, data []byte) (blk *nom.AccountBlock, executed bool) {
	ms := n.Ch.GetFrontierMomentumStore()
	b := &nom.AccountBlock{BlockType: nom.BlockTypeContractReceive, Address: c, FromBlockHash: from, Data: data,
		PreviousHash: prev.Hash, Height: prev.Height + 1}
	if h, err := ms.GetBlockConfirmationHeight(from); err == nil && h > 0 {
		if m, err := ms.GetMomentumByHeight(h); err == nil && m != nil {
			b.MomentumAcknowledged = m.Identifier()
		}
	}
	n.Fill(b)
	b.Hash = b.ComputeHash()
	if g := n.executedReceive(b); g != nil {
		return g, true
	}
	return b, false
}

func (n *Node) executedReceive(template *nom.AccountBlock) (res *nom.AccountBlock) {
	defer func() {
		if recover() != nil {
			res = nil
		}
	}()
	ctx := n.Context(template)
	if ctx == nil {
		return nil
	}
	g, err := vm.VerifGenerateEmbeddedReceive(ctx, template.FromBlockHash)
	if err != nil || g == nil || g.Address != template.Address || g.Previous() != template.Previous() {
		return nil
	}
	return g
}

// DeliveredMomentumWith: the next momentum (+10 s) listing exactly blocks, as a peer would deliver it. The account blocks
// of a delivered momentum are applied before the momentum itself is looked at (protocol.chainBridge.InsertChain).
func (n *Node) DeliveredMomentumWith(blocks []*nom.AccountBlock) *nom.DetailedMomentum {
	prev := FrontierOf(n.Ch)
	t := time.Unix(int64(prev.TimestampUnix)+10, 0)
	content := make(nom.MomentumContent, len(blocks))
	for i, b := range blocks {
		hd := b.Header()
		content[i] = &hd
	}
	m := &nom.Momentum{ChainIdentifier: n.Ch.ChainIdentifier(), PreviousHash: prev.Hash, Height: prev.Height + 1,
		TimestampUnix: uint64(t.Unix()), Content: content, Version: 1}
	m.EnsureCache()
	if exp, err := n.Cs.GetMomentumProducer(t); err == nil && exp != nil {
		if kp := KeyOf(*exp); kp != nil {
			m.Hash = m.ComputeHash()
			m.Signature = kp.Sign(m.Hash.Bytes())
			m.PublicKey = kp.Public
		}
	}
	m.EnsureCache()
	return &nom.DetailedMomentum{Momentum: m, AccountBlocks: blocks}
}
