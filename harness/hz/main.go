package hz

import (
	"flag"
	"fmt"
	"math/rand"
	"os"
)

// Runner produces cases / oracle verdicts for one suite.
type Runner func(rng *rand.Rand, n int, out *Out, args []string)

// Main is the entry point of every harness binary: <bin> <suite> -seed S -n N -out FILE [args...]
func Main(runners map[string]Runner) {
	if len(os.Args) < 2 {
		fmt.Println("usage: <bin> <suite> -seed S -n N -out FILE")
		os.Exit(2)
	}
	suite := os.Args[1]
	fs := flag.NewFlagSet(suite, flag.ExitOnError)
	seed := fs.Int64("seed", 1, "prng seed")
	n := fs.Int("n", 100, "number of cases / histories")
	outp := fs.String("out", "cases.jsonl", "output file")
	fs.Parse(os.Args[2:])
	r, ok := runners[suite]
	if !ok {
		fmt.Println("unknown suite", suite)
		os.Exit(2)
	}
	out := NewOut(*outp)
	rng := rand.New(rand.NewSource(*seed))
	r(rng, *n, out, fs.Args())
	out.Close()
	fmt.Printf("suite=%s cases=%d oracle_fails=%d\n", suite, out.Cases, out.Fails)
}
