package hz

// The two regimes of verifier.ReceiverMismatchEnforcementHeight (legacy below it, enforced from it on).
//
// What the unchanged code guarantees (verifier/account_block.go fromHash, chain/account/received.go, vm.applyReceive):
//   * the received marker lives in the RECEIVING account's own store, so "already received" is per (send, account):
//     an account never has two blocks on its chain that receive the same send, in either regime;
//   * a block of an account that is not the send's ToAddress is refused while the momentum frontier is at or above
//     the enforcement height; below it such a (user) block is accepted, once per account (documented protocol history);
//   * hence with the enforcement height at or below the genesis momentum a send has at most one receiving block in the
//     whole ledger; with a higher enforcement height it has at most one per account, and every receiving block of a
//     non-addressee was accepted while the frontier was below the enforcement height (so it acknowledges a momentum below it).

import (
	"fmt"

	"github.com/zenon-network/go-zenon/chain/nom"
	"github.com/zenon-network/go-zenon/common/types"
	"github.com/zenon-network/go-zenon/verifier"
	"github.com/zenon-network/go-zenon/vm"
	"github.com/zenon-network/go-zenon/zenon/mock"
)

// NewNodeEnforcedAt is NewNode with the enforcement height set to h BEFORE the node starts (the variable is a process
// global read by the node's own goroutines). Histories run one after another in a process: `defer ResetEnforcement()`.
func NewNodeEnforcedAt(h uint64) *Node {
	verifier.ReceiverMismatchEnforcementHeight = h
	t := &FakeT{}
	z := mock.NewMockZenon(t)
	Quiet()
	return &Node{T: t, Z: z, Ch: z.Chain(), Cs: z.Consensus(), Sv: vm.NewSupervisor(z.Chain(), z.Consensus())}
}

// ResetEnforcement restores the value every other harness runs with.
func ResetEnforcement() { verifier.ReceiverMismatchEnforcementHeight = 0 }

// EnforcedNow: the regime a block verified at this moment is in.
func (n *Node) EnforcedNow() bool {
	return n.FrontierHeight() >= verifier.ReceiverMismatchEnforcementHeight
}

// ReceiveOracleAt evaluates the statement of C04 on the scan for a chain whose enforcement height is enf.
// acceptedLegacy(block) tells whether the harness saw the node accept that block while the frontier was below enf
// (nil: only the ledger-side condition MomentumAcknowledged.Height < enf is required).
//   - every received send is a known, confirmed send block
//   - per (send, account) at most one receiving block                                   [both regimes]
//   - a receiving block of a non-addressee: user account, accepted in the legacy regime   [=> none when enf <= 1]
//   - enf <= 1: at most one receiving block per send in the whole ledger
//   - every contract chain receives exactly a prefix of the confirmed sends addressed to it, in confirmation order
func (sc *Scan) ReceiveOracleAt(enf uint64, acceptedLegacy func(*nom.AccountBlock) bool) (bool, M) {
	ok := true
	detail := M{"height": sc.Height, "pool": sc.Pool, "enforcement-height": enf}
	confirmed := map[types.Hash]bool{}
	for _, s := range sc.Sends {
		if s.Confirmed {
			confirmed[s.Block.Hash] = true
		}
	}
	for h, l := range sc.ReceivedBy {
		sb := sc.SendByHash[h]
		if sb == nil {
			ok = false
			detail["receive-of-unknown-send"] = fmt.Sprintf("%v by %v", h, l[0].Header())
			continue
		}
		if !confirmed[h] {
			ok = false
			detail["receive-of-unconfirmed-send"] = fmt.Sprintf("%v by %v", h, l[0].Header())
		}
		per := map[types.Address]*nom.AccountBlock{}
		for _, r := range l {
			if o := per[r.Address]; o != nil {
				ok = false
				detail["received-twice-by-one-account"] = fmt.Sprintf("%v by %v and %v", h, o.Header(), r.Header())
			}
			per[r.Address] = r
			if r.Address != sb.ToAddress {
				legacy := !types.IsEmbeddedAddress(r.Address) && r.MomentumAcknowledged.Height < enf &&
					(acceptedLegacy == nil || acceptedLegacy(r))
				if !legacy {
					ok = false
					detail["wrong-receiver"] = fmt.Sprintf("%v addressed to %v received by %v (acknowledges momentum %d)", h, sb.ToAddress, r.Header(), r.MomentumAcknowledged.Height)
				}
			}
		}
		if enf <= 1 && len(l) > 1 {
			ok = false
			detail["received-twice"] = fmt.Sprintf("%v by %v and %v", h, l[0].Header(), l[1].Header())
		}
	}
	inbox := map[types.Address][]types.Hash{}
	for _, s := range sc.Sends {
		if s.Confirmed && types.IsEmbeddedAddress(s.Block.ToAddress) {
			inbox[s.Block.ToAddress] = append(inbox[s.Block.ToAddress], s.Block.Hash)
		}
	}
	got := map[types.Address][]types.Hash{}
	for _, r := range sc.Recvs {
		if types.IsEmbeddedAddress(r.Block.Address) {
			got[r.Block.Address] = append(got[r.Block.Address], r.Block.FromBlockHash)
		}
	}
	for c, l := range got {
		in := inbox[c]
		if len(l) > len(in) {
			ok = false
			detail["fifo-more-receives-than-confirmed"] = fmt.Sprintf("%v", c)
			continue
		}
		for i := range l {
			if l[i] != in[i] {
				ok = false
				detail["fifo-order"] = fmt.Sprintf("%v position %d received %v expected %v", c, i, l[i], in[i])
				break
			}
		}
	}
	return ok, detail
}
