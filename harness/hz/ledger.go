package hz

// Ledger scanning shared by the C01 / C04 / C03 harnesses: opaque integer ids for addresses, token standards and
// hashes (the numbering coq/theories/Ledger.v expects), a full scan of the ledger through the public store API,
// and the projection of a scan into a model state term.

import (
	"fmt"
	"math/big"
	"sort"

	g "github.com/zenon-network/go-zenon/chain/genesis/mock"
	"github.com/zenon-network/go-zenon/chain"
	"github.com/zenon-network/go-zenon/chain/nom"
	"github.com/zenon-network/go-zenon/chain/store"
	"github.com/zenon-network/go-zenon/common/types"
	"github.com/zenon-network/go-zenon/vm/embedded/definition"
)

// IDs numbers addresses (TokenContract = 1, other embedded-prefixed addresses 2..99, users from 100),
// token standards (zero = 0, ZNN = 1, QSR = 2, others from 3) and hashes (from 1000), in order of first use.
type IDs struct {
	addr     map[types.Address]int64
	nextEmb  int64
	nextUser int64
	zts      map[types.ZenonTokenStandard]int64
	nextZts  int64
	hash     map[types.Hash]int64
	nextHash int64
}

func NewIDs() *IDs {
	x := &IDs{addr: map[types.Address]int64{}, zts: map[types.ZenonTokenStandard]int64{}, hash: map[types.Hash]int64{},
		nextEmb: 2, nextUser: 100, nextZts: 3, nextHash: 1000}
	x.addr[types.TokenContract] = 1
	for _, c := range types.EmbeddedContracts {
		x.Addr(c)
	}
	x.zts[types.ZeroTokenStandard] = 0
	x.zts[types.ZnnTokenStandard] = 1
	x.zts[types.QsrTokenStandard] = 2
	for _, kp := range g.AllKeyPairs {
		x.Addr(kp.Address)
	}
	return x
}
func (x *IDs) Addr(a types.Address) int64 {
	if v, ok := x.addr[a]; ok {
		return v
	}
	var v int64
	if types.IsEmbeddedAddress(a) {
		v = x.nextEmb
		x.nextEmb++
		if v >= 100 {
			panic("too many embedded-prefixed addresses for the model's numbering")
		}
	} else {
		v = x.nextUser
		x.nextUser++
	}
	x.addr[a] = v
	return v
}
func (x *IDs) Zts(z types.ZenonTokenStandard) int64 {
	if v, ok := x.zts[z]; ok {
		return v
	}
	v := x.nextZts
	x.nextZts++
	x.zts[z] = v
	return v
}
func (x *IDs) Hash(h types.Hash) int64 {
	if h.IsZero() {
		return 0
	}
	if v, ok := x.hash[h]; ok {
		return v
	}
	v := x.nextHash
	x.nextHash++
	x.hash[h] = v
	return v
}

// SendRec / RecvRec: what a ledger scan finds.
type SendRec struct {
	Block     *nom.AccountBlock
	Confirmed bool
}
type RecvRec struct {
	Block     *nom.AccountBlock
	Confirmed bool
}

// Scan is a full picture of the ledger at one moment.
type Scan struct {
	Pool     bool // includes the unconfirmed pool
	Height   uint64
	Accounts []types.Address
	Bal      map[types.Address]map[types.ZenonTokenStandard]*big.Int
	Tokens   []*definition.TokenInfo
	Sends    []SendRec // confirmation order, then pool order
	Recvs    []RecvRec // same order
	// derived
	ReceivedBy map[types.Hash][]*nom.AccountBlock // send hash -> receiving blocks
	SendByHash map[types.Hash]*nom.AccountBlock
}

// Scanner keeps the confirmed part of the chain cached per momentum (validated by hash, so rollbacks are safe).
type Scanner struct {
	ch       chain.Chain
	momHash  []types.Hash          // index = height-1
	momBlks  [][]*nom.AccountBlock // blocks of that momentum in content order (batched ContractSend included)
	Accounts map[types.Address]bool
}

func NewScanner(nd *Node) *Scanner { return NewScannerOf(nd.Ch) }

// NewScannerOf scans any chain (mock node, bare node fed through the chain bridge).
func NewScannerOf(ch chain.Chain) *Scanner {
	s := &Scanner{ch: ch, Accounts: map[types.Address]bool{}}
	for _, c := range types.EmbeddedContracts {
		s.Accounts[c] = true
	}
	for _, kp := range g.AllKeyPairs {
		s.Accounts[kp.Address] = true
	}
	return s
}

func (s *Scanner) refresh(ms store.Momentum) {
	h := ms.Identifier().Height
	// drop cached entries that are no longer on the chain
	n := uint64(len(s.momHash))
	if n > h {
		n = h
	}
	for n > 0 {
		m, err := ms.GetMomentumByHeight(n)
		if err != nil {
			panic(err)
		}
		if m.Hash == s.momHash[n-1] {
			break
		}
		n--
	}
	s.momHash = s.momHash[:n]
	s.momBlks = s.momBlks[:n]
	for i := n + 1; i <= h; i++ {
		m, err := ms.GetMomentumByHeight(i)
		if err != nil {
			panic(err)
		}
		blks := make([]*nom.AccountBlock, 0, len(m.Content))
		for _, hd := range m.Content {
			b, err := ms.GetAccountBlock(*hd)
			if err != nil || b == nil {
				panic(fmt.Sprintf("momentum %d lists %v but the block is not in the store: %v", i, hd, err))
			}
			blks = append(blks, b)
		}
		s.momHash = append(s.momHash, m.Hash)
		s.momBlks = append(s.momBlks, blks)
	}
}

// BlocksOfMomentum returns the cached blocks of the momentum at the given height (content order).
func (s *Scanner) BlocksOfMomentum(height uint64) []*nom.AccountBlock { return s.momBlks[height-1] }

// PoolBlocks returns the unconfirmed blocks, per account in chain order (accounts in a fixed order).
func (s *Scanner) PoolBlocks() []*nom.AccountBlock {
	all := s.ch.GetAllUncommittedAccountBlocks()
	by := map[types.Address][]*nom.AccountBlock{}
	var addrs []types.Address
	for _, b := range all {
		if _, ok := by[b.Address]; !ok {
			addrs = append(addrs, b.Address)
		}
		by[b.Address] = append(by[b.Address], b)
	}
	sort.Slice(addrs, func(i, j int) bool { return addrs[i].String() < addrs[j].String() })
	var res []*nom.AccountBlock
	for _, a := range addrs {
		l := by[a]
		sort.Slice(l, func(i, j int) bool { return l[i].Height < l[j].Height })
		res = append(res, l...)
	}
	return res
}

func (s *Scanner) note(b *nom.AccountBlock) {
	s.Accounts[b.Address] = true
	if b.IsSendBlock() {
		s.Accounts[b.ToAddress] = true
	}
}

// Scan walks the whole ledger: every momentum's content (cached), optionally the pool, every account's balance map,
// the token table of the token contract.
func (s *Scanner) Scan(pool bool) *Scan {
	ms := s.ch.GetFrontierMomentumStore()
	s.refresh(ms)
	sc := &Scan{Pool: pool, Height: ms.Identifier().Height, Bal: map[types.Address]map[types.ZenonTokenStandard]*big.Int{},
		ReceivedBy: map[types.Hash][]*nom.AccountBlock{}, SendByHash: map[types.Hash]*nom.AccountBlock{}}
	add := func(b *nom.AccountBlock, confirmed bool) {
		s.note(b)
		if b.IsSendBlock() {
			sc.Sends = append(sc.Sends, SendRec{b, confirmed})
			sc.SendByHash[b.Hash] = b
		} else if b.BlockType != nom.BlockTypeGenesisReceive {
			sc.Recvs = append(sc.Recvs, RecvRec{b, confirmed})
			sc.ReceivedBy[b.FromBlockHash] = append(sc.ReceivedBy[b.FromBlockHash], b)
		}
	}
	for _, blks := range s.momBlks {
		for _, b := range blks {
			add(b, true)
		}
	}
	if pool {
		for _, b := range s.PoolBlocks() {
			add(b, false)
		}
	}
	for a := range s.Accounts {
		sc.Accounts = append(sc.Accounts, a)
	}
	sort.Slice(sc.Accounts, func(i, j int) bool { return sc.Accounts[i].String() < sc.Accounts[j].String() })
	for _, a := range sc.Accounts {
		var as store.Account
		if pool {
			as = s.ch.GetFrontierAccountStore(a)
		} else {
			as = ms.GetAccountStore(a)
		}
		m, err := as.GetBalanceMap()
		if err != nil {
			panic(err)
		}
		sc.Bal[a] = m
	}
	var tokStore store.Account
	if pool {
		tokStore = s.ch.GetFrontierAccountStore(types.TokenContract)
	} else {
		tokStore = ms.GetAccountStore(types.TokenContract)
	}
	toks, err := definition.GetTokenInfoList(tokStore.Storage())
	if err != nil {
		panic(err)
	}
	sort.Slice(toks, func(i, j int) bool { return toks[i].TokenStandard.String() < toks[j].TokenStandard.String() })
	sc.Tokens = toks
	return sc
}

// InFlight: the send blocks no block receives, in scan order.
func (sc *Scan) InFlight() []SendRec {
	var res []SendRec
	for _, s := range sc.Sends {
		if len(sc.ReceivedBy[s.Block.Hash]) == 0 {
			res = append(res, s)
		}
	}
	return res
}

// SupplyOracle evaluates the statement of C01 on the scan: for every token, total supply = sum of balances + in-flight
// amounts, total <= max, no negative balance; balances only in declared tokens.
func (sc *Scan) SupplyOracle() (bool, M) {
	sum := map[types.ZenonTokenStandard]*big.Int{}
	addTo := func(z types.ZenonTokenStandard, v *big.Int) {
		if _, ok := sum[z]; !ok {
			sum[z] = new(big.Int)
		}
		sum[z].Add(sum[z], v)
	}
	ok := true
	detail := M{"height": sc.Height, "pool": sc.Pool}
	for a, m := range sc.Bal {
		for z, v := range m {
			if v.Sign() < 0 {
				ok = false
				detail["negative-balance"] = fmt.Sprintf("%v %v %v", a, z, v)
			}
			addTo(z, v)
		}
	}
	for _, s := range sc.InFlight() {
		addTo(s.Block.TokenStandard, s.Block.Amount)
	}
	declared := map[types.ZenonTokenStandard]bool{}
	for _, t := range sc.Tokens {
		declared[t.TokenStandard] = true
		have := sum[t.TokenStandard]
		if have == nil {
			have = new(big.Int)
		}
		if have.Cmp(t.TotalSupply) != 0 {
			ok = false
			detail["supply-mismatch"] = fmt.Sprintf("%v recorded=%v balances+inflight=%v", t.TokenStandard, t.TotalSupply, have)
		}
		if t.TotalSupply.Cmp(t.MaxSupply) > 0 {
			ok = false
			detail["above-max"] = fmt.Sprintf("%v total=%v max=%v", t.TokenStandard, t.TotalSupply, t.MaxSupply)
		}
	}
	for z, v := range sum {
		if !declared[z] && z != types.ZeroTokenStandard && v.Sign() != 0 {
			ok = false
			detail["undeclared-token"] = fmt.Sprintf("%v sum=%v", z, v)
		}
	}
	return ok, detail
}

// ReceiveOracle evaluates the statement of C04 on the scan: every send has at most one receiving block, the receiver
// is the send's ToAddress, the send is confirmed, and every contract chain receives in confirmation order without
// skipping or repeating.
func (sc *Scan) ReceiveOracle() (bool, M) {
	ok := true
	detail := M{"height": sc.Height, "pool": sc.Pool}
	for h, l := range sc.ReceivedBy {
		if len(l) > 1 {
			ok = false
			detail["received-twice"] = fmt.Sprintf("%v by %v and %v", h, l[0].Header(), l[1].Header())
		}
		sb := sc.SendByHash[h]
		if sb == nil {
			ok = false
			detail["receive-of-unknown-send"] = fmt.Sprintf("%v by %v", h, l[0].Header())
			continue
		}
		for _, r := range l {
			if r.Address != sb.ToAddress {
				ok = false
				detail["wrong-receiver"] = fmt.Sprintf("%v addressed to %v received by %v", h, sb.ToAddress, r.Address)
			}
		}
	}
	// FIFO per contract: the sequence of FromBlockHash along the contract chain is a prefix of the confirmed sends to it
	inbox := map[types.Address][]types.Hash{}
	for _, s := range sc.Sends {
		if s.Confirmed && types.IsEmbeddedAddress(s.Block.ToAddress) {
			inbox[s.Block.ToAddress] = append(inbox[s.Block.ToAddress], s.Block.Hash)
		}
	}
	got := map[types.Address][]types.Hash{}
	for _, r := range sc.Recvs {
		if types.IsEmbeddedAddress(r.Block.Address) {
			got[r.Block.Address] = append(got[r.Block.Address], r.Block.FromBlockHash)
		}
	}
	for c, l := range got {
		in := inbox[c]
		if len(l) > len(in) {
			ok = false
			detail["fifo-more-receives-than-confirmed"] = fmt.Sprintf("%v", c)
			continue
		}
		for i := range l {
			if l[i] != in[i] {
				ok = false
				detail["fifo-order"] = fmt.Sprintf("%v position %d received %v expected %v", c, i, l[i], in[i])
				break
			}
		}
	}
	return ok, detail
}

// ---- projection into the model's state (coq/theories/Ledger.v), garbage-collected: only unreceived sends, no markers

func tokenTerm(x *IDs, t *definition.TokenInfo) M {
	return Tup(I64(x.Zts(t.TokenStandard)), Con("mkToken", Big(t.TotalSupply), Big(t.MaxSupply), I64(x.Addr(t.Owner)), t.IsMintable, t.IsBurnable))
}
func sendTerm(x *IDs, b *nom.AccountBlock) M {
	return Con("mkSend", I64(x.Hash(b.Hash)), I64(x.Addr(b.Address)), I64(x.Addr(b.ToAddress)), I64(x.Zts(b.TokenStandard)), Big(b.Amount))
}

// StateTerm projects the scan; keep(addr) restricts the balances (nil = all).
func (sc *Scan) StateTerm(x *IDs, keep func(types.Address) bool) M {
	type be struct {
		a, z int64
		v    *big.Int
	}
	var bl []be
	for _, a := range sc.Accounts {
		if keep != nil && !keep(a) {
			continue
		}
		for z, v := range sc.Bal[a] {
			if v.Sign() != 0 {
				bl = append(bl, be{x.Addr(a), x.Zts(z), v})
			}
		}
	}
	sort.Slice(bl, func(i, j int) bool { return bl[i].a < bl[j].a || (bl[i].a == bl[j].a && bl[i].z < bl[j].z) })
	bal := Lst()
	for _, e := range bl {
		bal = append(bal, Tup(Tup(I64(e.a), I64(e.z)), Big(e.v)))
	}
	toks := Lst()
	for _, t := range sc.Tokens {
		toks = append(toks, tokenTerm(x, t))
	}
	sends := Lst()
	conf := Lst()
	for _, s := range sc.InFlight() {
		if keep != nil && !keep(s.Block.Address) && !keep(s.Block.ToAddress) {
			continue
		}
		sends = append(sends, sendTerm(x, s.Block))
		if s.Confirmed {
			conf = append(conf, Tup(I64(x.Addr(s.Block.ToAddress)), I64(x.Hash(s.Block.Hash))))
		}
	}
	return Con("mkState", bal, toks, sends, Lst(), conf, Lst())
}
