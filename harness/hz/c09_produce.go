package hz

import (
	"fmt"
	"time"

	"github.com/zenon-network/go-zenon/chain/nom"
	"github.com/zenon-network/go-zenon/common/types"
	"github.com/zenon-network/go-zenon/vm"
)

// MomentumOnly produces the next momentum from the current pool exactly as pillar/worker_momentum.go does
// (elected producer, +10s), but WITHOUT running the contract worker afterwards: the caller generates the
// contract receive blocks itself (AutoReceive) so that a panic of vm.Supervisor.GenerateAutoReceive - which
// has no recover of its own - can be observed instead of killing the process.
func (n *Node) MomentumOnly() error {
	store := n.Ch.GetFrontierMomentumStore()
	prev, err := store.GetFrontierMomentum()
	if err != nil {
		return err
	}
	t := prev.Timestamp.Add(10 * time.Second)
	expected, err := n.Cs.GetMomentumProducer(t)
	if err != nil {
		return err
	}
	if expected == nil {
		return fmt.Errorf("no producer")
	}
	kp := KeyOf(*expected)
	if kp == nil {
		return fmt.Errorf("no key for producer %v", expected)
	}
	ins := n.Ch.AcquireInsert("zharness momentum-generator")
	blocks := n.Ch.GetNewMomentumContent()
	m := &nom.Momentum{
		ChainIdentifier: n.Ch.ChainIdentifier(),
		PreviousHash:    prev.Hash,
		Height:          prev.Height + 1,
		TimestampUnix:   uint64(t.Unix()),
		Content:         nom.NewMomentumContent(blocks),
		Version:         uint64(1),
	}
	m.EnsureCache()
	tx, err := n.Sv.GenerateMomentum(&nom.DetailedMomentum{Momentum: m, AccountBlocks: blocks}, kp.Signer)
	ins.Unlock()
	if err != nil {
		return err
	}
	ins = n.Ch.AcquireInsert("zharness create-momentum")
	defer ins.Unlock()
	return n.Ch.AddMomentumTransaction(ins, tx)
}

// InboxHead returns the send block at the front of the contract's sequencer queue (nil if empty), as
// pillar/worker_contract_generator.go generateNext reads it.
func (n *Node) InboxHead(contract types.Address) *nom.AccountBlock {
	ms := n.Ch.GetFrontierMomentumStore()
	st := n.Ch.GetFrontierAccountStore(contract)
	h := st.SequencerFront(ms.GetAccountMailbox(contract))
	if h == nil {
		return nil
	}
	b, err := ms.GetAccountBlock(*h)
	if err != nil || b == nil {
		panic(fmt.Sprintf("sequencer head %v not found: %v", h, err))
	}
	return b
}

// AutoReceive calls the producer's entry point under recover.
func (n *Node) AutoReceive(send *nom.AccountBlock) (exec *vm.ContractExecution, err error, panicked interface{}) {
	defer func() {
		if r := recover(); r != nil {
			panicked = r
		}
	}()
	exec, err = n.Sv.GenerateAutoReceive(send)
	return
}
