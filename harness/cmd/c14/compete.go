package main

// The competing-producer interleaving of C14's quantifier: a producing pillar generates its momentum M (insert lock
// taken and released, as pillar.worker.generateMomentum does), the sync inserts a competing momentum M' for the same
// height (ChainBridge.InsertChain, or AddMomentumTransaction directly), accounts go on inserting blocks, and then the
// pillar inserts its own M (broadcaster.CreateMomentum -> AddMomentumTransaction), which the versioned store does not
// apply because its parent is not the frontier any more. Every insert / delete notification of the chain is observed by
// a listener registered through the chain's public Register API (as the RPC subscription server and the consensus
// modules are), which evaluates the statement's clause against the ACTUAL frontier at that moment.

import (
	"fmt"
	"math/rand"
	"time"

	"github.com/zenon-network/go-zenon/chain/nom"
	"github.com/zenon-network/go-zenon/common/types"
	. "zharness/hz"
)

// "the previously pooled blocks that were not confirmed by it and still link": the part of the old pool above the new
// confirmed frontier if it is hash-linked to it, nothing otherwise
func expectedPool(oldPool []*nom.AccountBlock, confirmed []*nom.AccountBlock) []*nom.AccountBlock {
	front := types.HashHeight{}
	if n := len(confirmed); n > 0 {
		front = confirmed[n-1].Identifier()
	}
	var rest []*nom.AccountBlock
	for _, b := range oldPool {
		if b.Height > front.Height {
			rest = append(rest, b)
		}
	}
	if len(rest) > 0 && (rest[0].Height != front.Height+1 || rest[0].PreviousHash != front.Hash) {
		return nil
	}
	return rest
}

type poolListener struct {
	r       *poolRun
	before  map[types.Address]acctView // views before the operation whose notifications are being observed (nil: not tracked)
	inserts int
	deletes int
	stale   int // insert notifications of a momentum that is not the frontier of the store
	nilBlk  int // ... carrying account blocks the store does not have
	context string
	tracing bool // the views of every account are recorded at every notification (reorg.go)
	trace   []map[types.Address]acctView
}

// a panic in a listener unwinds through momentumPool.AddMomentumTransaction while its mutex is released for the
// notification; the deferred Unlock then ends the process ("fatal error: sync: unlock of unlocked mutex"): never let one out
func (l *poolListener) InsertMomentum(d *nom.DetailedMomentum) {
	if p := protect(func() { l.insertMomentum(d) }); p != nil {
		l.r.out.Oracle(false, "pool-readable-at-insert-notification", Tup(fmt.Sprint(p), l.context))
	}
	l.r.progress()
}
func (l *poolListener) insertMomentum(d *nom.DetailedMomentum) {
	l.inserts++
	r := l.r
	if l.tracing {
		l.trace = append(l.trace, r.views())
	}
	fm := FrontierOf(r.nd.Ch)
	applied := fm.Hash == d.Momentum.Hash
	if !applied {
		l.stale++
		for _, b := range d.AccountBlocks {
			if b == nil {
				l.nilBlk++
				break
			}
		}
	}
	if l.before == nil {
		return
	}
	where := l.context
	if !applied {
		where += ":notification-of-a-momentum-that-was-not-applied"
	}
	for _, addr := range r.viewAccounts() {
		u := struct{ Address types.Address }{addr}
		b := l.before[u.Address]
		a := view(r.nd, u.Address)
		if types.IsEmbeddedAddress(addr) {
			// rebuild of a contract's batches: the model's rebuild on the same chain (contract sends flagged)
			k := len(a.confirmed) - len(b.confirmed)
			if k >= 0 && (len(b.pool) > 0 || r.rng.Intn(4) == 0) {
				r.emitStep(b, Con("OMomentum", U64(uint64(k))), 0, a, fmt.Sprintf("contract-momentum-confirms-%d-leaves-%s", min(k, 3), map[bool]string{true: "some-pooled", false: "none"}[len(a.pool) > 0]))
			}
			if len(a.pool) > 0 {
				r.out.Count("pool:contract-batch-stays-unconfirmed-across-a-momentum")
			}
		}
		r.out.Oracle(linkedOnTop(a), "pool-single-linked-chain", Tup(u.Address.String(), I64(int64(len(a.confirmed))), I64(int64(len(a.pool))), where))
		// what is confirmed now is what the store says; measured against it: the previously pooled blocks that were not
		// confirmed and still link, exactly (for a momentum that was not applied nothing got confirmed: the pool is unchanged)
		confirmedFromPool := len(a.confirmed) >= len(b.confirmed) && sameHashes(a.confirmed[:len(b.confirmed)], b.confirmed)
		r.out.Oracle(confirmedFromPool, "confirmed-never-displaced", Tup(u.Address.String(), where))
		want := expectedPool(b.pool, a.confirmed)
		r.out.Oracle(sameHashes(a.pool, want), "pool-after-momentum-event-is-previous-pool-minus-confirmed",
			Tup(u.Address.String(), where, M{"event_momentum": U64(d.Momentum.Height), "frontier": U64(fm.Height), "applied": applied,
				"confirmed_before": I64(int64(len(b.confirmed))), "confirmed_now": I64(int64(len(a.confirmed))),
				"pooled_before": I64(int64(len(b.pool))), "pooled_now": I64(int64(len(a.pool))), "expected": I64(int64(len(want)))}))
		// the rest of the clause, against the store as it is at this moment (pillarrace.go)
		r.clauseNow(addr, a, where)
	}
}

// generate step of a producing pillar on the current frontier: content = the given blocks (pooled, in pool order)
func (r *poolRun) generate(blocks []*nom.AccountBlock, dt int64) (*nom.MomentumTransaction, error) {
	nd := r.nd
	ins := nd.Ch.AcquireInsert("c14 momentum-generator")
	defer ins.Unlock()
	prev := FrontierOf(nd.Ch)
	t := time.Unix(int64(prev.TimestampUnix)+dt, 0)
	exp, err := nd.Cs.GetMomentumProducer(t)
	if err != nil {
		return nil, err
	}
	if exp == nil || KeyOf(*exp) == nil {
		return nil, fmt.Errorf("no producer key")
	}
	m := &nom.Momentum{ChainIdentifier: nd.Ch.ChainIdentifier(), PreviousHash: prev.Hash, Height: prev.Height + 1,
		TimestampUnix: uint64(t.Unix()), Content: nom.NewMomentumContent(blocks), Version: 1}
	m.EnsureCache()
	return nd.Sv.GenerateMomentum(&nom.DetailedMomentum{Momentum: m, AccountBlocks: blocks}, KeyOf(*exp).Signer)
}

// a momentum content out of what the pool offers: per account a prefix of its pooled chain (user accounts: any prefix,
// also none or all; contract accounts: all or nothing, batches stay whole), accounts chosen at random
func pickContent(rng *rand.Rand, offered []*nom.AccountBlock, mode int) []*nom.AccountBlock {
	per := map[types.Address]int{}
	for _, b := range offered {
		per[b.Address]++
	}
	take := map[types.Address]int{}
	for a, n := range per {
		switch {
		case mode == 0: // everything the pool offers
			take[a] = n
		case mode == 1: // nothing
			take[a] = 0
		case types.IsEmbeddedAddress(a):
			take[a] = n * rng.Intn(2)
		default:
			take[a] = []int{0, n, rng.Intn(n + 1)}[rng.Intn(3)]
		}
	}
	var out []*nom.AccountBlock
	seen := map[types.Address]int{}
	for _, b := range offered {
		if seen[b.Address] < take[b.Address] {
			out = append(out, b)
		}
		seen[b.Address]++
	}
	return out
}

func inContent(tx *nom.MomentumTransaction, a types.Address) int {
	n := 0
	for _, h := range tx.Momentum.Content {
		if h.Address == a {
			n++
		}
	}
	return n
}

func (r *poolRun) competingProducers() {
	nd, rng, out, lis := r.nd, r.rng, r.out, r.lis
	// make sure several accounts have pooled blocks (inside / outside either momentum is decided below)
	for _, u := range r.users {
		for i := rng.Intn(3); i > 0; i-- {
			if tx, err := r.craft(u, types.HashHeight{}, uint64(rng.Intn(3))*1000, 0); err == nil {
				nd.Insert(tx)
			}
		}
	}
	offered := nd.Ch.GetNewMomentumContent()
	ownBlocks := pickContent(rng, offered, []int{0, 2, 2, 2}[rng.Intn(4)])
	compBlocks := pickContent(rng, offered, []int{0, 1, 2, 2, 2, 2}[rng.Intn(6)])
	own, err := r.generate(ownBlocks, 10)
	if err != nil {
		out.Oracle(false, "harness-own-momentum-generated", Tup(err.Error()))
		return
	}
	comp, err := r.generate(compBlocks, []int64{10, 10, 20}[rng.Intn(3)])
	if err != nil {
		out.Oracle(false, "harness-competing-momentum-generated", Tup(err.Error()))
		return
	}
	same := own.Momentum.Hash == comp.Momentum.Hash
	parent := FrontierOf(nd.Ch)

	// 1. the sync inserts the competing momentum
	lis.before, lis.context = r.views(), "competing-momentum-inserted-by-sync"
	before := lis.before
	viaBridge := rng.Intn(2) == 0
	if viaBridge {
		_, err = BridgeOf(nd).InsertChain([]*nom.DetailedMomentum{WireCopy(&nom.DetailedMomentum{Momentum: comp.Momentum, AccountBlocks: compBlocks})})
	} else {
		err = AddMomentum(nd.Ch, comp)
	}
	if err != nil {
		out.Oracle(false, "competing-momentum-accepted", Tup(err.Error(), viaBridge))
		lis.before = nil
		return
	}
	fm := FrontierOf(nd.Ch)
	out.Oracle(fm.Hash == comp.Momentum.Hash && fm.PreviousHash == parent.Hash, "frontier-is-the-applied-momentum", Tup("after the competing momentum", U64(fm.Height)))
	r.what = "competing momentum inserted by sync"
	after := r.checkAll(before, types.Address{}, false)
	for _, u := range r.users {
		b, a := before[u.Address], after[u.Address]
		k := inContent(comp, u.Address)
		ok := k <= len(b.pool) && sameHashes(a.pool, b.pool[k:]) && len(a.confirmed) == len(b.confirmed)+k && sameHashes(a.confirmed[len(b.confirmed):], b.pool[:k])
		out.Oracle(ok, "rebuild-exact", Tup(u.Address.String(), I64(int64(k)), I64(int64(len(b.pool))), I64(int64(len(a.pool))), "competing momentum"))
		r.emitStep(b, Con("OMomentum", U64(uint64(k))), 0, a, fmt.Sprintf("competing-momentum-confirms-%d-leaves-%s", min(k, 3), map[bool]string{true: "some-pooled", false: "none"}[len(a.pool) > 0]))
	}

	// 2. accounts go on in the meantime (on top of blocks that are inside / outside either momentum)
	lis.before = nil
	for _, u := range r.users {
		if rng.Intn(2) == 0 {
			if tx, err := r.craft(u, types.HashHeight{}, uint64(rng.Intn(3))*1000, []int{0, 10}[rng.Intn(2)]); err == nil {
				nd.Insert(tx)
			}
		}
	}

	// 3. the pillar inserts its own momentum: not applied by the store (unless it is the very same momentum)
	lis.before, lis.context = r.views(), "own-momentum-inserted-after-the-competing-one"
	before = lis.before
	staleBefore := lis.stale
	pnc := protect(func() { err = AddMomentum(nd.Ch, own) })
	lis.before = nil
	if pnc != nil {
		out.Oracle(false, "late-own-momentum-insert-panics", Tup(fmt.Sprint(pnc), r.subscribed))
	}
	fm2 := FrontierOf(nd.Ch)
	out.Oracle(fm2.Hash == comp.Momentum.Hash && nd.FrontierHeight() == parent.Height+1, "frontier-is-the-applied-momentum",
		Tup("after the late own momentum", U64(fm2.Height), fmt.Sprint(err)))
	r.what = "own momentum inserted after the competing one (not applied)"
	after = r.checkAll(before, types.Address{}, true)
	for _, u := range r.users {
		b, a := before[u.Address], after[u.Address]
		inOwn, inComp := inContent(own, u.Address), inContent(comp, u.Address)
		tag := fmt.Sprintf("late-own-momentum:account-in-own=%v:in-competing=%v:pooled=%v", inOwn > 0, inComp > 0, len(b.pool) > 0)
		out.Count("pool:" + tag)
		// nothing was confirmed by a momentum that the store did not apply: the pool holds exactly what it held
		out.Oracle(sameHashes(a.pool, b.pool) && sameHashes(a.confirmed, b.confirmed), "rebuild-exact", Tup(u.Address.String(), tag, I64(int64(len(b.pool))), I64(int64(len(a.pool)))))
		r.emitStep(b, Con("OMomentum", U64(0)), 0, a, "late-own-momentum-not-applied")
	}
	switch {
	case same:
		out.Count("pool:compete-momentum:identical-momentums")
	case lis.stale > staleBefore:
		out.Count("pool:compete-momentum:notification-for-not-applied-momentum")
	default:
		out.Count("pool:compete-momentum:no-notification-for-not-applied-momentum")
	}
	if viaBridge {
		out.Count("pool:compete-momentum:via-InsertChain")
	} else {
		out.Count("pool:compete-momentum:via-AddMomentumTransaction")
	}

	// 4. and the chain goes on: the next momentum of the node confirms what is pooled
	if rng.Intn(2) == 0 {
		lis.before, lis.context = r.views(), "momentum-after-the-competition"
		before = lis.before
		nd.Momentum()
		lis.before = nil
		fm3 := FrontierOf(nd.Ch)
		out.Oracle(fm3.Height == parent.Height+2 && fm3.PreviousHash == comp.Momentum.Hash, "node-keeps-producing-after-competing-momentum", Tup(U64(fm3.Height)))
		r.what = "momentum after the competition"
		after = r.checkAll(before, types.Address{}, false)
		for _, u := range r.users {
			b, a := before[u.Address], after[u.Address]
			k := 0
			for _, hd := range fm3.Content {
				if hd.Address == u.Address {
					k++
				}
			}
			ok := k <= len(b.pool) && sameHashes(a.pool, b.pool[k:]) && len(a.confirmed) == len(b.confirmed)+k && sameHashes(a.confirmed[len(b.confirmed):], b.pool[:k])
			out.Oracle(ok, "rebuild-exact", Tup(u.Address.String(), I64(int64(k)), I64(int64(len(b.pool))), I64(int64(len(a.pool))), "momentum after the competition"))
			// everything pooled by a user account is offered (well below the per-momentum limit here)
			if len(offeredBy(before, r.users)) <= 50 {
				out.Oracle(k == len(b.pool), "pooled-blocks-are-offered-for-the-next-momentum", Tup(u.Address.String(), I64(int64(k)), I64(int64(len(b.pool)))))
			}
		}
	}
}

func offeredBy(v map[types.Address]acctView, users interface{}) []*nom.AccountBlock {
	var l []*nom.AccountBlock
	for _, x := range v {
		l = append(l, x.pool...)
	}
	return l
}
