package main

import (
	"bufio"
	"bytes"
	"fmt"
	"math/big"
	"math/rand"
	"os"
	"os/exec"
	"path/filepath"
	"strings"
	"sync"
	"sync/atomic"
	"time"

	"github.com/zenon-network/go-zenon/chain"
	g "github.com/zenon-network/go-zenon/chain/genesis/mock"
	"github.com/zenon-network/go-zenon/chain/nom"
	"github.com/zenon-network/go-zenon/chain/store"
	"github.com/zenon-network/go-zenon/common/types"
	"github.com/zenon-network/go-zenon/rpc/api"
	"github.com/zenon-network/go-zenon/vm/constants"
	"github.com/zenon-network/go-zenon/wallet"
	. "zharness/hz"
)

func plasmaVal(rng *rand.Rand) uint64 {
	switch rng.Intn(6) {
	case 0:
		return uint64(rng.Intn(3))
	case 1:
		return constants.AccountBlockBasePlasma + uint64(rng.Intn(100000))
	case 2:
		return constants.MaxPlasmaForAccountBlock - uint64(rng.Intn(3))
	case 3:
		return uint64(rng.Int63n(int64(constants.MaxPlasmaForAccountBlock) + 1))
	}
	return BoundaryU64(rng) // beyond the per-block cap: the products wrap
}

func runPriority(rng *rand.Rand, n int, out *Out, _ []string) {
	cls := func(e error) int64 { return errClassPool(e) }
	for i := 0; i < n; i++ {
		a := &nom.AccountBlock{TotalPlasma: plasmaVal(rng), BasePlasma: plasmaVal(rng)}
		b := &nom.AccountBlock{TotalPlasma: plasmaVal(rng), BasePlasma: plasmaVal(rng)}
		tag := "random"
		switch rng.Intn(5) {
		case 0: // equal ratio by construction
			k := uint64(1 + rng.Intn(5))
			b.TotalPlasma, b.BasePlasma = a.TotalPlasma*k, a.BasePlasma*k
			tag = "equal-ratio"
		case 1:
			b.TotalPlasma, b.BasePlasma = a.TotalPlasma, a.BasePlasma
			tag = "same-plasma"
		case 2:
			a.BasePlasma, b.BasePlasma = 0, 0
			tag = "zero-base"
		}
		rng.Read(a.Hash[:])
		rng.Read(b.Hash[:])
		switch rng.Intn(5) {
		case 0:
			b.Hash = a.Hash
			tag += "+same-hash"
		case 1: // differ only in the last byte / first byte
			b.Hash = a.Hash
			b.Hash[[]int{0, 31}[rng.Intn(2)]] ^= byte(1 + rng.Intn(255))
		}
		ab, ba := cls(chain.VerifHigherPriority(a, b)), cls(chain.VerifHigherPriority(b, a))
		in := func(x, y *nom.AccountBlock) M {
			return Tup(Tup(U64(x.TotalPlasma), U64(x.BasePlasma), Big(hashZ(x.Hash))), Tup(U64(y.TotalPlasma), U64(y.BasePlasma), Big(hashZ(y.Hash))))
		}
		out.Case("higher_priority", in(a, b), I64(ab), tag)
		out.Case("higher_priority", in(b, a), I64(ba), tag)
		out.Oracle(!(ab == 0 && ba == 0), "priority-antisymmetric", in(a, b))
		if a.Hash != b.Hash {
			out.Oracle(ab == 0 || ba == 0, "priority-total-for-distinct-hashes", in(a, b))
		}
		// under the cap: decided by the true ratio, then the smaller hash
		cap := uint64(constants.MaxPlasmaForAccountBlock)
		if a.TotalPlasma <= cap && a.BasePlasma <= cap && b.TotalPlasma <= cap && b.BasePlasma <= cap {
			l := new(big.Int).Mul(new(big.Int).SetUint64(a.TotalPlasma), new(big.Int).SetUint64(b.BasePlasma))
			r := new(big.Int).Mul(new(big.Int).SetUint64(b.TotalPlasma), new(big.Int).SetUint64(a.BasePlasma))
			want := l.Cmp(r) > 0 || (l.Cmp(r) == 0 && bytes.Compare(a.Hash[:], b.Hash[:]) < 0)
			out.Oracle((ab == 0) == want, "priority-is-ratio-then-smaller-hash", in(a, b))
		}
	}
	// momentum content filter
	for i := 0; i < n/4+1; i++ {
		var blocks []*nom.AccountBlock
		types_ := Lst()
		total := []int{0, 1, 5, 99, 100, 101, 150, 400}[rng.Intn(8)]
		for len(blocks) < total {
			run := []int{0, 0, 0, 1, 2, 5, 50, 98, 99, 100, 101, 150}[rng.Intn(12)]
			for j := 0; j < run && len(blocks) < total; j++ {
				blocks = append(blocks, &nom.AccountBlock{BlockType: nom.BlockTypeContractSend, Height: uint64(len(blocks))})
			}
			if len(blocks) < total || rng.Intn(2) == 0 {
				blocks = append(blocks, &nom.AccountBlock{BlockType: []uint64{nom.BlockTypeUserSend, nom.BlockTypeUserReceive, nom.BlockTypeContractReceive}[rng.Intn(3)], Height: uint64(len(blocks))})
			}
		}
		for _, b := range blocks {
			types_ = append(types_, b.BlockType == nom.BlockTypeContractSend)
		}
		res := chain.VerifFilterBlocksToCommit(blocks)
		out.Case("filter_to_commit", types_, I64(int64(len(res))), fmt.Sprintf("len<=%d", total))
		prefix := len(res) <= len(blocks)
		for j := range res {
			prefix = prefix && res[j] == blocks[j]
		}
		out.Oracle(prefix, "content-is-prefix", Tup(I64(int64(len(blocks))), I64(int64(len(res)))))
		out.Oracle(len(res) <= chain.MaxAccountBlocksInMomentum, "momentum-content-within-limit", Tup(I64(int64(len(res)))))
		out.Oracle(len(res) == 0 || res[len(res)-1].BlockType != nom.BlockTypeContractSend, "momentum-content-whole-batches", Tup(I64(int64(len(res)))))
		// maximal: the next complete batch, if any, would not fit
		next := -1
		for j := len(res); prefix && j < len(blocks); j++ {
			if blocks[j].BlockType != nom.BlockTypeContractSend {
				next = j + 1
				break
			}
		}
		out.Oracle(next == -1 || next > chain.MaxAccountBlocksInMomentum, "content-is-maximal", Tup(I64(int64(len(res))), I64(int64(next))))
	}
}

// ---- concurrency clause: exploration under the race detector
func runRace(rng *rand.Rand, n int, out *Out, _ []string) {
	exe, _ := os.Executable()
	root := filepath.Dir(filepath.Dir(filepath.Dir(exe))) // <verif>/.build/bin/c14 -> <verif>
	bin := filepath.Join(root, ".build", "bin", "c14race")
	build := exec.Command("go", "build", "-race", "-tags", "verif", "-o", bin, "./cmd/c14")
	build.Dir = filepath.Join(root, "harness")
	build.Env = append(os.Environ(), "GOFLAGS=-mod=mod", "GOPROXY=off", "GOSUMDB=off", "GOTOOLCHAIN=local", "CGO_ENABLED=1")
	if b, err := build.CombinedOutput(); err != nil {
		out.Count("race:build-unavailable")
		fmt.Fprintln(os.Stderr, "race build failed:", err, string(b))
		return
	}
	tmp, _ := os.CreateTemp("", "c14race*.jsonl")
	tmp.Close()
	defer os.Remove(tmp.Name())
	cmd := exec.Command(bin, "race-child", "-seed", fmt.Sprint(rng.Int63()), "-n", fmt.Sprint(n), "-out", tmp.Name())
	var stderr bytes.Buffer
	cmd.Stderr = &stderr
	cmd.Env = append(os.Environ(), "GORACE=halt_on_error=0 exitcode=0")
	err := cmd.Run()
	races := strings.Count(stderr.String(), "WARNING: DATA RACE")
	out.Count(fmt.Sprintf("race:data-race-reports=%d", races))
	first := ""
	if races > 0 {
		// first report, for the evidence log and the replay
		s := stderr.String()
		i := strings.Index(s, "WARNING: DATA RACE")
		first = s[i:minInt(len(s), i+3000)]
		fmt.Fprintln(os.Stderr, first)
	}
	// the statement's own words: "there are no data races" (readers of the pool against the inserting goroutine and
	// against each other); the unchanged tree runs this suite without a single report
	out.Oracle(races == 0, "no-data-race-between-pool-readers-and-writer", Tup(I64(int64(races)), first))
	if strings.Contains(stderr.String(), "fatal error: concurrent map") {
		out.Oracle(false, "no-data-race-between-pool-readers-and-writer", Tup("fatal error: concurrent map access"))
	}
	out.Oracle(err == nil, "race-run-completes", Tup(fmt.Sprint(err)))
	if f, e := os.Open(tmp.Name()); e == nil {
		sc := bufio.NewScanner(f)
		sc.Buffer(make([]byte, 1<<20), 16<<20)
		for sc.Scan() {
			line := sc.Text()
			if strings.Contains(line, `"k":"oracle"`) {
				// a failing oracle of the child keeps its key
				for _, key := range []string{"reader-sees-linked-chain", "held-pool-view-unchanged"} {
					if strings.Contains(line, `"key":"`+key+`"`) {
						out.Oracle(false, key, line)
					}
				}
			}
			if strings.Contains(line, `"k":"dist"`) {
				for _, key := range []string{"oracle:reader-sees-linked-chain", "oracle:held-pool-view-unchanged", "race:reader-observations", "race:writer-ops"} {
					if j := strings.Index(line, `"`+key+`":`); j >= 0 {
						var c int
						fmt.Sscanf(line[j+len(key)+3:], "%d", &c)
						for x := 0; x < c && x < 1000000; x++ {
							out.Count(key)
						}
					}
				}
			}
		}
		f.Close()
	}
}

func minInt(a, b int) int {
	if a < b {
		return a
	}
	return b
}

func runRaceChild(rng *rand.Rand, n int, out *Out, _ []string) {
	nd := NewNode()
	defer nd.Stop()
	r := &poolRun{nd: nd, rng: rng, out: out, users: []*wallet.KeyPair{g.User1, g.User2, g.User3}}
	ledger := api.NewLedgerApi(nd.Z)
	var stop int32
	var wg sync.WaitGroup
	var mu sync.Mutex
	// accounts the pool has no manager for yet (every first read or patch lookup of an account creates one)
	others := []types.Address{g.User4.Address, g.User5.Address, g.User6.Address, g.User7.Address, g.User8.Address, g.User9.Address, g.User10.Address,
		g.Pillar1.Address, g.Pillar2.Address, g.Pillar3.Address, types.TokenContract, types.PillarContract, types.PlasmaContract}
	wg.Add(1)
	go func() {
		defer wg.Done()
		for i := 0; atomic.LoadInt32(&stop) == 0; i++ {
			a := others[i%len(others)]
			_ = nd.Ch.GetFrontierAccountStore(a).Identifier()
			_ = nd.Ch.GetUncommittedAccountBlocksByAddress(a)
			time.Sleep(150 * time.Microsecond)
		}
	}()
	for w := 0; w < 4; w++ {
		wg.Add(1)
		go func(w int) {
			defer wg.Done()
			for atomic.LoadInt32(&stop) == 0 {
				addr := r.users[w%3].Address
				// a reader of the pool: what it sees must be a linked chain (no half-applied block)
				pool := nd.Ch.GetUncommittedAccountBlocksByAddress(addr)
				ok := true
				for i := 1; i < len(pool); i++ {
					ok = ok && pool[i].Previous() == pool[i-1].Identifier()
				}
				fr := nd.Ch.GetFrontierAccountStore(addr)
				_ = fr.Identifier()
				if w == 1 || w == 2 {
					// a reader that holds the view it was given while the inserter goes on: read in full, wait, read again
					id := fr.Identifier()
					var hv store.Account = fr
					if w == 2 && len(pool) > 1 {
						id = pool[rand.Intn(len(pool))].Identifier() // a view of an earlier unconfirmed version
						hv = nd.Ch.GetAccountStore(addr, id)
					}
					if hv != nil {
						first := dumpAccount(hv)
						time.Sleep(300 * time.Microsecond)
						second := dumpAccount(hv)
						same := first == second && hv.Identifier() == id
						mu.Lock()
						d := M{}
						if !same {
							d = M{"account": addr.String(), "block_height": U64(id.Height), "view_frontier_height": U64(hv.Identifier().Height), "difference": firstDiff(first, second)}
						}
						out.Oracle(same, "held-pool-view-unchanged", d)
						mu.Unlock()
					}
				}
				if w == 3 {
					l, err := ledger.GetUnconfirmedBlocksByAddress(addr, 0, 50)
					ok = ok && (err != nil || l.Count >= 0)
					_ = nd.Ch.GetNewMomentumContent
				}
				mu.Lock()
				out.Oracle(ok, "reader-sees-linked-chain", Tup(addr.String()))
				out.Count("race:reader-observations")
				mu.Unlock()
				time.Sleep(200 * time.Microsecond)
			}
		}(w)
	}
	for s := 0; s < n; s++ {
		u := r.users[rng.Intn(3)]
		switch rng.Intn(12) {
		case 0, 1:
			nd.Momentum()
		case 10:
			// the gossip entry of the product (the chain bridge looks the block up in the pool under the insert lock)
			if tx, err := r.craft(u, types.HashHeight{}, uint64(rng.Intn(2000)), 0); err == nil {
				func() {
					defer func() { recover() }()
					BridgeOf(nd).AddAccountBlocks([]*nom.AccountBlock{tx.Block})
				}()
			}
		case 11:
			// patch lookups under the insert lock, as the chain bridge makes them, also for accounts without a manager
			ins := nd.Ch.AcquireInsert("race-lookup")
			for k := 0; k < 3; k++ {
				a := others[rng.Intn(len(others))]
				_ = nd.Ch.GetPatch(a, nd.Ch.GetFrontierAccountStore(a).Identifier())
			}
			ins.Unlock()
		case 2:
			v := view(nd, u.Address)
			if len(v.pool) > 0 {
				inc := v.pool[rng.Intn(len(v.pool))]
				if tx, err := r.craft(u, inc.Previous(), uint64(rng.Intn(40000)), len(inc.Data)); err == nil {
					ins := nd.Ch.AcquireInsert("race")
					nd.Ch.ForceAddAccountBlockTransaction(ins, tx)
					ins.Unlock()
				}
			}
		default:
			if tx, err := r.craft(u, types.HashHeight{}, uint64(rng.Intn(2000)), 0); err == nil {
				nd.Insert(tx)
			}
		}
		mu.Lock()
		out.Count("race:writer-ops")
		mu.Unlock()
	}
	atomic.StoreInt32(&stop, 1)
	wg.Wait()
}
