package main

// Competitors and forced inserts for CONTRACT accounts at every unconfirmed height, with batches above and below.
// A contract's batch (ContractSend descendants + the ContractReceive that carries them) is ONE transaction of the
// account's version manager and spans several heights: one Pop removes all of it. The pooled chain of a contract is
// built here out of 2..6 transactions with 0..5 descendants each (well-formed blocks put straight into the pool: the
// pool does not verify), on top of a confirmed part that for the token contract consists of real confirmed batches. Then
// ONE candidate transaction is offered - a receive without descendants or a batch with 1..5 descendants - whose parent
// is the block at any height of the account: the confirmed frontier, the last block of any pooled transaction (a batch
// boundary: the candidate competes with the first block of the transaction above), a descendant send inside a batch
// (no version of the account ends there: the candidate is bogus), confirmed heights, heights beyond the frontier, a wrong
// parent hash; plasma ratio better / equal / worse than the block it competes with (equal: the hash decides), forced
// or not. The pool is emptied (a momentum inserted and rolled back) and rebuilt for every candidate, so every
// unconfirmed height sees candidates with batches above AND below it.
// Oracle replacement-follows-priority-rule: the winner by (plasma ratio, then smaller hash) - or the forced block -
// replaces exactly the pooled blocks from its first height up: the pool afterwards is the pooled blocks below the
// fork point plus the winner's transaction; a loser, a known block and a bogus candidate change nothing.
// Every step is replayed on the model (pool_step, op OAddTx: transactions as units of the pop loop).

import (
	"fmt"
	"math/big"
	"math/rand"
	"os"

	g "github.com/zenon-network/go-zenon/chain/genesis/mock"
	"github.com/zenon-network/go-zenon/chain/nom"
	"github.com/zenon-network/go-zenon/common/db"
	"github.com/zenon-network/go-zenon/common/types"
	"github.com/zenon-network/go-zenon/vm"
	"github.com/zenon-network/go-zenon/vm/constants"
	"github.com/zenon-network/go-zenon/vm/embedded/definition"
	"github.com/zenon-network/go-zenon/vm/vm_context"
	"github.com/zenon-network/go-zenon/wallet"
	. "zharness/hz"
)

func runBatches(rng *rand.Rand, n int, out *Out, _ []string) {
	for i := 0; i < n; i++ {
		batchExperiment(rng, out)
		realContractRace(rng, out)
		syncAgainstPooledReceive(rng, out)
	}
}

// a well-formed transaction of a contract on top of prev: `sends` descendant sends and the receive that carries them
func synthTx(nd *Node, rng *rand.Rand, contract types.Address, prev types.HashHeight, sends int, total, base uint64) *nom.AccountBlockTransaction {
	ack := FrontierOf(nd.Ch).Identifier()
	desc := make([]*nom.AccountBlock, 0, sends)
	for i := 0; i < sends; i++ {
		s := &nom.AccountBlock{Version: 1, ChainIdentifier: nd.Ch.ChainIdentifier(), BlockType: nom.BlockTypeContractSend, PreviousHash: prev.Hash, Height: prev.Height + 1,
			MomentumAcknowledged: ack, Address: contract, ToAddress: g.User1.Address, Amount: big.NewInt(int64(1 + rng.Intn(1000000))), TokenStandard: types.ZnnTokenStandard}
		s.Hash = s.ComputeHash()
		prev = s.Identifier()
		desc = append(desc, s)
	}
	rcv := &nom.AccountBlock{Version: 1, ChainIdentifier: nd.Ch.ChainIdentifier(), BlockType: nom.BlockTypeContractReceive, PreviousHash: prev.Hash, Height: prev.Height + 1,
		MomentumAcknowledged: ack, Address: contract, Amount: big.NewInt(0), DescendantBlocks: desc, TotalPlasma: total, BasePlasma: base}
	rng.Read(rcv.FromBlockHash[:])
	rcv.Hash = rcv.ComputeHash()
	return &nom.AccountBlockTransaction{Block: rcv, Changes: db.NewPatch()}
}

func txBlocks(tx *nom.AccountBlockTransaction) []*nom.AccountBlock {
	return append(append([]*nom.AccountBlock{}, tx.Block.DescendantBlocks...), tx.Block)
}

func txTerm(force bool, tx *nom.AccountBlockTransaction) M {
	return Con("OAddTx", force, blocksTerm(tx.Block.DescendantBlocks), blockTerm(tx.Block))
}

func ratioCmp(a, b *nom.AccountBlock) int {
	l := new(big.Int).Mul(new(big.Int).SetUint64(a.TotalPlasma), new(big.Int).SetUint64(b.BasePlasma))
	r := new(big.Int).Mul(new(big.Int).SetUint64(b.TotalPlasma), new(big.Int).SetUint64(a.BasePlasma))
	return l.Cmp(r)
}

type txExpectation struct {
	kind  string // fast-forward | already | bogus | inside-batch | replace | lose-ratio | lose-tie | batch
	below int    // pooled blocks that stay (replace)
	at    int    // pooled position (1-based) of the first contested height
}

// what the statement demands for a candidate transaction offered to an account in state bv
func expectTx(bv acctView, tx *nom.AccountBlockTransaction, force bool) txExpectation {
	all := append(append([]*nom.AccountBlock{}, bv.confirmed...), bv.pool...)
	nc := uint64(len(bv.confirmed))
	frontier := types.HashHeight{}
	if n := len(all); n > 0 {
		frontier = all[n-1].Identifier()
	}
	fork := tx.Block.Previous()
	rcv := tx.Block
	if fork == frontier {
		return txExpectation{kind: "fast-forward"}
	}
	if h := rcv.Height; h >= 1 && h <= uint64(len(all)) && all[h-1].Hash == rcv.Hash {
		return txExpectation{kind: "already"}
	}
	// the fork point must be a block of the account that is not below the confirmed frontier - or, for an account without
	// confirmed blocks, the empty account-chain (zero hash-height: a competitor for the account's FIRST block, /repo 417e0a5)
	emptyChain := fork == (types.HashHeight{}) && nc == 0 && len(all) > 0
	if !emptyChain && (fork.Height < nc || fork.Height < 1 || fork.Height >= uint64(len(all)) || all[fork.Height-1].Hash != fork.Hash) {
		return txExpectation{kind: "bogus"}
	}
	at := int(fork.Height-nc) + 1
	// ... and a version of the account: the confirmed frontier or the last block of a pooled transaction
	if fork.Height > nc && all[fork.Height-1].BlockType == nom.BlockTypeContractSend {
		return txExpectation{kind: "inside-batch", at: at}
	}
	if len(rcv.DescendantBlocks) > 0 {
		return txExpectation{kind: "batch", below: int(fork.Height - nc), at: at}
	}
	inc := all[fork.Height] // the block at the candidate's height
	c := ratioCmp(rcv, inc)
	switch {
	case force || c > 0 || (c == 0 && hashZ(rcv.Hash).Cmp(hashZ(inc.Hash)) < 0):
		return txExpectation{kind: "replace", below: int(fork.Height - nc), at: at}
	case c < 0:
		return txExpectation{kind: "lose-ratio", at: at}
	}
	return txExpectation{kind: "lose-tie", at: at}
}

type batchRun struct {
	*poolRun
	observedInside bool
	observedBatch  bool
}

func (r *batchRun) addTx(tx *nom.AccountBlockTransaction, force bool) (e error, pnc interface{}) {
	ins := r.nd.Ch.AcquireInsert("c14 batches")
	defer ins.Unlock()
	pnc = protect(func() {
		if force {
			e = r.nd.Ch.ForceAddAccountBlockTransaction(ins, tx)
		} else {
			e = r.nd.Ch.AddAccountBlockTransaction(ins, tx)
		}
	})
	return
}

// empty the pool: the managers are dropped by a delete notification
func (r *batchRun) emptyPool() bool {
	nd := r.nd
	h := nd.FrontierHeight()
	tx, err := r.generate(nil, 10)
	if err == nil {
		err = AddMomentum(nd.Ch, tx)
	}
	if err == nil {
		err = nd.RollbackTo(h)
	}
	if err != nil {
		r.out.Oracle(false, "rollback-accepted", Tup(err.Error(), "batches: emptying the pool"))
		return false
	}
	// after a momentum delete the pool of every account stands on the ledger (reorg.go)
	for _, a := range append(r.allAccounts(), types.EmbeddedContracts[r.rng.Intn(len(types.EmbeddedContracts))]) {
		if !r.clauseAfterDelete(a, "batches: pool emptied by a momentum delete") {
			return false
		}
	}
	return true
}

func shapeOf(pool []*nom.AccountBlock) string {
	s := ""
	for i := 0; i < len(pool); {
		n, _ := batchAt(pool, i)
		if n == 0 {
			n = len(pool) - i
		}
		s += fmt.Sprintf("%d ", n)
		i += n
	}
	return s
}

func batchExperiment(rng *rand.Rand, out *Out) {
	nd := NewNode()
	defer nd.Stop()
	pr := &poolRun{nd: nd, rng: rng, out: out, users: []*wallet.KeyPair{g.User1, g.User2, g.User3}, vk: &viewKeeper{}, sib: map[types.Address][]*sibling{}}
	r := &batchRun{poolRun: pr}
	// a confirmed part made of real batches for the token contract: k issue calls, confirmed, their batches confirmed
	for k := rng.Intn(3); k > 0; k-- {
		b := &nom.AccountBlock{BlockType: nom.BlockTypeUserSend, Address: g.User1.Address, ToAddress: types.TokenContract, TokenStandard: types.ZnnTokenStandard,
			Amount: constants.TokenIssueAmount, Data: definition.ABIToken.PackMethodPanic(definition.IssueMethodName, fmt.Sprintf("tok-%d", k), "TKN", "", big.NewInt(100), big.NewInt(1000), uint8(1), true, true, false)}
		if tx, err := nd.Sv.GenerateFromTemplate(b, g.User1.Signer); err == nil {
			nd.Insert(tx)
		}
	}
	nd.Momentum()
	nd.Momentum()
	nd.Momentum()
	contracts := []types.Address{types.TokenContract, types.TokenContract}
	for _, c := range types.EmbeddedContracts {
		if len(nd.Ch.GetUncommittedAccountBlocksByAddress(c)) == 0 {
			contracts = append(contracts, c)
		}
	}
	if len(nd.Ch.GetUncommittedAccountBlocksByAddress(types.TokenContract)) != 0 {
		out.Count("batches:token-contract-still-has-pooled-blocks")
		contracts = contracts[2:]
	}
	for trial := 0; trial < 40; trial++ {
		c := contracts[rng.Intn(len(contracts))]
		if len(nd.Ch.GetUncommittedAccountBlocksByAddress(c)) != 0 {
			if !r.emptyPool() {
				return
			}
		}
		// the pooled chain: T transactions
		T := 2 + rng.Intn(5)
		maxd := []int{1, 2, 5}[rng.Intn(3)]
		built := true
		for i := 0; i < T && built; i++ {
			d := 0
			if rng.Intn(3) != 0 {
				d = 1 + rng.Intn(maxd)
			}
			tx := synthTx(nd, rng, c, nd.Ch.GetFrontierAccountStore(c).Identifier(), d, uint64(rng.Intn(3))*21000, 21000)
			bv := view(nd, c)
			e, pnc := r.addTx(tx, rng.Intn(3) == 0)
			av := view(nd, c)
			ok := e == nil && pnc == nil && len(av.pool) == len(bv.pool)+d+1 && sameHashes(av.pool[len(bv.pool):], txBlocks(tx)) && sameHashes(av.pool[:len(bv.pool)], bv.pool)
			out.Oracle(ok, "fast-forward-accepted", M{"account": c.String(), "transaction_blocks": I64(int64(d + 1)), "error": fmt.Sprint(e), "panic": fmt.Sprint(pnc)})
			if rng.Intn(4) == 0 {
				r.emitStep(bv, txTerm(false, tx), errClassPool(e), av, fmt.Sprintf("contract-fast-forward-transaction-of-%d", min(d+1, 4)))
			}
			built = ok
		}
		if !built {
			continue
		}
		r.candidate(c)
	}
	if r.observedInside {
		// OBSERVATION (design.d/C14.md): a candidate whose parent is a descendant send INSIDE a pooled batch passes canRollback
		// (the block at its height - 1 is that send) but no version of the account ends there: the pop loop runs down to the
		// stable version, fails there, and the account's pool is left EMPTY. Not reachable through the supervisor (the vm
		// regenerates a contract receive on the version the pool hands out for that identifier, which is the version after
		// the whole batch), so outside C14's statement; the model mirrors it (RErrPop, pool dropped).
		out.Count("observation:candidate-forking-inside-a-pooled-batch-empties-the-account-pool")
	}
}

func (r *batchRun) candidate(c types.Address) {
	nd, rng, out := r.nd, r.rng, r.out
	bv := view(nd, c)
	all := append(append([]*nom.AccountBlock{}, bv.confirmed...), bv.pool...)
	nc := len(bv.confirmed)
	// the parent: any height of the account, mostly unconfirmed ones; boundaries = heights at which a version of the
	// account ends (the confirmed frontier, the last block of a pooled transaction below the top one)
	var boundaries, inside []int
	for i := 0; i < len(bv.pool); i++ {
		h := nc + i // the block below pooled position i+1
		if i == 0 || bv.pool[i-1].BlockType != nom.BlockTypeContractSend {
			boundaries = append(boundaries, h)
		} else {
			inside = append(inside, h)
		}
	}
	var ph int
	switch k := rng.Intn(20); {
	case k < 12 && len(boundaries) > 0:
		ph = boundaries[rng.Intn(len(boundaries))]
	case k < 15 && len(inside) > 0:
		ph = inside[rng.Intn(len(inside))]
	case k < 17:
		ph = len(all) // the frontier: fast-forward
	case k < 18 && nc > 0:
		ph = rng.Intn(nc + 1)
	case k < 19:
		ph = len(all) + 1 + rng.Intn(3)
	default:
		ph = nc + rng.Intn(len(bv.pool)+1)
	}
	prev := types.HashHeight{Height: uint64(ph)}
	if ph >= 1 && ph <= len(all) {
		prev.Hash = all[ph-1].Hash
	} else if ph > len(all) {
		rng.Read(prev.Hash[:])
	}
	wrongParent := rng.Intn(16) == 0
	if wrongParent {
		rng.Read(prev.Hash[:])
	}
	d := []int{0, 0, 0, 1, 2, 5}[rng.Intn(6)]
	// plasma relative to the block at the candidate's height
	total, base := uint64(0), uint64(21000)
	rel := rng.Intn(3)
	if h := ph + d + 1; h >= 1 && h <= len(all) {
		inc := all[h-1]
		base = inc.BasePlasma
		switch rel {
		case 0:
			total = inc.TotalPlasma
		case 1:
			total = inc.TotalPlasma + uint64(1+rng.Intn(30000))
		default:
			if inc.TotalPlasma > 0 {
				total = uint64(rng.Int63n(int64(inc.TotalPlasma)))
			}
		}
	}
	tx := synthTx(nd, rng, c, prev, d, total, base)
	force := rng.Intn(3) == 0
	ex := expectTx(bv, tx, force)
	tag := fmt.Sprintf("contract-candidate-%s", ex.kind)
	if d > 0 {
		tag += "-with-descendants"
	}
	if force {
		tag += "-forced"
	}
	// batches above / below the contested height
	above, below := false, false
	for i, b := range bv.pool {
		if b.BlockType == nom.BlockTypeContractSend {
			if i+1 < ex.at {
				below = true
			} else {
				above = true
			}
		}
	}
	if ex.at > 0 {
		out.Count(fmt.Sprintf("batches:candidate-%s:at-pooled-position=%d:batch-below=%v:batch-above=%v", ex.kind, min(ex.at, 6), below, above))
	} else {
		out.Count("batches:candidate-" + ex.kind)
	}
	e, pnc := r.addTx(tx, force)
	out.Oracle(pnc == nil, "pool-add-no-panic", Tup(tag, fmt.Sprint(pnc)))
	if pnc != nil {
		return
	}
	av := view(nd, c)
	r.emitStep(bv, txTerm(force, tx), errClassPool(e), av, tag+fmt.Sprintf("-at-pooled-position-%d", min(ex.at, 4)))
	out.Oracle(linkedOnTop(av), "pool-single-linked-chain", Tup(c.String(), I64(int64(len(av.confirmed))), I64(int64(len(av.pool))), tag))
	out.Oracle(sameHashes(av.confirmed, bv.confirmed), "confirmed-never-displaced", Tup(c.String(), tag))
	r.clauseNow(c, av, tag)
	unchanged := sameHashes(av.pool, bv.pool)
	detail := M{"case": tag, "expected": ex.kind, "error": fmt.Sprint(e), "forced": force, "account": c.String(), "candidate_height": U64(tx.Block.Height), "candidate_descendants": I64(int64(d)),
		"candidate_parent_height": U64(prev.Height), "confirmed": I64(int64(nc)), "pooled_before": I64(int64(len(bv.pool))), "pooled_after": I64(int64(len(av.pool))),
		"pooled_transactions_before": shapeOf(bv.pool), "pooled_transactions_after": shapeOf(av.pool), "first_contested_pooled_position": I64(int64(ex.at))}
	installed := func(below int) bool {
		return e == nil && len(av.pool) == below+d+1 && sameHashes(av.pool[:below], bv.pool[:below]) && sameHashes(av.pool[below:], txBlocks(tx))
	}
	switch ex.kind {
	case "fast-forward":
		out.Oracle(installed(len(bv.pool)), "fast-forward-accepted", detail)
	case "already":
		out.Oracle(e == nil && unchanged, "rejected-block-leaves-pool-unchanged", detail)
	case "bogus":
		out.Oracle(errClassPool(e) == 3 && unchanged, "rejected-block-leaves-pool-unchanged", detail)
	case "inside-batch":
		// never installed; what is left of the pool is a chain (judged above); see the observation
		out.Oracle(e != nil && !installed(ex.at-1), "rejected-block-is-not-installed", detail)
		if !unchanged {
			r.observedInside = true
		}
	case "replace":
		out.Oracle(installed(ex.below), "replacement-follows-priority-rule", detail)
	case "lose-ratio":
		out.Oracle(errClassPool(e) == 1 && unchanged, "replacement-follows-priority-rule", detail)
	case "lose-tie":
		out.Oracle(errClassPool(e) == 2 && unchanged, "replacement-follows-priority-rule", detail)
	case "batch":
		// a competing BATCH: installed on the untouched chain below its fork point, or nothing changes
		out.Oracle(installed(ex.below) || (e != nil && unchanged), "replacement-follows-priority-rule", detail)
		if force {
			out.Count(fmt.Sprintf("batches:forced-competing-batch:installed=%v", installed(ex.below)))
		} else {
			out.Count(fmt.Sprintf("batches:competing-batch:installed=%v", installed(ex.below)))
		}
	}
}

// ---- real contract blocks: two valid receives of the same send (they acknowledge different momentums)

type realRace struct {
	*poolRun
	contracts []types.Address
}

// calls to two contracts: token issue (the receive carries a descendant: a batch) and accelerator donate (no descendant)
func (r *realRace) calls(n int) {
	nd, rng := r.nd, r.rng
	for i := 0; i < n; i++ {
		u := r.users[rng.Intn(len(r.users))]
		var b *nom.AccountBlock
		if i%2 == 0 {
			b = &nom.AccountBlock{BlockType: nom.BlockTypeUserSend, Address: u.Address, ToAddress: types.TokenContract, TokenStandard: types.ZnnTokenStandard,
				Amount: constants.TokenIssueAmount, Data: definition.ABIToken.PackMethodPanic(definition.IssueMethodName, fmt.Sprintf("tk-%d-%d", nd.FrontierHeight(), i), "TKN", "", big.NewInt(100), big.NewInt(1000), uint8(1), true, true, false)}
		} else {
			b = &nom.AccountBlock{BlockType: nom.BlockTypeUserSend, Address: u.Address, ToAddress: types.AcceleratorContract, TokenStandard: types.ZnnTokenStandard,
				Amount: big.NewInt(int64(1 + rng.Intn(5))), Data: definition.ABIAccelerator.PackMethodPanic(definition.DonateMethodName)}
		}
		if tx, err := nd.Sv.GenerateFromTemplate(b, u.Signer); err == nil {
			nd.Insert(tx)
		}
	}
}

// a momentum with everything pooled / with nothing, without the contract worker
func (r *realRace) plainMomentum(withContent bool, dt int64) bool {
	var blocks []*nom.AccountBlock
	if withContent {
		blocks = r.nd.Ch.GetNewMomentumContent()
	}
	tx, err := r.generate(blocks, dt)
	if err == nil {
		err = AddMomentum(r.nd.Ch, tx)
	}
	if err != nil {
		r.out.Oracle(false, "harness-own-momentum-generated", Tup(err.Error(), "real contract race"))
		return false
	}
	return true
}

func (r *realRace) accounts() []types.Address {
	l := append([]types.Address{}, r.contracts...)
	for _, u := range r.users {
		l = append(l, u.Address)
	}
	return l
}
func (r *realRace) viewsOf() map[types.Address]acctView {
	m := map[types.Address]acctView{}
	for _, a := range r.accounts() {
		m[a] = view(r.nd, a)
	}
	return m
}

// the whole clause on every account after a momentum was inserted
func (r *realRace) judgeAfterMomentum(before map[types.Address]acctView, where string) {
	out := r.out
	for _, a := range r.accounts() {
		b, av := before[a], view(r.nd, a)
		out.Oracle(linkedOnTop(av), "pool-single-linked-chain", Tup(a.String(), I64(int64(len(av.confirmed))), I64(int64(len(av.pool))), where))
		out.Oracle(len(av.confirmed) >= len(b.confirmed) && sameHashes(av.confirmed[:len(b.confirmed)], b.confirmed), "confirmed-never-displaced", Tup(a.String(), where))
		want := expectedPool(b.pool, av.confirmed)
		out.Oracle(sameHashes(av.pool, want), "rebuild-exact", M{"account": a.String(), "where": where, "pooled_before": I64(int64(len(b.pool))), "pooled_now": I64(int64(len(av.pool))),
			"expected_pooled_now": I64(int64(len(want))), "confirmed_before": I64(int64(len(b.confirmed))), "confirmed_now": I64(int64(len(av.confirmed)))})
		r.clauseNow(a, av, where)
		k := len(av.confirmed) - len(b.confirmed)
		if k >= 0 && k <= len(b.pool) && sameHashes(b.pool[:k], av.confirmed[len(b.confirmed):]) {
			if len(b.pool) > 0 {
				r.emitStep(b, Con("OMomentum", U64(uint64(k))), 0, av, fmt.Sprintf("real-race-momentum-confirms-%d-leaves-%s", min(k, 3), map[bool]string{true: "some-pooled", false: "none"}[len(av.pool) > 0]))
			}
		} else if k >= 0 {
			r.emitStep(b, Con("OConfirm", blocksTerm(av.confirmed[len(b.confirmed):])), 0, av, fmt.Sprintf("real-race-momentum-confirms-%d-displaced-leaves-%s", min(k, 3), map[bool]string{true: "some-pooled", false: "none"}[len(av.pool) > 0]))
		}
	}
	r.contentVerifies(where)
}

// another valid receive of the send at the head of the contract's queue: the one the producer makes acknowledges the
// momentum that confirmed the send (Supervisor.setBlockMomentum); this one acknowledges the frontier momentum, generated by
// the vm on that context (verif hook VerifGenerateEmbeddedReceive) and passed through Supervisor.ApplyBlock like a relayed
// block. nil: nothing queued, same block (the send was confirmed by the frontier momentum), or refused by the node.
func (r *realRace) altReceive(c types.Address) *nom.AccountBlockTransaction {
	nd := r.nd
	s := nd.InboxHead(c)
	if s == nil {
		return nil
	}
	fm := FrontierOf(nd.Ch).Identifier()
	prev := nd.Ch.GetFrontierAccountStore(c).Identifier()
	ms, as, cache := nd.Ch.GetMomentumStore(fm), nd.Ch.GetAccountStore(c, prev), nd.Cs.FixedPillarReader(fm)
	if ms == nil || as == nil || cache == nil {
		return nil
	}
	var b *nom.AccountBlock
	var err error
	if p := protect(func() { b, err = vm.VerifGenerateEmbeddedReceive(vm_context.NewAccountContext(ms, as, cache), s.Hash) }); p != nil || err != nil || b == nil {
		r.out.Count("batches:real:alternative-receive-not-generated")
		return nil
	}
	tx, err := nd.Sv.ApplyBlock(WireCopyBlock(b))
	if err != nil {
		r.out.Count("batches:real:alternative-receive-refused-by-the-supervisor")
		if os.Getenv("C14_DEBUG") != "" {
			fmt.Fprintln(os.Stderr, "DEBUG alt receive refused:", err, "ack", b.MomentumAcknowledged.Height, "descendants", len(b.DescendantBlocks))
		}
		return nil
	}
	r.out.Count(fmt.Sprintf("batches:real:alternative-receive-accepted-by-the-supervisor:descendants=%d", len(b.DescendantBlocks)))
	return tx
}

// offer a prepared real transaction of a contract straight to the pool and judge it like every other candidate
func (r *realRace) offerTx(c types.Address, tx *nom.AccountBlockTransaction, force bool, tag string) bool {
	out := r.out
	bv := view(r.nd, c)
	ex := expectTx(bv, tx, force)
	ins := r.nd.Ch.AcquireInsert("c14 real race")
	var e error
	pnc := protect(func() {
		if force {
			e = r.nd.Ch.ForceAddAccountBlockTransaction(ins, tx)
		} else {
			e = r.nd.Ch.AddAccountBlockTransaction(ins, tx)
		}
	})
	ins.Unlock()
	out.Oracle(pnc == nil, "pool-add-no-panic", Tup(tag, fmt.Sprint(pnc)))
	if pnc != nil {
		return false
	}
	av := view(r.nd, c)
	d := len(tx.Block.DescendantBlocks)
	tag = fmt.Sprintf("%s-%s", tag, ex.kind)
	if d > 0 {
		tag += "-with-descendants"
	}
	if force {
		tag += "-forced"
	}
	r.emitStep(bv, txTerm(force, tx), errClassPool(e), av, tag)
	out.Oracle(linkedOnTop(av), "pool-single-linked-chain", Tup(c.String(), I64(int64(len(av.confirmed))), I64(int64(len(av.pool))), tag))
	r.clauseNow(c, av, tag)
	installed := e == nil && len(av.pool) == ex.below+d+1 && sameHashes(av.pool[:ex.below], bv.pool[:ex.below]) && sameHashes(av.pool[ex.below:], txBlocks(tx))
	unchanged := sameHashes(av.pool, bv.pool)
	detail := M{"case": tag, "expected": ex.kind, "error": fmt.Sprint(e), "forced": force, "account": c.String(), "candidate_height": U64(tx.Block.Height), "candidate_descendants": I64(int64(d)),
		"pooled_before": I64(int64(len(bv.pool))), "pooled_after": I64(int64(len(av.pool))), "pooled_transactions_before": shapeOf(bv.pool), "pooled_transactions_after": shapeOf(av.pool)}
	switch ex.kind {
	case "replace":
		out.Oracle(installed, "replacement-follows-priority-rule", detail)
	case "lose-ratio", "lose-tie":
		out.Oracle(e != nil && unchanged, "replacement-follows-priority-rule", detail)
	case "batch":
		out.Oracle(installed || (e != nil && unchanged), "replacement-follows-priority-rule", detail)
		out.Count(fmt.Sprintf("batches:real:competing-batch:forced=%v:installed=%v", force, installed))
	case "fast-forward":
		out.Oracle(e == nil && len(av.pool) == len(bv.pool)+d+1, "fast-forward-accepted", detail)
	default:
		out.Oracle(unchanged, "rejected-block-leaves-pool-unchanged", detail)
	}
	return installed && ex.kind != "fast-forward"
}

// The pillar race on contract accounts with REAL blocks. Sends to two contracts are confirmed by momentum H. For the head
// of each contract's queue the receive that acknowledges H is generated and kept aside (R_H: what another pillar made and
// gossips late). An empty momentum H+1 follows; the node's worker generates the receives acknowledging H+1 and pools them
// (R_H+1 for the same send, then the receives of the further sends on top). The pillar generates its momentum H+2 with
// them and releases the lock; R_H arrives and competes with R_H+1 (contract blocks carry no plasma: the smaller hash wins;
// or it comes forced), the worker generates the further receives on top of the winner; then the own momentum is inserted.
func realContractRace(rng *rand.Rand, out *Out) {
	nd := NewNode()
	defer nd.Stop()
	pr := &poolRun{nd: nd, rng: rng, out: out, users: []*wallet.KeyPair{g.User1, g.User2, g.User3}, vk: &viewKeeper{}, sib: map[types.Address][]*sibling{}}
	r := &realRace{poolRun: pr, contracts: []types.Address{types.TokenContract, types.AcceleratorContract}}
	nd.Momentum()
	for round := 0; round < 3; round++ {
		r.calls(3 + rng.Intn(4))
		if !r.plainMomentum(true, 10) { // H: the calls are confirmed
			return
		}
		if !r.plainMomentum(false, 10) { // H+1
			return
		}
		aside := map[types.Address]*nom.AccountBlockTransaction{}
		for _, c := range r.contracts {
			if tx := r.altReceive(c); tx != nil {
				aside[c] = tx
			}
		}
		if _, err := nd.GenerateContractReceives(); err != nil {
			out.Oracle(false, "harness-contract-receives-generated", Tup(err.Error()))
			return
		}
		for _, c := range r.contracts {
			out.Count(fmt.Sprintf("batches:real:pooled-transactions-of-%s=%s", map[bool]string{true: "token-contract", false: "accelerator"}[c == types.TokenContract], shapeOf(view(nd, c).pool)))
		}
		// generate: own momentum with what the pool offers
		offered := nd.Ch.GetNewMomentumContent()
		own, err := r.generate(offered, 10)
		if err != nil {
			out.Oracle(false, "offered-content-verifies", M{"where": "real contract race: own momentum generated from the pool", "error": err.Error(), "blocks": I64(int64(len(offered)))})
			return
		}
		// between: the receive kept aside competes
		for _, c := range r.contracts {
			tx := aside[c]
			if tx == nil || rng.Intn(5) == 0 {
				continue
			}
			force := rng.Intn(3) == 0
			if r.offerTx(c, tx, force, "real-race-competing-receive") {
				out.Count("batches:real:block-of-own-momentum-displaced")
				// children: the worker goes on on top of the winner
				if rng.Intn(4) != 0 {
					if n, err := nd.GenerateContractReceives(); err == nil && n > 0 {
						out.Count("batches:real:children-generated-on-the-competitor")
					}
				}
			}
		}
		if rng.Intn(2) == 0 {
			r.calls(1 + rng.Intn(2))
		}
		// insert own
		before := r.viewsOf()
		if err := AddMomentum(nd.Ch, own); err != nil {
			out.Oracle(false, "frontier-is-the-applied-momentum", Tup("real contract race: own momentum", err.Error()))
			return
		}
		out.Oracle(FrontierOf(nd.Ch).Hash == own.Momentum.Hash, "frontier-is-the-applied-momentum", Tup("real contract race: own momentum", U64(nd.FrontierHeight())))
		r.judgeAfterMomentum(before, "real contract race: own momentum inserted")
		// the node goes on: worker, next momentum
		if _, err := nd.GenerateContractReceives(); err != nil {
			out.Oracle(false, "harness-contract-receives-generated", Tup(err.Error(), "after the race"))
			return
		}
		before = r.viewsOf()
		hh := nd.FrontierHeight()
		ok := r.plainMomentum(true, 10)
		out.Oracle(ok && nd.FrontierHeight() == hh+1, "node-produces-next-momentum", M{"where": "real contract race: after the own momentum", "frontier_before": U64(hh), "frontier_after": U64(nd.FrontierHeight())})
		if !ok {
			return
		}
		r.judgeAfterMomentum(before, "real contract race: next momentum")
		nd.Momentum()
	}
}

// The same two receives, the other way round: the node holds R_H (gossip) in its pool and the next momentum of the
// chain, produced by a pillar that never saw R_H, contains R_H+1 for the same send: ChainBridge.InsertChain force-adds the
// momentum's blocks. The statement: the forced block replaces the pooled competitor, the momentum is inserted, and the
// pool afterwards holds what still links.
func syncAgainstPooledReceive(rng *rand.Rand, out *Out) {
	nd := NewNode()
	defer nd.Stop()
	pr := &poolRun{nd: nd, rng: rng, out: out, users: []*wallet.KeyPair{g.User1, g.User2, g.User3}, vk: &viewKeeper{}, sib: map[types.Address][]*sibling{}}
	r := &realRace{poolRun: pr, contracts: []types.Address{types.TokenContract, types.AcceleratorContract}}
	br := BridgeOf(nd)
	nd.Momentum()
	r.calls(2 + rng.Intn(3))
	if !r.plainMomentum(true, 10) { // H
		return
	}
	if !r.plainMomentum(false, 10) { // H+1
		return
	}
	aside := map[types.Address]*nom.AccountBlock{}
	for _, c := range r.contracts {
		if tx := r.altReceive(c); tx != nil {
			aside[c] = WireCopyBlock(tx.Block)
		}
	}
	if _, err := nd.GenerateContractReceives(); err != nil { // its worker makes R_H+1 ...
		return
	}
	offered := nd.Ch.GetNewMomentumContent()
	next, err := r.generate(offered, 10) // ... and the next pillar puts them into momentum H+2
	if err != nil {
		out.Oracle(false, "offered-content-verifies", M{"where": "sync against a pooled receive: momentum generated from the pool", "error": err.Error()})
		return
	}
	wire := WireCopy(&nom.DetailedMomentum{Momentum: next.Momentum, AccountBlocks: offered})
	// this node: at H+1, it never saw R_H+1; R_H reaches it through gossip
	br2 := &batchRun{poolRun: pr}
	if !br2.emptyPool() {
		return
	}
	for _, c := range r.contracts {
		if aside[c] == nil {
			continue
		}
		if err := br.AddAccountBlocks([]*nom.AccountBlock{aside[c]}); err != nil {
			out.Oracle(false, "gossiped-contract-receive-accepted", M{"account": c.String(), "error": err.Error(), "descendants": I64(int64(len(aside[c].DescendantBlocks)))})
			delete(aside, c)
		}
	}
	before := r.viewsOf()
	h := nd.FrontierHeight()
	_, err = br.InsertChain([]*nom.DetailedMomentum{wire})
	detail := M{"error": fmt.Sprint(err), "frontier_before": U64(h), "frontier_after": U64(nd.FrontierHeight()), "blocks_in_momentum": I64(int64(len(offered)))}
	for _, c := range r.contracts {
		if aside[c] != nil {
			detail["pooled competitor of "+c.String()] = fmt.Sprintf("valid receive of the same send acknowledging momentum %d, %d descendants; the momentum carries the receive acknowledging the momentum that confirmed the send", aside[c].MomentumAcknowledged.Height, len(aside[c].DescendantBlocks))
		}
	}
	out.Oracle(err == nil && nd.FrontierHeight() == h+1, "momentum-from-sync-replaces-competing-pooled-contract-block", detail)
	if err == nil {
		r.judgeAfterMomentum(before, "sync against a pooled receive: momentum inserted")
	}
}
