package main

// Momentum DELETES (chain.RollbackTo: a rollback asked for directly, and the rollback a reorganisation by sync makes
// before it inserts the delivered branch). "Per account the unconfirmed blocks always form a single chain extending the
// account's last confirmed block" is a statement about the pool AND the ledger: after a delete the ledger's confirmed
// chain of an account is shorter (or, after a reorganisation, another one), and the pool has to follow it.
//
// After every delete NOTIFICATION (the listener runs after the account pool's own handler) and again after the
// operation, the whole clause is evaluated on every account - the three users, the token contract and a QUIET account
// (User4) that nobody looks at after every operation: it pools blocks now and then and is read the way an rpc client
// reads (unconfirmed blocks, frontier block) or the verifier reads (a further block of it verified) only sometimes, so
// that a delete finds accounts that were and accounts that were not read through the pool since the last insert:
//   - the pool is a linked chain on top of the LEDGER's frontier block of the account; with nothing pooled the pool's
//     frontier view (GetFrontierAccountStore) IS the ledger's frontier block
//     (pool-frontier-is-the-ledger-frontier-after-momentum-delete);
//   - the pool hands out a view for the account's last confirmed identifier, and it is that block
//     (pool-view-at-last-confirmed-block-resolves-after-momentum-delete) - what the supervisor asks for when the next
//     block of the account arrives;
//   - the pool's view agrees with the ledger at the confirmed heights (clauseNow);
// then, after the operation (probes; they can be refused, they must not be chained on something else):
//   - a block added afterwards is accepted and extends the ledger's confirmed chain
//     (block-after-momentum-delete-extends-the-confirmed-chain);
//   - what the pool offers verifies as the content of the next momentum (offered-content-verifies), and the node
//     produces it (node-produces-next-momentum).
// Product calls that can panic on a broken pool are made under recover(); a panic is a failing oracle. A history whose
// clause failed after a delete ends there: nothing more can be learnt from that node, and the next momentum insert on it
// may end the process (isolate.go).
//
// reorgBySync: a REORGANISATION on one node. L = 2..3 momentums are produced on top of the frontier F (contents: random
// per-account prefixes of the pool; accounts go on between them), recorded in wire form, and rolled back to F (L
// deletes); then the node's own branch: a part of what was pooled at F comes back (and other blocks for the same
// heights), the node produces 1..L-1 momentums, accounts go on; then the sync delivers the recorded branch through
// ChainBridge.InsertChain: rollback to F (deletes), forced insertion of the branch's blocks, its momentums. Afterwards
// every account's confirmed chain is the delivered branch's and nothing is pooled; every notification on the way is
// replayed on the model (ODelete / OConfirm).

import (
	"fmt"

	"github.com/zenon-network/go-zenon/chain/nom"
	"github.com/zenon-network/go-zenon/common/db"
	"github.com/zenon-network/go-zenon/common/types"
	"github.com/zenon-network/go-zenon/wallet"
	. "zharness/hz"
)

func (r *poolRun) allAccounts() []types.Address {
	l := r.viewAccounts()
	if r.quiet != nil {
		l = append(l, r.quiet.Address)
	}
	return l
}

// the whole clause for one account against the ledger as it is now; false = some part of it failed
func (r *poolRun) clauseAfterDelete(addr types.Address, where string) bool {
	nd, out := r.nd, r.out
	f0 := out.Fails
	var v acctView
	var fid, atConfirmed types.HashHeight
	resolved := false
	conf := types.HashHeight{}
	pnc := protect(func() {
		v = view(nd, addr)
		if n := len(v.confirmed); n > 0 {
			conf = v.confirmed[n-1].Identifier()
		}
		fid = nd.Ch.GetFrontierAccountStore(addr).Identifier()
		if conf.Height > 0 {
			if st := nd.Ch.GetAccountStore(addr, conf); st != nil {
				resolved = true
				atConfirmed = st.Identifier()
			}
		}
	})
	out.Oracle(pnc == nil, "pool-readable-after-momentum-delete", Tup(addr.String(), where, fmt.Sprint(pnc)))
	if pnc != nil {
		return false
	}
	out.Oracle(linkedOnTop(v), "pool-single-linked-chain", Tup(addr.String(), I64(int64(len(v.confirmed))), I64(int64(len(v.pool))), where))
	if len(v.pool) == 0 {
		d := M{}
		if fid != conf {
			d = M{"account": addr.String(), "where": where, "pool_frontier_height": U64(fid.Height), "pool_frontier_hash": fid.Hash.String(),
				"ledger_frontier_height": U64(conf.Height), "ledger_frontier_hash": conf.Hash.String()}
		}
		out.Oracle(fid == conf, "pool-frontier-is-the-ledger-frontier-after-momentum-delete", d)
	}
	if conf.Height > 0 {
		d := M{}
		if !resolved || atConfirmed != conf {
			d = M{"account": addr.String(), "where": where, "last_confirmed_height": U64(conf.Height), "last_confirmed_hash": conf.Hash.String(), "view_is_nil": !resolved,
				"view_frontier_height": U64(atConfirmed.Height)}
		}
		out.Oracle(resolved && atConfirmed == conf, "pool-view-at-last-confirmed-block-resolves-after-momentum-delete", d)
	}
	if p := protect(func() { r.clauseNow(addr, v, where) }); p != nil {
		out.Oracle(false, "pool-readable-after-momentum-delete", Tup(addr.String(), where, fmt.Sprint(p)))
	}
	return out.Fails == f0
}

// at the delete notification: the account pool has handled it already (it was registered first)
func (l *poolListener) DeleteMomentum(d *nom.DetailedMomentum) {
	l.deletes++
	r := l.r
	// a panic in a listener would unwind through momentumPool.RollbackTo with its mutex released: never let one out
	if p := protect(func() {
		where := fmt.Sprintf("at the delete notification of momentum %d", d.Momentum.Height)
		for _, a := range r.allAccounts() {
			if !r.clauseAfterDelete(a, where) {
				r.broken = true
			}
		}
		if l.tracing {
			l.trace = append(l.trace, r.views())
		}
	}); p != nil {
		r.out.Oracle(false, "pool-readable-after-momentum-delete", Tup("listener", fmt.Sprint(p)))
		r.broken = true
	}
	r.progress()
}

// after an operation that deleted momentums: the clause on every account, then the probes
func (r *poolRun) afterDelete(where string, mayProduce bool) {
	nd, rng, out := r.nd, r.rng, r.out
	for _, a := range r.allAccounts() {
		if !r.clauseAfterDelete(a, "after: "+where) {
			r.broken = true
		}
	}
	defer r.progress()
	if r.broken {
		return
	}
	// blocks added afterwards extend the ledger's confirmed chain
	for _, u := range append(append([]*wallet.KeyPair{}, r.users...), r.quiet) {
		if rng.Intn(2) == 0 {
			continue
		}
		var tx *nom.AccountBlockTransaction
		var err, ierr error
		var av acctView
		pnc := protect(func() {
			tx, err = r.craft(u, types.HashHeight{}, uint64(rng.Intn(3))*1000, []int{0, 10}[rng.Intn(2)])
			if err == nil {
				ierr = nd.Insert(tx)
				av = view(nd, u.Address)
			}
		})
		conf := types.HashHeight{}
		if n := len(av.confirmed); n > 0 {
			conf = av.confirmed[n-1].Identifier()
		}
		ok := pnc == nil && err == nil && ierr == nil && len(av.pool) == 1 && av.pool[0].Hash == tx.Block.Hash && av.pool[0].Previous() == conf && linkedOnTop(av)
		d := M{}
		if !ok {
			d = M{"account": u.Address.String(), "where": where, "panic": fmt.Sprint(pnc), "supervisor": fmt.Sprint(err), "pool": fmt.Sprint(ierr), "pooled_now": I64(int64(len(av.pool))),
				"ledger_frontier_height": U64(conf.Height), "ledger_frontier_hash": conf.Hash.String()}
			if tx != nil {
				d["block_height"], d["block_previous"] = U64(tx.Block.Height), tx.Block.PreviousHash.String()
			}
			r.broken = true
		}
		out.Oracle(ok, "block-after-momentum-delete-extends-the-confirmed-chain", d)
	}
	if r.broken {
		return
	}
	if p := protect(func() { r.contentVerifies("after: " + where) }); p != nil {
		out.Oracle(false, "offered-content-verifies", M{"where": where, "panic": fmt.Sprint(p)})
		r.broken = true
		return
	}
	if mayProduce && rng.Intn(2) == 0 {
		before := r.views()
		r.lis.before, r.lis.context = before, "momentum after: "+where
		r.what = "next momentum of the node after: " + where
		r.produceNext("after: " + where)
		r.lis.before = nil
		r.checkAll(before, types.Address{}, false)
	}
}

// the quiet account: it pools a block now and then, and is read only now and then
func (r *poolRun) quietStep() {
	rng := r.rng
	q := r.quiet
	if q == nil {
		return
	}
	switch rng.Intn(12) {
	case 0: // a block of it is verified and pooled (the verifier and the vm read its state through the pool)
		if tx, err := r.craft(q, types.HashHeight{}, uint64(rng.Intn(2))*1000, 0); err == nil {
			e := r.nd.Insert(tx)
			r.out.Oracle(e == nil, "fast-forward-accepted", Tup(fmt.Sprint(e), "quiet account"))
			r.out.Count("pool:quiet-account:block-pooled")
		} else {
			r.out.Count("pool:craft-rejected")
		}
	case 1, 2: // an rpc client asks for it (ledger.getUnconfirmedBlocksByAddress, ledger.getFrontierAccountBlock)
		v := view(r.nd, q.Address)
		_, _ = r.nd.Ch.GetFrontierAccountStore(q.Address).Frontier()
		where := "quiet account read by an rpc client"
		r.out.Oracle(linkedOnTop(v), "pool-single-linked-chain", Tup(q.Address.String(), I64(int64(len(v.confirmed))), I64(int64(len(v.pool))), where))
		r.clauseNow(q.Address, v, where)
		r.out.Count("pool:quiet-account:read")
	}
}

type keptBlock struct {
	b *nom.AccountBlock
	p db.Patch
}

func (r *poolRun) reorgBySync() {
	nd, rng, out, lis := r.nd, r.rng, r.out, r.lis
	everybody := append(append([]*wallet.KeyPair{}, r.users...), r.quiet)
	poolOne := func(u *wallet.KeyPair) {
		if tx, err := r.craft(u, types.HashHeight{}, uint64(rng.Intn(3))*1000, []int{0, 0, 10}[rng.Intn(3)]); err == nil {
			nd.Insert(tx)
		}
	}
	pool := func(p int) {
		for _, u := range everybody {
			if rng.Intn(p) == 0 {
				poolOne(u)
			}
		}
	}
	// 0. several accounts have pooled blocks; they are kept (block + patch) to come back on the own branch
	pool(2)
	pool(2)
	F := FrontierOf(nd.Ch)
	kept := map[types.Address][]keptBlock{}
	for _, u := range everybody {
		for _, b := range nd.Ch.GetUncommittedAccountBlocksByAddress(u.Address) {
			if p := nd.Ch.GetPatch(b.Address, b.Identifier()); p != nil {
				kept[u.Address] = append(kept[u.Address], keptBlock{b.Copy(), p})
			}
		}
	}

	// 1. the other branch: L momentums on top of F
	L := 2 + rng.Intn(2)
	for i := 0; i < L; i++ {
		offered := nd.Ch.GetNewMomentumContent()
		content := pickContent(rng, offered, []int{0, 2, 2}[rng.Intn(3)])
		dt := int64(10)
		if i == 0 {
			dt = 20 // never the momentum the node produces itself on F
		}
		tx, err := r.generate(content, dt)
		if err != nil {
			if r.poolIsOfThisChain(content) {
				out.Oracle(false, "offered-content-verifies", M{"where": "reorg: momentum of the other branch generated from the pool", "error": err.Error(), "blocks": I64(int64(len(content)))})
			}
			break
		}
		before := r.views()
		lis.before, lis.context = before, fmt.Sprintf("reorg: momentum %d of the other branch", i+1)
		r.what = lis.context
		pnc := protect(func() { err = AddMomentum(nd.Ch, tx) })
		lis.before = nil
		out.Oracle(pnc == nil && err == nil, "competing-momentum-accepted", Tup(fmt.Sprint(err), fmt.Sprint(pnc), "reorg: other branch"))
		r.checkAll(before, types.Address{}, false)
		if i < L-1 {
			pool(2)
		}
	}
	top := FrontierOf(nd.Ch)
	if top.Height != F.Height+uint64(L) {
		return
	}
	side := WireCopyAll(DetailedRange(nd.Ch, F.Height+1, top.Height))
	sideViews := map[types.Address]acctView{}
	for _, a := range r.allAccounts() {
		sideViews[a] = view(nd, a)
	}

	// 2. back to F: L momentum deletes
	before := r.views()
	r.what = fmt.Sprintf("reorg: the other branch (%d momentums) rolled back to momentum %d", L, F.Height)
	var err error
	pnc := protect(func() { err = RollbackTo(nd.Ch, F.Identifier()) })
	if pnc != nil || err != nil {
		out.Oracle(false, "rollback-accepted", Tup(fmt.Sprint(err), fmt.Sprint(pnc), "reorg"))
		r.broken = true
		return
	}
	after := r.checkAll(before, types.Address{}, false)
	r.deleteJudged(before, after, "reorg-branch-rolled-back")
	r.afterDelete(r.what, false)
	if r.broken {
		return
	}

	// 3. the own branch: a part of what was pooled at F comes back (in order; after the first missing block of an
	//    account the rest of its chain is refused), other accounts make other blocks for these heights; own momentums
	for _, u := range everybody {
		switch rng.Intn(4) {
		case 0: // another block for the first of these heights
			poolOne(u)
		case 1: // nothing of this account comes back
		default:
			for _, kb := range kept[u.Address] {
				if rng.Intn(5) == 0 {
					break
				}
				nd.Insert(&nom.AccountBlockTransaction{Block: kb.b.Copy(), Changes: kb.p})
			}
		}
	}
	own := 1 + rng.Intn(L-1)
	for j := 0; j < own; j++ {
		before = r.views()
		lis.before, lis.context = before, fmt.Sprintf("reorg: momentum %d of the own branch", j+1)
		r.what = lis.context
		h := nd.FrontierHeight()
		r.produceNext("reorg: own branch")
		lis.before = nil
		r.checkAll(before, types.Address{}, false)
		if nd.FrontierHeight() != h+1 {
			return
		}
		pool(2)
	}
	out.Count(fmt.Sprintf("pool:reorg-by-sync:own-branch=%d:delivered-branch=%d", own, L))

	// 4. the sync delivers the other branch
	before = r.views()
	beforeAll := map[types.Address]acctView{}
	for _, a := range r.allAccounts() {
		beforeAll[a] = view(nd, a)
	}
	r.what = fmt.Sprintf("reorganisation by sync: branch of %d momentums on top of momentum %d delivered through ChainBridge.InsertChain, own branch has %d", L, F.Height, own)
	lis.tracing, lis.trace = true, nil
	pnc = protect(func() { _, err = BridgeOf(nd).InsertChain(side) })
	lis.tracing = false
	trace := lis.trace
	lis.trace = nil
	fm := FrontierOf(nd.Ch)
	adopted := pnc == nil && err == nil && fm.Hash == top.Hash
	out.Oracle(adopted, "reorganisation-by-sync-adopts-the-delivered-branch", M{"what": r.what, "error": fmt.Sprint(err), "panic": fmt.Sprint(pnc), "frontier": U64(fm.Height), "delivered_top": U64(top.Height)})
	if r.broken {
		return
	}
	after = r.checkAll(before, types.Address{}, false)
	if !adopted {
		// the node is somewhere between the two branches; what is asked of it there is the clause after a delete
		r.afterDelete(r.what, false)
		r.broken = true
		return
	}
	for _, a := range r.allAccounts() {
		av := view(nd, a)
		sv, bv := sideViews[a], beforeAll[a]
		ok := sameHashes(av.confirmed, sv.confirmed) && len(av.pool) == 0
		d := M{}
		if !ok {
			d = M{"account": a.String(), "what": r.what, "confirmed_on_the_delivered_branch": I64(int64(len(sv.confirmed))), "confirmed_now": I64(int64(len(av.confirmed))),
				"confirmed_on_the_own_branch": I64(int64(len(bv.confirmed))), "pooled_before": I64(int64(len(bv.pool))), "pooled_now": I64(int64(len(av.pool)))}
		}
		out.Oracle(ok, "pool-and-ledger-after-reorganisation-by-sync-are-the-delivered-branch", d)
		differs := !sameHashes(bv.confirmed, sv.confirmed)
		out.Count(fmt.Sprintf("pool:reorg-by-sync:account-confirmed-chain-differs-between-branches=%v:pooled-before=%v", differs, len(bv.pool) > 0))
	}
	// every notification on the way, on the model
	states := append(append([]map[types.Address]acctView{before}, trace...), after)
	for _, a := range r.viewAccounts() {
		for i := 0; i+1 < len(states); i++ {
			x, y := states[i][a], states[i+1][a]
			switch {
			case len(y.confirmed) < len(x.confirmed):
				r.emitStep(x, Con("ODelete", U64(uint64(len(y.confirmed)))), 0, y, "reorg-by-sync-delete")
			case len(y.confirmed) > len(x.confirmed) && sameHashes(y.confirmed[:len(x.confirmed)], x.confirmed):
				newly := y.confirmed[len(x.confirmed):]
				r.emitStep(x, Con("OConfirm", blocksTerm(newly)), 0, y, fmt.Sprintf("reorg-by-sync-confirms-%d", min(len(newly), 3)))
			}
		}
	}
	r.afterDelete(r.what, true)
}

// what a rollback leaves: nothing pooled, the confirmed chain a prefix of what it was
func (r *poolRun) deleteJudged(before, after map[types.Address]acctView, tag string) {
	for _, uu := range r.users {
		b, a := before[uu.Address], after[uu.Address]
		ok := len(a.pool) == 0 && len(a.confirmed) <= len(b.confirmed) && sameHashes(a.confirmed, b.confirmed[:len(a.confirmed)])
		r.out.Oracle(ok, "delete-momentum-drops-pool-keeps-older-confirmed", Tup(uu.Address.String(), tag))
		if ok && (len(b.pool) > 0 || len(a.confirmed) < len(b.confirmed)) {
			r.emitStep(b, Con("ODelete", U64(uint64(len(a.confirmed)))), 0, a, tag)
		}
	}
}
