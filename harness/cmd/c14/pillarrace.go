package main

// The pillar race of C14's quantifier ("interleavings of a producing pillar (generate, then insert own momentum) with
// ..."), the half in which the OWN momentum is the one that gets applied:
//   generate : the pillar takes the content for its momentum M from the pool (GetNewMomentumContent, any per-account
//              prefix of it), bakes the patches of those blocks into the momentum transaction and RELEASES the insert lock
//              (pillar.worker.generateMomentum);
//   between  : before broadcaster.CreateMomentum takes the lock again the pool moves on, in any of these ways (several at
//              once): a competitor replaces a block that is IN M (better plasma ratio / equal ratio and smaller hash /
//              forced), children are pooled on top of the competitor, the replaced account or other accounts pool further
//              blocks, blocks of M are re-offered, the sync inserts another momentum for the same height;
//   insert   : M is inserted (AddMomentumTransaction). It confirms the blocks it was generated with - also the ones the
//              pool has displaced since.
// After every insert notification, and again after the operation, the WHOLE clause is evaluated on every account:
//   - the pool's chain links to the account's confirmed frontier block by block (previous hash + height);
//   - no pooled block sits at or below a confirmed height, and the pool's frontier view (GetFrontierAccountStore) shows at
//     every confirmed height the block the ledger has there (pool-view-agrees-with-ledger-at-confirmed-heights);
//   - the pool is exactly the previously pooled blocks that were not confirmed and still link (expectedPool);
//   - the frontier view of the pool is the last pooled block, or the confirmed frontier;
//   - what the pool offers for the next momentum is accepted by the momentum verifier: the next momentum is built from
//     GetNewMomentumContent() exactly as the pillar does and verified (offered-content-verifies), and the node's own
//     producer does produce the next momentum (node-produces-next-momentum).

import (
	"fmt"

	"github.com/zenon-network/go-zenon/chain/nom"
	"github.com/zenon-network/go-zenon/common/types"
	"github.com/zenon-network/go-zenon/wallet"
	. "zharness/hz"
)

// the part of the clause that needs no "before": evaluated for one account against the store as it is now
func (r *poolRun) clauseNow(addr types.Address, a acctView, where string) {
	out := r.out
	// no pooled block at or below a confirmed height; heights count up from the confirmed frontier
	nc := uint64(len(a.confirmed))
	okH := true
	for i, b := range a.pool {
		okH = okH && b.Height == nc+uint64(i)+1
	}
	out.Oracle(okH, "no-pooled-block-at-or-below-a-confirmed-height", Tup(addr.String(), where, U64(nc), I64(int64(len(a.pool)))))
	// the frontier view of the pool (what rpc readers, the vm context of the next block and canRollback read) agrees with
	// the ledger at the confirmed heights: the top three and the lowest one
	fs := r.nd.Ch.GetFrontierAccountStore(addr)
	for _, h := range []uint64{nc, nc - 1, nc - 2, 1} {
		if h < 1 || h > nc {
			continue
		}
		got, err := fs.ByHeight(h)
		want := a.confirmed[h-1]
		ok := err == nil && got != nil && got.Hash == want.Hash
		detail := M{}
		if !ok {
			detail = M{"account": addr.String(), "where": where, "confirmed_height": U64(h), "confirmed_heights": U64(nc), "ledger_has": want.Hash.String(),
				"pool_view_nil": got == nil, "pooled": I64(int64(len(a.pool)))}
			if got != nil {
				detail["pool_view_shows"] = got.Hash.String()
			}
		}
		out.Oracle(ok, "pool-view-agrees-with-ledger-at-confirmed-heights", detail)
	}
	// the frontier view is the last pooled block, or the confirmed frontier
	top := types.HashHeight{}
	if n := len(a.pool); n > 0 {
		top = a.pool[n-1].Identifier()
	} else if nc > 0 {
		top = a.confirmed[nc-1].Identifier()
	}
	fid := fs.Identifier()
	out.Oracle(fid == top, "pool-frontier-store-is-top-of-the-chain", Tup(addr.String(), where, U64(fid.Height), U64(top.Height)))
}

// every pooled block acknowledges a momentum of the node's chain (blocks the harness kept aside and offered after a
// rollback do not; the supervisor would not have let them in)
func (r *poolRun) poolIsOfThisChain(blocks []*nom.AccountBlock) bool {
	ms := r.nd.Ch.GetFrontierMomentumStore()
	for _, b := range blocks {
		m, err := ms.GetMomentumByHeight(b.MomentumAcknowledged.Height)
		if err != nil || m == nil || m.Hash != b.MomentumAcknowledged.Hash {
			return false
		}
		for _, d := range b.DescendantBlocks {
			if d.MomentumAcknowledged != b.MomentumAcknowledged {
				return false
			}
		}
	}
	return true
}

// offered-content-verifies: the next momentum built from what the pool offers, as pillar.worker.generateMomentum builds
// it, passes the momentum verifier and the vm (Supervisor.GenerateMomentum = verifier.Momentum + applyMomentum)
func (r *poolRun) contentVerifies(where string) {
	offered := r.nd.Ch.GetNewMomentumContent()
	if !r.poolIsOfThisChain(offered) {
		r.out.Count("pool:offered-content:not-judged-harness-pooled-a-block-of-a-rolled-back-chain")
		return
	}
	_, err := r.generate(offered, 10)
	detail := M{}
	if err != nil {
		per := map[string]int{}
		for _, b := range offered {
			per[b.Address.String()]++
		}
		detail = M{"where": where, "error": err.Error(), "offered_blocks": I64(int64(len(offered))), "frontier_momentum": U64(r.nd.FrontierHeight())}
		for a, n := range per {
			v := view(r.nd, types.ParseAddressPanic(a))
			first := ""
			if len(v.pool) > 0 {
				first = fmt.Sprintf("first pooled block: height %d previous %v; ", v.pool[0].Height, v.pool[0].PreviousHash)
			}
			if nc := len(v.confirmed); nc > 0 {
				first += fmt.Sprintf("confirmed frontier: height %d hash %v", v.confirmed[nc-1].Height, v.confirmed[nc-1].Hash)
			}
			detail["account "+a] = fmt.Sprintf("%d offered, %d confirmed, %d pooled; %s", n, len(v.confirmed), len(v.pool), first)
		}
	}
	r.out.Oracle(err == nil, "offered-content-verifies", detail)
	r.out.Count(fmt.Sprintf("pool:offered-content-verified:blocks>=%d", min(len(offered)/5*5, 20)))
}

// the node's producer makes the next momentum (mock pillar: generate from the pool, insert, contract worker)
func (r *poolRun) produceNext(where string) {
	h := r.nd.FrontierHeight()
	r.nd.Momentum()
	got := r.nd.FrontierHeight()
	r.out.Oracle(got == h+1, "node-produces-next-momentum", M{"where": where, "frontier_before": U64(h), "frontier_after": U64(got),
		"pooled_blocks_offered": I64(int64(len(r.nd.Ch.GetNewMomentumContent())))})
}

func userOf(users []*wallet.KeyPair, a types.Address) *wallet.KeyPair {
	for _, u := range users {
		if u.Address == a {
			return u
		}
	}
	return nil
}

func (r *poolRun) pillarRace() {
	nd, rng, out, lis := r.nd, r.rng, r.out, r.lis
	// 0. several accounts have pooled blocks
	for _, u := range r.users {
		for i := rng.Intn(4); i > 0; i-- {
			if tx, err := r.craft(u, types.HashHeight{}, []uint64{0, 0, 1000, 21000}[rng.Intn(4)], []int{0, 0, 10}[rng.Intn(3)]); err == nil {
				nd.Insert(tx)
			}
		}
	}
	// 1. generate: content from the pool, lock released
	offered := nd.Ch.GetNewMomentumContent()
	ownBlocks := pickContent(rng, offered, []int{0, 0, 2}[rng.Intn(3)])
	own, err := r.generate(ownBlocks, 10)
	if err != nil {
		if r.poolIsOfThisChain(ownBlocks) {
			out.Oracle(false, "offered-content-verifies", M{"where": "pillar race: own momentum generated from the pool", "error": err.Error(), "blocks": I64(int64(len(ownBlocks)))})
		}
		return
	}
	parent := FrontierOf(nd.Ch)
	inOwn := map[types.Address][]*nom.AccountBlock{}
	for _, b := range ownBlocks {
		inOwn[b.Address] = append(inOwn[b.Address], b)
	}

	// 2. between generation and insertion
	displaced := map[types.Address]int{} // account -> pooled position (0-based) of the block of M that was displaced
	children := 0
	synced := false
	nAct := 1 + rng.Intn(3)
	for act := 0; act < nAct; act++ {
		switch k := rng.Intn(10); {
		case k < 6: // a competitor for a block that is IN the generated momentum, then children on top of it
			var cands []*wallet.KeyPair
			for _, u := range r.users {
				if _, done := displaced[u.Address]; !done && len(inOwn[u.Address]) > 0 {
					cands = append(cands, u)
				}
			}
			if len(cands) == 0 {
				continue
			}
			u := cands[rng.Intn(len(cands))]
			bv := view(nd, u.Address)
			idx := rng.Intn(len(inOwn[u.Address]))
			if idx >= len(bv.pool) || bv.pool[idx].Hash != inOwn[u.Address][idx].Hash || bv.pool[idx].BlockType != nom.BlockTypeUserSend {
				continue
			}
			inc := bv.pool[idx]
			incExtra := inc.TotalPlasma - inc.BasePlasma
			rel := rng.Intn(4)
			extra := incExtra // equal ratio: the hash decides
			force := false
			tag := "pillar-race-competitor-equal-ratio"
			switch rel {
			case 0, 1:
				extra, tag = incExtra+uint64(1+rng.Intn(30000)), "pillar-race-competitor-better-ratio"
			case 2:
				force, tag = true, "pillar-race-competitor-forced"
			}
			tx, err := r.craft(u, inc.Previous(), extra, len(inc.Data))
			if err != nil || tx.Block.Hash == inc.Hash {
				out.Count("pool:craft-rejected")
				continue
			}
			r.offer(u, tx, force, tag)
			av := view(nd, u.Address)
			if len(av.pool) == idx+1 && av.pool[idx].Hash == tx.Block.Hash {
				displaced[u.Address] = idx
				out.Count(fmt.Sprintf("pool:pillar-race:block-of-own-momentum-displaced-at-pooled-position=%d-of-%d", min(idx+1, 4), min(len(inOwn[u.Address]), 4)))
				for c := rng.Intn(3); c > 0; c-- {
					if ctx, err := r.craft(u, types.HashHeight{}, uint64(rng.Intn(3))*1000, []int{0, 10}[rng.Intn(2)]); err == nil && r.insertFF(u, ctx, "pillar-race-child") {
						children++
					}
				}
			} else {
				out.Count("pool:pillar-race:competitor-lost")
			}
		case k < 8: // further blocks of any account
			u := r.users[rng.Intn(len(r.users))]
			if tx, err := r.craft(u, types.HashHeight{}, uint64(rng.Intn(3))*1000, 0); err == nil {
				r.insertFF(u, tx, "pillar-race-unrelated")
			}
		case k < 9: // a block of M offered once more (gossip echo)
			if len(ownBlocks) > 0 {
				b := ownBlocks[rng.Intn(len(ownBlocks))]
				if u := userOf(r.users, b.Address); u != nil {
					if p := nd.Ch.GetPatch(b.Address, b.Identifier()); p != nil {
						r.offer(u, &nom.AccountBlockTransaction{Block: b.Copy(), Changes: p}, rng.Intn(3) == 0, "pillar-race-echo")
					}
				}
			}
		default: // the sync inserts another momentum for the same height: M will not be applied
			if synced {
				continue
			}
			comp, err := r.generate(pickContent(rng, nd.Ch.GetNewMomentumContent(), []int{1, 2}[rng.Intn(2)]), 20)
			if err != nil {
				continue
			}
			lis.before, lis.context = r.views(), "pillar-race:momentum-inserted-by-sync-before-the-own-one"
			before := lis.before
			r.what = "pillar race: another momentum for the same height inserted by sync"
			if err := AddMomentum(nd.Ch, comp); err != nil {
				out.Oracle(false, "competing-momentum-accepted", Tup(err.Error(), "pillar race"))
			}
			lis.before = nil
			r.checkAll(before, types.Address{}, false)
			synced = FrontierOf(nd.Ch).Hash == comp.Momentum.Hash && comp.Momentum.Hash != own.Momentum.Hash
		}
	}

	// 3. the pillar inserts its own momentum
	lis.before, lis.context = r.views(), "pillar-race:own-momentum-inserted"
	before := lis.before
	r.what = fmt.Sprintf("pillar race: own momentum %d inserted (%d blocks, %d accounts with a displaced block, %d children)", own.Momentum.Height, len(ownBlocks), len(displaced), children)
	pnc := protect(func() { err = AddMomentum(nd.Ch, own) })
	lis.before = nil
	if pnc != nil {
		out.Oracle(false, "late-own-momentum-insert-panics", Tup(fmt.Sprint(pnc), r.subscribed))
	}
	fm := FrontierOf(nd.Ch)
	applied := fm.Hash == own.Momentum.Hash
	if !synced {
		out.Oracle(err == nil && applied && fm.PreviousHash == parent.Hash, "frontier-is-the-applied-momentum", Tup("pillar race: own momentum", U64(fm.Height), fmt.Sprint(err)))
	}
	after := r.checkAll(before, types.Address{}, false)
	for _, a := range r.viewAccounts() {
		b, av := before[a], after[a]
		k := 0
		if applied {
			k = inContent(own, a)
		}
		_, disp := displaced[a]
		tag := fmt.Sprintf("pillar-race:own-momentum-applied=%v:account-in-momentum=%v:block-of-momentum-displaced=%v:pooled-before=%v", applied, k > 0, disp, len(b.pool) > 0)
		out.Count("pool:" + tag)
		// what the momentum confirmed is what it was generated with
		okc := len(av.confirmed) == len(b.confirmed)+k
		if okc && applied {
			okc = sameHashes(av.confirmed[len(b.confirmed):], inOwn[a])
		}
		out.Oracle(okc, "momentum-confirms-the-blocks-it-was-generated-with", Tup(a.String(), tag, I64(int64(k)), I64(int64(len(av.confirmed)-len(b.confirmed)))))
		// the pool: the previously pooled blocks that were not confirmed and still link
		want := expectedPool(b.pool, av.confirmed)
		out.Oracle(sameHashes(av.pool, want), "rebuild-exact", M{"account": a.String(), "case": tag, "pooled_before": I64(int64(len(b.pool))), "pooled_now": I64(int64(len(av.pool))),
			"expected_pooled_now": I64(int64(len(want))), "confirmed_by_the_momentum": I64(int64(k)), "what": r.what})
		if sameHashes(b.pool[:min(k, len(b.pool))], av.confirmed[len(b.confirmed):]) && k <= len(b.pool) {
			// the momentum confirmed a prefix of the pool as it was at the insertion: the model's OMomentum k
			r.emitStep(b, Con("OMomentum", U64(uint64(k))), 0, av, fmt.Sprintf("pillar-race-own-momentum-confirms-%d-leaves-%s", min(k, 3), map[bool]string{true: "some-pooled", false: "none"}[len(av.pool) > 0]))
		} else {
			// it confirmed other blocks than the pool held at these heights
			r.emitStep(b, Con("OConfirm", blocksTerm(av.confirmed[len(b.confirmed):])), 0, av, fmt.Sprintf("pillar-race-own-momentum-confirms-%d-displaced-leaves-%s", min(k, 3), map[bool]string{true: "some-pooled", false: "none"}[len(av.pool) > 0]))
		}
	}
	// 4. what the pool offers now can be produced, and the node does produce
	r.contentVerifies("pillar race: after the own momentum")
	if rng.Intn(3) != 0 {
		lis.before, lis.context = r.views(), "pillar-race:next-momentum"
		before = lis.before
		r.what = "pillar race: next momentum of the node"
		r.produceNext("pillar race: after the own momentum")
		lis.before = nil
		r.checkAll(before, types.Address{}, false)
	}
}

func blocksTerm(bs []*nom.AccountBlock) []interface{} {
	l := Lst()
	for _, b := range bs {
		l = append(l, blockTerm(b))
	}
	return l
}
