package main

// Readers that HOLD views of the unconfirmed pool (clause "concurrent readers never observe a half-applied block", and the
// basis of "the winner replaces the loser": the pool can go back to every earlier unconfirmed version).
// What the node hands out for an unconfirmed block - GetAccountStore(address, identifier) (what the vm builds the next
// block on, what the RPC and the verifier read), GetFrontierAccountStore(address), GetPatch(address, identifier) - is a
// snapshot of the state right after that block. After EVERY operation of a pool history
//   * every view handed out earlier and still held by the reader is read again in full (every key): it must show what
//     it showed when it was handed out, whatever was inserted, replaced, confirmed or rolled back since;
//   * for every pooled position of every account the view of that position is taken and compared with the state it
//     stands for, computed without the pool's version manager: the ledger state of the account (frontier momentum
//     store) with the patches of the pooled blocks up to that position applied, and its frontier must be that block.

import (
	"bytes"
	"fmt"
	"sort"

	"github.com/zenon-network/go-zenon/chain/nom"
	"github.com/zenon-network/go-zenon/chain/store"
	"github.com/zenon-network/go-zenon/common/db"
	"github.com/zenon-network/go-zenon/common/types"
	. "zharness/hz"
)

type iterable interface {
	NewIterator(prefix []byte) db.StorageIterator
}

// every key of a store, in key order (entries without a value are deletion marks of an overlay, not content)
func kvOf(x interface{}) (map[string]string, bool) {
	d, ok := x.(iterable)
	if !ok {
		return nil, false
	}
	m := map[string]string{}
	it := d.NewIterator(nil)
	defer it.Release()
	for it.Next() {
		if it.Value() == nil {
			continue
		}
		m[string(it.Key())] = string(it.Value())
	}
	return m, true
}
func renderKV(m map[string]string) string {
	keys := make([]string, 0, len(m))
	for k := range m {
		keys = append(keys, k)
	}
	sort.Strings(keys)
	var sb bytes.Buffer
	for _, k := range keys {
		fmt.Fprintf(&sb, "%x=%x;", k, m[k])
	}
	return sb.String()
}
func dumpAccount(st store.Account) string {
	if st == nil {
		return "nil-store"
	}
	m, ok := kvOf(st)
	if !ok {
		return "not-iterable"
	}
	return renderKV(m)
}

// the net effect of a patch: last write per key (the pool appends the frontier entries of a block to its patch again at
// every rebuild, so the record list grows while the effect stays)
type patchEffect struct {
	put map[string]string
	del map[string]bool
}

func (p *patchEffect) Put(k, v []byte) {
	p.put[string(k)] = string(v)
	delete(p.del, string(k))
}
func (p *patchEffect) Delete(k []byte) {
	delete(p.put, string(k))
	p.del[string(k)] = true
}
func effectOf(p db.Patch) *patchEffect {
	e := &patchEffect{put: map[string]string{}, del: map[string]bool{}}
	if p != nil {
		p.Replay(e)
	}
	return e
}
func dumpPatch(p db.Patch) string {
	if p == nil {
		return "nil-patch"
	}
	e := effectOf(p)
	s := renderKV(e.put)
	dels := make([]string, 0, len(e.del))
	for k := range e.del {
		dels = append(dels, k)
	}
	sort.Strings(dels)
	for _, k := range dels {
		s += fmt.Sprintf("%x=DELETE;", k)
	}
	return s
}

type heldView struct {
	addr  types.Address
	id    types.HashHeight // the block whose state the view shows
	kind  string           // account-store-at-identifier | frontier-account-store | patch
	st    store.Account
	patch db.Patch
	want  string // what it showed when it was handed out
	op    int    // number of the operation after which it was handed out
	pos   int    // pooled position of the block at that moment (1 = first unconfirmed)
}

func (h *heldView) read() (s string) {
	defer func() {
		if p := recover(); p != nil {
			s = fmt.Sprint("panic: ", p)
		}
	}()
	if h.kind == "patch" {
		return dumpPatch(h.patch)
	}
	return fmt.Sprintf("frontier=%v@%d;", h.st.Identifier().Hash, h.st.Identifier().Height) + dumpAccount(h.st)
}

type viewKeeper struct {
	held []*heldView
	have map[string]bool
	ops  int
}

const maxHeld = 36

func (vk *viewKeeper) hold(h *heldView) {
	key := fmt.Sprintf("%s/%v/%v", h.kind, h.addr, h.id.Hash)
	if vk.have[key] {
		return
	}
	if vk.have == nil {
		vk.have = map[string]bool{}
	}
	vk.have[key] = true
	h.want = h.read()
	h.op = vk.ops
	vk.held = append(vk.held, h)
	if len(vk.held) > maxHeld {
		vk.held = vk.held[len(vk.held)-maxHeld:] // the oldest are given up (their keys stay: not taken again)
	}
}

func firstDiff(a, b string) string {
	i := 0
	for i < len(a) && i < len(b) && a[i] == b[i] {
		i++
	}
	lo := i - 40
	if lo < 0 {
		lo = 0
	}
	cut := func(s string) string {
		hi := i + 80
		if hi > len(s) {
			hi = len(s)
		}
		if lo > len(s) {
			return ""
		}
		return s[lo:hi]
	}
	return fmt.Sprintf("at %d: held %q now %q", i, cut(a), cut(b))
}

// positions of a pooled chain to look at: all of a short one; the ends and a few in between of a long one
func positions(n int, pick func(int) int) []int {
	if n <= 8 {
		l := make([]int, n)
		for i := range l {
			l[i] = i
		}
		return l
	}
	seen := map[int]bool{}
	var l []int
	for _, i := range []int{0, 1, 2, n - 3, n - 2, n - 1, pick(n), pick(n), pick(n)} {
		if !seen[i] {
			seen[i] = true
			l = append(l, i)
		}
	}
	sort.Ints(l)
	return l
}

// observeViews: after every operation of a pool history (what = the operation that was just made)
func (r *poolRun) observeViews(what string, accounts []types.Address) {
	vk := r.vk
	vk.ops++
	out := r.out
	// 1. what was handed out earlier still shows what it showed
	for _, h := range vk.held {
		now := h.read()
		ok := now == h.want
		detail := M{}
		if !ok {
			detail = M{"view": h.kind, "account": h.addr.String(), "block_height": U64(h.id.Height), "block": h.id.Hash.String(),
				"pooled_position_when_handed_out": I64(int64(h.pos)), "handed_out_after_operation": I64(int64(h.op)), "changed_by_operation": I64(int64(vk.ops)),
				"operation": what, "difference": firstDiff(h.want, now)}
		}
		out.Oracle(ok, "held-pool-view-unchanged", detail)
		h.want = now // a change is reported once
	}
	// 2. the view of every pooled position is the state after that block
	for _, a := range accounts {
		pool := r.nd.Ch.GetUncommittedAccountBlocksByAddress(a)
		if len(pool) == 0 {
			continue
		}
		ledger := r.nd.Ch.GetFrontierMomentumStore().GetAccountStore(a)
		state, ok := kvOf(ledger)
		if !ok {
			continue
		}
		want := map[int]string{}
		look := map[int]bool{}
		for _, i := range positions(len(pool), r.rng.Intn) {
			look[i] = true
		}
		for i, b := range pool {
			p := r.nd.Ch.GetPatch(a, b.Identifier())
			e := effectOf(p)
			for k, v := range e.put {
				state[k] = v
			}
			for k := range e.del {
				delete(state, k)
			}
			if look[i] {
				want[i] = renderKV(state)
			}
		}
		for i, b := range pool {
			if !look[i] || b.BlockType == nom.BlockTypeContractSend {
				// a contract's batch is one transaction: the versions of its descendant sends are the version of the whole batch
				continue
			}
			id := b.Identifier()
			st := r.nd.Ch.GetAccountStore(a, id)
			got, front := "nil-store", types.HashHeight{}
			if st != nil {
				got, front = dumpAccount(st), st.Identifier()
			}
			okv := st != nil && front == id && got == want[i]
			detail := M{}
			if !okv {
				detail = M{"account": a.String(), "pooled_position": I64(int64(i + 1)), "pooled": I64(int64(len(pool))), "block_height": U64(id.Height),
					"view_frontier_height": U64(front.Height), "view_frontier_is_the_block": front == id, "after_operation": what, "difference": firstDiff(want[i], got)}
			}
			out.Oracle(okv, "pool-view-at-identifier-is-the-state-after-that-block", detail)
			out.Count(fmt.Sprintf("views:taken-at-pooled-position=%d", min(i+1, 4)))
			if st != nil {
				vk.hold(&heldView{addr: a, id: id, kind: "account-store-at-identifier", st: st, pos: i + 1})
			}
			if p := r.nd.Ch.GetPatch(a, id); p != nil && (i >= len(pool)-2 || i < 2) {
				vk.hold(&heldView{addr: a, id: id, kind: "patch", patch: p, pos: i + 1})
			}
		}
		// the frontier view (rpc readers, subscriptions, the vm context of the next block)
		top := pool[len(pool)-1].Identifier()
		fs := r.nd.Ch.GetFrontierAccountStore(a)
		out.Oracle(fs.Identifier() == top && dumpAccount(fs) == want[len(pool)-1], "pool-view-at-identifier-is-the-state-after-that-block",
			M{"account": a.String(), "view": "frontier-account-store", "pooled": I64(int64(len(pool))), "after_operation": what})
		vk.hold(&heldView{addr: a, id: top, kind: "frontier-account-store", st: fs, pos: len(pool)})
	}
}

func (vk *viewKeeper) counters(out *Out) {
	maxAge := 0
	for _, h := range vk.held {
		if vk.ops-h.op > maxAge {
			maxAge = vk.ops - h.op
		}
	}
	out.Count(fmt.Sprintf("views:history:oldest-held-view-age>=%d-operations", min(maxAge/10*10, 50)))
}
