package main

// A suite whose histories run in processes of their own.
// A node whose pool no longer follows the ledger can end the process in a way no recover() catches: a panic inside an
// insert / delete notification (accountPool.rebuild on a manager that stands on a block the ledger does not have)
// unwinds through momentumPool.AddMomentumTransaction while its mutex is released for the notification, and the deferred
// Unlock ends the process with "fatal error: sync: unlock of unlocked mutex". The driver reads nothing of a harness
// that exited != 0, so a single such death used to hide every verdict of the run. Here the parent survives: the child
// writes (and flushes) its cases, failing oracles and the operation it is making as it goes; the parent takes over
// every complete line, and a child that did not end properly is itself a failing oracle (key given by the suite) whose
// detail names the child's seed, the last operation and the head of the death message.

import (
	"bufio"
	"bytes"
	"encoding/json"
	"fmt"
	"os"
	"os/exec"
	"strings"
	"time"

	. "zharness/hz"
)

// progress: the child says what it has just done and hands everything written so far to the file
func (r *poolRun) progress() {
	if !isChild {
		return
	}
	r.out.Emit(M{"k": "op", "what": r.what})
	r.out.W.Flush()
}

var isChild = strings.HasSuffix(firstArg(), "-child")

func firstArg() string {
	if len(os.Args) > 1 {
		return os.Args[1]
	}
	return ""
}

type childLine struct {
	K      string                     `json:"k"`
	Fn     string                     `json:"fn"`
	In     json.RawMessage            `json:"in"`
	Out    json.RawMessage            `json:"out"`
	Tag    string                     `json:"tag"`
	Key    string                     `json:"key"`
	Detail json.RawMessage            `json:"detail"`
	What   string                     `json:"what"`
	Dist   map[string]json.RawMessage `json:"dist"`
}

func runIsolated(suite string, seed int64, n int, out *Out, surviveKey, label string) {
	exe, err := os.Executable()
	if err != nil {
		panic(err)
	}
	tmp, err := os.CreateTemp("", "c14child*.jsonl")
	if err != nil {
		panic(err)
	}
	tmp.Close()
	defer os.Remove(tmp.Name())
	cmd := exec.Command(exe, suite, "-seed", fmt.Sprint(seed), "-n", fmt.Sprint(n), "-out", tmp.Name())
	var stderr bytes.Buffer
	cmd.Stderr = &limitedBuffer{b: &stderr, max: 1 << 20}
	done := make(chan error, 1)
	if err = cmd.Start(); err == nil {
		go func() { done <- cmd.Wait() }()
		select {
		case err = <-done:
		case <-time.After(20 * time.Minute):
			cmd.Process.Kill()
			err = fmt.Errorf("no end after 20 minutes (killed): %v", <-done)
		}
	}

	lastOp := ""
	fails := map[string]int{}
	closed := false
	if f, e := os.Open(tmp.Name()); e == nil {
		sc := bufio.NewScanner(f)
		sc.Buffer(make([]byte, 1<<20), 256<<20)
		for sc.Scan() {
			var l childLine
			if json.Unmarshal(sc.Bytes(), &l) != nil {
				continue // the line the child was writing when it died
			}
			switch l.K {
			case "case":
				out.Case(l.Fn, l.In, l.Out, l.Tag)
			case "oracle":
				fails[l.Key]++
				out.Oracle(false, l.Key, l.Detail)
			case "op":
				lastOp = l.What
			case "dist":
				closed = true
				for k, v := range l.Dist {
					var c int
					if json.Unmarshal(v, &c) != nil {
						continue
					}
					switch {
					case strings.HasPrefix(k, "case:"): // counted by out.Case
					case strings.HasPrefix(k, "oracle:"):
						for i := fails[k[len("oracle:"):]]; i < c; i++ {
							out.Oracle(true, k[len("oracle:"):], nil)
						}
					default:
						for i := 0; i < c; i++ {
							out.Count(k)
						}
					}
				}
			}
		}
		f.Close()
	}
	ok := err == nil && closed
	detail := M{}
	if !ok {
		detail = M{"history": label, "replay": fmt.Sprintf("c14 %s -seed %d -n %d", suite, seed, n), "exit": fmt.Sprint(err), "last_operation_completed": lastOp,
			"failing_oracles_before_the_end": I64(int64(len(fails))), "death": deathMessage(stderr.String())}
		fmt.Fprintln(os.Stderr, "child", label, "did not end properly:", err, "\n", deathMessage(stderr.String()))
	}
	out.Oracle(ok, surviveKey, detail)
}

// the part of a Go death message that says what happened: the panic / fatal error lines and the first stack
func deathMessage(s string) string {
	i := -1
	for _, m := range []string{"panic: ", "fatal error: ", "Fatalf", "runtime error"} {
		if j := strings.Index(s, m); j >= 0 && (i < 0 || j < i) {
			i = j
		}
	}
	if i < 0 {
		i = 0
	}
	s = s[i:]
	// the stack of the goroutine that died, without the others
	if j := strings.Index(s, "\n\ngoroutine "); j > 0 {
		if k := strings.Index(s[j+2:], "\n\n"); k > 0 {
			s = s[:j+2+k]
		}
	}
	if len(s) > 3500 {
		s = s[:3500]
	}
	return s
}

type limitedBuffer struct {
	b   *bytes.Buffer
	max int
}

func (l *limitedBuffer) Write(p []byte) (int, error) {
	if room := l.max - l.b.Len(); room > 0 {
		if len(p) > room {
			l.b.Write(p[:room])
		} else {
			l.b.Write(p)
		}
	}
	return len(p), nil
}
