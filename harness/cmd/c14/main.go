package main

// c14: unconfirmed pool — one consistent chain per account.
//   pool      - sequences of insert / competing block (better, worse, equal plasma ratio; forced or not) / bogus blocks /
//               momentum insert / momentum delete over several accounts on the real node
//   priority  - the pool's priority rule and the momentum content filter called directly (verif hook) over the full range
//   race      - reader goroutines against the inserter in a -race build (exploration, partial)
import (
	"errors"
	"fmt"
	"math/big"
	"math/rand"
	"os"

	"github.com/zenon-network/go-zenon/chain"
	g "github.com/zenon-network/go-zenon/chain/genesis/mock"
	"github.com/zenon-network/go-zenon/chain/nom"
	"github.com/zenon-network/go-zenon/common/db"
	"github.com/zenon-network/go-zenon/common/types"
	"github.com/zenon-network/go-zenon/rpc/api/subscribe"
	"github.com/zenon-network/go-zenon/vm/constants"
	"github.com/zenon-network/go-zenon/vm/embedded/definition"
	"github.com/zenon-network/go-zenon/wallet"
	. "zharness/hz"
)

func main() {
	Main(map[string]Runner{"pool": runPool, "pool-child": runPoolChild, "priority": runPriority, "race": runRace, "race-child": runRaceChild, "content": runContent, "batches": runBatches,
		"entries": runEntries})
}

func errClassPool(err error) int64 {
	switch {
	case err == nil:
		return 0
	case errors.Is(err, chain.ErrPlasmaRatioIsWorse):
		return 1
	case errors.Is(err, chain.ErrHashTieBreak):
		return 2
	case errors.Is(err, chain.ErrFailedToAddAccountBlockTransaction):
		return 3
	}
	return 8
}

func hashZ(h types.Hash) *big.Int { return new(big.Int).SetBytes(h.Bytes()) }

// in pool_step cases a hash is represented by its first 8 bytes (the order of two random hashes is decided there;
// full 32-byte hashes, also ones that differ only in the last byte, are used by the higher_priority cases)
func hash8(h types.Hash) *big.Int { return new(big.Int).SetBytes(h.Bytes()[:8]) }

func blockTerm(b *nom.AccountBlock) M {
	return Con("mkBlock", Big(hash8(b.Hash)), Big(hash8(b.PreviousHash)), U64(b.Height), U64(b.TotalPlasma), U64(b.BasePlasma), b.BlockType == nom.BlockTypeContractSend)
}

type acctView struct {
	confirmed, pool []*nom.AccountBlock
}

func view(nd *Node, addr types.Address) acctView {
	st := nd.Ch.GetFrontierMomentumStore().GetAccountStore(addr)
	h := st.Identifier().Height
	v := acctView{}
	for i := uint64(1); i <= h; i++ {
		b, err := st.ByHeight(i)
		if err != nil || b == nil {
			panic(fmt.Sprintf("confirmed block %d of %v missing: %v", i, addr, err))
		}
		v.confirmed = append(v.confirmed, b)
	}
	v.pool = nd.Ch.GetUncommittedAccountBlocksByAddress(addr)
	return v
}
func (v acctView) chainTerm() []interface{} {
	l := Lst()
	for _, b := range v.confirmed {
		l = append(l, blockTerm(b))
	}
	for _, b := range v.pool {
		l = append(l, blockTerm(b))
	}
	return l
}
func hashesTerm(bs []*nom.AccountBlock) []interface{} {
	l := Lst()
	for _, b := range bs {
		l = append(l, Big(hash8(b.Hash)))
	}
	return l
}
func sameHashes(a, b []*nom.AccountBlock) bool {
	if len(a) != len(b) {
		return false
	}
	for i := range a {
		if a[i].Hash != b[i].Hash {
			return false
		}
	}
	return true
}

// the property's own statement: the pool is a hash-linked chain on top of the confirmed frontier
func linkedOnTop(v acctView) bool {
	prev := types.HashHeight{}
	if n := len(v.confirmed); n > 0 {
		prev = v.confirmed[n-1].Identifier()
	}
	for _, b := range v.pool {
		// block by block (Previous() of a contract receive names the parent of its whole batch)
		if b.PreviousHash != prev.Hash || b.Height != prev.Height+1 {
			return false
		}
		prev = b.Identifier()
	}
	return true
}

type poolRun struct {
	nd         *Node
	rng        *rand.Rand
	out        *Out
	users      []*wallet.KeyPair
	lis        *poolListener
	subscribed bool                         // the RPC subscription server is one of the chain's listeners
	vk         *viewKeeper                  // views of pooled positions handed out earlier and still held (views.go)
	what       string                       // the operation being made (for the details of failing oracles)
	sib        map[types.Address][]*sibling // competitors prepared while their parent was the frontier (ladder.go)
	quiet      *wallet.KeyPair              // an account nobody looks at after every operation: it is read (rpc-style) only now and then (reorg.go)
	broken     bool                         // the clause failed after a momentum delete: the history ends (reorg.go)
	longCases  int
}

func (r *poolRun) views() map[types.Address]acctView {
	m := map[types.Address]acctView{}
	for _, u := range r.users {
		m[u.Address] = view(r.nd, u.Address)
	}
	// the token contract: its batches (receive + descendant sends) are pooled by the pillar's contract worker after a momentum
	m[types.TokenContract] = view(r.nd, types.TokenContract)
	return m
}

// craft a user send of `u` on top of `prev` (zero = the pool frontier) with `extra` fused plasma above the base cost
func (r *poolRun) craft(u *wallet.KeyPair, prev types.HashHeight, extra uint64, dataLen int) (*nom.AccountBlockTransaction, error) {
	rng := r.rng
	b := &nom.AccountBlock{BlockType: nom.BlockTypeUserSend, Address: u.Address, ToAddress: r.users[rng.Intn(len(r.users))].Address,
		TokenStandard: types.ZnnTokenStandard, Amount: big.NewInt(int64(1 + rng.Intn(1000000)))}
	if dataLen > 0 {
		b.Data = make([]byte, dataLen)
		rng.Read(b.Data)
	}
	if prev != (types.HashHeight{}) {
		b.PreviousHash, b.Height = prev.Hash, prev.Height+1
	}
	r.nd.Fill(b)
	b.FusedPlasma = constants.AccountBlockBasePlasma + uint64(dataLen)*constants.ABByteDataPlasma + extra
	Sign(b, u)
	return r.nd.Apply(b)
}

func (r *poolRun) emitStep(before acctView, opTerm M, code int64, after acctView, tag string) {
	// the model evaluates the whole account chain: of the cases on chains of more than 60 blocks (histories with a
	// backlog phase) every other one is replayed (the Coq evaluation of the cases dominates the wall time of the check)
	if len(before.confirmed)+len(before.pool) > 60 {
		r.longCases++
		if r.longCases%2 == 0 {
			r.out.Count("pool:model-replay-skipped:chain-longer-than-60-blocks")
			return
		}
	}
	r.out.Case("pool_step", Tup(before.chainTerm(), U64(uint64(len(before.confirmed))), opTerm),
		Tup(I64(code), hashesTerm(after.pool), U64(uint64(len(after.confirmed)))), tag)
}

func (r *poolRun) checkAll(before map[types.Address]acctView, touched types.Address, addOp bool) map[types.Address]acctView {
	defer r.progress()
	after := r.views()
	r.observeViews(r.what, r.viewAccounts())
	for a, v := range after {
		r.out.Oracle(linkedOnTop(v), "pool-single-linked-chain", Tup(a.String(), I64(int64(len(v.confirmed))), I64(int64(len(v.pool))), r.what))
		r.clauseNow(a, v, r.what)
		if addOp {
			r.out.Oracle(sameHashes(v.confirmed, before[a].confirmed), "confirmed-never-displaced", Tup(a.String()))
			if a != touched {
				r.out.Oracle(sameHashes(v.pool, before[a].pool), "other-accounts-untouched", Tup(a.String()))
			}
		}
	}
	return after
}

// every history runs in a process of its own (isolate.go): a node whose pool is broken can end the process in a way
// that no recover() catches (a panic inside an insert / delete notification is followed by "fatal error: sync: unlock
// of unlocked mutex" in momentumPool.AddMomentumTransaction); the parent then still has every verdict up to that
// point and reports the death itself as a failing oracle
func runPool(rng *rand.Rand, n int, out *Out, _ []string) {
	if os.Getenv("C14_INPROC") != "" {
		runPoolChild(rng, n, out, nil)
		return
	}
	for h := 0; h < n; h++ {
		runIsolated("pool-child", rng.Int63(), 1, out, "pool-history-process-survives", fmt.Sprintf("pool history %d", h))
	}
}
func runPoolChild(rng *rand.Rand, n int, out *Out, _ []string) {
	for h := 0; h < n; h++ {
		poolHistory(rng, out)
	}
}

func poolHistory(rng *rand.Rand, out *Out) {
	nd := NewNode()
	defer nd.Stop()
	r := &poolRun{nd: nd, rng: rng, out: out, users: []*wallet.KeyPair{g.User1, g.User2, g.User3}, vk: &viewKeeper{}, sib: map[types.Address][]*sibling{}, quiet: g.User4}
	// every insert / delete notification of the chain is observed (compete.go)
	r.lis = &poolListener{r: r}
	nd.Ch.Register(r.lis)
	// demonstration of the observation only (never set by the check): with the RPC subscription server among the
	// listeners the late own momentum ends the process (nil block dereferenced in subscribe.newAccountBlock, then
	// "fatal error: sync: unlock of unlocked mutex" in AddMomentumTransaction's deferred Unlock)
	if os.Getenv("C14_SUBSCRIBE") != "" {
		srv := subscribe.GetSubscribeServer(nd.Ch)
		srv.Init()
		srv.Start()
		defer srv.Stop()
		r.subscribed = true
	}
	defer func() {
		nd.Ch.UnRegister(r.lis)
		r.vk.counters(out)
		out.Count(fmt.Sprintf("pool:history:insert-notifications>=%d", min(r.lis.inserts/10*10, 30)))
		if r.lis.nilBlk > 0 {
			// OBSERVATION (outside C14's statement, see design.d/C14.md): the insert notification of a momentum the store did
			// not apply carries nil account blocks (PrefetchMomentum on a store that does not have them)
			out.Count("observation:insert-event-of-not-applied-momentum-carries-nil-blocks")
		}
	}()
	steps := 40 + rng.Intn(40)
	bigAt := -1
	if rng.Intn(3) == 0 {
		bigAt = rng.Intn(steps)
	}
	for s := 0; s < steps; s++ {
		if r.broken {
			// the pool does not follow the ledger after a momentum delete (reported): whatever is done on this node from here
			// on says nothing more, and a momentum insert on it can end the process
			out.Count("pool:history-ended:clause-failed-after-a-momentum-delete")
			return
		}
		u := r.users[rng.Intn(len(r.users))]
		r.quietStep()
		if s == bigAt {
			// more pooled blocks than a momentum takes: the next momentum confirms only a part, the rest is rebuilt
			nbig := chain.MaxAccountBlocksInMomentum + 1 + rng.Intn(40)
			for i := 0; i < nbig; i++ {
				uu := r.users[rng.Intn(len(r.users))]
				if rng.Intn(3) == 0 {
					uu = u
				}
				if tx, err := r.craft(uu, types.HashHeight{}, uint64(rng.Intn(3))*1000, 0); err == nil {
					nd.Insert(tx)
				}
			}
			out.Count("pool:big-pool-phase")
		}
		before := r.views()
		bv := before[u.Address]
		k := rng.Intn(100)
		if s == bigAt {
			k = 90 // momentum right after
		}
		switch {
		case k == 85 || k == 99: // a reorganisation by sync: a longer branch from an earlier momentum is delivered (reorg.go)
			r.reorgBySync()
		case k >= 91 && k < 96: // competing producers (compete.go)
			r.competingProducers()
		case k >= 86 && k < 91: // the pillar race: own momentum generated, the pool moves on, own momentum inserted (pillarrace.go)
			r.pillarRace()
		case k < 42: // fast-forward insert, sometimes a contract call that produces contract sends later
			var tx *nom.AccountBlockTransaction
			var err error
			if rng.Intn(6) == 0 {
				b := &nom.AccountBlock{BlockType: nom.BlockTypeUserSend, Address: u.Address, ToAddress: types.TokenContract, TokenStandard: types.ZnnTokenStandard,
					Amount: constants.TokenIssueAmount, Data: definition.ABIToken.PackMethodPanic(definition.IssueMethodName, fmt.Sprintf("tok-%d", s), "TKN", "", big.NewInt(100), big.NewInt(1000), uint8(1), true, true, false)}
				tx, err = nd.Sv.GenerateFromTemplate(b, u.Signer)
			} else if rng.Intn(2) == 0 {
				// two candidates for this height; the second one is kept and offered later (ladder.go)
				var s *sibling
				tx, s, err = r.craftPair(u)
				if err == nil && s != nil {
					r.sib[u.Address] = append(r.sib[u.Address], s)
					if n := len(r.sib[u.Address]); n > 6 {
						r.sib[u.Address] = r.sib[u.Address][n-6:]
					}
				}
			} else {
				tx, err = r.craft(u, types.HashHeight{}, []uint64{0, 0, 1000, 21000, 50000}[rng.Intn(5)], []int{0, 0, 10, 100}[rng.Intn(4)])
			}
			if err != nil {
				out.Count("pool:craft-rejected")
				continue
			}
			opTerm := Con("OAdd", false, blockTerm(tx.Block))
			r.what = fmt.Sprintf("fast-forward insert at height %d of %v", tx.Block.Height, u.Address)
			e := nd.Insert(tx)
			after := r.checkAll(before, u.Address, true)
			r.emitStep(bv, opTerm, errClassPool(e), after[u.Address], "fast-forward")
			out.Oracle(e == nil && len(after[u.Address].pool) == len(bv.pool)+1, "fast-forward-accepted", Tup(fmt.Sprint(e)))
		case k >= 64 && k < 72: // competitors for every unconfirmed height of a freshly pooled chain (ladder.go)
			r.ladder(u)
		case k < 64 && len(r.sib[u.Address]) > 0 && rng.Intn(2) == 0: // a competitor prepared earlier, whatever happened to its height since
			l := r.sib[u.Address]
			i := rng.Intn(len(l))
			sb := l[i]
			r.sib[u.Address] = append(l[:i:i], l[i+1:]...)
			force := rng.Intn(4) == 0
			tag := "prepared-" + sb.rel
			if force {
				tag += "-forced"
			}
			r.offer(u, sb.tx, force, tag)
		case k < 64: // competing block at an occupied pooled height, built by the node on the view of the parent
			if len(bv.pool) == 0 {
				continue
			}
			idx := rng.Intn(len(bv.pool))
			// the parent version as the pool hands it out
			if pv := nd.Ch.GetAccountStore(u.Address, bv.pool[idx].Previous()); pv == nil || pv.Identifier() != bv.pool[idx].Previous() {
				out.Oracle(false, "pool-view-at-identifier-is-the-state-after-that-block", M{"account": u.Address.String(), "pooled_position": I64(int64(idx)), "pooled": I64(int64(len(bv.pool))),
					"view": "account store of the parent of a competing block", "nil": pv == nil})
			}
			inc := bv.pool[idx]
			if inc.BlockType != nom.BlockTypeUserSend {
				continue
			}
			// plasma relative to the incumbent: same data length => same base; choose total below / equal / above
			incExtra := inc.TotalPlasma - inc.BasePlasma
			var extra uint64
			rel := rng.Intn(3)
			switch rel {
			case 0:
				extra = incExtra
			case 1:
				extra = incExtra + uint64(1+rng.Intn(30000))
			default:
				if incExtra == 0 {
					extra = 0
				} else {
					extra = uint64(rng.Int63n(int64(incExtra)))
				}
			}
			tx, err := r.craft(u, inc.Previous(), extra, len(inc.Data))
			if err != nil {
				out.Count("pool:craft-rejected")
				continue
			}
			force := rng.Intn(4) == 0
			opTerm := Con("OAdd", force, blockTerm(tx.Block))
			r.what = fmt.Sprintf("competing block for pooled position %d of %d of %v (forced=%v)", idx+1, len(bv.pool), u.Address, force)
			out.Count(fmt.Sprintf("pool:competitor-offered-at-pooled-position=%d-of-%d", min(idx+1, 5), min(len(bv.pool), 5)))
			// the competitor reaches the pool by one of the node's entries (entries.go): straight into the pool, published
			// over rpc, relayed by a peer (the chain bridge's gossip entry); forced: as sync does it
			en := entryPool
			if !force {
				en = []entry{entryPool, entryPool, entryGossip, entryGossip, entryPublish}[rng.Intn(5)]
			}
			e, errKnown, pnc := r.deliver(nd, tx, force, en)
			out.Oracle(pnc == nil, "pool-add-no-panic", Tup("competing block by "+en.String(), fmt.Sprint(pnc)))
			out.Count("pool:competitor-entry=" + en.String())
			after := r.checkAll(before, u.Address, true)
			av := after[u.Address]
			tag := "compete-" + []string{"equal-ratio", "better-ratio", "worse-ratio"}[rel]
			if force {
				tag += "-forced"
			}
			if en != entryPool {
				tag += "-by-" + en.String()
			}
			if installed := len(av.pool) > 0 && av.pool[len(av.pool)-1].Hash == tx.Block.Hash; errKnown || (installed && e == nil) {
				r.emitStep(bv, opTerm, errClassPool(e), av, tag)
			}
			// winner by (plasma ratio, then smaller hash), evaluated without machine arithmetic
			nb := tx.Block
			l := new(big.Int).Mul(new(big.Int).SetUint64(nb.TotalPlasma), new(big.Int).SetUint64(inc.BasePlasma))
			rr := new(big.Int).Mul(new(big.Int).SetUint64(inc.TotalPlasma), new(big.Int).SetUint64(nb.BasePlasma))
			newWins := l.Cmp(rr) > 0 || (l.Cmp(rr) == 0 && hashZ(nb.Hash).Cmp(hashZ(inc.Hash)) < 0)
			replaced := len(av.pool) == idx+1 && av.pool[idx].Hash == nb.Hash && sameHashes(av.pool[:idx], bv.pool[:idx])
			unchanged := sameHashes(av.pool, bv.pool)
			detail := func(expected string) M {
				return M{"case": tag, "entry": en.String(), "expected": expected, "error": fmt.Sprint(e), "forced": force, "account": u.Address.String(), "pooled_position": I64(int64(idx + 1)),
					"pooled_before": I64(int64(len(bv.pool))), "pooled_after": I64(int64(len(av.pool))),
					"pooled_block": fmt.Sprintf("%v total=%d base=%d", inc.Hash, inc.TotalPlasma, inc.BasePlasma), "competitor": fmt.Sprintf("%v total=%d base=%d", nb.Hash, nb.TotalPlasma, nb.BasePlasma)}
			}
			switch {
			case force || newWins:
				out.Oracle(e == nil && replaced, "replacement-follows-priority-rule", detail("the competitor replaces the pooled block and what was built on it"))
			case l.Cmp(rr) < 0:
				out.Oracle((errClassPool(e) == 1 || !errKnown) && unchanged, "replacement-follows-priority-rule", detail("ratio worse: pool unchanged"))
			default:
				out.Oracle((errClassPool(e) == 2 || !errKnown) && unchanged, "replacement-follows-priority-rule", detail("equal ratio, hash not smaller: pool unchanged"))
			}
		case k < 80: // re-insert a pooled block (already inserted), or a bogus block straight into the pool
			var tx *nom.AccountBlockTransaction
			tag := "bogus"
			if len(bv.pool) > 0 && rng.Intn(2) == 0 {
				b := bv.pool[rng.Intn(len(bv.pool))]
				tx = &nom.AccountBlockTransaction{Block: b.Copy(), Changes: db.NewPatch()}
				tag = "already-inserted"
			} else {
				all := append(append([]*nom.AccountBlock{}, bv.confirmed...), bv.pool...)
				b := &nom.AccountBlock{BlockType: nom.BlockTypeUserSend, Address: u.Address, TotalPlasma: uint64(rng.Intn(100000)), BasePlasma: 21000}
				switch rng.Intn(5) {
				case 0: // at a confirmed height
					if len(bv.confirmed) > 0 {
						c := bv.confirmed[rng.Intn(len(bv.confirmed))]
						b.Height, b.PreviousHash = c.Height, c.PreviousHash
					}
				case 1: // beyond the frontier with a gap
					b.Height = uint64(len(all) + 2 + rng.Intn(5))
					rng.Read(b.PreviousHash[:])
				case 2: // right height, wrong previous hash
					b.Height = uint64(len(all)) + 1 - uint64(rng.Intn(2))
					rng.Read(b.PreviousHash[:])
				case 3: // height 0 / huge
					b.Height = []uint64{0, 1, ^uint64(0), 1 << 63}[rng.Intn(4)]
					rng.Read(b.PreviousHash[:])
				default: // pooled height, wrong previous
					if len(bv.pool) > 0 {
						b.Height = bv.pool[rng.Intn(len(bv.pool))].Height
					}
					rng.Read(b.PreviousHash[:])
				}
				b.Hash = b.ComputeHash()
				tx = &nom.AccountBlockTransaction{Block: b, Changes: db.NewPatch()}
			}
			force := rng.Intn(3) == 0
			opTerm := Con("OAdd", force, blockTerm(tx.Block))
			r.what = fmt.Sprintf("%s block at height %d offered to %v (forced=%v)", tag, tx.Block.Height, u.Address, force)
			ins := nd.Ch.AcquireInsert("c14")
			var e error
			p := protect(func() {
				if force {
					e = nd.Ch.ForceAddAccountBlockTransaction(ins, tx)
				} else {
					e = nd.Ch.AddAccountBlockTransaction(ins, tx)
				}
			})
			ins.Unlock()
			out.Oracle(p == nil, "pool-add-no-panic", Tup(tag, fmt.Sprint(p)))
			if p != nil {
				continue
			}
			after := r.checkAll(before, u.Address, true)
			r.emitStep(bv, opTerm, errClassPool(e), after[u.Address], tag)
			out.Oracle(sameHashes(after[u.Address].pool, bv.pool), "rejected-block-leaves-pool-unchanged", Tup(tag, fmt.Sprint(e)))
		case k < 91: // momentum
			r.lis.before, r.lis.context = before, "momentum"
			r.what = fmt.Sprintf("momentum %d inserted", nd.FrontierHeight()+1)
			r.produceNext("momentum step of a pool history")
			r.lis.before = nil
			fm, _ := nd.Ch.GetFrontierMomentumStore().GetFrontierMomentum()
			after := r.checkAll(before, types.Address{}, false)
			r.contentVerifies("after a momentum of a pool history")
			counts := map[types.Address]int{}
			for _, hd := range fm.Content {
				counts[hd.Address]++
			}
			out.Oracle(len(fm.Content) <= chain.MaxAccountBlocksInMomentum, "momentum-content-within-limit", Tup(I64(int64(len(fm.Content)))))
			// batches whole: the content never ends inside a contract's batch
			whole := true
			if nc := len(fm.Content); nc > 0 {
				last, _ := nd.Ch.GetFrontierMomentumStore().GetAccountBlock(*fm.Content[nc-1])
				whole = last != nil && last.BlockType != nom.BlockTypeContractSend
			}
			out.Oracle(whole, "momentum-content-whole-batches", Tup(U64(fm.Height)))
			for _, uu := range r.users {
				b, a := before[uu.Address], after[uu.Address]
				k := counts[uu.Address]
				// exactly the previously pooled blocks that were not confirmed by it (and still link)
				ok := k <= len(b.pool) && sameHashes(a.pool, b.pool[k:]) && len(a.confirmed) == len(b.confirmed)+k && sameHashes(a.confirmed[len(b.confirmed):], b.pool[:k])
				out.Oracle(ok, "rebuild-exact", Tup(uu.Address.String(), I64(int64(k)), I64(int64(len(b.pool))), I64(int64(len(a.pool)))))
				if k == 0 && len(a.pool) == 0 && rng.Intn(4) != 0 {
					continue // nothing pooled, nothing confirmed: sampled
				}
				r.emitStep(b, Con("OMomentum", U64(uint64(k))), 0, a, fmt.Sprintf("momentum-confirms-%d-leaves-%s", min(k, 3), map[bool]string{true: "some-pooled", false: "none"}[len(a.pool) > 0]))
			}
		default: // delete momentum(s)
			ms := nd.Ch.GetFrontierMomentumStore()
			H := ms.Identifier().Height
			if H < 3 {
				continue
			}
			target, _ := ms.GetMomentumByHeight(H - uint64(1+rng.Intn(2)))
			r.what = fmt.Sprintf("momentums rolled back from %d to %d", H, target.Height)
			ins := nd.Ch.AcquireInsert("c14-rollback")
			e := nd.Ch.RollbackTo(ins, target.Identifier())
			ins.Unlock()
			if e != nil {
				out.Oracle(false, "rollback-accepted", Tup(e.Error()))
				continue
			}
			after := r.checkAll(before, types.Address{}, false)
			// the whole clause on every account, against the ledger as it is now (reorg.go)
			r.afterDelete(r.what, true)
			for _, uu := range r.users {
				b, a := before[uu.Address], after[uu.Address]
				ok := len(a.pool) == 0 && len(a.confirmed) <= len(b.confirmed) && sameHashes(a.confirmed, b.confirmed[:len(a.confirmed)])
				if !ok && os.Getenv("C14_DEBUG") != "" {
					v2 := view(nd, uu.Address)
					fmt.Fprintln(os.Stderr, "DEBUG delete: before conf/pool", len(b.confirmed), len(b.pool), "after", len(a.confirmed), len(a.pool), "again", len(v2.confirmed), len(v2.pool),
						"momentum before/after", H, nd.FrontierHeight(), "target", target.Height)
					for _, x := range a.pool {
						fmt.Fprintln(os.Stderr, "   pooled", x.Height, x.Hash, "ack", x.MomentumAcknowledged)
					}
				}
				out.Oracle(ok, "delete-momentum-drops-pool-keeps-older-confirmed", Tup(uu.Address.String()))
				if len(b.pool) == 0 && len(a.confirmed) == len(b.confirmed) && rng.Intn(4) != 0 {
					continue
				}
				r.emitStep(b, Con("ODelete", U64(uint64(len(a.confirmed)))), 0, a, "delete-momentum")
			}
		}
	}
}

func min(a, b int) int {
	if a < b {
		return a
	}
	return b
}

func protect(f func()) (p interface{}) {
	defer func() { p = recover() }()
	f()
	return nil
}
