package main

// Competitors for EVERY unconfirmed height of an account.
// A competing block for the 2nd, 3rd ... unconfirmed height is built on an earlier unconfirmed version of the account.
// The blocks the node builds itself for such a height go through the supervisor, which reads the pool's view of that
// earlier version (main.go, "competing block at an occupied pooled height"). The competitors here are PREPARED while
// their parent still is the frontier (two candidates for the same height, as two wallets / two peers produce them) and
// offered later, when the account has moved on: what the pool does with them then depends only on its own version
// manager (pop down to the parent, insert), not on the views it hands out.
//   sibling stash : with every other fast-forward insert a sibling for the same height is prepared and kept; a later
//                   "compete" step offers one of them whatever has happened to its height since (still pooled with the
//                   same parent, parent replaced, confirmed by a momentum, rolled back).
//   ladder        : k = 2..5 blocks are pooled, each with a sibling; then, from the top height down to the lowest of
//                   them, the sibling of that height is offered (forced or not): every unconfirmed height 1..k of the
//                   account sees a competition with an intact chain below it.
// The oracle replacement-follows-priority-rule demands: the winner by (plasma ratio, then smaller hash) - or the forced
// block - replaces exactly the suffix of the pooled chain from its height, everything below stays; a loser changes nothing.

import (
	"fmt"
	"math/big"

	"github.com/zenon-network/go-zenon/chain/nom"
	"github.com/zenon-network/go-zenon/common/types"
	"github.com/zenon-network/go-zenon/wallet"
	. "zharness/hz"
)

type sibling struct {
	tx  *nom.AccountBlockTransaction
	rel string // plasma of the sibling relative to the block that was inserted at that height
}

func (r *poolRun) viewAccounts() []types.Address {
	l := make([]types.Address, 0, len(r.users)+1)
	for _, u := range r.users {
		l = append(l, u.Address)
	}
	return append(l, types.TokenContract)
}

// the two candidates for the next height of u: the first is returned for insertion, the second is its sibling
func (r *poolRun) craftPair(u *wallet.KeyPair) (*nom.AccountBlockTransaction, *sibling, error) {
	rng := r.rng
	dataLen := []int{0, 0, 10, 100}[rng.Intn(4)]
	extra := []uint64{0, 1000, 21000, 50000}[rng.Intn(4)]
	tx, err := r.craft(u, types.HashHeight{}, extra, dataLen)
	if err != nil {
		return nil, nil, err
	}
	var sextra uint64
	rel := []string{"equal-ratio", "better-ratio", "worse-ratio"}[rng.Intn(3)]
	switch rel {
	case "equal-ratio":
		sextra = extra
	case "better-ratio":
		sextra = extra + uint64(1+rng.Intn(30000))
	default:
		if extra == 0 {
			sextra, rel = 0, "equal-ratio"
		} else {
			sextra = uint64(rng.Int63n(int64(extra)))
		}
	}
	stx, err := r.craft(u, types.HashHeight{}, sextra, dataLen)
	if err != nil || stx.Block.Hash == tx.Block.Hash {
		return tx, nil, nil
	}
	return tx, &sibling{tx: stx, rel: rel}, nil
}

// what the statement demands for candidate nb offered to an account in state bv
type expectation struct {
	kind string // fast-forward | already | refused | replace | lose-ratio | lose-tie
	idx  int    // pooled index of the incumbent (replace / lose-*)
}

func expect(bv acctView, nb *nom.AccountBlock, force bool) expectation {
	all := append(append([]*nom.AccountBlock{}, bv.confirmed...), bv.pool...)
	frontier := types.HashHeight{}
	if n := len(all); n > 0 {
		frontier = all[n-1].Identifier()
	}
	if nb.Previous() == frontier {
		return expectation{kind: "fast-forward"}
	}
	h := nb.Height
	if h >= 1 && h <= uint64(len(all)) && all[h-1].Hash == nb.Hash {
		return expectation{kind: "already"}
	}
	// the parent: the block below, or the empty account-chain for a competitor for the account's first block
	if h <= uint64(len(bv.confirmed)) || h > uint64(len(all)) || h < 1 || (h == 1 && nb.Previous() != (types.HashHeight{})) || (h >= 2 && all[h-2].Identifier() != nb.Previous()) {
		return expectation{kind: "refused"}
	}
	inc := all[h-1]
	idx := int(h) - 1 - len(bv.confirmed)
	l := new(big.Int).Mul(new(big.Int).SetUint64(nb.TotalPlasma), new(big.Int).SetUint64(inc.BasePlasma))
	rr := new(big.Int).Mul(new(big.Int).SetUint64(inc.TotalPlasma), new(big.Int).SetUint64(nb.BasePlasma))
	switch {
	case force || l.Cmp(rr) > 0 || (l.Cmp(rr) == 0 && hashZ(nb.Hash).Cmp(hashZ(inc.Hash)) < 0):
		return expectation{kind: "replace", idx: idx}
	case l.Cmp(rr) < 0:
		return expectation{kind: "lose-ratio", idx: idx}
	}
	return expectation{kind: "lose-tie", idx: idx}
}

// offer a prepared candidate to the pool and judge the outcome
func (r *poolRun) offer(u *wallet.KeyPair, tx *nom.AccountBlockTransaction, force bool, tag string) {
	nd, out := r.nd, r.out
	before := r.views()
	bv := before[u.Address]
	nb := tx.Block
	ex := expect(bv, nb, force)
	opTerm := Con("OAdd", force, blockTerm(nb))
	r.what = fmt.Sprintf("%s: block for height %d of %v offered (forced=%v), account has %d confirmed + %d pooled", tag, nb.Height, u.Address, force, len(bv.confirmed), len(bv.pool))
	ins := nd.Ch.AcquireInsert("c14")
	var e error
	pnc := protect(func() {
		if force {
			e = nd.Ch.ForceAddAccountBlockTransaction(ins, tx)
		} else {
			e = nd.Ch.AddAccountBlockTransaction(ins, tx)
		}
	})
	ins.Unlock()
	out.Oracle(pnc == nil, "pool-add-no-panic", Tup(tag, fmt.Sprint(pnc)))
	if pnc != nil {
		return
	}
	after := r.checkAll(before, u.Address, true)
	av := after[u.Address]
	pos := ""
	if ex.kind == "replace" || ex.kind == "lose-ratio" || ex.kind == "lose-tie" {
		pos = fmt.Sprintf("-at-pooled-position-%d", min(ex.idx+1, 4))
		out.Count(fmt.Sprintf("pool:competitor-offered-at-pooled-position=%d-of-%d", min(ex.idx+1, 5), min(len(bv.pool), 5)))
	}
	r.emitStep(bv, opTerm, errClassPool(e), av, tag+"-"+ex.kind+pos)
	unchanged := sameHashes(av.pool, bv.pool)
	detail := M{"case": tag, "expected": ex.kind, "error": fmt.Sprint(e), "forced": force, "account": u.Address.String(), "candidate_height": U64(nb.Height),
		"confirmed": I64(int64(len(bv.confirmed))), "pooled_before": I64(int64(len(bv.pool))), "pooled_after": I64(int64(len(av.pool))), "pooled_position": I64(int64(ex.idx + 1))}
	switch ex.kind {
	case "fast-forward":
		out.Oracle(e == nil && len(av.pool) == len(bv.pool)+1 && av.pool[len(av.pool)-1].Hash == nb.Hash && sameHashes(av.pool[:len(bv.pool)], bv.pool), "fast-forward-accepted", detail)
	case "already":
		out.Oracle(e == nil && unchanged, "rejected-block-leaves-pool-unchanged", detail)
	case "refused":
		out.Oracle(errClassPool(e) == 3 && unchanged, "rejected-block-leaves-pool-unchanged", detail)
	case "replace":
		// exactly the suffix from that height is replaced, the rest of the account's pooled chain below it stays
		ok := e == nil && len(av.pool) == ex.idx+1 && av.pool[ex.idx].Hash == nb.Hash && sameHashes(av.pool[:ex.idx], bv.pool[:ex.idx])
		out.Oracle(ok, "replacement-follows-priority-rule", detail)
	case "lose-ratio":
		out.Oracle(errClassPool(e) == 1 && unchanged, "replacement-follows-priority-rule", detail)
	case "lose-tie":
		out.Oracle(errClassPool(e) == 2 && unchanged, "replacement-follows-priority-rule", detail)
	}
}

// insert the first candidate of a pair as the ordinary fast-forward step does
func (r *poolRun) insertFF(u *wallet.KeyPair, tx *nom.AccountBlockTransaction, tag string) bool {
	before := r.views()
	bv := before[u.Address]
	opTerm := Con("OAdd", false, blockTerm(tx.Block))
	r.what = fmt.Sprintf("%s: fast-forward insert at height %d of %v", tag, tx.Block.Height, u.Address)
	e := r.nd.Insert(tx)
	after := r.checkAll(before, u.Address, true)
	r.emitStep(bv, opTerm, errClassPool(e), after[u.Address], "fast-forward")
	ok := e == nil && len(after[u.Address].pool) == len(bv.pool)+1
	r.out.Oracle(ok, "fast-forward-accepted", Tup(fmt.Sprint(e)))
	return ok
}

func (r *poolRun) ladder(u *wallet.KeyPair) {
	rng := r.rng
	k := 2 + rng.Intn(4)
	var sibs []*sibling
	for i := 0; i < k; i++ {
		tx, s, err := r.craftPair(u)
		if err != nil {
			r.out.Count("pool:craft-rejected")
			break
		}
		if !r.insertFF(u, tx, "ladder") {
			break
		}
		sibs = append(sibs, s)
	}
	r.out.Count(fmt.Sprintf("pool:ladder:heights=%d", len(sibs)))
	for j := len(sibs) - 1; j >= 0; j-- {
		if sibs[j] == nil || rng.Intn(6) == 0 {
			continue
		}
		force := rng.Intn(4) == 0
		tag := "ladder-" + sibs[j].rel
		if force {
			tag += "-forced"
		}
		r.offer(u, sibs[j].tx, force, tag)
	}
}
