package main

// "when two candidates compete for a height the winner is chosen by the same antisymmetric rule (higher plasma ratio,
// then smaller hash) ON EVERY NODE": whichever way the candidates reach a node and in whatever order they arrive.
// The entries by which a competitor reaches the pool of a node:
//   pool-call          : Supervisor.ApplyBlock, then chain.AddAccountBlockTransaction (what every other entry ends in);
//   rpc-publish        : LedgerApi.PublishRawTransaction (json form) -> supervisor -> Broadcaster.CreateAccountBlock;
//   gossip             : ChainBridge.AddAccountBlocks (TxMsg of a peer): wire copy of the block, one message per block;
//   delivered-momentum : ChainBridge.InsertChain of a momentum that contains the block (forced insertion).
// Oracle = order independence. A generator node builds a ledger (0-2 momentums), a pooled chain of 0-2 blocks of one
// account below the contested height (the competition is at pooled position 1-3) and 2-4 competitors for that height on
// the same parent (never inserted there), in regimes that make equal ratios the normal case: all with the same plasma;
// the same RATIO with different base plasma (data lengths differ, fused = base * k); two equal best and worse ones;
// small random choices. For every entry a fresh node is brought to the same ledger by sync and receives the pooled
// chain and then the SAME competitors in different orders (an order, its reverse - so every pair arrives both ways -
// and a third one), each order on an emptied pool. Demanded:
//   competitor-winner-is-the-one-the-rule-names          after every order the pooled chain of the account is the chain
//                                                        below the height + the competitor with the highest ratio, the
//                                                        smallest hash among those (big integers), and
//   competitors-same-pooled-block-whatever-the-arrival-order   all orders through one entry end in the same chain.
// delivered-momentum: one of the competitors (any, also a loser of the rule) is put into a momentum by a producer; the
// node gets the competitors by gossip and the momentum at the beginning / in the middle / at the end: afterwards that
// block is the confirmed block of the height and nothing is pooled, whatever the order
// (block-delivered-inside-a-momentum-wins-whatever-is-pooled). Every delivery is replayed on the model (pool_step).

import (
	"encoding/json"
	"fmt"
	"math/big"
	"math/rand"

	g "github.com/zenon-network/go-zenon/chain/genesis/mock"
	"github.com/zenon-network/go-zenon/chain/nom"
	"github.com/zenon-network/go-zenon/common/types"
	"github.com/zenon-network/go-zenon/rpc/api"
	"github.com/zenon-network/go-zenon/vm/constants"
	"github.com/zenon-network/go-zenon/wallet"
	. "zharness/hz"
)

type entry int

const (
	entryPool entry = iota
	entryPublish
	entryGossip
	entryMomentum
)

func (e entry) String() string {
	return []string{"pool-call", "rpc-publish", "gossip", "delivered-momentum"}[e]
}

// hand a block to a node by one of its entries. errKnown: the error is the one the pool (or the supervisor) gave;
// the rpc entry does not tell (Broadcaster.CreateAccountBlock logs the pool's refusal), and what the gossip entry
// answers for a block it does not keep is nobody's business (the protocol handler does not look at it): only an
// error it does give is taken as the pool's
func (r *poolRun) deliver(nd *Node, tx *nom.AccountBlockTransaction, force bool, en entry) (e error, errKnown bool, pnc interface{}) {
	switch en {
	case entryGossip:
		pnc = protect(func() { e = BridgeOf(nd).AddAccountBlocks([]*nom.AccountBlock{WireCopyBlock(tx.Block)}) })
		return e, e != nil, pnc
	case entryPublish:
		raw, err := json.Marshal(&api.AccountBlock{AccountBlock: *WireCopyBlock(tx.Block)})
		if err != nil {
			panic(err)
		}
		rb := new(api.AccountBlock)
		if err := json.Unmarshal(raw, rb); err != nil {
			panic(err)
		}
		pnc = protect(func() { e = api.NewLedgerApi(nd.Z).PublishRawTransaction(rb) })
		return e, false, pnc
	}
	ins := nd.Ch.AcquireInsert("c14 entry")
	defer ins.Unlock()
	pnc = protect(func() {
		if force {
			e = nd.Ch.ForceAddAccountBlockTransaction(ins, tx)
		} else {
			e = nd.Ch.AddAccountBlockTransaction(ins, tx)
		}
	})
	return e, true, pnc
}

func runEntries(rng *rand.Rand, n int, out *Out, _ []string) {
	for i := 0; i < n; i++ {
		entriesExperiment(rng, out)
	}
}

// ratio of a against b: -1 / 0 / 1, without machine arithmetic
func ratioCmpBig(a, b *nom.AccountBlock) int {
	l := new(big.Int).Mul(new(big.Int).SetUint64(a.TotalPlasma), new(big.Int).SetUint64(b.BasePlasma))
	rr := new(big.Int).Mul(new(big.Int).SetUint64(b.TotalPlasma), new(big.Int).SetUint64(a.BasePlasma))
	return l.Cmp(rr)
}

// the block the rule names among candidates for one height: highest ratio, then smallest hash
func ruleWinner(l []*nom.AccountBlock) *nom.AccountBlock {
	w := l[0]
	for _, b := range l[1:] {
		if c := ratioCmpBig(b, w); c > 0 || (c == 0 && hashZ(b.Hash).Cmp(hashZ(w.Hash)) < 0) {
			w = b
		}
	}
	return w
}

// a fresh node with the ledger of src up to its frontier (momentums delivered by sync)
func nodeLike(src *Node, out *Out) *Node {
	nd := NewNode()
	if top := src.FrontierHeight(); top > 1 {
		if _, err := BridgeOf(nd).InsertChain(WireCopyAll(DetailedRange(src.Ch, 2, top))); err != nil || nd.FrontierHeight() != top {
			out.Oracle(false, "harness-node-synced", Tup(fmt.Sprint(err), U64(top), U64(nd.FrontierHeight())))
			nd.Stop()
			return nil
		}
	}
	return nd
}

// the pool of every account is dropped by a delete notification: an empty momentum inserted and rolled back
func emptyPoolOf(nd *Node, to uint64, out *Out) bool {
	var err error
	if nd.FrontierHeight() == to {
		var tx *nom.MomentumTransaction
		if tx, err = (&poolRun{nd: nd}).generate(nil, 10); err == nil {
			err = AddMomentum(nd.Ch, tx)
		}
	}
	if err == nil {
		err = nd.RollbackTo(to)
	}
	if err != nil || len(nd.Ch.GetAllUncommittedAccountBlocks()) != 0 {
		out.Oracle(false, "rollback-accepted", Tup(fmt.Sprint(err), "entries: emptying the pool"))
		return false
	}
	return true
}

func describeBlocks(l []*nom.AccountBlock) []interface{} {
	d := Lst()
	for _, b := range l {
		d = append(d, fmt.Sprintf("%v total=%d base=%d", b.Hash, b.TotalPlasma, b.BasePlasma))
	}
	return d
}

func entriesExperiment(rng *rand.Rand, out *Out) {
	G := NewNode()
	defer G.Stop()
	users := []*wallet.KeyPair{g.User1, g.User2, g.User3}
	r := &poolRun{nd: G, rng: rng, out: out, users: users}
	// the ledger
	for m := rng.Intn(3); m > 0; m-- {
		for _, u := range users {
			for i := rng.Intn(3); i > 0; i-- {
				if tx, err := r.craft(u, types.HashHeight{}, uint64(rng.Intn(3))*1000, 0); err == nil {
					G.Insert(tx)
				}
			}
		}
		G.Momentum()
	}
	F := G.FrontierHeight()
	u := users[rng.Intn(len(users))]
	// the pooled chain below the contested height
	var prefix []*nom.AccountBlock
	for p := rng.Intn(3); p > 0; p-- {
		tx, err := r.craft(u, types.HashHeight{}, []uint64{0, 1000, 21000}[rng.Intn(3)], []int{0, 10}[rng.Intn(2)])
		if err != nil || G.Insert(tx) != nil {
			out.Count("pool:craft-rejected")
			return
		}
		prefix = append(prefix, tx.Block)
	}
	np := len(prefix)
	parent := G.Ch.GetFrontierAccountStore(u.Address).Identifier()

	// the competitors: same parent, same height
	nc := 2 + rng.Intn(3)
	regime := rng.Intn(4)
	base := func(dataLen int) uint64 {
		return constants.AccountBlockBasePlasma + uint64(dataLen)*constants.ABByteDataPlasma
	}
	var comp []*nom.AccountBlock
	seen := map[types.Hash]bool{}
	k := uint64(1 + rng.Intn(3))
	len0, extra0 := []int{0, 10, 100}[rng.Intn(3)], []uint64{0, 1000, 21000}[rng.Intn(3)]
	for i := 0; i < nc; i++ {
		dataLen, extra := len0, extra0
		switch regime {
		case 0: // all with the same plasma: the hash decides among all of them
		case 1: // the same ratio k with different base plasma
			dataLen = []int{0, 10, 50, 100}[rng.Intn(4)]
			extra = base(dataLen) * (k - 1)
		case 2: // two equal best, the others worse
			if extra0 == 0 {
				extra0 = 21000
			}
			extra = extra0
			if i >= 2 {
				extra = uint64(rng.Int63n(int64(extra0)))
			}
		default:
			extra = []uint64{0, 1000, 21000}[rng.Intn(3)]
		}
		tx, err := r.craft(u, parent, extra, dataLen)
		if err != nil || seen[tx.Block.Hash] {
			out.Count("pool:craft-rejected")
			continue
		}
		seen[tx.Block.Hash] = true
		comp = append(comp, tx.Block)
	}
	if len(comp) < 2 {
		return
	}
	if regime == 2 {
		rng.Shuffle(len(comp), func(i, j int) { comp[i], comp[j] = comp[j], comp[i] })
	}
	nc = len(comp)
	winner := ruleWinner(comp)
	ties := 0
	for _, b := range comp {
		if b != winner && ratioCmpBig(b, winner) == 0 {
			ties++
		}
	}
	out.Count(fmt.Sprintf("entries:regime=%s:competitors=%d:with-the-best-ratio=%d", []string{"same-plasma", "same-ratio-different-base", "two-equal-best", "random"}[regime], nc, ties+1))
	out.Count(fmt.Sprintf("entries:contested-pooled-position=%d:confirmed-momentums=%d", np+1, min(int(F)-1, 2)))

	// orders: one, its reverse (every pair arrives both ways), a third
	perm := rng.Perm(nc)
	rev := make([]int, nc)
	for i, x := range perm {
		rev[nc-1-i] = x
	}
	orders := [][]int{perm, rev}
	if nc > 2 {
		orders = append(orders, rng.Perm(nc))
	}
	orderText := func(o []int) string {
		s := ""
		for _, i := range o {
			s += fmt.Sprintf("%x(%d/%d) ", comp[i].Hash.Bytes()[:4], comp[i].TotalPlasma, comp[i].BasePlasma)
		}
		return s
	}

	gossipPrefix := func(N *Node) bool {
		if np == 0 {
			return true
		}
		var l []*nom.AccountBlock
		for _, b := range prefix {
			l = append(l, WireCopyBlock(b))
		}
		if err := BridgeOf(N).AddAccountBlocks(l); err != nil || len(N.Ch.GetUncommittedAccountBlocksByAddress(u.Address)) != np {
			out.Oracle(false, "harness-pooled-chain-delivered", Tup(fmt.Sprint(err)))
			return false
		}
		return true
	}

	for _, en := range []entry{entryPool, entryPublish, entryGossip} {
		N := nodeLike(G, out)
		if N == nil {
			return
		}
		rn := &poolRun{nd: N, rng: rng, out: out, users: users}
		var results [][]*nom.AccountBlock
		var texts []interface{}
		for oi, order := range orders {
			if oi > 0 && !emptyPoolOf(N, F, out) {
				break
			}
			if !gossipPrefix(N) {
				break
			}
			for j, ci := range order {
				b := comp[ci]
				before := view(N, u.Address)
				var tx *nom.AccountBlockTransaction
				if en == entryPool {
					var err error
					if tx, err = N.Apply(WireCopyBlock(b)); err != nil {
						out.Oracle(false, "competitor-accepted-by-the-supervisor", Tup(err.Error(), en.String()))
						continue
					}
				} else {
					tx = &nom.AccountBlockTransaction{Block: b}
				}
				e, errKnown, pnc := rn.deliver(N, tx, false, en)
				out.Oracle(pnc == nil, "pool-add-no-panic", Tup("entries: "+en.String(), fmt.Sprint(pnc)))
				after := view(N, u.Address)
				// the arrival that matters: a competitor with the best ratio and a smaller hash than the pooled one
				rel := "first"
				if j > 0 && len(before.pool) > np {
					inc := before.pool[np]
					switch c := ratioCmpBig(b, inc); {
					case c > 0:
						rel = "better-ratio"
					case c < 0:
						rel = "worse-ratio"
					case hashZ(b.Hash).Cmp(hashZ(inc.Hash)) < 0:
						rel = "equal-ratio-smaller-hash-arrives-later"
					default:
						rel = "equal-ratio-bigger-hash-arrives-later"
					}
				}
				out.Count("entries:" + en.String() + ":arrival=" + rel)
				if installed := len(after.pool) > 0 && after.pool[len(after.pool)-1].Hash == b.Hash; (errKnown || installed) && errClassPool(e) != 8 {
					rn.emitStep(before, Con("OAdd", false, blockTerm(b)), errClassPool(e), after, fmt.Sprintf("entry-%s-%s-at-pooled-position-%d", en, rel, np+1))
				}
			}
			v := view(N, u.Address)
			ok := len(v.pool) == np+1 && sameHashes(v.pool[:np], prefix) && v.pool[np].Hash == winner.Hash && linkedOnTop(v)
			d := M{}
			if !ok {
				d = M{"entry": en.String(), "account": u.Address.String(), "contested_pooled_position": I64(int64(np + 1)), "arrival_order": orderText(order),
					"the_rule_names": fmt.Sprintf("%v total=%d base=%d", winner.Hash, winner.TotalPlasma, winner.BasePlasma), "pooled_chain_now": describeBlocks(v.pool)}
			}
			out.Oracle(ok, "competitor-winner-is-the-one-the-rule-names", d)
			results = append(results, v.pool)
			texts = append(texts, Tup(orderText(order), describeBlocks(v.pool)))
		}
		same := true
		for _, x := range results[min(1, len(results)):] {
			same = same && sameHashes(x, results[0])
		}
		d := M{}
		if !same {
			d = M{"entry": en.String(), "account": u.Address.String(), "contested_pooled_position": I64(int64(np + 1)), "arrival_orders_and_pooled_chains": texts}
		}
		out.Oracle(same, "competitors-same-pooled-block-whatever-the-arrival-order", d)
		N.Stop()
	}

	// ---- inside a delivered momentum: the block of the momentum is the block of the height
	X := comp[rng.Intn(nc)]
	if tx, err := G.Apply(WireCopyBlock(X)); err != nil || G.Insert(tx) != nil {
		out.Oracle(false, "competitor-accepted-by-the-supervisor", Tup(fmt.Sprint(err), "producer"))
		return
	}
	var content []*nom.AccountBlock
	for _, b := range G.Ch.GetNewMomentumContent() {
		if b.Address == u.Address {
			content = append(content, b)
		}
	}
	mx, err := r.generate(content, 10)
	if err != nil || len(content) != np+1 {
		out.Oracle(false, "offered-content-verifies", M{"where": "entries: producer's momentum with the chosen competitor", "error": fmt.Sprint(err), "blocks": I64(int64(len(content)))})
		return
	}
	delivered := &nom.DetailedMomentum{Momentum: mx.Momentum, AccountBlocks: content}
	out.Count(fmt.Sprintf("entries:delivered-momentum:block-of-the-momentum-is-the-rule's-winner=%v", X == winner))
	N := nodeLike(G, out)
	if N == nil {
		return
	}
	defer N.Stop()
	rn := &poolRun{nd: N, rng: rng, out: out, users: users}
	type final struct{ confirmed, pool []*nom.AccountBlock }
	var finals []final
	var texts []interface{}
	for oi, at := range []int{0, nc, 1 + rng.Intn(nc-1)} {
		order := orders[oi%len(orders)]
		if oi > 0 && !emptyPoolOf(N, F, out) {
			return
		}
		if !gossipPrefix(N) {
			return
		}
		text := ""
		confirmedBefore := len(view(N, u.Address).confirmed)
		for j := 0; j <= nc; j++ {
			if j == at {
				before := view(N, u.Address)
				var ierr error
				pnc := protect(func() { _, ierr = BridgeOf(N).InsertChain([]*nom.DetailedMomentum{WireCopy(delivered)}) })
				after := view(N, u.Address)
				out.Oracle(pnc == nil && ierr == nil, "momentum-from-sync-accepted-over-pooled-competitor", Tup(fmt.Sprint(ierr), fmt.Sprint(pnc)))
				text += "MOMENTUM "
				if len(after.confirmed) > len(before.confirmed) {
					newly := after.confirmed[len(before.confirmed):]
					if len(newly) <= len(before.pool) && sameHashes(before.pool[:len(newly)], newly) {
						rn.emitStep(before, Con("OMomentum", U64(uint64(len(newly)))), 0, after, "entry-delivered-momentum-confirms-the-pooled-block")
					} else {
						rn.emitStep(before, Con("OConfirm", blocksTerm(newly)), 0, after, fmt.Sprintf("entry-delivered-momentum-confirms-another-block-pooled=%d", min(len(before.pool), 3)))
					}
				}
			}
			if j < nc {
				b := comp[order[j]]
				before := view(N, u.Address)
				e, errKnown, pnc := rn.deliver(N, &nom.AccountBlockTransaction{Block: b}, false, entryGossip)
				out.Oracle(pnc == nil, "pool-add-no-panic", Tup("entries: gossip around a delivered momentum", fmt.Sprint(pnc)))
				after := view(N, u.Address)
				installed := len(after.pool) > 0 && after.pool[len(after.pool)-1].Hash == b.Hash
				if len(before.confirmed) == len(after.confirmed) && errClassPool(e) != 8 && (errKnown || installed) {
					rn.emitStep(before, Con("OAdd", false, blockTerm(b)), errClassPool(e), after, fmt.Sprintf("entry-gossip-%s-the-delivered-momentum", map[bool]string{true: "after", false: "before"}[j >= at]))
				}
				text += fmt.Sprintf("%x ", b.Hash.Bytes()[:4])
			}
		}
		v := view(N, u.Address)
		want := append(append([]*nom.AccountBlock{}, prefix...), X)
		ok := len(v.confirmed) == confirmedBefore+np+1 && sameHashes(v.confirmed[confirmedBefore:], want) && len(v.pool) == 0
		d := M{}
		if !ok {
			d = M{"account": u.Address.String(), "events": text, "block_of_the_momentum": X.Hash.String(), "confirmed_now": describeBlocks(v.confirmed[min(confirmedBefore, len(v.confirmed)):]),
				"pooled_now": describeBlocks(v.pool), "contested_pooled_position": I64(int64(np + 1))}
		}
		out.Oracle(ok, "block-delivered-inside-a-momentum-wins-whatever-is-pooled", d)
		out.Count(fmt.Sprintf("entries:delivered-momentum:arrives-after-%d-of-%d-competitors", min(at, 3), min(nc, 3)))
		finals = append(finals, final{v.confirmed, v.pool})
		texts = append(texts, text)
		r.clauseOn(N, u.Address, v, "entries: after a delivered momentum")
	}
	same := true
	for _, x := range finals[1:] {
		same = same && sameHashes(x.confirmed, finals[0].confirmed) && sameHashes(x.pool, finals[0].pool)
	}
	out.Oracle(same, "competitors-same-pooled-block-whatever-the-arrival-order", M{"entry": entryMomentum.String(), "events": texts, "same": same})
}

// clauseNow on another node
func (r *poolRun) clauseOn(nd *Node, addr types.Address, v acctView, where string) {
	(&poolRun{nd: nd, rng: r.rng, out: r.out, users: r.users}).clauseNow(addr, v, where)
}
