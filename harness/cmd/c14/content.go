package main

// Momentum content offered for production (clause "never splits a contract's batch and never exceeds the per-momentum
// limit") on a node with a BACKLOG: more pooled blocks than one momentum takes, over several accounts, contracts with
// batches (ContractSend descendants + the ContractReceive that carries them) among them, so that the limit falls inside
// a batch whatever order the pool walks its accounts in (a Go map: another order at every call).
//   real      : users pool 51..75 token-issue calls (each makes the token contract emit one descendant), the next
//               momentum confirms them and the pillar's contract worker pools one batch per call: 102..150 blocks of the
//               token contract plus plain sends of the users; the content is judged at every step and the backlog is
//               worked off momentum by momentum; at EVERY insert notification the pool of every account - the contract
//               included - must be the previous pool minus what the momentum confirmed (rebuild of batches).
//   synthetic : 2..6 accounts (embedded contracts with batches of 1..20 descendant sends, users with plain sends),
//               101..250 pooled blocks; contract blocks are well-formed batches put straight into the pool (the pool does
//               not verify), regimes: equal batch size s that does not divide the limit on every account (every order of
//               the accounts puts position 100 inside a batch), two equally long backlogs, random mixtures.
// GetNewMomentumContent is called several times per backlog (several account orders).

import (
	"fmt"
	"math/big"
	"math/rand"
	"sort"

	"github.com/zenon-network/go-zenon/chain"
	g "github.com/zenon-network/go-zenon/chain/genesis/mock"
	"github.com/zenon-network/go-zenon/chain/nom"
	"github.com/zenon-network/go-zenon/common/db"
	"github.com/zenon-network/go-zenon/common/types"
	"github.com/zenon-network/go-zenon/vm/constants"
	"github.com/zenon-network/go-zenon/vm/embedded/definition"
	"github.com/zenon-network/go-zenon/wallet"
	. "zharness/hz"
)

func runContent(rng *rand.Rand, n int, out *Out, _ []string) {
	for i := 0; i < n; i++ {
		contentExperiment(rng, out)
	}
}

// ---- the statement about one offered content, given the pooled chain of every account

type backlog map[types.Address][]*nom.AccountBlock

func poolOf(ch chain.Chain, accounts []types.Address) backlog {
	b := backlog{}
	for _, a := range accounts {
		if l := ch.GetUncommittedAccountBlocksByAddress(a); len(l) > 0 {
			b[a] = l
		}
	}
	return b
}
func (b backlog) total() int {
	n := 0
	for _, l := range b {
		n += len(l)
	}
	return n
}

// length of the batch that starts at index i of a pooled chain: the maximal run of contract sends and the block that
// closes it (which must be the contract receive carrying exactly these sends as descendants); 0 = not closed
func batchAt(l []*nom.AccountBlock, i int) (int, bool) {
	j := i
	for j < len(l) && l[j].BlockType == nom.BlockTypeContractSend {
		j++
	}
	if j == len(l) {
		return 0, false
	}
	well := true
	if j > i {
		rcv := l[j]
		well = rcv.BlockType == nom.BlockTypeContractReceive && len(rcv.DescendantBlocks) == j-i
		for k := i; well && k < j; k++ {
			well = rcv.DescendantBlocks[k-i].Hash == l[k].Hash
		}
	}
	return j - i + 1, well
}

type contentVerdict struct {
	order      []types.Address // accounts in the order of their first block in the content
	taken      map[types.Address]int
	splitAt    string
	prefixOK   bool
	withinOK   bool
	wholeOK    bool
	maximalOK  bool
	straddling bool // position limit+1 of the walk the pool made falls inside a batch
	flags      []interface{}
}

func judgeContent(content []*nom.AccountBlock, pool backlog) contentVerdict {
	v := contentVerdict{taken: map[types.Address]int{}, prefixOK: true, wholeOK: true, maximalOK: true}
	v.withinOK = len(content) <= chain.MaxAccountBlocksInMomentum
	// per account: a prefix of its pooled chain, in order, the blocks of one account next to each other
	closed := map[types.Address]bool{}
	var last types.Address
	for i, b := range content {
		if i > 0 && b.Address != last {
			closed[last] = true
		}
		if closed[b.Address] {
			v.prefixOK = false // the blocks of one account are not contiguous
		}
		if v.taken[b.Address] == 0 {
			v.order = append(v.order, b.Address)
		}
		l := pool[b.Address]
		k := v.taken[b.Address]
		if k >= len(l) || l[k].Hash != b.Hash {
			v.prefixOK = false
		}
		v.taken[b.Address] = k + 1
		last = b.Address
	}
	if !v.prefixOK {
		return v
	}
	// every batch it touches is complete: the part taken of an account ends where a batch ends
	for a, k := range v.taken {
		l := pool[a]
		i := 0
		for i < k {
			n, well := batchAt(l, i)
			if n == 0 || !well || i+n > k {
				v.wholeOK = false
				upto := i + n
				if n == 0 {
					upto = len(l)
				}
				v.splitAt = fmt.Sprintf("%v: %d of %d pooled blocks offered; the batch at pooled positions %d..%d (contract sends %d..%d and their receive) is offered only up to position %d",
					a, k, len(l), i+1, upto, i+1, upto-1, k)
				break
			}
			i += n
		}
	}
	// maximal: the walk stopped because the next batch of the account it had reached would not fit
	rest := chain.MaxAccountBlocksInMomentum - len(content)
	partial := 0
	for a, k := range v.taken {
		if k < len(pool[a]) {
			partial++
			if n, _ := batchAt(pool[a], k); n != 0 && n <= rest {
				v.maximalOK = false
			}
		}
	}
	if partial > 1 {
		v.maximalOK = false
	}
	if partial == 0 {
		// stopped between two accounts: some account that is not in the content at all starts with a batch that does not fit
		// (or everything pooled is in the content)
		untouched, blocked := 0, false
		for a, l := range pool {
			if v.taken[a] == 0 {
				untouched++
				if n, _ := batchAt(l, 0); n == 0 || n > rest {
					blocked = true
				}
			}
		}
		if untouched > 0 && !blocked {
			v.maximalOK = false
		}
	}
	return v
}

// the candidate list the pool walked, as far as it matters: the accounts of the content in their order, then the account
// at which the walk stopped (the partly taken one, or an untouched one whose first batch does not fit), then the others
func walkOrder(v contentVerdict, pool backlog) []types.Address {
	order := append([]types.Address{}, v.order...)
	// a partly taken account is necessarily the last one of the content
	var others []types.Address
	for a := range pool {
		if v.taken[a] == 0 {
			others = append(others, a)
		}
	}
	sort.Slice(others, func(i, j int) bool { return others[i].String() < others[j].String() })
	rest := chain.MaxAccountBlocksInMomentum
	for _, k := range v.taken {
		rest -= k
	}
	// the blocking one first
	for i, a := range others {
		if n, _ := batchAt(pool[a], 0); n == 0 || n > rest {
			others[0], others[i] = others[i], others[0]
			break
		}
	}
	return append(order, others...)
}

func (r *contentRun) judge(where string, accounts []types.Address, calls int) {
	out := r.out
	pool := poolOf(r.nd.Ch, accounts)
	total := pool.total()
	if total == 0 {
		return
	}
	orders := map[string]bool{}
	for c := 0; c < calls; c++ {
		content := r.nd.Ch.GetNewMomentumContent()
		v := judgeContent(content, pool)
		desc := M{"where": where, "pooled_blocks": I64(int64(total)), "accounts": I64(int64(len(pool))), "offered": I64(int64(len(content))), "backlog": describe(pool, v.order)}
		out.Oracle(v.withinOK, "momentum-content-within-limit", desc)
		out.Oracle(v.prefixOK, "momentum-content-is-per-account-prefix", desc)
		if !v.prefixOK {
			continue
		}
		if !v.wholeOK {
			desc["split"] = v.splitAt
		}
		out.Oracle(v.wholeOK, "momentum-content-whole-batches", desc)
		out.Oracle(v.maximalOK, "content-is-maximal", desc)
		// the same walk in the model: filterBlocksToCommit over the concatenation of the accounts' chains in the order the pool took them
		walk := walkOrder(v, pool)
		flags := Lst()
		pos, inside := 0, false
		for _, a := range walk {
			l := pool[a]
			for i := 0; i < len(l); {
				n, _ := batchAt(l, i)
				if n == 0 {
					n = len(l) - i
				}
				if pos < chain.MaxAccountBlocksInMomentum && pos+n > chain.MaxAccountBlocksInMomentum && n > 1 {
					inside = true
				}
				pos += n
				i += n
			}
			for _, b := range l {
				flags = append(flags, b.BlockType == nom.BlockTypeContractSend)
			}
		}
		key := ""
		for _, a := range v.order {
			key += a.String()[:12] + ","
		}
		orders[key] = true
		tag := "backlog"
		if total <= chain.MaxAccountBlocksInMomentum {
			tag = "no-backlog"
		} else if inside {
			tag = "backlog-limit-inside-a-batch"
			out.Count("content:" + where + ":limit-falls-inside-a-batch")
		} else {
			out.Count("content:" + where + ":limit-falls-between-batches")
		}
		out.Case("filter_to_commit", flags, I64(int64(len(content))), tag)
	}
	out.Count(fmt.Sprintf("content:%s:accounts=%d", where, len(pool)))
	out.Count(fmt.Sprintf("content:%s:pooled>=%d", where, min(total/50*50, 250)))
	out.Count(fmt.Sprintf("content:%s:distinct-account-orders-seen=%d", where, min(len(orders), 4)))
}

func describe(pool backlog, order []types.Address) string {
	seen := map[types.Address]bool{}
	s := ""
	one := func(a types.Address) {
		l := pool[a]
		s += fmt.Sprintf("%v: %d pooled, batches", a, len(l))
		for i := 0; i < len(l) && len(s) < 1500; {
			n, _ := batchAt(l, i)
			if n == 0 {
				n = len(l) - i
			}
			s += fmt.Sprintf(" %d", n)
			i += n
		}
		s += "; "
	}
	for _, a := range order {
		seen[a] = true
		one(a)
	}
	var rest []types.Address
	for a := range pool {
		if !seen[a] {
			rest = append(rest, a)
		}
	}
	sort.Slice(rest, func(i, j int) bool { return rest[i].String() < rest[j].String() })
	for _, a := range rest {
		one(a)
	}
	return s
}

// ---- the experiment

type contentRun struct {
	nd  *Node
	rng *rand.Rand
	out *Out
	pr  *poolRun
	lis *contentListener
}

// at every insert notification: the pool of every account is its previous pool minus what the store confirmed
type contentListener struct {
	r        *contentRun
	accounts []types.Address
	before   map[types.Address]acctView
	events   int
}

func (l *contentListener) InsertMomentum(d *nom.DetailedMomentum) {
	if l.before == nil {
		return
	}
	l.events++
	for _, a := range l.accounts {
		b := l.before[a]
		now := view(l.r.nd, a)
		want := expectedPool(b.pool, now.confirmed)
		kind := "user"
		if types.IsEmbeddedAddress(a) {
			kind = "contract"
		}
		// hash-linked block by block (Previous() of a contract receive names the parent of its whole batch)
		linked, prev := true, types.HashHeight{}
		if n := len(now.confirmed); n > 0 {
			prev = now.confirmed[n-1].Identifier()
		}
		for _, x := range now.pool {
			linked = linked && x.PreviousHash == prev.Hash && x.Height == prev.Height+1
			prev = x.Identifier()
		}
		ok := sameHashes(now.pool, want) && linked
		l.r.out.Oracle(ok, "rebuild-exact", M{"account": a.String(), "kind": kind, "at": "insert notification", "momentum": U64(d.Momentum.Height), "blocks_in_momentum": I64(int64(len(d.Momentum.Content))),
			"pooled_before": I64(int64(len(b.pool))), "confirmed_before": I64(int64(len(b.confirmed))), "confirmed_now": I64(int64(len(now.confirmed))),
			"pooled_now": I64(int64(len(now.pool))), "expected_pooled_now": I64(int64(len(want)))})
		if len(want) > 0 {
			l.r.out.Count("content:rebuild:" + kind + "-account-keeps-unconfirmed-blocks-across-a-momentum")
		}
	}
}
func (l *contentListener) DeleteMomentum(*nom.DetailedMomentum) {}

func (r *contentRun) momentum(accounts []types.Address) {
	l := r.lis
	l.accounts = accounts
	l.before = map[types.Address]acctView{}
	for _, a := range accounts {
		l.before[a] = view(r.nd, a)
	}
	r.nd.Momentum()
	l.before = nil
	fm := FrontierOf(r.nd.Ch)
	r.out.Oracle(len(fm.Content) <= chain.MaxAccountBlocksInMomentum, "momentum-content-within-limit", M{"momentum": U64(fm.Height), "blocks": I64(int64(len(fm.Content)))})
	// what was confirmed, account by account, ends where a batch ends
	var prevType uint64
	var prevAddr types.Address
	whole := true
	for i, h := range fm.Content {
		b, _ := r.nd.Ch.GetFrontierMomentumStore().GetAccountBlock(*h)
		if b == nil {
			continue
		}
		if i > 0 && b.Address != prevAddr && prevType == nom.BlockTypeContractSend {
			whole = false
		}
		prevType, prevAddr = b.BlockType, b.Address
	}
	whole = whole && prevType != nom.BlockTypeContractSend
	r.out.Oracle(whole, "momentum-content-whole-batches", M{"momentum": U64(fm.Height), "blocks": I64(int64(len(fm.Content))), "what": "the momentum the node produced"})
}

func contentExperiment(rng *rand.Rand, out *Out) {
	nd := NewNode()
	defer nd.Stop()
	users := []*wallet.KeyPair{g.User1, g.User2, g.User3, g.User4, g.User5}
	r := &contentRun{nd: nd, rng: rng, out: out}
	r.pr = &poolRun{nd: nd, rng: rng, out: out, users: users}
	r.lis = &contentListener{r: r}
	nd.Ch.Register(r.lis)
	defer nd.Ch.UnRegister(r.lis)

	// ---- real: a backlog of contract work
	tracked := []types.Address{types.TokenContract}
	for _, u := range users {
		tracked = append(tracked, u.Address)
	}
	calls := 51 + rng.Intn(25)
	callers := users[:1+rng.Intn(3)]
	issued := 0
	for i := 0; i < calls; i++ {
		u := callers[rng.Intn(len(callers))]
		b := &nom.AccountBlock{BlockType: nom.BlockTypeUserSend, Address: u.Address, ToAddress: types.TokenContract, TokenStandard: types.ZnnTokenStandard,
			Amount: constants.TokenIssueAmount, Data: definition.ABIToken.PackMethodPanic(definition.IssueMethodName, fmt.Sprintf("tok-%d", i), "TKN", "", big.NewInt(100), big.NewInt(1000), uint8(1), true, true, false)}
		tx, err := nd.Sv.GenerateFromTemplate(b, u.Signer)
		if err != nil {
			out.Count("content:real:call-rejected")
			continue
		}
		if nd.Insert(tx) == nil {
			issued++
		}
	}
	r.judge("real-calls-pooled", tracked, 2)
	r.momentum(tracked) // confirms the calls; the contract worker pools one batch per call
	out.Count(fmt.Sprintf("content:real:contract-batches-pooled>=%d", min(len(nd.Ch.GetUncommittedAccountBlocksByAddress(types.TokenContract))/2/10*10, 70)))
	// the users go on: an odd number of plain sends, so that the limit does not fall on a batch boundary by arithmetic
	for _, u := range users[:1+rng.Intn(len(users))] {
		for i := 1 + 2*rng.Intn(3); i > 0; i-- {
			if tx, err := r.pr.craft(u, types.HashHeight{}, uint64(rng.Intn(3))*1000, 0); err == nil {
				nd.Insert(tx)
			}
		}
	}
	for round := 0; round < 4; round++ {
		if poolOf(nd.Ch, tracked).total() == 0 {
			break
		}
		r.judge("real-contract-backlog", tracked, 4)
		r.momentum(tracked)
		if rng.Intn(2) == 0 {
			u := users[rng.Intn(len(users))]
			if tx, err := r.pr.craft(u, types.HashHeight{}, 0, 0); err == nil {
				nd.Insert(tx)
			}
		}
	}

	// ---- synthetic backlogs on top (no momentum after this point: the synthetic contract blocks are not executable)
	for rep := 0; rep < 3; rep++ {
		r.synthetic(users)
		// the pool is dropped when a momentum is rolled back: the next backlog starts from an empty pool
		if err := nd.RollbackTo(nd.FrontierHeight() - 1); err != nil {
			out.Oracle(false, "rollback-accepted", Tup(err.Error()))
			return
		}
		for _, a := range r.pr.allAccounts() {
			if !r.pr.clauseAfterDelete(a, "content: backlog dropped by a momentum delete") {
				return
			}
		}
	}
}

// one well-formed batch of `sends` descendants on top of the contract's pool frontier, straight into the pool
func (r *contentRun) synthBatch(contract types.Address, sends int, force bool) error {
	nd := r.nd
	prev := nd.Ch.GetFrontierAccountStore(contract).Identifier()
	desc := make([]*nom.AccountBlock, 0, sends)
	for i := 0; i < sends; i++ {
		s := &nom.AccountBlock{Version: 1, ChainIdentifier: nd.Ch.ChainIdentifier(), BlockType: nom.BlockTypeContractSend, PreviousHash: prev.Hash, Height: prev.Height + 1,
			MomentumAcknowledged: FrontierOf(nd.Ch).Identifier(), Address: contract, ToAddress: g.User1.Address, Amount: big.NewInt(int64(1 + r.rng.Intn(1000))), TokenStandard: types.ZnnTokenStandard}
		s.Hash = s.ComputeHash()
		prev = s.Identifier()
		desc = append(desc, s)
	}
	rcv := &nom.AccountBlock{Version: 1, ChainIdentifier: nd.Ch.ChainIdentifier(), BlockType: nom.BlockTypeContractReceive, PreviousHash: prev.Hash, Height: prev.Height + 1,
		MomentumAcknowledged: FrontierOf(nd.Ch).Identifier(), Address: contract, Amount: big.NewInt(0), DescendantBlocks: desc}
	r.rng.Read(rcv.FromBlockHash[:])
	rcv.Hash = rcv.ComputeHash()
	ins := nd.Ch.AcquireInsert("c14 content")
	defer ins.Unlock()
	tx := &nom.AccountBlockTransaction{Block: rcv, Changes: db.NewPatch()}
	if force {
		return nd.Ch.ForceAddAccountBlockTransaction(ins, tx)
	}
	return nd.Ch.AddAccountBlockTransaction(ins, tx)
}

func (r *contentRun) synthetic(users []*wallet.KeyPair) {
	nd, rng, out := r.nd, r.rng, r.out
	// start from an empty pool: the managers are dropped by a delete notification's handler only; here simply fresh accounts
	// are used per repetition (contracts that have nothing pooled yet) and the pooled rest of earlier repetitions stays
	var free []types.Address
	for _, c := range types.EmbeddedContracts {
		if len(nd.Ch.GetUncommittedAccountBlocksByAddress(c)) == 0 {
			free = append(free, c)
		}
	}
	rng.Shuffle(len(free), func(i, j int) { free[i], free[j] = free[j], free[i] })
	all := append([]types.Address{}, types.EmbeddedContracts...)
	for _, u := range users {
		all = append(all, u.Address)
	}
	already := poolOf(nd.Ch, all).total()
	regime := rng.Intn(3)
	if already >= chain.MaxAccountBlocksInMomentum/2 {
		regime = 2 // what is pooled already takes part in the walk: only the random mixture makes sense
	}
	target := 101 + rng.Intn(150)
	switch regime {
	case 0: // every account a contract, one batch size that does not divide the limit
		sizes := []int{3, 6, 7, 8, 9, 11, 12, 13, 14, 15, 16, 17, 18, 19, 21}
		s := sizes[rng.Intn(len(sizes))]
		m := 2 + rng.Intn(5)
		if m > len(free) {
			m = len(free)
		}
		out.Count(fmt.Sprintf("content:synthetic:equal-batches-of-%d", s))
		for added := already; added < target || added <= chain.MaxAccountBlocksInMomentum; {
			for _, c := range free[:m] {
				if r.synthBatch(c, s-1, rng.Intn(2) == 0) == nil {
					added += s
				}
			}
			if m == 0 {
				break
			}
		}
	case 1: // two equally long backlogs of small batches, the last one a bit longer (the shape of a queue worked through)
		if len(free) < 2 {
			return
		}
		per := 51 + rng.Intn(30)
		for _, c := range free[:2] {
			n := 0
			for n < per {
				d := 1 + rng.Intn(2)
				if r.synthBatch(c, d, false) == nil {
					n += d + 1
				}
			}
		}
		out.Count("content:synthetic:two-queues")
	default: // random mixture of contracts (batches of 0..20 descendants) and users (plain sends)
		m := 2 + rng.Intn(5)
		var accts []interface{}
		for i := 0; i < m; i++ {
			if rng.Intn(3) == 0 || len(free) == 0 {
				accts = append(accts, users[rng.Intn(len(users))])
			} else {
				accts = append(accts, free[0])
				free = free[1:]
			}
		}
		maxd := []int{1, 3, 8, 20}[rng.Intn(4)]
		for added, tries := already, 0; added < target && tries < 600; tries++ {
			switch a := accts[rng.Intn(len(accts))].(type) {
			case *wallet.KeyPair:
				if tx, err := r.pr.craft(a, types.HashHeight{}, uint64(rng.Intn(3))*1000, 0); err == nil && nd.Insert(tx) == nil {
					added++
				}
			case types.Address:
				d := rng.Intn(maxd + 1)
				if r.synthBatch(a, d, rng.Intn(3) == 0) == nil {
					added += d + 1
				}
			}
		}
		out.Count("content:synthetic:random-mixture")
	}
	r.judge("synthetic-backlog", all, 6)
}
