package main

import (
	"encoding/json"
	"math/big"
	"math/rand"
	. "zharness/hz"

	"github.com/zenon-network/go-zenon/chain/nom"
	"github.com/zenon-network/go-zenon/common/types"
)

// ---- neutral terms of the model's records (coq/theories/Block.v)

func bodyTerm(b *nom.AccountBlock) M {
	return Con("mkABody", U64(b.Version), U64(b.ChainIdentifier), U64(b.BlockType),
		Byt(b.Hash[:]), Byt(b.PreviousHash[:]), U64(b.Height),
		Byt(b.MomentumAcknowledged.Hash[:]), U64(b.MomentumAcknowledged.Height),
		Byt(b.Address[:]), Byt(b.ToAddress[:]), Big(b.Amount), Byt(b.TokenStandard[:]),
		Byt(b.FromBlockHash[:]), Byt(b.Data),
		U64(b.FusedPlasma), U64(b.Difficulty), Byt(b.Nonce.Data[:]),
		U64(b.BasePlasma), U64(b.TotalPlasma), Byt(b.ChangesHash[:]),
		Byt(b.PublicKey), Byt(b.Signature))
}
func abTerm(b *nom.AccountBlock) M {
	ds := make([]interface{}, 0, len(b.DescendantBlocks))
	for _, d := range b.DescendantBlocks {
		ds = append(ds, abTerm(d))
	}
	return Con("ABNode", bodyTerm(b), ds)
}
func hdrTerm(h *types.AccountHeader) M {
	return Con("mkAHeader", Byt(h.Address[:]), Byt(h.Hash[:]), U64(h.Height))
}
func contentTerm(c nom.MomentumContent) []interface{} {
	l := make([]interface{}, 0, len(c))
	for _, h := range c {
		l = append(l, hdrTerm(h))
	}
	return l
}
func momTerm(m *nom.Momentum) M {
	return Con("mkMom", U64(m.Version), U64(m.ChainIdentifier), Byt(m.Hash[:]), Byt(m.PreviousHash[:]),
		U64(m.Height), U64(m.TimestampUnix), Byt(m.Data), contentTerm(m.Content), Byt(m.ChangesHash[:]),
		Byt(m.PublicKey), Byt(m.Signature))
}
func same(a, b interface{}) bool {
	x, _ := json.Marshal(a)
	y, _ := json.Marshal(b)
	return string(x) == string(y)
}

// ---- generators

func rBytes(rng *rand.Rand, n int) []byte {
	b := make([]byte, n)
	switch rng.Intn(6) {
	case 0: // zeros
	case 1:
		for i := range b {
			b[i] = 0xff
		}
	default:
		rng.Read(b)
	}
	return b
}
func rVar(rng *rand.Rand) []byte {
	n := []int{0, 0, 0, 1, 2, 5, 31, 32, 33, 64, 127, 128, 129}[rng.Intn(13)]
	if rng.Intn(40) == 0 {
		n = []int{300, 1000}[rng.Intn(2)]
	}
	if n == 0 && rng.Intn(2) == 0 {
		return nil
	}
	return rBytes(rng, n)
}
func rAmount(rng *rand.Rand) *big.Int {
	one := big.NewInt(1)
	switch rng.Intn(9) {
	case 0:
		return big.NewInt(0)
	case 1:
		return big.NewInt(int64(rng.Intn(300)))
	case 2:
		return new(big.Int).Sub(new(big.Int).Lsh(one, 255), one)
	case 3:
		return new(big.Int).Sub(new(big.Int).Lsh(one, 256), one)
	case 4:
		return new(big.Int).Lsh(one, uint(8*rng.Intn(32)))
	case 5:
		return new(big.Int).SetUint64(rng.Uint64())
	default:
		return new(big.Int).SetBytes(rBytes(rng, 1+rng.Intn(32)))
	}
}
func rBlock(rng *rand.Rand, depth int) *nom.AccountBlock {
	b := &nom.AccountBlock{}
	b.Version = BoundaryU64(rng)
	b.ChainIdentifier = BoundaryU64(rng)
	b.BlockType = []uint64{0, 1, 2, 3, 4, 5, 6, BoundaryU64(rng)}[rng.Intn(8)]
	copy(b.Hash[:], rBytes(rng, 32))
	copy(b.PreviousHash[:], rBytes(rng, 32))
	b.Height = BoundaryU64(rng)
	copy(b.MomentumAcknowledged.Hash[:], rBytes(rng, 32))
	b.MomentumAcknowledged.Height = BoundaryU64(rng)
	copy(b.Address[:], rBytes(rng, 20))
	copy(b.ToAddress[:], rBytes(rng, 20))
	b.Amount = rAmount(rng)
	copy(b.TokenStandard[:], rBytes(rng, 10))
	copy(b.FromBlockHash[:], rBytes(rng, 32))
	b.Data = rVar(rng)
	b.FusedPlasma = BoundaryU64(rng)
	b.Difficulty = BoundaryU64(rng)
	copy(b.Nonce.Data[:], rBytes(rng, 8))
	b.BasePlasma = BoundaryU64(rng)
	b.TotalPlasma = BoundaryU64(rng)
	copy(b.ChangesHash[:], rBytes(rng, 32))
	b.PublicKey = rVar(rng)
	b.Signature = rVar(rng)
	b.DescendantBlocks = []*nom.AccountBlock{}
	if depth > 0 {
		for i := rng.Intn(3); i > 0; i-- {
			b.DescendantBlocks = append(b.DescendantBlocks, rBlock(rng, depth-1-rng.Intn(depth)))
		}
	}
	return b
}
func rHeader(rng *rand.Rand) *types.AccountHeader {
	h := &types.AccountHeader{}
	if rng.Intn(3) == 0 { // few distinct addresses so that the order is decided by height / hash
		h.Address[0] = byte(rng.Intn(2))
		h.Address[19] = byte(rng.Intn(3))
	} else {
		copy(h.Address[:], rBytes(rng, 20))
	}
	h.Height = []uint64{1, 2, 255, 256, 257, 65536, BoundaryU64(rng)}[rng.Intn(7)]
	copy(h.Hash[:], rBytes(rng, 32))
	return h
}
func rMomentum(rng *rand.Rand) *nom.Momentum {
	m := &nom.Momentum{}
	m.Version = BoundaryU64(rng)
	m.ChainIdentifier = BoundaryU64(rng)
	copy(m.Hash[:], rBytes(rng, 32))
	copy(m.PreviousHash[:], rBytes(rng, 32))
	m.Height = BoundaryU64(rng)
	m.TimestampUnix = BoundaryU64(rng) >> uint(rng.Intn(2)*30)
	m.Data = rVar(rng)
	m.Content = nom.MomentumContent{}
	for i := rng.Intn(6); i > 0; i-- {
		m.Content = append(m.Content, rHeader(rng))
	}
	copy(m.ChangesHash[:], rBytes(rng, 32))
	m.PublicKey = rVar(rng)
	m.Signature = rVar(rng)
	return m
}
