package main

import . "zharness/hz"

func main() {
	Main(map[string]Runner{"codec": runCodec, "node": runNode, "abicanon": runAbiCanon})
}
