package main

// Relayed contract receives whose DESCENDANTS are rewritten (node suite).
//
// The hash of a contract receive covers only the Hash fields of its descendant blocks; the vm regenerates the receive
// and compares ChangesHash and Hash of the parent only, and the delivered object - not the regenerated one - is what a
// node stores (each descendant once more on its own, under its own height and hash). So the only thing that pins the
// stored bytes of a descendant is the rule "every descendant hashes to the hash it states", whatever the descendant
// claims to be. Clause of C13: "same hash => identical stored representation and effect; nobody other than the key
// holder can produce a second acceptable variant" (a contract block has no key at all).
//
// For EVERY contract receive the producer pools (found by scanning the pools of all embedded contracts after every
// momentum, so receives of contract-to-contract calls are included), a second node that follows the producer momentum by
// momentum (hz.OpenBare + InsertChain: it has the confirmed send, not the pooled receive) is handed
//   - the genuine block (control; Supervisor.ApplyBlock, later ChainBridge.AddAccountBlocks),
//   - every variant of descendantVariants below: the receive's own fields, its Hash and the Hash fields of all
//     descendants kept, ONE descendant (each index in turn) rewritten so that a rule keyed on what the descendant itself
//     claims (type, address, heights, amounts, ...) could be dodged, or the list reshaped / nested,
// through (a) Supervisor.ApplyBlock and (b) the gossip entry ChainBridge.AddAccountBlocks. An accepted variant must
// have the stored bytes of the genuine block (receive, every descendant, patch).
// The fields no hash covers (ChangesHash, key, signature, plasma fields of a descendant) are never touched here: they
// are the known finding `contract-block-uncovered-fields-variant` and keep their own key.

import (
	"bytes"
	"errors"
	"fmt"
	"math/big"
	"math/rand"
	. "zharness/hz"

	g "github.com/zenon-network/go-zenon/chain/genesis/mock"
	"github.com/zenon-network/go-zenon/chain/nom"
	"github.com/zenon-network/go-zenon/common/db"
	"github.com/zenon-network/go-zenon/common/types"
	"github.com/zenon-network/go-zenon/verifier"
	"github.com/zenon-network/go-zenon/vm/constants"
	"github.com/zenon-network/go-zenon/vm/embedded/definition"
	"github.com/zenon-network/go-zenon/vm/embedded/implementation"
	"github.com/zenon-network/go-zenon/wallet"
)

const (
	keyClaimed = "contract-receive-descendant-claimed-fields-variant"
	keyContent = "contract-receive-descendant-content-variant"
	keyList    = "contract-receive-descendant-list-variant"
	keyNested  = "contract-receive-descendant-nested-variant"
)

type relay struct {
	h      *hist
	rp     *BareNode
	seen   map[types.Hash]bool
	pooled []*nom.AccountBlock // genuine contract receives pooled on the replica since its last momentum
	// descendants addressed to users: staged when their receive is seen in the pool, ready once a momentum confirmed it
	staged, ready []*nom.AccountBlock
	// state of the additional calls of the history
	issued    map[types.Address][]types.ZenonTokenStandard
	swapDone  bool
	turn      int
	pillarDep map[types.Address]bool
}

func newRelay(h *hist) *relay {
	return &relay{h: h, rp: OpenBare(""), seen: map[types.Hash]bool{}, issued: map[types.Address][]types.ZenonTokenStandard{},
		pillarDep: map[types.Address]bool{}}
}
func (r *relay) close() { r.rp.Destroy() }

// step = one momentum of the producer, then the relay scan of what its contracts pooled.
func (h *hist) step() {
	h.nd.Momentum()
	h.rl.scan()
}

// takeReady hands the history the contract sends to users that are confirmed by now.
func (r *relay) takeReady() []*nom.AccountBlock {
	x := r.ready
	r.ready = nil
	return x
}

// ---------------------------------------------------------------------------------------------------------------
// more calls that make a contract emit descendants

// extraCall: kind 0 token.IssueToken (one descendant: the initial supply), 1 token.Mint by the owner of an issued token
// (one descendant), 2 swap.RetrieveAssets with the genesis secp256k1 key (TWO descendants: a ZNN and a QSR mint call
// to the token contract, each of which makes the token contract emit one more), 3 pillar deposit / withdraw QSR,
// 4 pillar registration without the QSR deposit (fails when received: 15000 ZNN refunded by a descendant).
func (r *relay) extraCall(rng *rand.Rand, kind int, u *wallet.KeyPair, users []*wallet.KeyPair) *nom.AccountBlock {
	issue := func() *nom.AccountBlock {
		total := big.NewInt(int64(1 + rng.Intn(5000)))
		max := new(big.Int).Add(total, big.NewInt(int64(1+rng.Intn(20000))))
		return &nom.AccountBlock{ToAddress: types.TokenContract, TokenStandard: types.ZnnTokenStandard, Amount: new(big.Int).Set(constants.TokenIssueAmount),
			Data: definition.ABIToken.PackMethodPanic(definition.IssueMethodName, fmt.Sprintf("tok-%d", rng.Intn(1000)), "T"+string(rune('A'+rng.Intn(26))), "",
				total, max, uint8(rng.Intn(10)), true, rng.Intn(2) == 0, false)}
	}
	switch kind {
	case 0:
		return issue()
	case 1:
		own := r.issued[u.Address]
		if len(own) == 0 {
			return issue()
		}
		return &nom.AccountBlock{ToAddress: types.TokenContract, TokenStandard: types.ZnnTokenStandard, Amount: big.NewInt(0),
			Data: definition.ABIToken.PackMethodPanic(definition.MintMethodName, own[rng.Intn(len(own))], big.NewInt(int64(1+rng.Intn(300))), users[rng.Intn(len(users))].Address)}
	case 2:
		if !r.swapDone {
			if sig, err := implementation.SignRetrieveAssetsMessage(u.Address, g.Secp1PrvKey, g.Secp1PubKeyB64); err == nil {
				r.swapDone = true
				return &nom.AccountBlock{ToAddress: types.SwapContract, TokenStandard: types.ZnnTokenStandard, Amount: big.NewInt(0),
					Data: definition.ABISwap.PackMethodPanic(definition.RetrieveAssetsMethodName, g.Secp1PubKeyB64, sig)}
			}
		}
		return issue()
	case 3:
		if !r.pillarDep[u.Address] {
			r.pillarDep[u.Address] = true
			return &nom.AccountBlock{ToAddress: types.PillarContract, TokenStandard: types.QsrTokenStandard,
				Amount: big.NewInt(int64(1+rng.Intn(90)) * g.Zexp), Data: definition.ABIPillars.PackMethodPanic(definition.DepositQsrMethodName)}
		}
		r.pillarDep[u.Address] = false
		return &nom.AccountBlock{ToAddress: types.PillarContract, TokenStandard: types.ZnnTokenStandard, Amount: big.NewInt(0),
			Data: definition.ABIPillars.PackMethodPanic(definition.WithdrawQsrMethodName)}
	default:
		return &nom.AccountBlock{ToAddress: types.PillarContract, TokenStandard: types.ZnnTokenStandard, Amount: new(big.Int).Set(constants.PillarStakeAmount),
			Data: definition.ABIPillars.PackMethodPanic(definition.RegisterMethodName, "plr-"+string(rune('a'+rng.Intn(26))), users[rng.Intn(len(users))].Address, u.Address, uint8(rng.Intn(101)), uint8(rng.Intn(101)))}
	}
}

// ---------------------------------------------------------------------------------------------------------------
// the replica

// sync feeds the replica every momentum of the producer it does not have yet (wire copies).
func (r *relay) sync() bool {
	nd, rp, out := r.h.nd, r.rp, r.h.out
	top := FrontierOf(nd.Ch)
	have := FrontierOf(rp.Ch)
	var err error
	if have.Hash != top.Hash {
		lo := have.Height + 1
		if have.Height >= top.Height {
			lo = top.Height
		}
		// walk down to the first height at which the two chains agree (the producer may have replaced its frontier)
		for lo > 2 {
			a, _ := nd.Ch.GetFrontierMomentumStore().GetMomentumByHeight(lo - 1)
			b, _ := rp.Ch.GetFrontierMomentumStore().GetMomentumByHeight(lo - 1)
			if a != nil && b != nil && a.Hash == b.Hash {
				break
			}
			lo--
		}
		_, err = rp.Br.InsertChain(WireCopyAll(DetailedRange(nd.Ch, lo, top.Height)))
		r.pooled = nil
		out.Count("relay:replica:momentums-fed")
	}
	now := FrontierOf(rp.Ch)
	ok := err == nil && now.Hash == top.Hash
	out.Oracle(ok, "replica-follows-producer", M{"producer_height": U64(top.Height), "producer_hash": top.Hash.String(),
		"replica_height": U64(now.Height), "replica_hash": now.Hash.String(), "accepted": err == nil})
	return ok
}

func serList(bs []*nom.AccountBlock) [][]byte {
	r := make([][]byte, len(bs))
	for i, b := range bs {
		if b != nil {
			r[i] = ser(b)
		}
	}
	return r
}
func sameLists(a, b [][]byte) bool {
	if len(a) != len(b) {
		return false
	}
	for i := range a {
		if !bytes.Equal(a[i], b[i]) {
			return false
		}
	}
	return true
}
func hexList(a [][]byte) []interface{} {
	r := make([]interface{}, len(a))
	for i := range a {
		r[i] = Byt(a[i])
	}
	return r
}

// uncommitted = what the pool of the node stores for the contract (descendants as separate blocks followed by their
// receive); a height without an entry is a nil element.
func uncommitted(n *BareNode, c types.Address) (bs []*nom.AccountBlock) {
	defer func() {
		if recover() != nil {
			bs = []*nom.AccountBlock{nil}
		}
	}()
	return n.Ch.GetUncommittedAccountBlocksByAddress(c)
}

// emptyPool drops everything the replica pooled (chain.DeleteMomentum drops all pool managers): one momentum back and
// forth, then the genuine receives that were pooled before are pooled again.
func (r *relay) emptyPool() {
	rp, out := r.rp, r.h.out
	fm := FrontierOf(rp.Ch)
	prev, err := rp.Ch.GetFrontierMomentumStore().GetMomentumByHeight(fm.Height - 1)
	if err != nil || prev == nil {
		out.Oracle(false, "replica-follows-producer", M{"what": "no previous momentum to roll back to", "height": U64(fm.Height)})
		return
	}
	dm := WireCopy(DetailedAt(r.h.nd.Ch, fm.Height))
	err = RollbackTo(rp.Ch, prev.Identifier())
	if err == nil {
		_, err = rp.Br.InsertChain([]*nom.DetailedMomentum{dm})
	}
	now := FrontierOf(rp.Ch)
	out.Count("relay:replica:pool-emptied")
	out.Oracle(err == nil && now.Hash == fm.Hash, "replica-follows-producer", M{"what": "re-insertion of the frontier momentum after a rollback by one",
		"height": U64(fm.Height), "hash": fm.Hash.String(), "accepted": err == nil})
	for _, b := range r.pooled {
		if err := rp.Br.AddAccountBlocks([]*nom.AccountBlock{cp(b)}); err != nil {
			out.Oracle(false, "contract-receive-redelivery-pooled", M{"what": "genuine receive not pooled again after the pool was emptied", "hash": b.Hash.String()})
		}
	}
}

// scan: after a momentum of the producer. Every contract receive its contracts pooled goes to the replica.
func (r *relay) scan() {
	nd, out := r.h.nd, r.h.out
	if !r.sync() {
		return
	}
	r.ready = append(r.ready, r.staged...)
	r.staged = nil
	for _, c := range types.EmbeddedContracts {
		blocks := nd.Ch.GetUncommittedAccountBlocksByAddress(c)
		for k, b := range blocks {
			if b == nil || b.BlockType != nom.BlockTypeContractReceive || r.seen[b.Hash] {
				continue
			}
			r.seen[b.Hash] = true
			for _, d := range b.DescendantBlocks {
				if !types.IsEmbeddedAddress(d.ToAddress) {
					r.staged = append(r.staged, d)
				}
				if c == types.TokenContract && KeyOf(d.ToAddress) != nil && d.TokenStandard != types.ZnnTokenStandard && d.TokenStandard != types.QsrTokenStandard {
					// an issued token: its owner may mint later (the owner is the recipient of the initial supply)
					if sb, _ := nd.Ch.GetFrontierMomentumStore().GetAccountBlockByHash(b.FromBlockHash); sb != nil && sb.Address == d.ToAddress && len(d.Data) == 0 {
						r.issued[d.ToAddress] = append(r.issued[d.ToAddress], d.TokenStandard)
					}
				}
			}
			out.Count(fmt.Sprintf("relay:contract-receive:descendants:%d", len(b.DescendantBlocks)))
			if !r.receive(c, b, blocks[:k+1]) {
				break
			}
		}
	}
}

// receive: one pooled contract receive b of contract c of the producer; upto = the producer's pool of c up to b.
// false: the replica could not take the genuine block (reported), later receives of c cannot be tried.
func (r *relay) receive(c types.Address, b *nom.AccountBlock, upto []*nom.AccountBlock) bool {
	nd, rp, out := r.h.nd, r.rp, r.h.out
	genuine := ser(b)
	// control: the genuine wire copy is acceptable to the replica and would be stored as the producer stores it
	tx, err := rp.Sv.ApplyBlock(cp(b))
	ptx, perr := nd.Apply(cp(b))
	ok := err == nil && perr == nil && bytes.Equal(ser(tx.Block), genuine) && db.PatchHash(tx.Changes) == db.PatchHash(ptx.Changes)
	out.Oracle(ok, "contract-receive-redelivery", M{"path": "replica Supervisor.ApplyBlock", "hash": b.Hash.String(), "address": c.String(),
		"height": U64(b.Height), "accepted_by_replica": err == nil, "accepted_by_producer": perr == nil})
	if !ok {
		return false
	}
	ref := db.PatchHash(tx.Changes)
	before := len(upto) - len(b.DescendantBlocks) - 1
	if len(b.DescendantBlocks) > 0 {
		out.Count("relay:contract-receive:with-descendants")
		if len(b.DescendantBlocks) >= 2 {
			out.Count("relay:contract-receive:with-2-or-more-descendants")
		}
		r.turn++
		for vi, dv := range descendantVariants(r.h.rng, nd, b, r.turn) {
			out.Count("relay:" + dv.class + ":offered")
			v := cp(b)
			dv.mut(v)
			accepted := r.viaApply(dv, c, b, v, ref)
			// the gossip entry is ApplyBlock + insertion into the pool: every variant ApplyBlock took, and a quarter of the
			// refused ones (rotating with the receive, so every variant goes this way on some receive)
			if !accepted && (vi+r.turn)%4 != 0 {
				out.Count("relay:" + dv.class + ":gossip:not-tried-this-turn")
				continue
			}
			w := cp(b)
			dv.mut(w)
			w = cp(w)
			if bytes.Equal(ser(w), genuine) {
				out.Count("relay:" + dv.class + ":gossip:skipped-wire-form-is-the-genuine-block")
				continue
			}
			r.viaGossip(dv, c, b, w, upto, before)
		}
	}
	// the genuine block through the gossip entry: pooled, stored as on the producer; it stays (the next receive of c builds on it)
	err = rp.Br.AddAccountBlocks([]*nom.AccountBlock{cp(b)})
	patch := rp.Ch.GetPatch(c, b.Identifier())
	stored := serList(uncommitted(rp, c))
	want := serList(upto)
	ok = err == nil && patch != nil && sameLists(stored, want) && db.PatchHash(patch) == db.PatchHash(nd.Ch.GetPatch(c, b.Identifier()))
	out.Oracle(ok, "contract-receive-redelivery-pooled", M{"path": "replica ChainBridge.AddAccountBlocks", "hash": b.Hash.String(), "address": c.String(),
		"height": U64(b.Height), "accepted": err == nil, "pooled": patch != nil, "producer_pool": hexList(want), "replica_pool": hexList(stored)})
	if !ok {
		if len(stored) != before {
			r.emptyPool()
		}
		return false
	}
	r.pooled = append(r.pooled, b)
	return true
}

var refusalNames = []struct {
	err  error
	name string
}{
	{verifier.ErrABDescendantVerify, "descendant-verify"}, {verifier.ErrABHashInvalid, "hash-invalid"}, {verifier.ErrABPreviousMissing, "previous-missing"},
	{verifier.ErrABPrevHeightExists, "previous-height-exists"}, {verifier.ErrABPrevHasCementedOnTop, "previous-cemented"}, {verifier.ErrABMAMustBeTheSame, "momentum-acknowledged-differs"},
	{verifier.ErrABDescendantMustBeZero, "descendants-on-a-non-receive"}, {constants.ErrVmRunPanic, "vm-panic"},
}

func relayRefusal(err error) string {
	for _, x := range refusalNames {
		if errors.Is(err, x.err) {
			return x.name
		}
	}
	return "other"
}

func (r *relay) detail(dv dvar, path string, b, v *nom.AccountBlock) M {
	m := M{"what": dv.what, "class": dv.class, "descendant_index": I64(int64(dv.idx)), "descendants": I64(int64(len(b.DescendantBlocks))), "path": path,
		"address": b.Address.String(), "height": U64(b.Height), "hash": b.Hash.String(), "genuine": Byt(ser(b)), "variant": Byt(ser(v))}
	if dv.idx >= 0 && dv.idx < len(b.DescendantBlocks) {
		m["descendant_genuine"] = Byt(ser(b.DescendantBlocks[dv.idx]))
		if dv.idx < len(v.DescendantBlocks) {
			m["descendant_variant"] = Byt(ser(v.DescendantBlocks[dv.idx]))
		}
	}
	return m
}

// (a) Supervisor.ApplyBlock on the replica
func (r *relay) viaApply(dv dvar, c types.Address, b, v *nom.AccountBlock, ref types.Hash) (accepted bool) {
	out := r.h.out
	delivered := cp(v)
	tx, err := r.rp.Sv.ApplyBlock(v)
	if err != nil {
		out.Count("relay:" + dv.class + ":apply:refused")
		out.Count("relay:refused-by:" + relayRefusal(err))
		out.Oracle(true, dv.key, nil)
		return false
	}
	stored := ser(tx.Block)
	sameBytes := bytes.Equal(stored, ser(b))
	samePatch := db.PatchHash(tx.Changes) == ref
	sameDesc := len(tx.Block.DescendantBlocks) == len(b.DescendantBlocks)
	for i := 0; sameDesc && i < len(b.DescendantBlocks); i++ {
		sameDesc = bytes.Equal(ser(tx.Block.DescendantBlocks[i]), ser(b.DescendantBlocks[i]))
	}
	ok := sameBytes && samePatch && sameDesc
	if ok {
		out.Count("relay:" + dv.class + ":apply:stored-identically")
	} else {
		out.Count("relay:" + dv.class + ":apply:ACCEPTED-DIFFERENT")
	}
	m := r.detail(dv, "Supervisor.ApplyBlock (node without the genuine block)", b, delivered)
	m["stored"], m["same_hash"], m["same_stored_bytes"], m["same_stored_descendants"], m["same_patch"] = Byt(stored), tx.Block.Hash == b.Hash, sameBytes, sameDesc, samePatch
	if dv.idx >= 0 && dv.idx < len(tx.Block.DescendantBlocks) {
		m["descendant_stored"] = Byt(ser(tx.Block.DescendantBlocks[dv.idx]))
	}
	out.Oracle(ok, dv.key, m)
	return true
}

// (b) the gossip entry of the replica: ApplyBlock + AddAccountBlockTransaction into the pool
func (r *relay) viaGossip(dv dvar, c types.Address, b, w *nom.AccountBlock, upto []*nom.AccountBlock, before int) {
	rp, out := r.rp, r.h.out
	delivered := cp(w)
	if rp.Ch.GetPatch(w.Address, w.Identifier()) != nil || len(uncommitted(rp, c)) != before {
		r.emptyPool() // leftovers of an earlier delivery (reported there)
	}
	err := rp.Br.AddAccountBlocks([]*nom.AccountBlock{w})
	patch := rp.Ch.GetPatch(b.Address, b.Identifier())
	pool := uncommitted(rp, c)
	key := dv.key + "-pooled"
	if patch == nil && len(pool) == before {
		out.Count("relay:" + dv.class + ":gossip:refused")
		out.Oracle(true, key, nil)
		return
	}
	stored, want := serList(pool), serList(upto)
	sameBytes := sameLists(stored, want)
	samePatch := patch != nil && db.PatchHash(patch) == db.PatchHash(r.h.nd.Ch.GetPatch(c, b.Identifier()))
	// the descendants once more, as the account store of the pool hands them out by height and by hash
	sameDesc := true
	byHeight, byHash := []interface{}{}, []interface{}{}
	if as := rp.Ch.GetFrontierAccountStore(c); as != nil {
		for _, d := range b.DescendantBlocks {
			x, _ := as.ByHeight(d.Height)
			y, _ := as.ByHash(d.Hash)
			for _, z := range []*nom.AccountBlock{x, y} {
				if z == nil || !bytes.Equal(ser(z), ser(d)) {
					sameDesc = false
				}
			}
			if x != nil {
				byHeight = append(byHeight, Byt(ser(x)))
			}
			if y != nil {
				byHash = append(byHash, Byt(ser(y)))
			}
		}
	}
	ok := err == nil && sameBytes && samePatch && sameDesc
	if ok {
		out.Count("relay:" + dv.class + ":gossip:pooled-identical")
	} else {
		out.Count("relay:" + dv.class + ":gossip:POOLED-DIFFERENT")
	}
	m := r.detail(dv, "ChainBridge.AddAccountBlocks (node without the genuine block)", b, delivered)
	m["same_hash"] = patch != nil // found in the pool under the identifier (hash, height) of the genuine receive
	m["accepted"], m["pooled"], m["same_stored_bytes"], m["same_stored_descendants"], m["same_patch"] = err == nil, patch != nil, sameBytes, sameDesc, samePatch
	m["producer_pool"], m["replica_pool"], m["descendants_by_height"], m["descendants_by_hash"] = hexList(want), hexList(stored), byHeight, byHash
	out.Oracle(ok, key, m)
	r.emptyPool()
}

// ---------------------------------------------------------------------------------------------------------------
// the variants

type dvar struct {
	key, class, what string
	idx              int                       // the rewritten descendant (-1: the list as a whole)
	mut              func(v *nom.AccountBlock) // applied to a fresh wire copy of the genuine receive; deterministic, shares nothing
}

var claimedTypes = []uint64{0, nom.BlockTypeGenesisReceive, nom.BlockTypeUserSend, nom.BlockTypeUserReceive, nom.BlockTypeContractSend,
	nom.BlockTypeContractReceive, 6, 7, 255, 1 << 32, ^uint64(0)}

func otherToken(z types.ZenonTokenStandard) types.ZenonTokenStandard {
	if z == types.ZnnTokenStandard {
		return types.QsrTokenStandard
	}
	return types.ZnnTokenStandard
}

// content rewrites of a descendant d of parent p (all of them change the hash pre-image of d)
type payload struct {
	name string
	f    func(d, p *nom.AccountBlock)
}

func descendantVariants(rng *rand.Rand, nd *Node, b *nom.AccountBlock, turn int) []dvar {
	var vs []dvar
	n := len(b.DescendantBlocks)
	users := []*wallet.KeyPair{g.User1, g.User2, g.User3, g.User4, g.User5}
	rndHash := func() types.Hash {
		var x types.Hash
		rng.Read(x[:])
		return x
	}
	for i := 0; i < n && i < 3; i++ {
		i := i
		gd := b.DescendantBlocks[i]
		D := func(v *nom.AccountBlock) *nom.AccountBlock { return v.DescendantBlocks[i] }
		other := users[rng.Intn(len(users))].Address
		for other == gd.ToAddress {
			other = users[rng.Intn(len(users))].Address
		}
		otherEmb := types.EmbeddedContracts[rng.Intn(len(types.EmbeddedContracts))]
		for otherEmb == gd.Address || otherEmb == gd.ToAddress {
			otherEmb = types.EmbeddedContracts[rng.Intn(len(types.EmbeddedContracts))]
		}
		rh := rndHash()
		extra := byte(1 + rng.Intn(255))
		payloads := []payload{
			{"ToAddress -> another user", func(d, p *nom.AccountBlock) { d.ToAddress = other }},
			{"ToAddress -> zero", func(d, p *nom.AccountBlock) { d.ToAddress = types.ZeroAddress }},
			{"Amount -> 2*Amount+1", func(d, p *nom.AccountBlock) {
				d.Amount = new(big.Int).Add(new(big.Int).Lsh(d.Amount, 1), big.NewInt(1))
			}},
			{"Amount -> 0", func(d, p *nom.AccountBlock) { d.Amount = big.NewInt(0) }},
			{"TokenStandard -> another", func(d, p *nom.AccountBlock) { d.TokenStandard = otherToken(d.TokenStandard) }},
			{"TokenStandard -> zero", func(d, p *nom.AccountBlock) { d.TokenStandard = types.ZeroTokenStandard }},
			{"Data + one byte", func(d, p *nom.AccountBlock) { d.Data = append(append([]byte{}, d.Data...), extra) }},
			{"Data -> empty", func(d, p *nom.AccountBlock) { d.Data = []byte{} }},
			{"FromBlockHash -> the parent's", func(d, p *nom.AccountBlock) { d.FromBlockHash = p.FromBlockHash }},
			{"FromBlockHash -> random", func(d, p *nom.AccountBlock) { d.FromBlockHash = rh }},
			{"send rewritten (ToAddress another user, Amount doubled+1, Data + one byte)", func(d, p *nom.AccountBlock) {
				d.ToAddress = other
				d.Amount = new(big.Int).Add(new(big.Int).Lsh(d.Amount, 1), big.NewInt(1))
				d.Data = append(append([]byte{}, d.Data...), extra)
			}},
			{"receive-shaped (Amount 0, zero token standard, zero ToAddress, FromBlockHash = the parent's)", func(d, p *nom.AccountBlock) {
				d.ToAddress, d.Amount, d.TokenStandard, d.FromBlockHash = types.ZeroAddress, big.NewInt(0), types.ZeroTokenStandard, p.FromBlockHash
			}},
			{"receive-shaped with empty Data", func(d, p *nom.AccountBlock) {
				d.ToAddress, d.Amount, d.TokenStandard, d.FromBlockHash, d.Data = types.ZeroAddress, big.NewInt(0), types.ZeroTokenStandard, p.FromBlockHash, []byte{}
			}},
			{"receive-shaped with a random FromBlockHash", func(d, p *nom.AccountBlock) {
				d.ToAddress, d.Amount, d.TokenStandard, d.FromBlockHash = types.ZeroAddress, big.NewInt(0), types.ZeroTokenStandard, rh
			}},
		}
		const sendRewritten, receiveShaped = 10, 11
		// --- what the descendant claims to be: Address x BlockType, the whole cross product
		addrs := []struct {
			name string
			a    types.Address
		}{{"unchanged", gd.Address}, {"another user", other}, {"its own recipient", gd.ToAddress}, {"another embedded contract", otherEmb}, {"zero", types.ZeroAddress}}
		for ai, ad := range addrs {
			for ti, t := range claimedTypes {
				ad, t := ad, t
				if ad.a == gd.Address && t == gd.BlockType {
					continue
				}
				emb := types.IsEmbeddedAddress(ad.a)
				looksBatched := nom.IsSendBlock(t) && emb
				consistent := (emb && (t == nom.BlockTypeContractSend || t == nom.BlockTypeContractReceive)) || (!emb && (t == nom.BlockTypeUserSend || t == nom.BlockTypeUserReceive))
				base := fmt.Sprintf("descendant %d: Address -> %s, BlockType -> %d", i, ad.name, t)
				claim := func(d *nom.AccountBlock) { d.Address, d.BlockType = ad.a, t }
				vs = append(vs, dvar{keyClaimed, "claimed-fields", base + ", everything else and every Hash field kept", i, func(v *nom.AccountBlock) { claim(D(v)) }})
				var with []int
				switch {
				case looksBatched:
					with = []int{sendRewritten}
				case consistent && (ai <= 1 || (ai == 2 && t == nom.BlockTypeUserSend)):
					// the shapes that pass every rule about type and address: a user send / receive of another account, the
					// recipient's own send, a receive of the contract itself - with every content rewrite
					for k := range payloads {
						with = append(with, k)
					}
				case consistent:
					with = []int{sendRewritten, receiveShaped}
				case (ai*len(claimedTypes)+ti+turn)%3 != 0:
					// type and address contradict each other: the bare rewrite above always, one with content every third turn
				case nom.IsReceiveBlock(t):
					with = []int{receiveShaped}
				default:
					with = []int{sendRewritten}
				}
				for _, k := range with {
					p := payloads[k]
					vs = append(vs, dvar{keyClaimed, "claimed-fields+content", base + "; " + p.name + "; every Hash field kept", i, func(v *nom.AccountBlock) {
						claim(D(v))
						p.f(D(v), v)
					}})
				}
			}
		}
		// --- one hash-covered field of the descendant, everything else kept
		single := func(name string, f func(d, p *nom.AccountBlock)) {
			vs = append(vs, dvar{keyContent, "single-field", fmt.Sprintf("descendant %d: %s, everything else and every Hash field kept", i, name), i,
				func(v *nom.AccountBlock) { f(D(v), v) }})
		}
		for _, p := range payloads {
			single(p.name, p.f)
		}
		prevMom := gd.MomentumAcknowledged
		if m, _ := nd.Ch.GetFrontierMomentumStore().GetMomentumByHeight(gd.MomentumAcknowledged.Height - 1); m != nil {
			prevMom = m.Identifier()
		}
		rh2 := rndHash()
		single("Height + 1", func(d, p *nom.AccountBlock) { d.Height++ })
		single("Height - 1", func(d, p *nom.AccountBlock) { d.Height-- })
		single("Height -> 0", func(d, p *nom.AccountBlock) { d.Height = 0 })
		single("Height -> 1", func(d, p *nom.AccountBlock) { d.Height = 1 })
		single("Height -> 1, PreviousHash -> zero", func(d, p *nom.AccountBlock) { d.Height, d.PreviousHash = 1, types.ZeroHash })
		single("Height -> 2^64-1", func(d, p *nom.AccountBlock) { d.Height = ^uint64(0) })
		single("Height -> the parent's", func(d, p *nom.AccountBlock) { d.Height = p.Height })
		single("PreviousHash -> random", func(d, p *nom.AccountBlock) { d.PreviousHash = rh2 })
		single("PreviousHash -> zero", func(d, p *nom.AccountBlock) { d.PreviousHash = types.ZeroHash })
		single("PreviousHash -> its own Hash", func(d, p *nom.AccountBlock) { d.PreviousHash = d.Hash })
		single("MomentumAcknowledged.Height - 1", func(d, p *nom.AccountBlock) { d.MomentumAcknowledged.Height-- })
		single("MomentumAcknowledged.Hash -> zero", func(d, p *nom.AccountBlock) { d.MomentumAcknowledged.Hash = types.ZeroHash })
		single("MomentumAcknowledged -> the momentum before", func(d, p *nom.AccountBlock) { d.MomentumAcknowledged = prevMom })
		single("MomentumAcknowledged -> zero", func(d, p *nom.AccountBlock) { d.MomentumAcknowledged = types.ZeroHashHeight })
		single("ToAddress -> another embedded contract", func(d, p *nom.AccountBlock) { d.ToAddress = otherEmb })
		single("ToAddress -> its own Address", func(d, p *nom.AccountBlock) { d.ToAddress = d.Address })
		single("Amount + 1", func(d, p *nom.AccountBlock) { d.Amount = new(big.Int).Add(d.Amount, big.NewInt(1)) })
		single("Amount * 1000 + 7", func(d, p *nom.AccountBlock) {
			d.Amount = new(big.Int).Add(new(big.Int).Mul(d.Amount, big.NewInt(1000)), big.NewInt(7))
		})
		single("Amount -> 2^255", func(d, p *nom.AccountBlock) { d.Amount = new(big.Int).Lsh(big.NewInt(1), 255) })
		if gd.Amount.Sign() > 0 {
			single("Amount negated (same pre-image; not expressible on the wire)", func(d, p *nom.AccountBlock) { d.Amount = new(big.Int).Neg(d.Amount) })
		}
		if len(gd.Data) > 0 {
			single("Data: first byte flipped", func(d, p *nom.AccountBlock) { d.Data = append([]byte{d.Data[0] ^ 1}, d.Data[1:]...) })
			single("Data: last byte dropped", func(d, p *nom.AccountBlock) { d.Data = append([]byte{}, d.Data[:len(d.Data)-1]...) })
		}
		single("Version -> 0", func(d, p *nom.AccountBlock) { d.Version = 0 })
		single("Version -> 2", func(d, p *nom.AccountBlock) { d.Version = 2 })
		single("ChainIdentifier -> 0", func(d, p *nom.AccountBlock) { d.ChainIdentifier = 0 })
		single("ChainIdentifier + 1", func(d, p *nom.AccountBlock) { d.ChainIdentifier++ })
		single("Difficulty -> 1", func(d, p *nom.AccountBlock) { d.Difficulty = 1 })
		single("Nonce -> 1", func(d, p *nom.AccountBlock) { d.Nonce.Data[7] = 1 })
		single("FusedPlasma -> 21000", func(d, p *nom.AccountBlock) { d.FusedPlasma = 21000 })
		single("FusedPlasma -> 2^64-1", func(d, p *nom.AccountBlock) { d.FusedPlasma = ^uint64(0) })
		// the Hash field itself (the parent's hash covers it)
		single("Hash field -> zero", func(d, p *nom.AccountBlock) { d.Hash = types.ZeroHash })
		single("ToAddress -> another user and Hash field recomputed", func(d, p *nom.AccountBlock) { d.ToAddress = other; d.Hash = d.ComputeHash() })

		// --- nested: the descendant carries descendants of its own (its hash covers their Hash fields)
		nested := func(name string, f func(d, p *nom.AccountBlock) []*nom.AccountBlock) {
			vs = append(vs, dvar{keyNested, "nested", fmt.Sprintf("descendant %d carries DescendantBlocks: %s; every Hash field kept", i, name), i,
				func(v *nom.AccountBlock) { D(v).DescendantBlocks = f(D(v), v) }})
		}
		nested("a copy of itself", func(d, p *nom.AccountBlock) []*nom.AccountBlock { return []*nom.AccountBlock{cp(d)} })
		nested("a copy of itself with ToAddress -> another user", func(d, p *nom.AccountBlock) []*nom.AccountBlock {
			x := cp(d)
			x.ToAddress = other
			return []*nom.AccountBlock{x}
		})
		nested("a copy of the parent", func(d, p *nom.AccountBlock) []*nom.AccountBlock { return []*nom.AccountBlock{cp(p)} })
		nested("a user send that was never made", func(d, p *nom.AccountBlock) []*nom.AccountBlock {
			x := &nom.AccountBlock{Version: 1, ChainIdentifier: d.ChainIdentifier, BlockType: nom.BlockTypeUserSend, Height: 2, PreviousHash: rh2,
				MomentumAcknowledged: d.MomentumAcknowledged, Address: other, ToAddress: gd.ToAddress, Amount: big.NewInt(12345), TokenStandard: types.ZnnTokenStandard, Data: []byte{}}
			x.Hash = x.ComputeHash()
			return []*nom.AccountBlock{x}
		})
		if n >= 2 {
			j := (i + 1) % n
			nested("a copy of a sibling", func(d, p *nom.AccountBlock) []*nom.AccountBlock {
				return []*nom.AccountBlock{cp(p.DescendantBlocks[j])}
			})
		}
		nested("a copy of itself, and Address -> another user, BlockType -> UserSend", func(d, p *nom.AccountBlock) []*nom.AccountBlock {
			x := cp(d)
			d.Address, d.BlockType = other, nom.BlockTypeUserSend
			return []*nom.AccountBlock{x}
		})
		nested("an empty non-nil list (control: same wire form)", func(d, p *nom.AccountBlock) []*nom.AccountBlock { return []*nom.AccountBlock{} })

		// --- list shape, per index
		list := func(name string, f func(v *nom.AccountBlock)) {
			vs = append(vs, dvar{keyList, "list-shape", name, i, f})
		}
		list(fmt.Sprintf("descendant %d dropped", i), func(v *nom.AccountBlock) {
			v.DescendantBlocks = append(append([]*nom.AccountBlock{}, v.DescendantBlocks[:i]...), v.DescendantBlocks[i+1:]...)
		})
		list(fmt.Sprintf("descendant %d twice (copy inserted behind it)", i), func(v *nom.AccountBlock) {
			x := append([]*nom.AccountBlock{}, v.DescendantBlocks[:i+1]...)
			x = append(x, cp(v.DescendantBlocks[i]))
			v.DescendantBlocks = append(x, v.DescendantBlocks[i+1:]...)
		})
		list(fmt.Sprintf("copy of descendant %d appended at the end", i), func(v *nom.AccountBlock) {
			v.DescendantBlocks = append(v.DescendantBlocks, cp(v.DescendantBlocks[i]))
		})
		list(fmt.Sprintf("extra descendant appended: descendant %d with ToAddress -> another user, Amount + 1, its Hash field kept", i), func(v *nom.AccountBlock) {
			x := cp(v.DescendantBlocks[i])
			x.ToAddress, x.Amount = other, new(big.Int).Add(x.Amount, big.NewInt(1))
			v.DescendantBlocks = append(v.DescendantBlocks, x)
		})
		list(fmt.Sprintf("extra descendant appended: a user send with the Hash field of descendant %d", i), func(v *nom.AccountBlock) {
			d := v.DescendantBlocks[i]
			x := &nom.AccountBlock{Version: 1, ChainIdentifier: d.ChainIdentifier, BlockType: nom.BlockTypeUserSend, Height: d.Height + 1, PreviousHash: d.Hash,
				MomentumAcknowledged: d.MomentumAcknowledged, Address: other, ToAddress: other, Amount: big.NewInt(777), TokenStandard: types.ZnnTokenStandard, Data: []byte{}, Hash: d.Hash}
			v.DescendantBlocks = append(v.DescendantBlocks, x)
		})
		list(fmt.Sprintf("descendant %d replaced by a copy of the parent (without descendants), Hash field of the original kept", i), func(v *nom.AccountBlock) {
			x := cp(v)
			x.DescendantBlocks = []*nom.AccountBlock{}
			x.Hash = v.DescendantBlocks[i].Hash
			v.DescendantBlocks[i] = x
		})
		list(fmt.Sprintf("descendant %d replaced by a copy of the parent (with its descendants), Hash field of the original kept", i), func(v *nom.AccountBlock) {
			x := cp(v)
			x.Hash = v.DescendantBlocks[i].Hash
			v.DescendantBlocks[i] = x
		})
		list(fmt.Sprintf("descendant %d replaced by the send block the parent receives, Hash field of the original kept", i), func(v *nom.AccountBlock) {
			sb, _ := nd.Ch.GetFrontierMomentumStore().GetAccountBlockByHash(v.FromBlockHash)
			if sb == nil {
				return
			}
			x := cp(sb)
			x.Hash = v.DescendantBlocks[i].Hash
			v.DescendantBlocks[i] = x
		})
		if n >= 2 {
			j := (i + 1) % n
			list(fmt.Sprintf("descendant %d replaced by a copy of descendant %d, Hash field of the original kept", i, j), func(v *nom.AccountBlock) {
				x := cp(v.DescendantBlocks[j])
				x.Hash = v.DescendantBlocks[i].Hash
				v.DescendantBlocks[i] = x
			})
			list(fmt.Sprintf("descendants %d and %d swapped", i, j), func(v *nom.AccountBlock) {
				v.DescendantBlocks[i], v.DescendantBlocks[j] = v.DescendantBlocks[j], v.DescendantBlocks[i]
			})
			list(fmt.Sprintf("descendants %d and %d: contents swapped, Hash fields stay in place", i, j), func(v *nom.AccountBlock) {
				a, c := v.DescendantBlocks[i], v.DescendantBlocks[j]
				a.Hash, c.Hash = c.Hash, a.Hash
				v.DescendantBlocks[i], v.DescendantBlocks[j] = c, a
			})
			list(fmt.Sprintf("descendants %d and %d: heights and previous hashes exchanged", i, j), func(v *nom.AccountBlock) {
				a, c := v.DescendantBlocks[i], v.DescendantBlocks[j]
				a.Height, c.Height = c.Height, a.Height
				a.PreviousHash, c.PreviousHash = c.PreviousHash, a.PreviousHash
			})
		}
	}
	// --- the list as a whole
	whole := func(name string, f func(v *nom.AccountBlock)) {
		vs = append(vs, dvar{keyList, "list-shape", name, -1, f})
	}
	whole("all descendants dropped (empty list)", func(v *nom.AccountBlock) { v.DescendantBlocks = []*nom.AccountBlock{} })
	whole("the whole list twice", func(v *nom.AccountBlock) {
		x := v.DescendantBlocks
		for _, d := range x {
			v.DescendantBlocks = append(v.DescendantBlocks, cp(d))
		}
	})
	if n >= 2 {
		whole("list reversed", func(v *nom.AccountBlock) {
			x := v.DescendantBlocks
			for a, c := 0, len(x)-1; a < c; a, c = a+1, c-1 {
				x[a], x[c] = x[c], x[a]
			}
		})
		whole("list rotated by one", func(v *nom.AccountBlock) { v.DescendantBlocks = append(v.DescendantBlocks[1:], v.DescendantBlocks[0]) })
	}
	return vs
}
