package main

import (
	"encoding/hex"
	"encoding/json"
	"math/big"
	"math/rand"
	"strings"
	. "zharness/hz"

	"github.com/ethereum/go-ethereum/rlp"
	"google.golang.org/protobuf/proto"

	"github.com/zenon-network/go-zenon/chain/nom"
	"github.com/zenon-network/go-zenon/common"
	"github.com/zenon-network/go-zenon/common/types"
	"github.com/zenon-network/go-zenon/rpc/api"
)

// The harness' own statement of the pre-image (fixed widths written out here, independently of
// ComputeHash). The oracle "preimage-shape" checks SHA3(this) == ComputeHash(), so the bytes given
// to the model are the bytes the implementation hashed (up to a SHA3 collision).
func be8(x uint64) []byte {
	return []byte{byte(x >> 56), byte(x >> 48), byte(x >> 40), byte(x >> 32), byte(x >> 24), byte(x >> 16), byte(x >> 8), byte(x)}
}
func pad32(x *big.Int) []byte {
	var raw []byte
	if x != nil {
		raw = new(big.Int).Abs(x).Bytes()
	}
	if len(raw) >= 32 {
		return raw
	}
	return append(make([]byte, 32-len(raw)), raw...)
}
func descHash(b *nom.AccountBlock) types.Hash {
	var src []byte
	for _, d := range b.DescendantBlocks {
		src = append(src, d.Hash[:]...)
	}
	return types.NewHash(src)
}
func abPreimage(b *nom.AccountBlock) []byte {
	dh := descHash(b)
	dd := types.NewHash(b.Data)
	var p []byte
	for _, x := range [][]byte{be8(b.Version), be8(b.ChainIdentifier), be8(b.BlockType), b.PreviousHash[:], be8(b.Height),
		b.MomentumAcknowledged.Hash[:], be8(b.MomentumAcknowledged.Height), b.Address[:], b.ToAddress[:], pad32(b.Amount),
		b.TokenStandard[:], b.FromBlockHash[:], dh[:], dd[:], be8(b.FusedPlasma), be8(b.Difficulty), b.Nonce.Data[:]} {
		p = append(p, x...)
	}
	return p
}
func contentBytes(c nom.MomentumContent) []byte {
	var p []byte
	for _, h := range c {
		p = append(p, h.Address[:]...)
		p = append(p, be8(h.Height)...)
		p = append(p, h.Hash[:]...)
	}
	return p
}
func momPreimage(m *nom.Momentum) []byte {
	dd := types.NewHash(m.Data)
	ch := types.NewHash(contentBytes(m.Content))
	var p []byte
	for _, x := range [][]byte{be8(m.Version), be8(m.ChainIdentifier), m.PreviousHash[:], be8(m.Height), be8(m.TimestampUnix),
		dd[:], ch[:], m.ChangesHash[:]} {
		p = append(p, x...)
	}
	return p
}

func deAB(data []byte) (b *nom.AccountBlock, kind string) {
	defer func() {
		if r := recover(); r != nil {
			b, kind = nil, "DPanic"
		}
	}()
	x, err := nom.DeserializeAccountBlock(data)
	if err != nil {
		return nil, "DErr"
	}
	return x, "DOk"
}
func deMom(data []byte) (m *nom.Momentum, kind string) {
	defer func() {
		if r := recover(); r != nil {
			m, kind = nil, "DPanic"
		}
	}()
	x, err := nom.DeserializeMomentum(data)
	if err != nil {
		return nil, "DErr"
	}
	return x, "DOk"
}
func deABCase(out *Out, data []byte, tag string) {
	b, kind := deAB(data)
	out.Count("ab_de:" + kind)
	if kind == "DOk" {
		out.Case("ab_de", Byt(data), Con("DOk", abTerm(b)), tag)
	} else {
		out.Case("ab_de", Byt(data), Con(kind), tag)
	}
}
func deMomCase(out *Out, data []byte, tag string) {
	m, kind := deMom(data)
	out.Count("mom_de:" + kind)
	if kind == "DOk" {
		out.Case("mom_de", Byt(data), Con("DOk", momTerm(m)), tag)
	} else {
		out.Case("mom_de", Byt(data), Con(kind), tag)
	}
}

// emitAB: every codec of one account block. wfAmount: 0 <= Amount (the pb / json forms drop or keep the
// sign differently; the statement is for amounts a verifier accepts).
func emitAB(out *Out, rng *rand.Rand, b *nom.AccountBlock, tag string, scalars bool) {
	t := abTerm(b)
	hash := b.ComputeHash()
	// pre-image
	pre := abPreimage(b)
	out.Oracle(types.NewHash(pre) == hash, "preimage-shape", M{"block": t})
	dh, dd := descHash(b), types.NewHash(b.Data)
	out.Case("ab_preimage", Tup(bodyTerm(b), Byt(dh[:]), Byt(dd[:])), Byt(pre), tag)
	// protobuf
	data, err := b.Serialize()
	if err != nil {
		out.Oracle(false, "pb-serialize-error", M{"block": t})
		return
	}
	// the model must produce these bytes, and the model's decoder must map them back to the block
	// (the implementation's decoder is checked on the same bytes by the oracle below)
	nonneg := b.Amount == nil || b.Amount.Sign() >= 0
	out.Case("ab_ser", t, Tup(Byt(data), nonneg), tag)
	b2, kind := deAB(data)
	out.Count("ab_de:" + kind)
	if nonneg {
		ok := kind == "DOk" && same(abTerm(b2), t) && b2.ComputeHash() == hash
		out.Oracle(ok, "pb-roundtrip", M{"block": t})
	}
	// rlp (p2p TxMsg / BlocksMsg carry the Go structs through rlp)
	if nonneg {
		enc, err := rlp.EncodeToBytes(b)
		ok := err == nil
		if ok {
			b2 := new(nom.AccountBlock)
			err = rlp.DecodeBytes(enc, b2)
			ok = err == nil && same(abTerm(b2), t) && b2.ComputeHash() == hash
		}
		out.Oracle(ok, "rlp-roundtrip", M{"block": t})
	}
	// json (nom form and rpc form)
	js, err := json.Marshal(b)
	ok := err == nil
	if ok {
		b2 := new(nom.AccountBlock)
		err = json.Unmarshal(js, b2)
		ok = err == nil && same(abTerm(b2), t) && b2.ComputeHash() == hash
	}
	out.Oracle(ok, "json-roundtrip", M{"block": t})
	rb := &api.AccountBlock{AccountBlock: *b}
	js2, err := json.Marshal(rb)
	ok = err == nil
	if ok {
		rb2 := new(api.AccountBlock)
		err = json.Unmarshal(js2, rb2)
		ok = err == nil && same(abTerm(&rb2.AccountBlock), t) && rb2.AccountBlock.ComputeHash() == hash
	}
	out.Oracle(ok, "rpc-json-roundtrip", M{"block": t})
	if scalars && err == nil {
		var m map[string]interface{}
		if json.Unmarshal(js, &m) == nil {
			if s, ok := m["amount"].(string); ok && b.Amount != nil {
				out.Case("print_dec", Big(b.Amount), Byt([]byte(s)), tag)
			}
			if s, ok := m["hash"].(string); ok {
				out.Case("hex_enc", Byt(b.Hash[:]), Byt([]byte(s)), tag)
			}
			if s, ok := m["nonce"].(string); ok {
				out.Case("hex_enc", Byt(b.Nonce.Data[:]), Byt([]byte(s)), tag)
			}
		}
	}
}

func emitMom(out *Out, rng *rand.Rand, m *nom.Momentum, tag string) {
	t := momTerm(m)
	hash := m.ComputeHash()
	pre := momPreimage(m)
	out.Oracle(types.NewHash(pre) == hash, "preimage-shape", M{"momentum": t})
	dd := types.NewHash(m.Data)
	cb := contentBytes(m.Content)
	out.Oracle(string(cb) == string(m.Content.Bytes()), "content-bytes-shape", M{"momentum": t})
	ch := types.NewHash(cb)
	out.Case("mom_preimage", Tup(t, Byt(dd[:]), Byt(ch[:])), Byt(pre), tag)
	out.Case("content_bytes", contentTerm(m.Content), Byt(m.Content.Bytes()), tag)
	data, err := m.Serialize()
	if err != nil {
		out.Oracle(false, "pb-serialize-error", M{"momentum": t})
		return
	}
	out.Case("mom_ser", t, Tup(Byt(data), true), tag)
	m2, kind := deMom(data)
	out.Count("mom_de:" + kind)
	out.Oracle(kind == "DOk" && same(momTerm(m2), t) && m2.ComputeHash() == hash, "pb-roundtrip", M{"momentum": t})
	enc, err := rlp.EncodeToBytes(m)
	ok := err == nil
	if ok {
		m3 := new(nom.Momentum)
		err = rlp.DecodeBytes(enc, m3)
		ok = err == nil && same(momTerm(m3), t) && m3.ComputeHash() == hash
	}
	out.Oracle(ok, "rlp-roundtrip", M{"momentum": t})
	js, err := json.Marshal(m)
	ok = err == nil
	if ok {
		m4 := new(nom.Momentum)
		err = json.Unmarshal(js, m4)
		ok = err == nil && same(momTerm(m4), t) && m4.ComputeHash() == hash
	}
	out.Oracle(ok, "json-roundtrip", M{"momentum": t})
}

// malformed / non-canonical wire forms of an account block
func mutatedAB(out *Out, rng *rand.Rand, b *nom.AccountBlock) {
	pb := b.Proto()
	switch rng.Intn(12) {
	case 0:
		pb.Hash = nil
	case 1:
		pb.PreviousHash = nil
	case 2:
		pb.MomentumAcknowledged = nil
	case 3:
		pb.MomentumAcknowledged.Hash = nil
	case 4:
		pb.Address = nil
	case 5:
		pb.ToAddress.Address = pb.ToAddress.Address[:rng.Intn(20)]
	case 6:
		pb.TokenStandard = append(pb.TokenStandard, 1)
	case 7:
		pb.Nonce = pb.Nonce[:rng.Intn(8)]
	case 8:
		pb.ChangesHash = nil
	case 9:
		pb.FromBlockHash.Hash = append(pb.FromBlockHash.Hash, 0)
	case 10:
		pb.Amount = rVar(rng)
	case 11:
		if len(pb.DescendantBlocks) > 0 {
			pb.DescendantBlocks[0].Hash = nil
		} else {
			pb.Hash.Hash = nil
		}
	}
	data, err := proto.Marshal(pb)
	if err == nil {
		deABCase(out, data, "crafted-proto")
	}
	// byte-level damage of a canonical encoding
	good, _ := b.Serialize()
	if len(good) == 0 {
		return
	}
	d := append([]byte{}, good...)
	switch rng.Intn(5) {
	case 0:
		d = d[:rng.Intn(len(d))]
	case 1:
		d[rng.Intn(len(d))] ^= byte(1 << uint(rng.Intn(8)))
	case 2: // duplicate the whole message: every scalar twice, messages merged, descendants doubled
		d = append(d, good...)
	case 3: // an unknown varint / fixed field in front
		d = append([]byte{byte(25<<3 | 0), byte(rng.Intn(128)), byte(26<<3 | 5), 1, 2, 3, 4, byte(27<<3 | 1), 1, 2, 3, 4, 5, 6, 7, 8}, d...)
	case 4: // non-minimal varint for field 1
		d = append([]byte{0x08, 0x85, 0x80, 0x00}, d...)
	}
	deABCase(out, d, "damaged-bytes")
}
func mutatedMom(out *Out, rng *rand.Rand, m *nom.Momentum) {
	pb := m.Proto()
	switch rng.Intn(6) {
	case 0:
		pb.Hash = nil
	case 1:
		pb.PreviousHash.Hash = pb.PreviousHash.Hash[:rng.Intn(32)]
	case 2:
		pb.ChangesHash = nil
	case 3:
		if len(pb.Content) > 0 {
			pb.Content[0].Address = nil
		}
	case 4:
		if len(pb.Content) > 0 {
			pb.Content[0].HashHeight = nil
		}
	case 5:
		if len(pb.Content) > 0 {
			pb.Content[0].HashHeight.Hash = nil
		}
	}
	data, err := proto.Marshal(pb)
	if err == nil {
		deMomCase(out, data, "crafted-proto")
	}
	good, _ := m.Serialize()
	if len(good) == 0 {
		return
	}
	d := append([]byte{}, good...)
	switch rng.Intn(3) {
	case 0:
		d = d[:rng.Intn(len(d))]
	case 1:
		d[rng.Intn(len(d))] ^= byte(1 << uint(rng.Intn(8)))
	case 2:
		d = append(d, good...)
	}
	deMomCase(out, d, "damaged-bytes")
}

func rDecString(rng *rand.Rand) string {
	digits := func(n int) string {
		var sb strings.Builder
		for i := 0; i < n; i++ {
			sb.WriteByte(byte('0' + rng.Intn(10)))
		}
		return sb.String()
	}
	switch rng.Intn(12) {
	case 0:
		return ""
	case 1:
		return "-"
	case 2:
		return "+" + digits(1+rng.Intn(20))
	case 3:
		return "-" + digits(1+rng.Intn(20))
	case 4:
		return "000" + digits(rng.Intn(5))
	case 5:
		return digits(1+rng.Intn(5)) + "x"
	case 6:
		return " " + digits(3)
	case 7:
		return digits(2) + "_" + digits(2)
	case 8:
		return "0x" + digits(2)
	case 9:
		return "--" + digits(2)
	case 10:
		return digits(60 + rng.Intn(30))
	default:
		return digits(1 + rng.Intn(30))
	}
}
func rHexString(rng *rand.Rand, n int) string {
	b := make([]byte, n)
	rng.Read(b)
	s := hex.EncodeToString(b)
	switch rng.Intn(6) {
	case 0:
		return strings.ToUpper(s)
	case 1:
		if len(s) > 0 {
			return s[:len(s)-1]
		}
	case 2:
		if len(s) > 0 {
			i := rng.Intn(len(s))
			return s[:i] + "g" + s[i+1:]
		}
	case 3:
		return s + "00"
	}
	return s
}

func scalarCases(out *Out, rng *rand.Rand) {
	s := rDecString(rng)
	out.Case("parse_dec", Byt([]byte(s)), Big(common.StringToBigInt(s)), "text")
	z := rAmount(rng)
	if rng.Intn(3) == 0 {
		z = new(big.Int).Neg(z)
	}
	out.Case("print_dec", Big(z), Byt([]byte(z.String())), "bigint")
	out.Oracle(common.StringToBigInt(z.String()).Cmp(z) == 0, "decimal-roundtrip", M{"z": Big(z)})
	out.Case("big32", Big(z), Byt(common.BigIntToBytes(z)), "bigint")
	hs := rHexString(rng, 32)
	if h, err := types.HexToHash(hs); err == nil {
		out.Case("parse_hash", Byt([]byte(hs)), Some(Byt(h[:])), "ok")
		out.Oracle(h.String() == strings.ToLower(hs), "hash-hex-roundtrip", M{"s": hs})
	} else {
		out.Case("parse_hash", Byt([]byte(hs)), None(), "refused")
	}
	ns := rHexString(rng, []int{8, 8, 8, 7, 9, 0}[rng.Intn(6)])
	var nn nom.Nonce
	if err := nn.UnmarshalText([]byte(ns)); err == nil {
		out.Case("parse_nonce", Byt([]byte(ns)), Some(Byt(nn.Data[:])), "ok")
	} else {
		out.Case("parse_nonce", Byt([]byte(ns)), None(), "refused")
	}
}

func sortCase(out *Out, rng *rand.Rand) {
	n := rng.Intn(8)
	blocks := make([]*nom.AccountBlock, n)
	in := make([]interface{}, n)
	seen := map[string]bool{}
	for i := range blocks {
		h := rHeader(rng)
		for seen[string(h.Bytes())] {
			h = rHeader(rng)
		}
		seen[string(h.Bytes())] = true
		blocks[i] = &nom.AccountBlock{Address: h.Address, Height: h.Height, Hash: h.Hash}
		in[i] = hdrTerm(h)
	}
	c := nom.NewMomentumContent(blocks)
	out.Case("content_sort", in, contentTerm(c), "headers")
	// the order is the bytewise order of Bytes()
	ok := true
	for i := 1; i < len(c); i++ {
		if string(c[i-1].Bytes()) > string(c[i].Bytes()) {
			ok = false
		}
	}
	out.Oracle(ok, "content-sorted", M{"in": in})
}

func runCodec(rng *rand.Rand, n int, out *Out, _ []string) {
	for i := 0; i < n; i++ {
		b := rBlock(rng, rng.Intn(3))
		emitAB(out, rng, b, "generated", i%4 == 0)
		if i%2 == 0 {
			mutatedAB(out, rng, b)
		}
		m := rMomentum(rng)
		emitMom(out, rng, m, "generated")
		if i%3 == 0 {
			mutatedMom(out, rng, m)
		}
		scalarCases(out, rng)
		if i%2 == 1 {
			sortCase(out, rng)
		}
	}
}
