package main

// Argument tuples for every embedded method: tuples that pass the method's static ValidateSendBlock (built from the
// argument names / types and the constants the checks use), their edge cases (every dynamic argument empty, all of
// them empty, one element, long), and random tuples. Whether a tuple is valid is not assumed: it is observed (the
// canonical packing is delivered first) and reported.

import (
	"encoding/base64"
	"fmt"
	"math/big"
	"math/rand"
	"reflect"
	"strings"
	. "zharness/hz"

	g "github.com/zenon-network/go-zenon/chain/genesis/mock"
	"github.com/zenon-network/go-zenon/common/types"
	"github.com/zenon-network/go-zenon/vm/abi"
	"github.com/zenon-network/go-zenon/vm/constants"
	"github.com/zenon-network/go-zenon/vm/embedded/definition"
	"github.com/zenon-network/go-zenon/vm/embedded/implementation"
	"github.com/zenon-network/go-zenon/wallet"
)

type cdef struct {
	Name string
	Addr types.Address
	ABI  abi.ABIContract
}

var cdefs = []cdef{
	{"plasma", types.PlasmaContract, definition.ABIPlasma}, {"pillar", types.PillarContract, definition.ABIPillars},
	{"token", types.TokenContract, definition.ABIToken}, {"sentinel", types.SentinelContract, definition.ABISentinel},
	{"swap", types.SwapContract, definition.ABISwap}, {"stake", types.StakeContract, definition.ABIStake},
	{"spork", types.SporkContract, definition.ABISpork}, {"liquidity", types.LiquidityContract, definition.ABILiquidity},
	{"accelerator", types.AcceleratorContract, definition.ABIAccelerator}, {"htlc", types.HtlcContract, definition.ABIHtlc},
	{"bridge", types.BridgeContract, definition.ABIBridge},
}

type tuple struct {
	args   []interface{}
	kp     *wallet.KeyPair
	zts    types.ZenonTokenStandard
	amount *big.Int
	tag    string
}

var userKeys = []*wallet.KeyPair{g.User1, g.User2, g.User3, g.User4, g.User5}

var richKeys = []*wallet.KeyPair{g.Pillar4, g.Pillar5, g.Pillar6, g.Pillar7, g.Pillar8}

const hexAddr = "0xb794f5ea0ba39494ce839613fffba74279579268"

func zx(n int64) *big.Int { return new(big.Int).Mul(big.NewInt(n), big.NewInt(g.Zexp)) }

// what the method's static check wants to be sent along
func payment(c *cdef, m string, rng *rand.Rand) (types.ZenonTokenStandard, *big.Int) {
	switch m {
	case definition.FuseMethodName:
		return types.QsrTokenStandard, zx(int64(10 + rng.Intn(20)))
	case definition.StakeMethodName:
		return types.ZnnTokenStandard, zx(int64(1 + rng.Intn(5)))
	case definition.DepositQsrMethodName:
		return types.QsrTokenStandard, zx(int64(1 + rng.Intn(50)))
	case definition.RegisterMethodName, definition.LegacyRegisterMethodName:
		if c.Addr == types.SentinelContract {
			return types.ZnnTokenStandard, new(big.Int).Set(constants.SentinelZnnRegisterAmount)
		}
		return types.ZnnTokenStandard, new(big.Int).Set(constants.PillarStakeAmount)
	case definition.IssueMethodName:
		return types.ZnnTokenStandard, new(big.Int).Set(constants.TokenIssueAmount)
	case definition.CreateProjectMethodName:
		return types.ZnnTokenStandard, new(big.Int).Set(constants.ProjectCreationAmount)
	case definition.BurnMethodName, definition.DonateMethodName, definition.CreateHtlcMethodName, definition.LiquidityStakeMethodName, definition.WrapTokenMethodName:
		return []types.ZenonTokenStandard{types.ZnnTokenStandard, types.QsrTokenStandard}[rng.Intn(2)], zx(int64(1 + rng.Intn(3)))
	}
	return types.ZnnTokenStandard, big.NewInt(0)
}

func b64(rng *rand.Rand, n int) string {
	b := make([]byte, n)
	rng.Read(b)
	return base64.StdEncoding.EncodeToString(b)
}

// a value the static checks of the methods accept, chosen by the argument's name
func goodValue(rng *rand.Rand, t abi.Type, name, method string, now int64) interface{} {
	la := strings.ToLower(name)
	has := func(s string) bool { return strings.Contains(la, s) }
	switch t.T {
	case abi.StringTy:
		switch {
		case has("symbol"):
			return fmt.Sprintf("TK%d", rng.Intn(1000))
		case has("domain"):
			return "zenon.network"
		case has("url"):
			return "https://zenon.network/p" + fmt.Sprint(rng.Intn(100))
		case has("pubkey") && method == definition.ChangeTssECDSAPubKeyMethodName:
			return b64(rng, constants.CompressedECDSAPubKeyLength)
		case has("pubkey") || has("publickey"):
			return g.Secp1PubKeyB64
		case has("signature"):
			return b64(rng, 65)
		case has("metadata"):
			return []string{"{}", `{"a":1}`, `{"k":"` + strings.Repeat("v", 1+rng.Intn(60)) + `"}`}[rng.Intn(3)]
		case has("address"): // foreign-chain addresses are strings
			return hexAddr
		case has("name"):
			return fmt.Sprintf("name-%d", 10+rng.Intn(90))
		}
		return "some description " + fmt.Sprint(rng.Intn(100))
	case abi.BytesTy:
		n := []int{0, 1, 31, 32, 33, 40, 64}[rng.Intn(7)]
		if has("hashlock") {
			n = 32
		}
		b := make([]byte, n)
		rng.Read(b)
		return b
	case abi.BoolTy:
		return rng.Intn(2) == 0
	case abi.AddressTy:
		return userKeys[rng.Intn(len(userKeys))].Address
	case abi.HashTy:
		var h types.Hash
		rng.Read(h[:])
		return h
	case abi.TokenStandardTy:
		var z types.ZenonTokenStandard
		rng.Read(z[:])
		z[0] |= 1
		return z
	case abi.UintTy, abi.IntTy:
		var x int64
		switch {
		case has("vote"):
			x = int64(rng.Intn(3))
		case has("hashtype"):
			x = int64(rng.Intn(2))
		case has("percentage") && t.Size == 8:
			x = int64(rng.Intn(101))
		case has("percentage"):
			x = int64(rng.Intn(int(constants.MaximumFee) + 1))
		case has("decimals"):
			x = int64(rng.Intn(19))
		case has("duration"):
			x = constants.StakeTimeMinSec * int64(1+rng.Intn(12))
		case has("expiration") || has("time") && t.T == abi.IntTy:
			x = now + 1000 + int64(rng.Intn(1000))
		case has("funds"):
			x = int64(rng.Intn(5000)) * g.Zexp
		default:
			x = int64(1 + rng.Intn(200))
		}
		return intOfKind(t, x)
	case abi.SliceTy:
		n := 1 + rng.Intn(3)
		if t.Elem.T == abi.AddressTy { // guardians
			n = constants.MinGuardians + rng.Intn(2)
		}
		s := reflect.MakeSlice(t.Type, n, n)
		for i := 0; i < n; i++ {
			var v interface{}
			if t.Elem.T == abi.AddressTy {
				v = g.AllKeyPairs[(i+rng.Intn(3)*7)%len(g.AllKeyPairs)].Address
			} else {
				v = goodValue(rng, *t.Elem, name, method, now)
			}
			s.Index(i).Set(reflect.ValueOf(v))
		}
		return s.Interface()
	}
	panic("goodValue: unsupported type " + t.String())
}

func intOfKind(t abi.Type, x int64) interface{} {
	switch t.Kind {
	case reflect.Uint8:
		return uint8(x)
	case reflect.Uint16:
		return uint16(x)
	case reflect.Uint32:
		return uint32(x)
	case reflect.Uint64:
		return uint64(x)
	case reflect.Int8:
		return int8(x)
	case reflect.Int16:
		return int16(x)
	case reflect.Int32:
		return int32(x)
	case reflect.Int64:
		return x
	}
	return big.NewInt(x)
}

// goodTuple: arguments + sender + payment that the static check of the method accepts
func goodTuple(rng *rand.Rand, c *cdef, m abi.Method, now int64) tuple {
	kp := userKeys[rng.Intn(len(userKeys))]
	if c.Addr == types.SporkContract || m.Name == definition.FundMethodName || m.Name == definition.BurnZnnMethodName {
		kp = g.Spork
	}
	zts, amount := payment(c, m.Name, rng)
	if amount.Cmp(zx(100)) > 0 {
		// the registration amounts: only these genesis accounts own that much (and are plasma beneficiaries)
		kp = richKeys[rng.Intn(len(richKeys))]
	}
	args := make([]interface{}, len(m.Inputs))
	for i, a := range m.Inputs {
		args[i] = goodValue(rng, a.Type, a.Name, m.Name, now)
	}
	switch {
	case c.Addr == types.TokenContract && m.Name == definition.IssueMethodName:
		tot := big.NewInt(int64(rng.Intn(1000)) * g.Zexp)
		mintable := rng.Intn(2) == 0
		mx := new(big.Int).Set(tot)
		if mintable {
			mx.Add(mx, big.NewInt(int64(rng.Intn(3))*g.Zexp))
		}
		if mx.Sign() == 0 {
			tot, mx = big.NewInt(1), big.NewInt(1)
		}
		args[3], args[4], args[6] = tot, mx, mintable
	case c.Addr == types.LiquidityContract && m.Name == definition.SetTokenTupleMethodName:
		n := 1 + rng.Intn(3)
		zs, zp, qp, ma := make([]string, n), make([]uint32, n), make([]uint32, n), make([]*big.Int, n)
		leftZ, leftQ := constants.LiquidityZnnTotalPercentages, constants.LiquidityQsrTotalPercentages
		for i := 0; i < n; i++ {
			var z types.ZenonTokenStandard
			rng.Read(z[:])
			z[0] |= 1
			zs[i] = z.String()
			zp[i], qp[i] = leftZ, leftQ
			if i < n-1 {
				zp[i], qp[i] = uint32(rng.Intn(int(leftZ)+1)), uint32(rng.Intn(int(leftQ)+1))
			}
			leftZ, leftQ = leftZ-zp[i], leftQ-qp[i]
			ma[i] = big.NewInt(int64(rng.Intn(1000)))
		}
		args = []interface{}{zs, zp, qp, ma}
	case c.Addr == types.PillarContract && m.Name == definition.LegacyRegisterMethodName:
		if sig, err := implementation.SignLegacyPillarMessage(kp.Address, g.Secp1PrvKey, g.Secp1PubKeyB64); err == nil {
			args[5], args[6] = g.Secp1PubKeyB64, sig
		}
	case c.Addr == types.SwapContract && m.Name == definition.RetrieveAssetsMethodName:
		prv, pub := g.Secp1PrvKey, g.Secp1PubKeyB64
		if rng.Intn(2) == 0 {
			prv, pub = g.Secp2PrvKey, g.Secp2PubKeyB64
		}
		if sig, err := implementation.SignRetrieveAssetsMessage(kp.Address, prv, pub); err == nil {
			args = []interface{}{pub, sig}
		}
	}
	return tuple{args: args, kp: kp, zts: zts, amount: amount, tag: "good"}
}

func cloneArgs(a []interface{}) []interface{} { return append([]interface{}{}, a...) }

// sized: the dynamic value of type t with n elements / bytes, built from the elements of v (repeated) or fresh ones
func sized(rng *rand.Rand, t abi.Type, v interface{}, n int, name, method string, now int64) interface{} {
	switch t.T {
	case abi.StringTy:
		s := v.(string)
		for len(s) < n {
			s += "x" + s
		}
		return s[:n]
	case abi.BytesTy:
		b := make([]byte, n)
		rng.Read(b)
		return b
	case abi.SliceTy:
		old := reflect.ValueOf(v)
		s := reflect.MakeSlice(t.Type, n, n)
		for i := 0; i < n; i++ {
			if i < old.Len() {
				s.Index(i).Set(old.Index(i))
			} else {
				s.Index(i).Set(reflect.ValueOf(goodValue(rng, *t.Elem, name, method, now)))
			}
		}
		return s.Interface()
	}
	return v
}

// edge cases of a tuple: each dynamic argument (and all of them together) empty, with one element, long
func edgeTuples(rng *rand.Rand, m abi.Method, base tuple, now int64) []tuple {
	var dyn []int
	for i, a := range m.Inputs {
		if isDyn(a.Type) {
			dyn = append(dyn, i)
		}
	}
	if len(dyn) == 0 {
		return nil
	}
	var res []tuple
	mk := func(tag string, idx []int, n func(abi.Type) int) {
		t := base
		t.args = cloneArgs(base.args)
		t.tag = tag
		for _, i := range idx {
			a := m.Inputs[i]
			t.args[i] = sized(rng, a.Type, base.args[i], n(a.Type), a.Name, m.Name, now)
		}
		res = append(res, t)
	}
	long := func(t abi.Type) int {
		if t.T == abi.SliceTy {
			return 8 + rng.Intn(8)
		}
		return []int{31, 32, 33, 40, 128, 240, 400, 1000}[rng.Intn(8)]
	}
	mk("all-empty", dyn, func(abi.Type) int { return 0 })
	mk("all-single", dyn, func(abi.Type) int { return 1 })
	mk("all-long", dyn, long)
	if len(dyn) > 1 {
		for _, i := range dyn {
			mk("one-empty", []int{i}, func(abi.Type) int { return 0 })
		}
		i := dyn[rng.Intn(len(dyn))]
		mk("one-single", []int{i}, func(abi.Type) int { return 1 })
		i = dyn[rng.Intn(len(dyn))]
		mk("one-long", []int{i}, long)
	}
	// a list whose elements are themselves empty
	for _, i := range dyn {
		a := m.Inputs[i]
		if a.Type.T == abi.SliceTy && isDyn(*a.Type.Elem) {
			t := base
			t.args = cloneArgs(base.args)
			t.tag = "empty-elements"
			k := 1 + rng.Intn(3)
			s := reflect.MakeSlice(a.Type.Type, k, k)
			t.args[i] = s.Interface()
			res = append(res, t)
		}
	}
	return res
}

var bytesLens = []int{0, 1, 31, 32, 33, 40}

func hasBytes(t abi.Type) bool {
	return t.T == abi.BytesTy || t.T == abi.SliceTy && hasBytes(*t.Elem)
}

// bytesOfLen: the value of type t (bytes, bytes[], ...) whose byte strings have n bytes
func bytesOfLen(rng *rand.Rand, t abi.Type, n int) interface{} {
	if t.T == abi.BytesTy {
		b := make([]byte, n)
		rng.Read(b)
		if n > 0 {
			b[n-1] |= 1 // content ends with a non-zero byte: content and padding cannot be confused
		}
		return b
	}
	k := 1 + rng.Intn(2)
	s := reflect.MakeSlice(t.Type, k, k)
	for i := 0; i < k; i++ {
		s.Index(i).Set(reflect.ValueOf(bytesOfLen(rng, *t.Elem, n)))
	}
	return s.Interface()
}

// one tuple per length: the base tuple with every bytes-carrying argument at that length
func bytesLenTuples(rng *rand.Rand, m abi.Method, base tuple) []tuple {
	var idx []int
	for i, a := range m.Inputs {
		if hasBytes(a.Type) {
			idx = append(idx, i)
		}
	}
	if len(idx) == 0 {
		return nil
	}
	var res []tuple
	for _, n := range bytesLens {
		t := base
		t.args = cloneArgs(base.args)
		t.tag = fmt.Sprintf("bytes-len-%d", n)
		for _, i := range idx {
			t.args[i] = bytesOfLen(rng, m.Inputs[i].Type, n)
		}
		res = append(res, t)
	}
	return res
}

// any values at all (mostly refused by the static checks; a method that accepts them must still store them canonically)
func randomTuple(rng *rand.Rand, c *cdef, m abi.Method, now int64) tuple {
	t := goodTuple(rng, c, m, now)
	t.tag = "random"
	for i, a := range m.Inputs {
		if rng.Intn(2) == 0 {
			t.args[i] = anyValue(rng, a.Type)
		}
	}
	if rng.Intn(4) == 0 {
		t.amount = []*big.Int{big.NewInt(0), big.NewInt(1), zx(1)}[rng.Intn(3)]
	}
	return t
}

func anyValue(rng *rand.Rand, t abi.Type) interface{} {
	switch t.T {
	case abi.StringTy:
		return []string{"", "a", strings.Repeat("x", 31+rng.Intn(3)), "\x00\xffé世", strings.Repeat("Zz", 20+rng.Intn(100))}[rng.Intn(5)]
	case abi.BytesTy:
		b := make([]byte, []int{0, 1, 32, 33, 255}[rng.Intn(5)])
		rng.Read(b)
		return b
	case abi.BoolTy:
		return rng.Intn(2) == 0
	case abi.AddressTy:
		var a types.Address
		if rng.Intn(4) != 0 {
			rng.Read(a[:])
		}
		return a
	case abi.HashTy:
		var h types.Hash
		if rng.Intn(4) != 0 {
			rng.Read(h[:])
		}
		return h
	case abi.TokenStandardTy:
		var z types.ZenonTokenStandard
		switch rng.Intn(4) {
		case 0:
			z = types.ZnnTokenStandard
		case 1:
			z = types.QsrTokenStandard
		case 2:
			rng.Read(z[:])
		}
		return z
	case abi.UintTy, abi.IntTy:
		switch t.Kind {
		case reflect.Ptr:
			b := make([]byte, rng.Intn(33))
			rng.Read(b)
			return new(big.Int).SetBytes(b)
		}
		return intOfKind(t, int64(BoundaryU64(rng)))
	case abi.SliceTy:
		n := rng.Intn(4)
		s := reflect.MakeSlice(t.Type, n, n)
		for i := 0; i < n; i++ {
			s.Index(i).Set(reflect.ValueOf(anyValue(rng, *t.Elem)))
		}
		return s.Interface()
	}
	panic("anyValue: unsupported type " + t.String())
}
