package main

import (
	"bytes"
	"crypto/ed25519"
	"math/big"
	"math/rand"
	. "zharness/hz"

	g "github.com/zenon-network/go-zenon/chain/genesis/mock"
	"github.com/zenon-network/go-zenon/chain/nom"
	"github.com/zenon-network/go-zenon/common/db"
	"github.com/zenon-network/go-zenon/common/types"
	"github.com/zenon-network/go-zenon/protocol"
	"github.com/zenon-network/go-zenon/verifier"
	"github.com/zenon-network/go-zenon/vm"
	"github.com/zenon-network/go-zenon/vm/constants"
	"github.com/zenon-network/go-zenon/vm/embedded/definition"
	"github.com/zenon-network/go-zenon/vm/vm_context"
	"github.com/zenon-network/go-zenon/wallet"
)

func cp(b *nom.AccountBlock) *nom.AccountBlock {
	d, err := b.Serialize()
	if err != nil {
		panic(err)
	}
	x, err := nom.DeserializeAccountBlock(d)
	if err != nil {
		panic(err)
	}
	return x
}
func ser(b *nom.AccountBlock) []byte {
	d, err := b.Serialize()
	if err != nil {
		panic(err)
	}
	return d
}

type hist struct {
	nd  *Node
	br  protocol.ChainBridge
	out *Out
	rng *rand.Rand
	rl  *relay // relay.go: a second node that follows the producer and is handed relayed contract receives
}

// variant: deliver v (a copy of the accepted block orig.Block with some field altered) through the path
// a peer-delivered block takes (Supervisor.ApplyBlock). ok = refused, or stored bytes and patch identical.
func (h *hist) variant(key, what string, orig *nom.AccountBlockTransaction, v *nom.AccountBlock) bool {
	delivered := cp(v)
	if !types.IsEmbeddedAddress(v.Address) && len(v.DescendantBlocks) == 0 && v.DescendantBlocks != nil {
		delivered.DescendantBlocks = []*nom.AccountBlock{}
	}
	obs := h.observe(delivered)
	tx, err := h.nd.Apply(v)
	if !types.IsEmbeddedAddress(v.Address) {
		h.acceptCase(delivered, obs, tx, err, key)
	}
	if err != nil {
		h.out.Count("variant:" + key + ":refused")
		h.out.Oracle(true, key, nil)
		return true
	}
	sameBytes := bytes.Equal(ser(tx.Block), ser(orig.Block))
	samePatch := db.PatchHash(tx.Changes) == db.PatchHash(orig.Changes)
	ok := sameBytes && samePatch
	if ok {
		h.out.Count("variant:" + key + ":stored-identically")
	} else {
		h.out.Count("variant:" + key + ":ACCEPTED-DIFFERENT")
	}
	h.out.Oracle(ok, key, M{"what": what, "address": v.Address.String(), "height": U64(v.Height), "hash": v.Hash.String(),
		"same_hash": tx.Block.Hash == orig.Block.Hash, "same_stored_bytes": sameBytes, "same_patch": samePatch})
	return ok
}

// formVariant: a variant that nobody needs a key for. Like variant (ApplyBlock), without a model case for most of
// them (the acceptance model is compared on a sample), and, when the bytes differ from the original, once more
// through the gossip entry of the node: it must not reach the pool.
func (h *hist) formVariant(key, what string, orig *nom.AccountBlockTransaction, v *nom.AccountBlock) {
	differs := !bytes.Equal(ser(v), ser(orig.Block))
	gossip := cp(v)
	if h.rng.Intn(6) == 0 {
		h.variant(key, what, orig, v)
	} else {
		tx, err := h.nd.Apply(v)
		if err != nil {
			h.out.Count("variant:" + key + ":refused")
			h.out.Oracle(true, key, nil)
		} else {
			sameBytes := bytes.Equal(ser(tx.Block), ser(orig.Block))
			samePatch := db.PatchHash(tx.Changes) == db.PatchHash(orig.Changes)
			if sameBytes && samePatch {
				h.out.Count("variant:" + key + ":stored-identically")
			} else {
				h.out.Count("variant:" + key + ":ACCEPTED-DIFFERENT")
			}
			h.out.Oracle(sameBytes && samePatch, key, M{"what": what, "path": "Supervisor.ApplyBlock", "address": v.Address.String(), "height": U64(v.Height),
				"hash": v.Hash.String(), "same_hash": tx.Block.Hash == orig.Block.Hash, "same_stored_bytes": sameBytes, "same_patch": samePatch,
				"original": Byt(ser(orig.Block)), "variant": Byt(ser(gossip)), "stored": Byt(ser(tx.Block))})
		}
	}
	if !differs {
		return
	}
	if h.nd.Ch.GetPatch(gossip.Address, gossip.Identifier()) != nil {
		// an earlier variant got into the pool (reported there): the bridge skips every further one
		h.out.Count("variant:" + key + ":gossip:skipped-identifier-already-pooled")
		return
	}
	err := h.br.AddAccountBlocks([]*nom.AccountBlock{gossip})
	pooled := h.nd.Ch.GetPatch(gossip.Address, gossip.Identifier()) != nil
	h.out.Count("variant:" + key + ":gossip:" + map[bool]string{true: "POOLED", false: "refused"}[pooled])
	h.out.Oracle(err != nil && !pooled, key+"-pooled", M{"what": what, "path": "ChainBridge.AddAccountBlocks", "address": v.Address.String(),
		"height": U64(v.Height), "hash": v.Hash.String(), "original": Byt(ser(orig.Block)), "variant": Byt(ser(gossip))})
}

// what the external functions say about a delivered user block (inputs of the acceptance model)
type obsT struct {
	hashOk, sigOk, addrOk bool
	total, base           uint64
	baseErr               bool
}

func (h *hist) observe(b *nom.AccountBlock) obsT {
	var o obsT
	o.hashOk = !b.Hash.IsZero() && b.ComputeHash() == b.Hash
	o.sigOk = len(b.PublicKey) == ed25519.PublicKeySize && ed25519.Verify(b.PublicKey, b.Hash.Bytes(), b.Signature)
	o.addrOk = types.PubKeyToAddress(b.PublicKey) == b.Address
	nd := h.nd
	ms := nd.Ch.GetMomentumStore(b.MomentumAcknowledged)
	as := nd.Ch.GetAccountStore(b.Address, b.Previous())
	if ms == nil || as == nil {
		o.baseErr = true
		return o
	}
	ctx := vm_context.NewAccountContext(ms, as, nd.Cs.FixedPillarReader(b.MomentumAcknowledged))
	base, err := vm.GetBasePlasmaForAccountBlock(ctx, b)
	if err != nil {
		o.baseErr = true
	}
	o.base = base
	o.total = vm.DifficultyToPlasma(b.Difficulty) + b.FusedPlasma
	return o
}

// acceptCase: the delivered user block, the observed verdicts, and what the node would store.
func (h *hist) acceptCase(delivered *nom.AccountBlock, o obsT, tx *nom.AccountBlockTransaction, err error, key string) {
	in := func(rest bool) M {
		return Tup(abTerm(delivered), o.hashOk, o.sigOk, o.addrOk, rest, Some(Tup(U64(o.total), U64(o.base))))
	}
	if o.baseErr {
		return
	}
	if err == nil {
		h.out.Case("accept_user", in(true), Some(abTerm(tx.Block)), "accepted:"+key)
		return
	}
	switch err {
	case verifier.ErrABHashInvalid, verifier.ErrABHashMissing, verifier.ErrABSignatureInvalid, verifier.ErrABSignatureMissing,
		verifier.ErrABPublicKeyMissing, verifier.ErrABPublicKeyWrongAddress, verifier.ErrABDescendantMustBeZero:
		// refused by one of the modelled checks: the model must refuse with the other checks passing
		h.out.Case("accept_user", in(true), None(), "refused:"+key)
	default:
		h.out.Case("accept_user", in(false), None(), "trivial")
	}
}

var edL, _ = new(big.Int).SetString("7237005577332262213973186563042994240857116359379907606001950938285454250989", 10)

func leToBig(b []byte) *big.Int {
	r := make([]byte, len(b))
	for i := range b {
		r[len(b)-1-i] = b[i]
	}
	return new(big.Int).SetBytes(r)
}
func bigToLe32(x *big.Int) []byte {
	be := x.Bytes()
	r := make([]byte, 32)
	for i := range be {
		if i < 32 {
			r[i] = be[len(be)-1-i]
		}
	}
	return r
}

func (h *hist) userVariants(orig *nom.AccountBlockTransaction) {
	b := orig.Block
	rng := h.rng
	// F10: the changes hash of a user block is outside the hash and not checked
	v := cp(b)
	rng.Read(v.ChangesHash[:])
	h.variant("user-block-changeshash-variant", "ChangesHash replaced", orig, v)
	// plasma fields in the wire form: recomputed by the receiver
	v = cp(b)
	v.BasePlasma, v.TotalPlasma = BoundaryU64(rng), BoundaryU64(rng)
	h.variant("user-block-plasma-fields-variant", "BasePlasma/TotalPlasma replaced", orig, v)
	// public key
	v = cp(b)
	switch rng.Intn(3) {
	case 0:
		v.PublicKey = append(append([]byte{}, v.PublicKey...), byte(rng.Intn(256)))
	case 1:
		v.PublicKey = v.PublicKey[:31]
	case 2:
		v.PublicKey = append([]byte{}, g.User4.Public...)
	}
	h.variant("user-block-publickey-variant", "PublicKey altered", orig, v)
	// signature: trailing byte, high bit, S + L (the classical malleability), re-signed by another key
	v = cp(b)
	switch rng.Intn(4) {
	case 0:
		v.Signature = append(append([]byte{}, v.Signature...), 0)
	case 1:
		v.Signature[63] |= 0x80
	case 2:
		s := new(big.Int).Add(leToBig(v.Signature[32:]), edL)
		copy(v.Signature[32:], bigToLe32(s))
	case 3:
		v.Signature = g.User4.Sign(v.Hash.Bytes())
	}
	h.variant("user-block-signature-variant", "Signature altered", orig, v)
	// EVERY other byte form of the two fields the hash does not cover and a third party can rewrite without the key
	// (forms.go): none of them may be accepted next to the original. Through Supervisor.ApplyBlock, and through the
	// gossip entry (ChainBridge.AddAccountBlocks = ApplyBlock + AddAccountBlockTransaction into the pool).
	for _, f := range signatureForms(rng, b.Signature, b.Hash.Bytes(), b.PublicKey) {
		v = cp(b)
		v.Signature = f.bytes
		h.formVariant("user-block-signature-form-variant", "Signature: "+f.name, orig, v)
	}
	for _, f := range publicKeyForms(rng, b.PublicKey, b.Hash.Bytes(), b.Signature) {
		v = cp(b)
		v.PublicKey = f.bytes
		h.formVariant("user-block-publickey-form-variant", "PublicKey: "+f.name, orig, v)
	}
	// both at once: the combined forms some libraries hand out (key ‖ signature, signature ‖ key)
	v = cp(b)
	v.Signature = append(append([]byte{}, b.Signature...), b.PublicKey...)
	v.PublicKey = append(append([]byte{}, b.PublicKey...), b.Signature...)
	h.formVariant("user-block-signature-form-variant", "Signature ‖ PublicKey and PublicKey ‖ Signature", orig, v)
	// the wire bytes written another way (protobuf allows it): unknown field, a field twice, non-minimal varints
	for _, f := range reserialisations(rng, ser(b)) {
		x, err := nom.DeserializeAccountBlock(f.bytes)
		if err != nil || x == nil {
			h.out.Count("variant:user-block-reserialised-variant:not-decodable")
			continue
		}
		h.formVariant("user-block-reserialised-variant", "wire bytes: "+f.name, orig, x)
	}
	// same pre-image, other amount: BigIntToBytes drops the sign
	if b.Amount.Sign() > 0 {
		v = cp(b)
		v.Amount = new(big.Int).Neg(v.Amount)
		h.variant("user-block-amount-sign-variant", "Amount negated (same pre-image)", orig, v)
	}
	// Hash field altered / zeroed
	v = cp(b)
	if rng.Intn(2) == 0 {
		v.Hash = types.ZeroHash
	} else {
		v.Hash[rng.Intn(32)] ^= 1
	}
	h.variant("user-block-hash-field-variant", "Hash field altered", orig, v)
	v = cp(b)
	v.DescendantBlocks = []*nom.AccountBlock{cp(b)}
	h.variant("user-block-with-descendant", "descendant attached to a user block", orig, v)
	// descendants on a user block
	v = cp(b)
	v.DescendantBlocks = []*nom.AccountBlock{}
	h.variant("user-block-empty-descendants", "empty non-nil descendant list", orig, v)
}

func (h *hist) contractVariants(orig *nom.AccountBlockTransaction) {
	b := orig.Block
	rng := h.rng
	v := cp(b)
	rng.Read(v.ChangesHash[:])
	h.variant("contract-receive-changeshash-variant", "ChangesHash replaced", orig, v)
	v = cp(b)
	v.PublicKey = append([]byte{}, g.User1.Public...)
	v.Signature = g.User1.Sign(v.Hash.Bytes())
	h.variant("contract-receive-key-variant", "PublicKey/Signature set", orig, v)
	v = cp(b)
	v.BasePlasma, v.TotalPlasma = 1+uint64(rng.Intn(100000)), 1+uint64(rng.Intn(100000))
	h.variant("contract-block-uncovered-fields-variant", "BasePlasma/TotalPlasma of a contract receive", orig, v)
	if len(b.DescendantBlocks) == 0 {
		return
	}
	i := rng.Intn(len(b.DescendantBlocks))
	// content of a descendant with its Hash field kept (the parent's hash covers only that field)
	v = cp(b)
	d := v.DescendantBlocks[i]
	what := ""
	switch rng.Intn(5) {
	case 0:
		d.Amount = new(big.Int).Add(d.Amount, big.NewInt(int64(1+rng.Intn(1000000))))
		what = "descendant Amount"
	case 1:
		d.ToAddress = g.User5.Address
		what = "descendant ToAddress"
	case 2:
		d.TokenStandard = types.ZnnTokenStandard
		if b.DescendantBlocks[i].TokenStandard == types.ZnnTokenStandard {
			d.TokenStandard = types.QsrTokenStandard
		}
		what = "descendant TokenStandard"
	case 3:
		d.Data = append(append([]byte{}, d.Data...), 1)
		what = "descendant Data"
	case 4:
		d.FusedPlasma = 5
		what = "descendant FusedPlasma"
	}
	h.variant("contract-receive-descendant-content-variant", what+" altered, Hash field kept", orig, v)
	// uncovered fields of a descendant
	v = cp(b)
	d = v.DescendantBlocks[i]
	switch rng.Intn(4) {
	case 0:
		rng.Read(d.ChangesHash[:])
		what = "descendant ChangesHash"
	case 1:
		d.PublicKey = []byte{1, 2, 3}
		what = "descendant PublicKey"
	case 2:
		d.Signature = []byte{4}
		what = "descendant Signature"
	case 3:
		d.BasePlasma, d.TotalPlasma = 3, 4
		what = "descendant plasma fields"
	}
	h.variant("contract-block-uncovered-fields-variant", what, orig, v)
	// list shape
	v = cp(b)
	v.DescendantBlocks = v.DescendantBlocks[:len(v.DescendantBlocks)-1]
	h.variant("contract-receive-descendant-list-variant", "last descendant dropped", orig, v)
	v = cp(b)
	v.DescendantBlocks = append(v.DescendantBlocks, cp(v.DescendantBlocks[0]))
	h.variant("contract-receive-descendant-list-variant", "descendant duplicated", orig, v)
}

// non-canonical ABI forms of a contract call: refused, or stored in the canonical form
func (h *hist) abiVariants(kp *wallet.KeyPair, tmpl *nom.AccountBlock, kind int) {
	canonical := append([]byte{}, tmpl.Data...)
	t := *tmpl
	t.Data = append([]byte{}, canonical...)
	what := ""
	switch kind {
	case 0:
		t.Data = append(t.Data, make([]byte, 32)...)
		what = "32 trailing zero bytes"
	case 1:
		t.Data = append(t.Data, 1)
		what = "one trailing byte"
	case 2:
		if len(t.Data) >= 4+32 {
			t.Data[4] = 1
			what = "dirty padding of the first argument"
		} else {
			t.Data = append(t.Data, make([]byte, 64)...)
			what = "64 trailing zero bytes"
		}
	}
	tx, err := h.nd.Sv.GenerateFromTemplate(&t, kp.Signer)
	if err != nil {
		h.out.Count("abi-noncanonical:refused")
		h.out.Oracle(true, "abi-noncanonical-data-stored", nil)
		return
	}
	ok := bytes.Equal(tx.Block.Data, canonical)
	h.out.Count("abi-noncanonical:accepted")
	h.out.Oracle(ok, "abi-noncanonical-data-stored", M{"what": what, "to": t.ToAddress.String()})
}

func (h *hist) send(kp *wallet.KeyPair, tmpl *nom.AccountBlock) *nom.AccountBlockTransaction {
	tmpl.BlockType = nom.BlockTypeUserSend
	tmpl.Address = kp.Address
	tx, err := h.nd.Sv.GenerateFromTemplate(tmpl, kp.Signer)
	if err != nil {
		h.out.Count("send:refused")
		return nil
	}
	h.out.Count("send:ok")
	return tx
}

// F10, second observable: a node that holds a variant refuses the producer's momentum.
func (h *hist) variantHolder(tx *nom.AccountBlockTransaction) {
	nd := h.nd
	if err := nd.Insert(tx); err != nil {
		return
	}
	nd.Momentum()
	st := nd.Ch.GetFrontierMomentumStore()
	mk, _ := st.GetFrontierMomentum()
	found := false
	for _, hd := range mk.Content {
		if hd.Hash == tx.Block.Hash {
			found = true
		}
	}
	if !found {
		return
	}
	dm := h.br.GetBlock(mk.Hash)
	prev, _ := st.GetMomentumByHeight(mk.Height - 1)
	rollback := func() {
		ins := nd.Ch.AcquireInsert("c13")
		err := nd.Ch.RollbackTo(ins, prev.Identifier())
		ins.Unlock()
		if err != nil {
			panic(err)
		}
	}
	// control: the node gets the producer's own blocks and momentum
	rollback()
	_, err := h.br.InsertChain([]*nom.DetailedMomentum{dm})
	h.out.Oracle(err == nil && nd.FrontierHeight() == mk.Height, "redelivery-accepted", M{"height": U64(mk.Height)})
	// momentum variants: key / signature are outside the momentum hash
	rollback()
	mforms := signatureForms(h.rng, dm.Momentum.Signature, dm.Momentum.Hash.Bytes(), dm.Momentum.PublicKey)
	for k := 0; k < 3+len(mforms); k++ {
		m2, _ := nom.DeserializeMomentum(func() []byte { d, _ := dm.Momentum.Serialize(); return d }())
		what := ""
		if k >= 3 {
			m2.Signature = mforms[k-3].bytes
			_, err := h.br.InsertChain([]*nom.DetailedMomentum{{Momentum: m2, AccountBlocks: dm.AccountBlocks}})
			h.out.Oracle(err != nil && nd.FrontierHeight() == prev.Height, "momentum-signature-form-variant",
				M{"what": "Signature: " + mforms[k-3].name, "height": U64(mk.Height), "hash": mk.Hash.String(), "signature": Byt(m2.Signature)})
			if err == nil {
				rollback()
			}
			continue
		}
		switch k {
		case 0:
			m2.Signature = append(m2.Signature, 0)
			what = "signature with a trailing byte"
		case 1:
			s := new(big.Int).Add(leToBig(m2.Signature[32:]), edL)
			copy(m2.Signature[32:], bigToLe32(s))
			what = "signature S+L"
		case 2:
			m2.PublicKey = append([]byte{}, g.Pillar1.Public...)
			if bytes.Equal(dm.Momentum.PublicKey, m2.PublicKey) {
				m2.PublicKey = append([]byte{}, g.Pillar2.Public...)
			}
			what = "other public key"
		}
		_, err := h.br.InsertChain([]*nom.DetailedMomentum{{Momentum: m2, AccountBlocks: dm.AccountBlocks}})
		h.out.Oracle(err != nil && nd.FrontierHeight() == prev.Height, "momentum-key-signature-variant", M{"what": what})
		if err == nil {
			rollback()
		}
	}
	// a relay hands this node a variant of the user block first (the pool is emptied by a rollback of M_k)
	if _, err := h.br.InsertChain([]*nom.DetailedMomentum{dm}); err != nil || nd.FrontierHeight() != mk.Height {
		h.out.Oracle(false, "redelivery-accepted", M{"height": U64(mk.Height), "second": true})
		return
	}
	rollback()
	v := cp(tx.Block)
	h.rng.Read(v.ChangesHash[:])
	if err := h.br.AddAccountBlocks([]*nom.AccountBlock{v}); err != nil {
		h.out.Count("variant-holder:variant-refused")
		_, _ = h.br.InsertChain([]*nom.DetailedMomentum{dm})
		return
	}
	_, err = h.br.InsertChain([]*nom.DetailedMomentum{dm})
	h.out.Count("variant-holder:ran")
	h.out.Oracle(err == nil, "variant-holder-rejects-producer-momentum",
		M{"momentum_height": U64(mk.Height), "block": tx.Block.Hash.String(), "what": "node pooled a ChangesHash variant of a user block, then refused the producer's momentum"})
	if err != nil {
		// let the history go on: the node's own producer confirms what it holds
		nd.Momentum()
	}
}

func runNode(rng *rand.Rand, n int, out *Out, _ []string) {
	for i := 0; i < n; i++ {
		nodeHistory(rng, out)
	}
}

func nodeHistory(rng *rand.Rand, out *Out) {
	nd := NewNode()
	defer nd.Stop()
	h := &hist{nd: nd, out: out, rng: rng, br: protocol.NewChainBridge(nd.Ch, nd.Cs, verifier.NewVerifier(nd.Ch, nd.Cs), nd.Sv)}
	h.rl = newRelay(h)
	defer h.rl.close()
	users := []*wallet.KeyPair{g.User1, g.User2, g.User3}
	pendingRecv := []*nom.AccountBlock{}
	didHolder := false
	deposited := map[types.Address]bool{}
	steps := 8 + rng.Intn(6)
	for s := 0; s < steps; s++ {
		u := users[rng.Intn(len(users))]
		// sends of contracts to users that are confirmed by now (relay.go collects them from every pooled contract receive)
		pendingRecv = append(pendingRecv, h.rl.takeReady()...)
		var tmpl *nom.AccountBlock
		kind := rng.Intn(14)
		switch kind {
		case 9, 10, 11, 12, 13: // more calls that make a contract emit descendants (relay.go): token issue / mint, swap retrieve (two descendants), pillar deposit / withdraw, failing pillar registration
			tmpl = h.rl.extraCall(rng, kind-9, u, users)
		case 0, 1: // plain transfer with data
			tmpl = &nom.AccountBlock{ToAddress: users[rng.Intn(len(users))].Address, TokenStandard: types.ZnnTokenStandard,
				Amount: big.NewInt(int64(rng.Intn(5)) * g.Zexp), Data: rVar(rng)}
		case 2, 3: // deposit QSR at the sentinel contract, later withdraw it: contract receive with a descendant send
			if !deposited[u.Address] {
				deposited[u.Address] = true
				tmpl = &nom.AccountBlock{ToAddress: types.SentinelContract, TokenStandard: types.QsrTokenStandard,
					Amount: big.NewInt(int64(1+rng.Intn(90)) * g.Zexp), Data: definition.ABISentinel.PackMethodPanic(definition.DepositQsrMethodName)}
			} else {
				deposited[u.Address] = false
				tmpl = &nom.AccountBlock{ToAddress: types.SentinelContract, Data: definition.ABISentinel.PackMethodPanic(definition.WithdrawQsrMethodName)}
			}
		case 4: // fuse
			tmpl = &nom.AccountBlock{ToAddress: types.PlasmaContract, TokenStandard: types.QsrTokenStandard,
				Amount: big.NewInt(int64(10+rng.Intn(20)) * g.Zexp), Data: definition.ABIPlasma.PackMethodPanic(definition.FuseMethodName, users[rng.Intn(len(users))].Address)}
		case 5: // donate
			tmpl = &nom.AccountBlock{ToAddress: types.AcceleratorContract, TokenStandard: types.ZnnTokenStandard,
				Amount: big.NewInt(int64(1 + rng.Intn(3))), Data: definition.ABIAccelerator.PackMethodPanic(definition.DonateMethodName)}
		case 6: // a call that fails at receive time (no QSR deposited for a sentinel): refund through a descendant
			tmpl = &nom.AccountBlock{ToAddress: types.SentinelContract, TokenStandard: types.ZnnTokenStandard,
				Amount: new(big.Int).Set(constants.SentinelZnnRegisterAmount), Data: definition.ABISentinel.PackMethodPanic(definition.RegisterSentinelMethodName)}
		case 7, 8: // receive something
			if len(pendingRecv) == 0 {
				continue
			}
			sb := pendingRecv[0]
			pendingRecv = pendingRecv[1:]
			kp := KeyOf(sb.ToAddress)
			if kp == nil {
				continue
			}
			tx, err := nd.Sv.GenerateFromTemplate(&nom.AccountBlock{BlockType: nom.BlockTypeUserReceive, Address: kp.Address, FromBlockHash: sb.Hash}, kp.Signer)
			if err != nil {
				out.Count("receive:refused")
				continue
			}
			out.Count("receive:ok")
			h.userVariants(tx)
			nd.Insert(tx)
			h.step()
			continue
		}
		if kind >= 2 && kind != 7 && kind != 8 {
			h.abiVariants(u, &nom.AccountBlock{BlockType: nom.BlockTypeUserSend, Address: u.Address, ToAddress: tmpl.ToAddress,
				TokenStandard: tmpl.TokenStandard, Amount: tmpl.Amount, Data: tmpl.Data}, rng.Intn(3))
		}
		tx := h.send(u, tmpl)
		if tx == nil {
			continue
		}
		h.userVariants(tx)
		if !didHolder && kind <= 1 && rng.Intn(2) == 0 {
			didHolder = true
			h.variantHolder(tx)
			h.rl.scan()
		} else {
			nd.Insert(tx)
			h.step()
		}
		if !types.IsEmbeddedAddress(tx.Block.ToAddress) {
			pendingRecv = append(pendingRecv, tx.Block)
			continue
		}
		// the producer generated the contract receive during the momentum above; it sits in the pool
		fb, err := nd.Ch.GetFrontierAccountStore(tx.Block.ToAddress).Frontier()
		if err != nil || fb == nil || fb.BlockType != nom.BlockTypeContractReceive || fb.FromBlockHash != tx.Block.Hash {
			out.Count("contract-receive:not-found")
			continue
		}
		orig, err := nd.Apply(cp(fb))
		out.Oracle(err == nil && bytes.Equal(ser(orig.Block), ser(fb)), "contract-receive-redelivery", M{"hash": fb.Hash.String()})
		if err != nil {
			continue
		}
		out.Count("contract-receive:descendants:" + string(rune('0'+len(fb.DescendantBlocks))))
		h.contractVariants(orig)
		h.step()
	}
	h.step()
	// every block and momentum of this history through the codecs
	st := nd.Ch.GetFrontierMomentumStore()
	top := nd.FrontierHeight()
	for ht := uint64(1); ht <= top; ht++ {
		m, err := st.GetMomentumByHeight(ht)
		if err != nil || m == nil {
			continue
		}
		if ht > 1 && len(m.Content) == 0 && rng.Intn(3) != 0 {
			continue
		}
		emitMom(out, rng, m, "real")
		for i, hd := range m.Content {
			if ht == 1 && i%4 != 0 {
				continue
			}
			b, err := st.GetAccountBlock(*hd)
			if err != nil || b == nil {
				continue
			}
			emitAB(out, rng, b, "real", true)
			// stored descendants are stored again on their own: same bytes as inside the parent
			out.Oracle(b.ComputeHash() == b.Hash, "stored-block-hash", M{"hash": b.Hash.String()})
		}
	}
}
