package main

// abicanon: "the call data of embedded-contract calls is stored in a single canonical encoding".
//
// For every method of every embedded contract, in each spork regime (origin, accelerator, bridge+liquidity, htlc: the
// method table is selected by vm/embedded.GetEmbeddedMethod from the active sporks), argument tuples (abiargs.go) are
// packed canonically and in a family of non-canonical encodings that the real decoder maps to the same values
// (abienc.go). Each encoding is put into a correctly hashed and signed user send block that was built outside the node
// (Supervisor.GenerateFromTemplate canonicalises before hashing, ApplyBlock is what a relayed / published block goes
// through) and handed to Supervisor.ApplyBlock; accepted blocks are added to the pool, confirmed by a momentum and read
// back from the ledger.
//
// Oracle (the clause itself): whenever a block is accepted, its Data equals abi.PackMethod(name, Unpack(Data)...).

import (
	"bytes"
	"fmt"
	"math/big"
	"math/rand"
	"os"
	"sort"
	"strings"
	. "zharness/hz"

	g "github.com/zenon-network/go-zenon/chain/genesis/mock"
	"github.com/zenon-network/go-zenon/chain/nom"
	"github.com/zenon-network/go-zenon/common/types"
	"github.com/zenon-network/go-zenon/verifier"
	"github.com/zenon-network/go-zenon/vm"
	"github.com/zenon-network/go-zenon/vm/abi"
	"github.com/zenon-network/go-zenon/vm/constants"
	"github.com/zenon-network/go-zenon/vm/embedded"
	"github.com/zenon-network/go-zenon/vm/embedded/definition"
	"github.com/zenon-network/go-zenon/vm/vm_context"
	"github.com/zenon-network/go-zenon/wallet"
)

var debugCanon = os.Getenv("C13_DEBUG") != ""
var canonRegimes = []string{"origin", "accelerator", "bridge", "htlc"}
var sporkDefaults = [3]types.Hash{types.AcceleratorSpork.SporkId, types.BridgeAndLiquiditySpork.SporkId, types.HtlcSpork.SporkId}

func resetSporks() {
	types.AcceleratorSpork.SporkId, types.BridgeAndLiquiditySpork.SporkId, types.HtlcSpork.SporkId = sporkDefaults[0], sporkDefaults[1], sporkDefaults[2]
}

type canonRun struct {
	nd     *Node
	rng    *rand.Rand
	out    *Out
	regime string
	ties   int
	tieMax int
}

func (h *canonRun) now() int64 {
	m, _ := h.nd.Ch.GetFrontierMomentumStore().GetFrontierMomentum()
	return m.Timestamp.Unix()
}

// activate creates and activates a spork through the spork contract and makes it the id of the given implemented spork
func (h *canonRun) activate(spork *types.ImplementedSpork, name string) {
	nd := h.nd
	call := func(data []byte) *nom.AccountBlock {
		tx, err := nd.Sv.GenerateFromTemplate(&nom.AccountBlock{BlockType: nom.BlockTypeUserSend, Address: g.Spork.Address,
			ToAddress: types.SporkContract, Data: data}, g.Spork.Signer)
		if err != nil {
			panic("spork call refused: " + err.Error())
		}
		if err := nd.Insert(tx); err != nil {
			panic(err)
		}
		nd.Momentum()
		nd.Momentum()
		return tx.Block
	}
	b := call(definition.ABISpork.PackMethodPanic(definition.SporkCreateMethodName, name, "activate "+name))
	types.ImplementedSporksMap[b.Hash] = true
	call(definition.ABISpork.PackMethodPanic(definition.SporkActivateMethodName, b.Hash))
	spork.SporkId = b.Hash
	for i := 0; i < 40; i++ {
		if ok, _ := nd.Ch.GetFrontierMomentumStore().IsSporkActive(spork); ok {
			return
		}
		nd.Momentum()
	}
	panic("spork did not activate")
}

func refusal(err error) string {
	switch err {
	case verifier.ErrABHashInvalid:
		return "hash-differs-after-repack"
	case constants.ErrUnpackError:
		return "unpack-error"
	case constants.ErrContractMethodNotFound:
		return "method-not-found"
	case constants.ErrInsufficientBalance:
		return "insufficient-balance"
	case constants.ErrVmRunPanic:
		return "vm-panic"
	}
	return "other"
}

// deliver: a user send with exactly these call data bytes, hashed and signed outside the node, through ApplyBlock
func (h *canonRun) deliver(c *cdef, t tuple, data []byte) (*nom.AccountBlockTransaction, error) {
	nd := h.nd
	b := &nom.AccountBlock{BlockType: nom.BlockTypeUserSend, Address: t.kp.Address, ToAddress: c.Addr, TokenStandard: t.zts,
		Amount: new(big.Int).Set(t.amount), Data: append([]byte{}, data...)}
	nd.Fill(b)
	nd.SetPlasma(b)
	Sign(b, t.kp)
	return nd.Apply(b)
}

// the clause, on one accepted block: where = "accepted" (what ApplyBlock returned) or "ledger" (read back)
// what ApplyBlock hands back is what will be stored: its hash is the hash of its own fields (a re-pack that changed
// Data under a kept Hash field would show here, before the ledger does)
func (h *canonRun) checkHash(c *cdef, m abi.Method, kind string, offered []byte, tx *nom.AccountBlockTransaction) {
	ok := tx.Block.ComputeHash() == tx.Block.Hash
	d := M{}
	if !ok {
		d = M{"regime": h.regime, "contract": c.Name, "method": m.Name, "encoding": kind, "offered_data": Byt(offered),
			"stored_data": Byt(tx.Block.Data), "hash_field": tx.Block.Hash.String(), "computed_hash": tx.Block.ComputeHash().String()}
	}
	h.out.Oracle(ok, "accepted-call-block-hash", d)
}

func (h *canonRun) checkStored(c *cdef, m abi.Method, key, kind string, offered, stored []byte, t tuple) bool {
	canon := canonicalOf(c.ABI, m, stored)
	ok := canon != nil && bytes.Equal(canon, stored)
	d := M{}
	if !ok {
		d = M{"regime": h.regime, "contract": c.Name, "method": m.Name, "encoding": kind, "args": t.tag, "sender": t.kp.Address.String(),
			"amount": Big(t.amount), "zts": t.zts.String(), "offered_data": Byt(offered), "stored_data": Byt(stored), "canonical_of_stored": Byt(canon)}
	}
	h.out.Oracle(ok, key, d)
	return ok
}

// repackOracle: PackMethod(Unpack(d)) of the implementation == reference encoding of Unpack(d), for a decodable d.
// The decoded values are used as they come out of the decoder (a `bytes` value is a sub-slice of d).
func (h *canonRun) repackOracle(c *cdef, m abi.Method, nc ncData) {
	want := canonicalOf(c.ABI, m, nc.data)
	if want == nil {
		return
	}
	got, ok := implRepack(c.ABI, m, nc.data)
	good := ok && bytes.Equal(got, want)
	d := M{}
	if !good {
		d = M{"contract": c.Name, "method": m.Name, "encoding": nc.tag, "data": Byt(nc.data), "repacked": Byt(got), "canonical": Byt(want)}
	}
	h.out.Oracle(good, "repack-of-decoded-values-is-canonical", d)
}

// confirm: pool -> momentum -> ledger, then the clause on what the ledger holds
func (h *canonRun) confirm(c *cdef, m abi.Method, kind string, offered []byte, tx *nom.AccountBlockTransaction, t tuple) {
	nd := h.nd
	if err := nd.Insert(tx); err != nil {
		h.out.Count("abicanon:ledger:insert-refused")
		return
	}
	if err := nd.MomentumOnly(); err != nil {
		h.out.Oracle(false, "abicanon-momentum-production-failed", M{"err": err.Error(), "contract": c.Name, "method": m.Name})
		return
	}
	st, err := nd.Ch.GetFrontierMomentumStore().GetAccountBlockByHash(tx.Block.Hash)
	if err != nil || st == nil {
		h.out.Oracle(false, "accepted-call-not-in-ledger", M{"contract": c.Name, "method": m.Name, "hash": tx.Block.Hash.String()})
		return
	}
	h.out.Count("abicanon:ledger:read-back")
	h.checkStored(c, m, "ledger-call-data-is-canonical", kind, offered, st.Data, t)
	// the frontier of the sender's chain is the same block
	if fr, err := nd.Ch.GetFrontierAccountStore(t.kp.Address).Frontier(); err == nil && fr != nil && fr.Hash == st.Hash {
		h.out.Oracle(bytes.Equal(fr.Data, st.Data) && fr.ComputeHash() == fr.Hash, "ledger-call-block-hash", M{"hash": fr.Hash.String()})
	}
}

func hasDyn(m abi.Method) bool {
	for _, a := range m.Inputs {
		if isDyn(a.Type) {
			return true
		}
	}
	return false
}

func sortedMethods(a abi.ABIContract) []string {
	var ns []string
	for n := range a.Methods {
		ns = append(ns, n)
	}
	sort.Strings(ns)
	return ns
}

// one method in one regime: per tuple the canonical packing first (is the tuple valid?), then the family
func (h *canonRun) method(c *cdef, m abi.Method, perMethod, perTuple int) {
	out, rng := h.out, h.rng
	key := c.Name + "." + m.Name
	now := h.now()
	var ts []tuple
	base := goodTuple(rng, c, m, now)
	ts = append(ts, base)
	edges := edgeTuples(rng, m, base, now)
	// the all-empty case of every method with a dynamic argument is always there; the others as far as the budget goes
	if len(edges) > 0 {
		ts = append(ts, edges[0])
		rest := edges[1:]
		rng.Shuffle(len(rest), func(i, j int) { rest[i], rest[j] = rest[j], rest[i] })
		for _, e := range rest {
			if len(ts) >= perMethod-1 {
				break
			}
			ts = append(ts, e)
		}
	}
	// every `bytes` argument with the lengths around the word size (0, 1, 31, 32, 33, 40): always there
	bl := bytesLenTuples(rng, m, base)
	ts = append(ts, bl...)
	perMethod += len(bl)
	if len(m.Inputs) == 0 && perMethod > 2 {
		perMethod = 2 // one encoding exists; only the payment varies
	}
	for len(ts) < perMethod {
		if rng.Intn(2) == 0 {
			ts = append(ts, goodTuple(rng, c, m, now))
		} else {
			ts = append(ts, randomTuple(rng, c, m, now))
		}
	}
	validSeen := false
	for _, t := range ts {
		canon, err := c.ABI.PackMethod(m.Name, t.args...)
		if err != nil {
			out.Count("abicanon:pack-failed:" + key)
			continue
		}
		// the packer is a function of the values: it agrees with the reference encoder on fresh values
		ref := refPack(m, t.args)
		out.Oracle(ref != nil && bytes.Equal(ref, canon), "packer-equals-reference-encoder", M{"contract": c.Name, "method": m.Name,
			"args": t.tag, "packed": Byt(canon), "reference": Byt(ref)})
		h.tieCase(c, m, canon, "canonical")
		if d := damaged(rng, canon); len(d) > 0 {
			h.tieCase(c, m, d, "damaged")
		}
		tx, err := h.deliver(c, t, canon)
		valid := err == nil
		vtag := "invalid-args"
		if valid {
			vtag = "valid-args"
			validSeen = true
			// the canonical packing is stored as it is
			out.Oracle(bytes.Equal(tx.Block.Data, canon), "canonical-call-data-stored-unchanged", M{"contract": c.Name, "method": m.Name, "data": Byt(canon)})
			h.checkStored(c, m, "accepted-call-data-is-canonical", "canonical", canon, tx.Block.Data, t)
			h.checkHash(c, m, "canonical", canon, tx)
			if t.amount.Cmp(zx(100)) <= 0 && c.Addr != types.SporkContract && rng.Intn(6) == 0 {
				h.confirm(c, m, "canonical", canon, tx, t)
			}
		} else {
			out.Count("abicanon:canonical-refused:" + refusal(err))
			if t.tag == "good" && debugCanon {
				fmt.Fprintf(os.Stderr, "C13DBG good tuple refused %s %s: %v\n", h.regime, key, err)
			}
		}
		out.Count("abicanon:tuple:" + t.tag + ":" + vtag)
		if hasDyn(m) && (t.tag == "all-empty" || t.tag == "one-empty") {
			out.Count("abicanon:empty-case:" + key)
		}
		for _, nc := range nonCanonical(rng, c.ABI, m, t.args, canon, perTuple, out.Count) {
			out.Count("noncanon:" + key + ":offered")
			for _, f := range strings.Split(nc.tag, "+") {
				out.Count("abicanon:encoding:" + f)
			}
			vtag := vtag
			if nc.other {
				vtag = "other-values" // decodes to other values than the tuple: their validity is not known
			}
			out.Count("abicanon:offered:" + vtag)
			h.tieCase(c, m, nc.data, "noncanonical")
			// what ValidateSendBlock relies on, on the ABI alone: decoding and packing again gives the canonical bytes,
			// whatever memory the decoded values share with the call data
			abiLevel := func() { h.repackOracle(c, m, nc) }
			tx, err := h.deliver(c, t, nc.data)
			if err != nil {
				out.Count("noncanon:" + key + ":refused")
				out.Count("abicanon:refused:" + vtag + ":" + refusal(err))
				out.Oracle(true, "accepted-call-data-is-canonical", nil)
				abiLevel()
				continue
			}
			out.Count("noncanon:" + key + ":accepted")
			h.checkStored(c, m, "accepted-call-data-is-canonical", nc.tag, nc.data, tx.Block.Data, t)
			h.checkHash(c, m, nc.tag, nc.data, tx)
			// whatever was accepted goes all the way into the ledger
			h.confirm(c, m, nc.tag, nc.data, tx, t)
			abiLevel()
		}
	}
	if !validSeen {
		out.Count("abicanon:no-valid-tuple:" + h.regime + ":" + key)
	}
}

// model side: decoder model (coq/theories/Abi.v) + packer model (AbiCanon.v): the canonical packing of what the bytes
// decode to, for canonical, non-canonical and damaged call data
func (h *canonRun) tieCase(c *cdef, m abi.Method, data []byte, tag string) {
	if len(data) > 700 || h.ties >= h.tieMax || h.rng.Intn(8) != 0 {
		return
	}
	h.ties++
	tys := Lst()
	for _, a := range m.Inputs {
		tys = append(tys, tyTerm(a.Type))
	}
	var o interface{} = None()
	if canon := canonicalOf(c.ABI, m, data); canon != nil {
		o = Some(Byt(canon))
		tag += ":decodable"
	} else {
		tag += ":not-decodable"
	}
	h.out.Case("abi_canon", Tup(Byt(m.Id()), tys, Byt(data)), o, tag)
}

// one word of the canonical packing replaced / dropped / the data cut: mostly not decodable
func damaged(rng *rand.Rand, canon []byte) []byte {
	d := append([]byte{}, canon...)
	if len(d) < 36 {
		return append(d, 0)
	}
	k := 4 + 32*rng.Intn((len(d)-4)/32)
	switch rng.Intn(4) {
	case 0:
		return d[:k+rng.Intn(32)]
	case 1:
		return append(d[:k], d[k+32:]...)
	case 2:
		copy(d[k:], u256([]int{0, 31, 32, len(d), len(d) - 4 - 32, 1 << 40}[rng.Intn(6)]))
	default:
		rng.Read(d[k : k+32])
	}
	return d
}

func tyTerm(t abi.Type) interface{} {
	switch t.T {
	case abi.IntTy:
		return Con("TInt", I64(int64(t.Size)))
	case abi.UintTy:
		return Con("TUint", I64(int64(t.Size)))
	case abi.BoolTy:
		return Con("TBool")
	case abi.StringTy:
		return Con("TString")
	case abi.BytesTy:
		return Con("TBytes")
	case abi.AddressTy:
		return Con("TAddress")
	case abi.TokenStandardTy:
		return Con("TZts")
	case abi.HashTy:
		return Con("THash")
	case abi.SliceTy:
		return Con("TSlice", tyTerm(*t.Elem))
	}
	panic("tyTerm: " + t.String())
}

func (h *canonRun) regimeRun(regime string, perMethod, perTuple int, only func(string) bool) {
	resetSporks()
	h.nd = NewNode()
	h.regime = regime
	h.ties = 0
	defer h.nd.Stop()
	defer resetSporks()
	switch regime {
	case "accelerator":
		h.activate(types.AcceleratorSpork, "spork-accelerator")
	case "bridge":
		h.activate(types.BridgeAndLiquiditySpork, "spork-bridge")
	case "htlc":
		h.activate(types.HtlcSpork, "spork-htlc")
	}
	nd := h.nd
	fms := nd.Ch.GetFrontierMomentumStore()
	ctx := vm_context.NewAccountContext(fms, nd.Ch.GetFrontierAccountStore(types.PlasmaContract), nd.Cs.FixedPillarReader(fms.Identifier()))
	for i := range cdefs {
		c := &cdefs[i]
		for _, mn := range sortedMethods(c.ABI) {
			m := c.ABI.Methods[mn]
			if _, err := embedded.GetEmbeddedMethod(ctx, c.Addr, m.Id()); err != nil {
				// not in this regime's table: one canonical call, refused with "method not found"
				h.out.Count("abicanon:method-absent:" + regime)
				t := goodTuple(h.rng, c, m, h.now())
				if canon, e := c.ABI.PackMethod(mn, t.args...); e == nil {
					_, e2 := h.deliver(c, t, canon)
					h.out.Oracle(e2 != nil, "call-of-absent-method-accepted", M{"regime": regime, "contract": c.Name, "method": mn})
				}
				continue
			}
			h.out.Count("abicanon:method-present:" + regime)
			if only != nil && !only(c.Name+"."+mn) {
				continue
			}
			h.method(c, m, perMethod, perTuple)
		}
	}
}

// n scales the work: tuples per (regime, method) and encodings per tuple. quick (n ~ 4): the htlc regime (the table that
// contains every method) in full, the three smaller tables with fewer tuples; thorough: everything everywhere.
func runAbiCanon(rng *rand.Rand, n int, out *Out, args []string) {
	constants.SporkMinHeightDelay = 2
	defer func() { constants.SporkMinHeightDelay = 6 }()
	var only func(string) bool
	if len(args) > 0 { // replay of one method: contract.method
		only = func(k string) bool { return k == args[0] }
	}
	if n < 1 {
		n = 1
	}
	h := &canonRun{rng: rng, out: out, tieMax: 15 * n}
	for _, regime := range canonRegimes {
		perMethod, perTuple := 3+n, 6+2*n
		if regime != "htlc" && n < 8 {
			perMethod = 2 + n/2
		}
		if perMethod > 24 {
			perMethod = 24
		}
		if perTuple > 30 {
			perTuple = 30
		}
		h.regimeRun(regime, perMethod, perTuple, only)
	}
	_ = fmt.Sprint
	_ = vm.NewSupervisor
	_ = wallet.KeyPair{}
}
