package main

// Reference ABI encoder: the ONE canonical encoding of an argument tuple, computed from the Go values alone, without
// any function of vm/abi's packer (pack.go / Type.pack / Arguments.Pack).
//
// Why it exists: the clause "call data is stored in a single canonical encoding" was judged with the implementation's
// own packer (canonical := PackMethod(Unpack(data))). The decoder hands out a `bytes` argument as a sub-slice of the
// call data, so a packer that looks at anything but the VALUE (capacity, backing array, a cached encoding) makes
// PackMethod(Unpack(data)) reproduce the sender's bytes and the judge agrees with the accused. The judge below knows
// only the ABI rules: a static value is one 32-byte word (integers big endian two's complement, bool 0/1, address /
// token standard / hash left padded with zeros); a dynamic value is an offset word in the head and, in argument
// order behind the head, its tail = length word, content, ZERO padding up to the next multiple of 32 (string / bytes)
// or element count followed by the area of its elements (T[]).
//
// Oracles built on it (abicanon.go):
//   packer-equals-reference-encoder        PackMethod(fresh values) == refPack(values)
//   repack-of-decoded-values-is-canonical  PackMethod(Unpack(d)) == refPack(Unpack(d)) for every decodable d offered
//   accepted-call-data-is-canonical        stored Data == refPack(Unpack(stored Data))

import (
	"bytes"
	"fmt"
	"math/big"
	"reflect"

	"github.com/zenon-network/go-zenon/vm/abi"
)

var two256 = new(big.Int).Lsh(big.NewInt(1), 256)

func refBigWord(x *big.Int) []byte {
	y := new(big.Int).Mod(x, two256) // two's complement of a negative number
	w := make([]byte, 32)
	b := y.Bytes()
	copy(w[32-len(b):], b)
	return w
}

func refLeftPad(b []byte) []byte {
	if len(b) > 32 {
		panic("c13 abiref: static value longer than a word")
	}
	w := make([]byte, 32)
	copy(w[32-len(b):], b)
	return w
}

func arrayBytes(v reflect.Value) []byte {
	b := make([]byte, v.Len())
	for i := range b {
		b[i] = byte(v.Index(i).Uint())
	}
	return b
}

// the word of a static value
func refWord(t abi.Type, v reflect.Value) []byte {
	switch t.T {
	case abi.UintTy, abi.IntTy:
		switch v.Kind() {
		case reflect.Uint8, reflect.Uint16, reflect.Uint32, reflect.Uint64, reflect.Uint:
			return refBigWord(new(big.Int).SetUint64(v.Uint()))
		case reflect.Int8, reflect.Int16, reflect.Int32, reflect.Int64, reflect.Int:
			return refBigWord(big.NewInt(v.Int()))
		case reflect.Ptr:
			return refBigWord(v.Interface().(*big.Int))
		}
	case abi.BoolTy:
		w := make([]byte, 32)
		if v.Bool() {
			w[31] = 1
		}
		return w
	case abi.AddressTy, abi.TokenStandardTy, abi.HashTy:
		if v.Kind() == reflect.Array {
			return refLeftPad(arrayBytes(v))
		}
		return refLeftPad(append([]byte{}, v.Bytes()...))
	}
	panic("c13 abiref: static word of " + t.String() + " from " + v.Kind().String())
}

// content bytes of a string / bytes value, copied (never aliasing what the decoder returned)
func dynContent(t abi.Type, v reflect.Value) []byte {
	if t.T == abi.StringTy {
		return []byte(v.String())
	}
	if v.Kind() == reflect.Array {
		return arrayBytes(v)
	}
	return append([]byte{}, v.Bytes()...)
}

func refTail(t abi.Type, v reflect.Value) []byte {
	switch t.T {
	case abi.StringTy, abi.BytesTy:
		c := dynContent(t, v)
		tail := append(u256(len(c)), c...)
		return append(tail, make([]byte, (32-len(c)%32)%32)...)
	case abi.SliceTy:
		n := v.Len()
		ts := make([]abi.Type, n)
		vs := make([]reflect.Value, n)
		for i := 0; i < n; i++ {
			ts[i], vs[i] = *t.Elem, v.Index(i)
		}
		return append(u256(n), refArea(ts, vs)...)
	}
	panic("c13 abiref: tail of " + t.String())
}

func refArea(ts []abi.Type, vs []reflect.Value) []byte {
	head := make([]byte, 0, 32*len(ts))
	var tails []byte
	for i := range ts {
		if ts[i].T == abi.ArrayTy || ts[i].T == abi.FixedBytesTy {
			panic("c13 abiref: unsupported type " + ts[i].String())
		}
		if isDyn(ts[i]) {
			head = append(head, u256(32*len(ts)+len(tails))...)
			tails = append(tails, refTail(ts[i], vs[i])...)
		} else {
			head = append(head, refWord(ts[i], vs[i])...)
		}
	}
	return append(head, tails...)
}

// reflect values of an argument list as the encoders want them (pointers other than *big.Int dereferenced)
func argValues(m abi.Method, args []interface{}) ([]abi.Type, []reflect.Value) {
	if len(args) != len(m.Inputs) {
		panic(fmt.Sprintf("c13 abiref: %d values for %d arguments", len(args), len(m.Inputs)))
	}
	ts := make([]abi.Type, len(m.Inputs))
	vs := make([]reflect.Value, len(m.Inputs))
	for i, in := range m.Inputs {
		ts[i] = in.Type
		vs[i] = reflect.ValueOf(args[i])
		for vs[i].Kind() == reflect.Ptr && ts[i].T != abi.UintTy && ts[i].T != abi.IntTy {
			vs[i] = vs[i].Elem()
		}
	}
	return ts, vs
}

// refPack: selector followed by the canonical encoding of the values (nil if the values do not fit the types)
func refPack(m abi.Method, args []interface{}) (res []byte) {
	defer func() {
		if recover() != nil {
			res = nil
		}
	}()
	ts, vs := argValues(m, args)
	return append(append([]byte{}, m.Id()...), refArea(ts, vs)...)
}

// the implementation's own round trip: what every ValidateSendBlock does with the call data
func implRepack(a abi.ABIContract, m abi.Method, data []byte) (re []byte, ok bool) {
	defer func() {
		if recover() != nil {
			re, ok = nil, false
		}
	}()
	if len(data) < 4 || !bytes.Equal(data[:4], m.Id()) {
		return nil, false
	}
	if len(m.Inputs) == 0 {
		if a.UnpackEmptyMethod(m.Name, data) != nil {
			return nil, false
		}
		re, err := a.PackMethod(m.Name)
		return re, err == nil
	}
	vs, err := m.Inputs.UnpackValues(data[4:])
	if err != nil {
		return nil, false
	}
	re, err = a.PackMethod(m.Name, vs...)
	return re, err == nil
}
