package main

// Non-canonical but decodable ABI encodings of an argument tuple.
//
// vm/abi decodes (unpack.go toGoType / lengthPrefixPointsTo) far more byte strings than Arguments.Pack produces:
//   - a dynamic argument is wherever its head word points: tails may come in any order, behind gaps of any length
//     (also not a multiple of 32), twice (only one copy referenced), shared by several arguments, inside one another,
//     inside the head (a zero head word is a fine length word of an empty string / list);
//   - readInteger reads the low 1/2/4/8 bytes of a uintN/intN word, address the low 20, tokenStandard the low 10:
//     the other bytes of the word are ignored; the padding behind the content of a string / bytes is never read;
//   - nothing looks at bytes behind the last tail.
// The encoder below lays an argument tuple out with these freedoms (recursively for T[] of dynamic T); every result is
// then passed through the REAL decoder and kept only if it decodes to the same values and differs from the canonical
// packing, so a slip of this encoder can only lose a candidate, never produce a wrong one.

import (
	"bytes"
	"encoding/binary"
	"math/big"
	"math/rand"
	"reflect"
	"sort"
	"strings"

	"github.com/zenon-network/go-zenon/vm/abi"
)

type encStyle struct {
	reorder   bool // tails in another order than the arguments
	gap       bool // unreferenced bytes in front of a tail (whole words): "extra words between head and tails", "offsets past gaps"
	unaligned bool // the gap is not a multiple of 32
	dup       bool // a tail is written twice, the offset points to one of the copies
	share     bool // a tail is not written if its bytes already occur in the data: shared / overlapping tails, tails in the head
	overlap   bool // a tail starts inside the zero padding at the end of what is already written
	trailing  bool // bytes behind the last tail
	dirtyWord bool // ignored high bytes of static words set
	dirtyPad  bool // padding bytes behind string / bytes content set
	garbage   bool // gaps / trailing bytes are random instead of zero
	padMode   int  // dirtyPad: 0 = some padding byte / all of them at random, 1 = the first padding byte (next to the content), 2 = the last one, 3 = every one
}

func (s encStyle) tag() string {
	var t []string
	add := func(b bool, n string) {
		if b {
			t = append(t, n)
		}
	}
	add(s.reorder, "reordered-tails")
	add(s.gap, "gap")
	add(s.unaligned, "unaligned")
	add(s.dup, "duplicated-tail")
	add(s.share, "shared-tail")
	add(s.overlap, "overlapping-tail")
	add(s.trailing, "trailing")
	add(s.dirtyWord, "dirty-word")
	add(s.dirtyPad, "dirty-padding")
	if len(t) == 0 {
		return "plain"
	}
	return strings.Join(t, "+")
}

// one feature at a time, then mixtures
var baseStyles = []encStyle{
	{reorder: true}, {gap: true}, {gap: true, garbage: true}, {gap: true, unaligned: true}, {dup: true}, {share: true}, {overlap: true},
	{trailing: true}, {trailing: true, garbage: true}, {dirtyWord: true}, {dirtyPad: true},
	{dirtyPad: true, padMode: 1}, {dirtyPad: true, padMode: 2}, {dirtyPad: true, padMode: 3},
	{share: true, reorder: true}, {share: true, trailing: true}, {reorder: true, gap: true, garbage: true},
}

func randomStyle(rng *rand.Rand) encStyle {
	b := func() bool { return rng.Intn(3) == 0 }
	return encStyle{b(), b(), b(), b(), b(), b(), b(), b(), b(), rng.Intn(2) == 0, rng.Intn(4)}
}

type ncEnc struct {
	rng  *rand.Rand
	st   encStyle
	used map[string]bool // features that really changed something
}

func isDyn(t abi.Type) bool { return t.T == abi.StringTy || t.T == abi.BytesTy || t.T == abi.SliceTy }

// number of leading bytes of a static word the decoder does not read
func ignoredPrefix(t abi.Type) int {
	switch t.T {
	case abi.UintTy, abi.IntTy:
		switch t.Size {
		case 8, 16, 32, 64:
			return 32 - t.Size/8
		}
	case abi.AddressTy:
		return 12
	case abi.TokenStandardTy:
		return 22
	}
	return 0
}

func u256(x int) []byte {
	w := make([]byte, 32)
	binary.BigEndian.PutUint64(w[24:], uint64(x))
	return w
}

func (e *ncEnc) fill(n int) []byte {
	b := make([]byte, n)
	if e.st.garbage {
		e.rng.Read(b)
	}
	return b
}

func (e *ncEnc) staticWord(t abi.Type, v reflect.Value) []byte {
	w := refWord(t, v)
	if k := ignoredPrefix(t); e.st.dirtyWord && k > 0 && e.rng.Intn(3) != 0 {
		switch e.rng.Intn(3) {
		case 0: // one byte
			w[e.rng.Intn(k)] ^= byte(1 + e.rng.Intn(255))
		case 1: // the byte next to the value
			w[k-1] ^= byte(1 + e.rng.Intn(255))
		default:
			e.rng.Read(w[:k])
			w[0] |= 1
		}
		e.used["dirty-word"] = true
	}
	return w
}

// tail of a dynamic value and the number of its leading bytes the decoder reads
func (e *ncEnc) tail(t abi.Type, v reflect.Value) (tail []byte, read int) {
	switch t.T {
	case abi.StringTy, abi.BytesTy:
		var c []byte
		if t.T == abi.StringTy {
			c = []byte(v.String())
		} else {
			c = v.Bytes()
		}
		c = append([]byte{}, c...)
		pad := (32 - len(c)%32) % 32
		p := make([]byte, pad)
		if e.st.dirtyPad && pad > 0 && (e.st.padMode != 0 || e.rng.Intn(3) != 0) {
			switch {
			case e.st.padMode == 1:
				p[0] = byte(1 + e.rng.Intn(255))
			case e.st.padMode == 2:
				p[pad-1] = byte(1 + e.rng.Intn(255))
			case e.st.padMode == 3:
				for k := range p {
					p[k] = byte(1 + e.rng.Intn(255))
				}
			case e.rng.Intn(2) == 0:
				p[e.rng.Intn(pad)] = byte(1 + e.rng.Intn(255))
			default:
				e.rng.Read(p)
				p[0] |= 1
			}
			e.used["dirty-padding"] = true
		}
		tail = append(append(u256(len(c)), c...), p...)
		return tail, 32 + len(c)
	case abi.SliceTy:
		n := v.Len()
		ts := make([]abi.Type, n)
		vs := make([]reflect.Value, n)
		for i := 0; i < n; i++ {
			ts[i], vs[i] = *t.Elem, v.Index(i)
		}
		body := e.area(ts, vs, false)
		tail = append(u256(n), body...)
		return tail, len(tail)
	}
	panic("c13 abienc: tail of " + t.String())
}

// area: head words of the values followed by the tails of the dynamic ones; offsets are relative to the area start
func (e *ncEnc) area(ts []abi.Type, vs []reflect.Value, top bool) []byte {
	n := len(ts)
	buf := make([]byte, 32*n)
	final := make([]bool, 32*n) // bytes that will not change any more
	var dyn []int
	for i := range ts {
		if ts[i].T == abi.ArrayTy || ts[i].T == abi.FixedBytesTy {
			panic("c13 abienc: unsupported type " + ts[i].String())
		}
		if isDyn(ts[i]) {
			dyn = append(dyn, i)
			continue
		}
		copy(buf[32*i:], e.staticWord(ts[i], vs[i]))
		for k := 32 * i; k < 32*i+32; k++ {
			final[k] = true
		}
	}
	order := append([]int{}, dyn...)
	if e.st.reorder && len(order) > 1 {
		for {
			e.rng.Shuffle(len(order), func(a, b int) { order[a], order[b] = order[b], order[a] })
			if !sort.IntsAreSorted(order) {
				break
			}
		}
		e.used["reordered-tails"] = true
	}
	appendFinal := func(b []byte) {
		buf = append(buf, b...)
		for range b {
			final = append(final, true)
		}
	}
	for _, i := range order {
		tail, read := e.tail(ts[i], vs[i])
		pos := -1
		if e.st.share && e.rng.Intn(4) != 0 {
			// every position where the bytes the decoder will read are already there
			var cands []int
			for p := 0; p+read <= len(buf); p++ {
				if !bytes.Equal(buf[p:p+read], tail[:read]) {
					continue
				}
				ok := true
				for k := p; k < p+read && ok; k++ {
					ok = final[k]
				}
				if ok {
					cands = append(cands, p)
				}
			}
			if len(cands) > 0 {
				pos = cands[e.rng.Intn(len(cands))]
				e.used["shared-tail"] = true
			}
		}
		if pos < 0 && e.st.overlap && e.rng.Intn(4) != 0 {
			// start inside the end of the written bytes: the prefix of the tail equals a suffix of the buffer
			var cands []int
			for p := len(buf) - 1; p >= 32*n && p > len(buf)-read && p > len(buf)-64; p-- {
				if !bytes.Equal(buf[p:], tail[:len(buf)-p]) {
					continue
				}
				ok := true
				for k := p; k < len(buf) && ok; k++ {
					ok = final[k]
				}
				if ok {
					cands = append(cands, p)
				}
			}
			if len(cands) > 0 {
				pos = cands[e.rng.Intn(len(cands))]
				appendFinal(tail[len(buf)-pos:])
				e.used["overlapping-tail"] = true
			}
		}
		if pos < 0 {
			if e.st.gap && e.rng.Intn(3) != 0 {
				g := 32 * (1 + e.rng.Intn(3))
				if e.st.unaligned {
					g = 1 + e.rng.Intn(70)
					if g%32 != 0 {
						e.used["unaligned"] = true
					}
				}
				appendFinal(e.fill(g))
				e.used["gap"] = true
			}
			if e.st.dup && e.rng.Intn(3) != 0 {
				first := len(buf)
				appendFinal(tail)
				pos = len(buf)
				appendFinal(tail)
				if e.rng.Intn(2) == 0 {
					pos = first
				}
				e.used["duplicated-tail"] = true
			} else {
				pos = len(buf)
				appendFinal(tail)
			}
		}
		copy(buf[32*i:], u256(pos))
		for k := 32 * i; k < 32*i+32; k++ {
			final[k] = true
		}
	}
	if e.st.trailing && (top || e.rng.Intn(3) == 0) {
		g := []int{1, 31, 32, 33, 64, 1 + e.rng.Intn(100)}[e.rng.Intn(6)]
		b := e.fill(g)
		if e.st.garbage {
			b[0] |= 1
		}
		buf = append(buf, b...)
		for range b {
			final = append(final, true)
		}
		e.used["trailing"] = true
	}
	return buf
}

type ncData struct {
	data  []byte
	tag   string
	other bool // decodes to other values than the tuple it was made from
}

func addToWord(w []byte, d int64) {
	x := new(big.Int).SetBytes(w)
	x.Add(x, big.NewInt(d))
	if x.Sign() < 0 {
		x.SetInt64(0)
	}
	copy(w, refBigWord(x))
}

// byte-level alterations of the canonical packing that need no knowledge of the layout
func lenient(rng *rand.Rand, canon []byte) []ncData {
	var res []ncData
	body := len(canon) - 4
	if body < 32 {
		return nil
	}
	words := body / 32
	cp := func() []byte { return append([]byte{}, canon...) }
	// the end of the data cut off (the padding of the last string / bytes is never read)
	for _, k := range []int{1, 1 + rng.Intn(31), 31} {
		res = append(res, ncData{data: cp()[:len(canon)-k], tag: "truncated-end"})
	}
	// each small word (offset, length, count) moved a little: up to 6 words per tuple
	idx := rng.Perm(words)
	n := 0
	for _, k := range idx {
		w := canon[4+32*k : 4+32*k+32]
		if !bytes.Equal(w[:28], make([]byte, 28)) {
			continue
		}
		if n++; n > 6 {
			break
		}
		for _, d := range []int64{1, 31, 32, -1, -32, int64(1 + rng.Intn(64))} {
			x := cp()
			addToWord(x[4+32*k:4+32*k+32], d)
			res = append(res, ncData{data: x, tag: "word-moved"})
		}
		x := cp()
		x[4+32*k+rng.Intn(24)] |= byte(1 + rng.Intn(255))
		res = append(res, ncData{data: x, tag: "word-high-byte"})
	}
	return res
}

// sameDecode: data is accepted by the real decoder and carries exactly the values whose canonical encoding is canon
// (judged by the reference encoder of abiref.go, not by the implementation's packer)
func sameDecode(a abi.ABIContract, m abi.Method, data, canon []byte) bool {
	re := canonicalOf(a, m, data)
	return re != nil && bytes.Equal(re, canon)
}

// canonicalOf: the canonical encoding (reference encoder) of what data decodes to (nil if it does not decode)
func canonicalOf(a abi.ABIContract, m abi.Method, data []byte) (canon []byte) {
	defer func() {
		if recover() != nil {
			canon = nil
		}
	}()
	if len(data) < 4 || !bytes.Equal(data[:4], m.Id()) {
		return nil
	}
	if len(m.Inputs) == 0 {
		// a method without arguments has one encoding: its selector
		if a.UnpackEmptyMethod(m.Name, data) != nil {
			return nil
		}
		return append([]byte{}, m.Id()...)
	}
	vs, err := m.Inputs.UnpackValues(data[4:])
	if err != nil {
		return nil
	}
	return refPack(m, vs)
}

// nonCanonical returns up to want distinct encodings of args that the real decoder maps to the same values and
// that differ from the canonical packing; attempted counts what the filter dropped.
func nonCanonical(rng *rand.Rand, a abi.ABIContract, m abi.Method, args []interface{}, canon []byte, want int, count func(string)) []ncData {
	var res []ncData
	seen := map[string]bool{string(canon): true}
	perTag := map[string]int{}
	force := false
	keep := func(d []byte, tag string) {
		if seen[string(d)] {
			count("enc-dropped:duplicate-or-canonical")
			return
		}
		seen[string(d)] = true
		if perTag[tag] >= 2 && !strings.Contains(tag, "+") && !force {
			return // enough of this one kind for this tuple
		}
		perTag[tag]++
		if !sameDecode(a, m, d, canon) {
			count("enc-dropped:not-same-decode:" + tag)
			return
		}
		res = append(res, ncData{data: d, tag: tag})
	}
	if len(m.Inputs) == 0 {
		// nothing but the selector decodes; offered anyway so that a method that stops checking is seen
		for _, k := range []int{1, 32} {
			res = append(res, ncData{data: append(append([]byte{}, canon...), make([]byte, k)...), tag: "trailing(no-args)"})
		}
		return res
	}
	ts, vs := argValues(m, args)
	encode := func(st encStyle) {
		defer func() {
			if r := recover(); r != nil {
				count("enc-dropped:encoder-panic")
			}
		}()
		e := &ncEnc{rng: rng, st: st, used: map[string]bool{}}
		body := e.area(ts, vs, true)
		var u []string
		for k := range e.used {
			u = append(u, k)
		}
		sort.Strings(u)
		tag := strings.Join(u, "+")
		if tag == "" {
			tag = "plain"
		}
		keep(append(append([]byte{}, canon[:4]...), body...), tag)
	}
	// always there, whatever the budget: every position of dirty padding behind string / bytes content (the decoder
	// never reads it) and dirty ignored bytes of narrow static words
	for _, st := range []encStyle{{dirtyPad: true, padMode: 1}, {dirtyPad: true, padMode: 2}, {dirtyPad: true, padMode: 3}, {dirtyWord: true}} {
		force = true
		encode(st)
		force = false
	}
	// what a lenient decoder tolerates without the values staying the same: a length word that reaches into the
	// padding / the next tail, an offset moved by a few bytes, the end of the padding cut off, a set high byte of a
	// word. Kept if the real decoder takes it and it is not the canonical encoding of what it decodes to.
	nl := 0
	for _, l := range lenient(rng, canon) {
		if seen[string(l.data)] {
			continue
		}
		seen[string(l.data)] = true
		c := canonicalOf(a, m, l.data)
		if c == nil {
			count("enc-dropped:lenient-not-decodable:" + l.tag)
			continue
		}
		if bytes.Equal(c, l.data) {
			count("enc-dropped:lenient-canonical-of-other-values")
			continue
		}
		if !bytes.Equal(c, canon) {
			l.other = true
		}
		if nl++; nl > 8 {
			break
		}
		res = append(res, l)
	}
	must := len(res)
	styles := append([]encStyle{}, baseStyles...)
	rng.Shuffle(len(styles), func(i, j int) { styles[i], styles[j] = styles[j], styles[i] })
	for _, st := range styles {
		if len(res)-must >= want*2/3 {
			break
		}
		encode(st)
	}
	want += must
	// byte flips of the canonical packing that the decoder does not notice (finds every ignored byte generically)
	for tries := 0; tries < 24 && len(res) < want*5/6 && len(canon) > 4; tries++ {
		d := append([]byte{}, canon...)
		p := 4 + rng.Intn(len(d)-4)
		d[p] ^= byte(1 + rng.Intn(255))
		if sameDecode(a, m, d, canon) {
			keep(d, "byte-flip-ignored")
		}
	}
	for tries := 0; tries < 3*want && len(res) < want; tries++ {
		encode(randomStyle(rng))
	}
	return res
}
