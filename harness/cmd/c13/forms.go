package main

// Byte forms of the fields of a block that its hash does not cover and that anybody can rewrite without the key:
// Signature, PublicKey, and the wire bytes as a whole. "Two blocks with the same hash that a node accepts have
// identical stored representation; nobody other than the holder of the key can produce a second acceptable variant":
// every form below is derived from an accepted block by a third party, so the node must refuse each of them (or, for a
// re-serialisation, store the same bytes as for the original).
//
// The list is about ENCODINGS of the same signature / key (what a tolerant verifier, a compatibility shim, a length
// check of the kind `>=` or a decoder that strips a prefix would let through), not about forging.

import (
	"encoding/base64"
	"encoding/hex"
	"math/big"
	"math/rand"
)

type form struct {
	name  string
	bytes []byte
}

func cat(parts ...[]byte) []byte {
	var r []byte
	for _, p := range parts {
		r = append(r, p...)
	}
	return r
}

func rnd(rng *rand.Rand, n int) []byte {
	b := make([]byte, n)
	rng.Read(b)
	return b
}

// sig: the 64-byte signature of msg (the block hash) under pub
func signatureForms(rng *rand.Rand, sig, msg, pub []byte) []form {
	if len(sig) != 64 {
		return nil
	}
	z := func(n int) []byte { return make([]byte, n) }
	fs := []form{
		// something appended
		{"signature ‖ message (the hash; NaCl combined form, 96 bytes)", cat(sig, msg)},
		{"signature ‖ 32 random bytes (96 bytes)", cat(sig, rnd(rng, 32))},
		{"signature ‖ 32 zero bytes (96 bytes)", cat(sig, z(32))},
		{"signature ‖ public key (96 bytes)", cat(sig, pub)},
		{"signature ‖ one zero byte", cat(sig, z(1))},
		{"signature ‖ one random byte", cat(sig, rnd(rng, 1))},
		{"signature ‖ " + "a random tail of random length", cat(sig, rnd(rng, 2+rng.Intn(200)))},
		{"signature ‖ signature (128 bytes)", cat(sig, sig)},
		{"signature ‖ 64 zero bytes (128 bytes)", cat(sig, z(64))},
		{"signature ‖ public key ‖ message (128 bytes)", cat(sig, pub, msg)},
		{"signature ‖ message ‖ message (128 bytes)", cat(sig, msg, msg)},
		// something in front
		{"message ‖ signature (96 bytes)", cat(msg, sig)},
		{"public key ‖ signature (96 bytes)", cat(pub, sig)},
		{"32 zero bytes ‖ signature (96 bytes)", cat(z(32), sig)},
		{"one zero byte ‖ signature", cat(z(1), sig)},
		{"length byte 0x40 ‖ signature", cat([]byte{0x40}, sig)},
		{"64 zero bytes ‖ signature (128 bytes)", cat(z(64), sig)},
		// shorter
		{"signature without its last byte (63 bytes)", cat(sig[:63])},
		{"signature without its first byte (63 bytes)", cat(sig[1:])},
		{"R only (32 bytes)", cat(sig[:32])},
		{"S only (32 bytes)", cat(sig[32:])},
		{"signature with trailing zero bytes stripped", stripZeros(sig)},
		// other writings of the same 64 bytes
		{"hex text of the signature (128 bytes)", []byte(hex.EncodeToString(sig))},
		{"base64 text of the signature (88 bytes)", []byte(base64.StdEncoding.EncodeToString(sig))},
		{"S ‖ R (halves swapped)", cat(sig[32:], sig[:32])},
		{"S + L (same residue, 64 bytes)", sPlusL(sig, 1)},
		{"S + L ‖ message", cat(sPlusL(sig, 1), msg)},
		{"bit 255 of S set", func() []byte { x := cat(sig); x[63] |= 0x80; return x }()},
		{"bit 255 of R flipped", func() []byte { x := cat(sig); x[31] ^= 0x80; return x }()},
	}
	var res []form
	for _, f := range fs {
		if string(f.bytes) != string(sig) {
			res = append(res, f)
		}
	}
	return res
}

func stripZeros(b []byte) []byte {
	n := len(b)
	for n > 0 && b[n-1] == 0 {
		n--
	}
	if n == len(b) {
		n-- // nothing to strip: the last byte goes
	}
	return cat(b[:n])
}

func sPlusL(sig []byte, k int64) []byte {
	x := cat(sig)
	s := new(big.Int).Add(leToBig(x[32:]), new(big.Int).Mul(edL, big.NewInt(k)))
	copy(x[32:], bigToLe32(s))
	return x
}

// pub: the 32-byte key whose address is the block's address
func publicKeyForms(rng *rand.Rand, pub, msg, sig []byte) []form {
	if len(pub) != 32 {
		return nil
	}
	z := func(n int) []byte { return make([]byte, n) }
	p25519 := new(big.Int).Sub(new(big.Int).Lsh(big.NewInt(1), 255), big.NewInt(19))
	fs := []form{
		{"public key ‖ message (64 bytes)", cat(pub, msg)},
		{"public key ‖ 32 zero bytes (64 bytes: the size of a private key)", cat(pub, z(32))},
		{"32 zero bytes ‖ public key (64 bytes)", cat(z(32), pub)},
		{"public key ‖ public key (64 bytes)", cat(pub, pub)},
		{"public key ‖ signature (96 bytes)", cat(pub, sig)},
		{"public key ‖ one zero byte", cat(pub, z(1))},
		{"public key ‖ one random byte", cat(pub, rnd(rng, 1))},
		{"public key ‖ a random tail", cat(pub, rnd(rng, 2+rng.Intn(100)))},
		{"one zero byte ‖ public key (33 bytes)", cat(z(1), pub)},
		{"0x02 ‖ public key (33 bytes, compressed-point look)", cat([]byte{2}, pub)},
		{"multicodec ed25519-pub 0xed01 ‖ public key (34 bytes)", cat([]byte{0xed, 0x01}, pub)},
		{"length byte 0x20 ‖ public key", cat([]byte{0x20}, pub)},
		{"public key without its last byte (31 bytes)", cat(pub[:31])},
		{"public key without its first byte (31 bytes)", cat(pub[1:])},
		{"hex text of the public key (64 bytes)", []byte(hex.EncodeToString(pub))},
		{"base64 text of the public key (44 bytes)", []byte(base64.StdEncoding.EncodeToString(pub))},
		{"sign bit of x flipped", func() []byte { x := cat(pub); x[31] ^= 0x80; return x }()},
	}
	// the same point with y written as y + p (possible only for y < 19): a non-canonical encoding of the same key
	y := leToBig(cat(pub[:31], []byte{pub[31] & 0x7f}))
	if y.Cmp(big.NewInt(19)) < 0 {
		x := bigToLe32(new(big.Int).Add(y, p25519))
		x[31] |= pub[31] & 0x80
		fs = append(fs, form{"y + p (non-canonical field element)", x})
	}
	var res []form
	for _, f := range fs {
		if string(f.bytes) != string(pub) {
			res = append(res, f)
		}
	}
	return res
}

func varint(x uint64) []byte {
	var b []byte
	for x >= 0x80 {
		b = append(b, byte(x)|0x80)
		x >>= 7
	}
	return append(b, byte(x))
}

// other protobuf writings of the same message
func reserialisations(rng *rand.Rand, wire []byte) []form {
	fs := []form{
		{"unknown varint field 60 appended", cat(wire, varint(60<<3|0), varint(uint64(rng.Int63())))},
		{"unknown bytes field 61 appended", func() []byte {
			t := rnd(rng, rng.Intn(40))
			return cat(wire, varint(61<<3|2), varint(uint64(len(t))), t)
		}()},
		{"unknown fixed64 field 62 in front", cat(varint(62<<3|1), rnd(rng, 8), wire)},
		{"the whole message twice (protobuf merge)", cat(wire, wire)},
	}
	// the first field written with a non-minimal varint, and once more at the end
	if len(wire) >= 2 && wire[0]&7 == 0 && wire[1] < 0x80 {
		fs = append(fs, form{"first varint non-minimal", cat(wire[:1], []byte{wire[1] | 0x80, 0x00}, wire[2:])})
		fs = append(fs, form{"first field repeated at the end", cat(wire, wire[:2])})
	}
	return fs
}
