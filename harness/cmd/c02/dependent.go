package main

// Account blocks whose verdict (or result) depends on WHICH momentum's ledger they are executed against.
//
// An account block is judged in the state of the momentum it acknowledges, not in the state of the frontier of the node
// that happens to process it (vm.Supervisor.newBlockContext: chain.GetMomentumStore(block.MomentumAcknowledged)). The
// VM reads from that store: the fused amount of the sender (plasma contract) and the plasma of its confirmed blocks
// (vm.AvailablePlasma), the send block a receive refers to, the spork set for the method lookup, the active pillars
// for votes. The producer's history therefore contains, by construction, episodes in which that state CHANGES between
// the acknowledged momentum and the frontier:
//
//   fusion cancelled : the only fusion of an account is cancelled (receive block of the plasma contract in momentum
//                      r); the account publishes a block that acknowledges a momentum before r, 1..5 behind the
//                      frontier, and pays with fused plasma that exists only there. Valid, part of the history.
//   fusion added     : somebody fuses for an account that has less than the cap (a fresh account or one whose
//                      fusion was cancelled); a block acknowledging the first momentum that has the fusion is valid
//                      (history), a block acknowledging a momentum before it is NOT - a probe.
//   chain plasma     : a block of the account was confirmed in between (its plasma is committed only after that)
//   receive          : the send was confirmed in between (probe)
//
// Probes are well-formed signed blocks the producer refuses (not enough plasma / send unknown as of the acknowledged
// momentum) although the ledger at its frontier would take them. They are not part of the history; the directed
// schedules gossip them to the receivers at the same frontier height: every honest node has to refuse them too.
//
// Directed schedules (dependentSchedules): a long-running receiver (one process run, one supervisor, no gossip of chain
// blocks, one momentum per InsertChain call: InsertChain([m+1]) is directly followed by InsertChain([m+2]) with the
// block that acknowledges m), the same with batches, and a receiver that is restarted right before every momentum that
// contains a dependent block and before every probe. All of them have to agree with each other and with the producer.

import (
	"bytes"
	"fmt"
	"math/big"
	"math/rand"
	"sort"
	. "zharness/hz"

	g "github.com/zenon-network/go-zenon/chain/genesis/mock"
	"github.com/zenon-network/go-zenon/chain/nom"
	"github.com/zenon-network/go-zenon/common/types"
	"github.com/zenon-network/go-zenon/vm"
	"github.com/zenon-network/go-zenon/vm/constants"
	"github.com/zenon-network/go-zenon/vm/embedded/definition"
	"github.com/zenon-network/go-zenon/wallet"
	"github.com/zenon-network/go-zenon/zenon/mock"
)

// accounts without balance and without fusion in the mock genesis
var freshUsers = []*wallet.KeyPair{g.User6, g.User7, g.User8, g.User9, g.User10}

type depBlock struct {
	kind                        string
	hash                        types.Hash
	addr                        types.Address
	ack                         types.HashHeight
	builtAt                     uint64 // producer's frontier height when the block was created
	changed                     uint64 // height of the momentum whose content changed what the block reads
	other                       uint64 // height of the momentum whose ledger would NOT take the block
	fused, availAck, availOther uint64
	incl, pos                   int // chain index of the momentum that contains it; blocks executed before it there
}

func (d *depBlock) describe() M {
	return M{"kind": d.kind, "address": d.addr.String(), "hash": d.hash.String(), "acknowledged_height": U64(d.ack.Height),
		"state_changed_by_momentum": U64(d.changed), "producer_frontier_when_created": U64(d.builtAt),
		"contained_in_momentum": d.incl + 2, "blocks_executed_before_it_in_that_momentum": d.pos,
		"fused_plasma_of_block": U64(d.fused), "available_at_acknowledged_momentum": U64(d.availAck),
		"momentum_whose_ledger_would_refuse_it": U64(d.other), "available_there": U64(d.availOther)}
}

type depProbe struct {
	kind                     string
	b                        *nom.AccountBlock
	at                       uint64 // frontier height of the producer when it refused the block
	validFrom                uint64 // first momentum whose ledger would take it
	producerErr              string
	fused, availAck, availAt uint64
}

func (p *depProbe) describe() M {
	return M{"kind": p.kind, "block": fmt.Sprint(p.b.Header()), "block_type": U64(p.b.BlockType), "acknowledged_height": U64(p.b.MomentumAcknowledged.Height),
		"frontier_height": U64(p.at), "ledger_would_take_it_from_height": U64(p.validFrom), "producer_refused_with": p.producerErr,
		"fused_plasma_of_block": U64(p.fused), "available_at_acknowledged_momentum": U64(p.availAck), "available_at_the_other_momentum": U64(p.availAt)}
}

type depPlan struct {
	blocks    map[types.Hash]*depBlock
	probes    []*depProbe
	cancelled []*wallet.KeyPair // own fusion cancelled, nothing fused for them since
	fresh     int
	episodes  map[int]int // step of the history -> kind of episode
	sporkSet  bool
	sporkOrig types.Hash
	sporkId   types.Hash
}

const (
	epCancelExact = iota // distance 1: acknowledged momentum m, cancel received in m+1, block alone in m+2
	epCancel             // distance 1..5
	epFuse
	epSpork // the accelerator spork gets enforced in the middle of the history
)

func newDepPlan(rng *rand.Rand, steps int, withSpork bool) *depPlan {
	p := &depPlan{blocks: map[types.Hash]*depBlock{}, episodes: map[int]int{}}
	kinds := []int{epCancelExact, epFuse, []int{epCancel, epFuse}[rng.Intn(2)]}
	if withSpork {
		kinds[2] = epSpork
	} else if rng.Intn(3) == 0 {
		kinds = append(kinds, epCancel)
	}
	// the first episode is always a cancellation, so that a later fuse episode finds an account below the cap
	at := rng.Perm(steps)[:len(kinds)]
	sort.Ints(at)
	for i, s := range at {
		p.episodes[s] = kinds[i]
	}
	return p
}

func momentumAt(a *Node, h uint64) *nom.Momentum {
	m, err := a.Ch.GetFrontierMomentumStore().GetMomentumByHeight(h)
	if err != nil || m == nil {
		panic(fmt.Sprintf("no momentum at height %d: %v", h, err))
	}
	return m
}

// plasma the account can spend in a block on top of its present account chain that acknowledges id, computed from the
// clean historical view (the rule of vm.enoughPlasma, without any supervisor in between)
func availAt(a *Node, addr types.Address, id types.HashHeight) uint64 {
	ms := a.Ch.GetMomentumStore(id)
	if ms == nil {
		panic(fmt.Sprintf("no store for %v", id))
	}
	av, err := vm.AvailablePlasma(ms, a.Ch.GetFrontierAccountStore(addr))
	if err != nil {
		return 0
	}
	return av
}

func fusedFor(a *Node, addr types.Address) *big.Int {
	f, err := a.Ch.GetFrontierMomentumStore().GetStakeBeneficialAmount(addr)
	if err != nil {
		panic(err)
	}
	return f
}

// no unconfirmed block of the account in the pool: a receiver at the same frontier height has the same account chain
func settled(a *Node, addr types.Address) bool {
	return a.Ch.GetFrontierAccountStore(addr).Identifier() == a.Ch.GetFrontierMomentumStore().GetAccountStore(addr).Identifier()
}

func prevAck(a *Node, addr types.Address) uint64 {
	b, err := a.Ch.GetFrontierAccountStore(addr).Frontier()
	if err != nil || b == nil {
		return 0
	}
	return b.MomentumAcknowledged.Height
}

func basePlasmaOf(tpl *nom.AccountBlock) uint64 {
	if tpl.BlockType == nom.BlockTypeUserReceive {
		return constants.AccountBlockBasePlasma
	}
	return uint64(constants.AccountBlockBasePlasma + len(tpl.Data)*constants.ABByteDataPlasma)
}

// next block of the actor: the receive of the transfer that funded it, or a small transfer
func actorTemplate(a *Node, rng *rand.Rand, x *wallet.KeyPair, fund *nom.AccountBlock) *nom.AccountBlock {
	if fund != nil && !a.Ch.GetFrontierAccountStore(x.Address).IsReceived(fund.Hash) {
		return &nom.AccountBlock{BlockType: nom.BlockTypeUserReceive, Address: x.Address, FromBlockHash: fund.Hash}
	}
	if balance(a, x.Address, types.ZnnTokenStandard).Cmp(big.NewInt(2000000)) > 0 {
		to := users[rng.Intn(len(users))]
		return &nom.AccountBlock{BlockType: nom.BlockTypeUserSend, Address: x.Address, ToAddress: to.Address, TokenStandard: types.ZnnTokenStandard,
			Amount: big.NewInt(int64(1 + rng.Intn(1000000))), Data: make([]byte, rng.Intn(20))}
	}
	return nil
}

func pickPlasma(rng *rand.Rand, lo, hi uint64) (uint64, bool) {
	if lo > hi || hi > constants.MaxPlasmaForAccountBlock {
		return 0, false
	}
	switch rng.Intn(3) {
	case 0:
		return lo, true
	case 1:
		return hi, true
	}
	return lo + uint64(rng.Int63n(int64(hi-lo+1))), true
}

func maxU(a, b uint64) uint64 {
	if a > b {
		return a
	}
	return b
}

// the mock inserts through its own supervisor (GenerateFromTemplate + pool); a refusal comes back as a panic of FakeT
func insertValid(a *Node, tpl *nom.AccountBlock, fund *nom.AccountBlock) (res *nom.AccountBlock, refusal string) {
	defer func() {
		if r := recover(); r != nil {
			res, refusal = nil, fmt.Sprint(r)
		}
	}()
	if tpl.BlockType == nom.BlockTypeUserReceive {
		return a.Z.InsertReceiveBlock(fund.Header(), tpl, nil, mock.SkipVmChanges), ""
	}
	return a.Z.InsertSendBlock(tpl, nil, mock.SkipVmChanges), ""
}

// a block that is valid in the ledger of the momentum it acknowledges and uses plasma that the ledger of the producer's
// frontier does not (or did not yet) grant: lo..hi = plasma interval that makes it depend on the acknowledged momentum
func (p *depPlan) validBlock(a *Node, rng *rand.Rand, out *Out, kind string, x *wallet.KeyPair, fund *nom.AccountBlock, ack *nom.Momentum, other types.HashHeight, changed uint64) *nom.AccountBlock {
	tpl := actorTemplate(a, rng, x, fund)
	if tpl == nil || prevAck(a, x.Address) > ack.Height {
		out.Count("history:dependent-block-skipped(no template / acknowledged momentum below the previous block's)")
		return nil
	}
	fr := FrontierOf(a.Ch)
	availAck, availOther := availAt(a, x.Address, ack.Identifier()), availAt(a, x.Address, other)
	fp, ok := pickPlasma(rng, maxU(basePlasmaOf(tpl), availOther+1), availAck)
	if !ok {
		out.Count("history:dependent-block-skipped(plasma interval empty)")
		return nil
	}
	tpl.MomentumAcknowledged = ack.Identifier()
	tpl.FusedPlasma = fp
	b, refusal := insertValid(a, tpl, fund)
	// the property's mechanism, stated on the producing node: the verdict is the one of the acknowledged momentum's ledger
	out.Oracle(b != nil, "block-judged-in-state-of-acknowledged-momentum", M{"expected": "accepted", "kind": kind, "address": x.Address.String(),
		"acknowledged_height": U64(ack.Height), "frontier_height": U64(fr.Height), "state_changed_by_momentum": U64(changed), "fused_plasma_of_block": U64(fp),
		"available_at_acknowledged_momentum": U64(availAck), "available_at_the_other_momentum": U64(availOther), "producer_said": refusal})
	if b == nil {
		return nil
	}
	d := &depBlock{kind: kind, hash: b.Hash, addr: x.Address, ack: ack.Identifier(), builtAt: fr.Height, changed: changed,
		other: other.Height, fused: fp, availAck: availAck, availOther: availOther, incl: -1}
	p.blocks[b.Hash] = d
	out.Count("history:dependent-block:" + kind)
	out.Count(fmt.Sprintf("history:dependent-block:%s:distance-%d", kind, fr.Height-ack.Height))
	return b
}

// a well-formed, signed block of x that acknowledges ack and is NOT valid there, while the ledger of `better` (a later
// momentum, at most the frontier) would take it. Nothing is stored.
func (p *depPlan) probe(a *Node, rng *rand.Rand, out *Out, kind string, x *wallet.KeyPair, tpl *nom.AccountBlock, ack *nom.Momentum, better types.HashHeight, validFrom uint64) {
	if tpl == nil || !settled(a, x.Address) || prevAck(a, x.Address) > ack.Height {
		out.Count("history:dependent-probe-skipped(no template / account has unconfirmed blocks / acknowledged momentum below the previous block's)")
		return
	}
	fr := FrontierOf(a.Ch)
	availAck, availBetter := availAt(a, x.Address, ack.Identifier()), availAt(a, x.Address, better)
	if tpl.FusedPlasma == 0 {
		fp, ok := pickPlasma(rng, maxU(basePlasmaOf(tpl), availAck+1), availBetter)
		if !ok {
			out.Count("history:dependent-probe-skipped(plasma interval empty)")
			return
		}
		tpl.FusedPlasma = fp
	}
	tpl.MomentumAcknowledged = ack.Identifier()
	_, err := a.Sv.GenerateFromTemplate(tpl, x.Signer)
	refused := err != nil
	out.Oracle(refused, "block-judged-in-state-of-acknowledged-momentum", M{"expected": "refused", "kind": kind, "address": x.Address.String(),
		"acknowledged_height": U64(ack.Height), "frontier_height": U64(fr.Height), "ledger_would_take_it_from_height": U64(validFrom), "fused_plasma_of_block": U64(tpl.FusedPlasma),
		"available_at_acknowledged_momentum": U64(availAck), "available_at_the_other_momentum": U64(availBetter)})
	if !refused {
		return
	}
	Sign(tpl, x)
	p.probes = append(p.probes, &depProbe{kind: kind, b: tpl, at: fr.Height, validFrom: validFrom, producerErr: err.Error(),
		fused: tpl.FusedPlasma, availAck: availAck, availAt: availBetter})
	out.Count("history:dependent-probe:" + kind)
	if why := err.Error(); len(why) < 80 {
		out.Count("history:dependent-probe:" + kind + ":producer-said:" + why)
	}
	out.Count(fmt.Sprintf("history:dependent-probe:%s:distance-%d", kind, fr.Height-ack.Height))
}

// plain transfers of other accounts, so that the dependent block is not always alone in its momentum
func bystanders(a *Node, rng *rand.Rand, out *Out, not types.Address) {
	for k := rng.Intn(3); k > 0; k-- {
		u := users[rng.Intn(len(users))]
		if u.Address == not || balance(a, u.Address, types.ZnnTokenStandard).Cmp(big.NewInt(g.Zexp)) <= 0 {
			continue
		}
		safeSend(a, &nom.AccountBlock{Address: u.Address, ToAddress: users[rng.Intn(len(users))].Address, TokenStandard: types.ZnnTokenStandard,
			Amount: big.NewInt(int64(1 + rng.Intn(1000)))})
		out.Count("history:send")
	}
}

// momentum(s) that confirm the call; the receive block of the contract is in the pool afterwards (not in a momentum yet)
func confirmCall(a *Node, rng *rand.Rand, out *Out) {
	if rng.Intn(3) == 0 {
		// confirmed by a momentum of the plain producer: the receive is generated one momentum later and acknowledges
		// the momentum before the frontier
		if err := ProduceAt(a, 10); err != nil {
			panic(err)
		}
		out.Count("history:momentums-without-auto-receive")
	}
	a.Momentum()
}

// waits until the momentum store shows another fused amount for addr; returns the momentum before the change
func untilFusedChanges(a *Node, addr types.Address, was *big.Int) (before *nom.Momentum, ok bool) {
	for k := 0; k < 4; k++ {
		before = FrontierOf(a.Ch)
		a.Momentum()
		if fusedFor(a, addr).Cmp(was) != 0 {
			return before, true
		}
	}
	return nil, false
}

func (p *depPlan) cancelEpisode(a *Node, rng *rand.Rand, out *Out, exact bool) {
	fh := FrontierOf(a.Ch).Height
	storage := a.Ch.GetFrontierAccountStore(types.PlasmaContract).Storage()
	type cand struct {
		u   *wallet.KeyPair
		ids []types.Hash
	}
	var cands []cand
	for _, u := range users {
		list, _, err := definition.GetFusionInfoListByOwner(storage, u.Address)
		if err != nil || !settled(a, u.Address) {
			continue
		}
		c := cand{u: u}
		left := new(big.Int).Set(fusedFor(a, u.Address))
		for _, f := range list {
			if f.Beneficiary == u.Address && f.ExpirationHeight <= fh {
				c.ids = append(c.ids, f.Id)
				left.Sub(left, f.Amount)
			}
		}
		// what stays fused for the account after the cancellation pays for less than the account can spend now
		if len(c.ids) > 0 && vm.FussedAmountToPlasma(left) < vm.FussedAmountToPlasma(fusedFor(a, u.Address)) &&
			availAt(a, u.Address, FrontierOf(a.Ch).Identifier()) > uint64(len(c.ids)+2)*constants.EmbeddedWResponse {
			cands = append(cands, c)
		}
	}
	if len(cands) == 0 {
		out.Count("history:cancel-episode-skipped(no account with a fusion of its own that can be cancelled)")
		return
	}
	c := cands[rng.Intn(len(cands))]
	was := fusedFor(a, c.u.Address)
	for _, id := range c.ids {
		if safeSend(a, &nom.AccountBlock{Address: c.u.Address, ToAddress: types.PlasmaContract,
			Data: definition.ABIPlasma.PackMethodPanic(definition.CancelFuseMethodName, id)}) == nil {
			out.Count("history:cancel-episode-skipped(cancel refused)")
			return
		}
	}
	out.Count("history:cancel-fuse")
	confirmCall(a, rng, out)
	before, ok := untilFusedChanges(a, c.u.Address, was)
	if !ok {
		out.Count("history:cancel-episode-skipped(fusion not cancelled after 4 momentums)")
		return
	}
	changed := before.Height + 1
	p.cancelled = append(p.cancelled, c.u)
	if !exact {
		for k := rng.Intn(4); k > 0; k-- {
			bystanders(a, rng, out, c.u.Address)
			a.Momentum()
		}
	}
	fr := FrontierOf(a.Ch)
	// the other direction at the same frontier: a block that acknowledges the frontier (fusion gone) and declares plasma
	// the account had one momentum earlier
	if rng.Intn(2) == 0 {
		p.probe(a, rng, out, "fusion-cancelled:block-acknowledges-a-momentum-after-the-cancel", c.u, actorTemplate(a, rng, c.u, nil), fr, before.Identifier(), 0)
	}
	lo := maxU(prevAck(a, c.u.Address), 1)
	if fr.Height > 5 && fr.Height-5 > lo {
		lo = fr.Height - 5
	}
	ackH := before.Height
	if !exact && lo < before.Height {
		ackH = lo + uint64(rng.Int63n(int64(before.Height-lo+1)))
	}
	b := p.validBlock(a, rng, out, "fusion-cancelled-between-ack-and-frontier", c.u, nil, momentumAt(a, ackH), fr.Identifier(), changed)
	if b != nil && !exact {
		if rng.Intn(2) == 0 {
			// a second block of the account on top, same acknowledged momentum: pays out of what the first left
			p.validBlock(a, rng, out, "fusion-cancelled-between-ack-and-frontier", c.u, nil, momentumAt(a, ackH), fr.Identifier(), changed)
		}
		bystanders(a, rng, out, c.u.Address)
	}
	a.Momentum()
}

func (p *depPlan) fuseEpisode(a *Node, rng *rand.Rand, out *Out) {
	var w *wallet.KeyPair
	fresh := false
	switch {
	case len(p.cancelled) > 0 && (rng.Intn(3) != 0 || p.fresh >= len(freshUsers)):
		i := rng.Intn(len(p.cancelled))
		w = p.cancelled[i]
		p.cancelled = append(p.cancelled[:i:i], p.cancelled[i+1:]...)
	case p.fresh < len(freshUsers):
		w, fresh = freshUsers[p.fresh], true
		p.fresh++
	default:
		out.Count("history:fuse-episode-skipped(no account below the plasma cap)")
		return
	}
	units := int64(10 + rng.Intn(41)) // 1..5 plain blocks worth of plasma: the plasma of confirmed blocks matters
	if !fresh && rng.Intn(2) == 0 {
		units = int64(200 + rng.Intn(600))
	}
	zexp := big.NewInt(g.Zexp)
	amount := new(big.Int).Mul(big.NewInt(units), zexp)
	var v *wallet.KeyPair
	for _, i := range rng.Perm(len(users)) {
		u := users[i]
		if u != w && balance(a, u.Address, types.QsrTokenStandard).Cmp(amount) > 0 && balance(a, u.Address, types.ZnnTokenStandard).Cmp(new(big.Int).Mul(big.NewInt(5), zexp)) > 0 &&
			availAt(a, u.Address, FrontierOf(a.Ch).Identifier()) > 4*constants.EmbeddedWResponse {
			v = u
			break
		}
	}
	if v == nil || !settled(a, w.Address) {
		out.Count("history:fuse-episode-skipped(nobody can pay / beneficiary has unconfirmed blocks)")
		if !fresh {
			p.cancelled = append(p.cancelled, w)
		}
		return
	}
	var fund *nom.AccountBlock
	if fresh {
		fund = safeSend(a, &nom.AccountBlock{Address: v.Address, ToAddress: w.Address, TokenStandard: types.ZnnTokenStandard, Amount: new(big.Int).Mul(big.NewInt(3), zexp)})
		if fund == nil {
			out.Count("history:fuse-episode-skipped(funding refused)")
			return
		}
	}
	was := fusedFor(a, w.Address)
	if safeSend(a, &nom.AccountBlock{Address: v.Address, ToAddress: types.PlasmaContract, TokenStandard: types.QsrTokenStandard, Amount: amount,
		Data: definition.ABIPlasma.PackMethodPanic(definition.FuseMethodName, w.Address)}) == nil {
		out.Count("history:fuse-episode-skipped(fuse refused)")
		return
	}
	out.Count("history:fuse")
	confirmCall(a, rng, out)
	before, ok := untilFusedChanges(a, w.Address, was)
	if !ok {
		out.Count("history:fuse-episode-skipped(nothing fused after 4 momentums)")
		return
	}
	changed := before.Height + 1
	// frontier = first momentum with the fusion: a block that acknowledges the momentum before it
	p.probe(a, rng, out, "fusion-added-between-ack-and-frontier", w, actorTemplate(a, rng, w, fund), before, FrontierOf(a.Ch).Identifier(), changed)
	if k := rng.Intn(4); k > 0 {
		for ; k > 0; k-- {
			bystanders(a, rng, out, w.Address)
			a.Momentum()
		}
		fr := FrontierOf(a.Ch)
		lo := maxU(prevAck(a, w.Address), 1)
		if fr.Height > 5 && fr.Height-5 > lo {
			lo = fr.Height - 5
		}
		if fund != nil {
			// the receive has to see its send (another reason to be refused otherwise)
			if h, _ := a.Ch.GetFrontierMomentumStore().GetBlockConfirmationHeight(fund.Hash); h > lo {
				lo = h
			}
		}
		if lo <= before.Height {
			p.probe(a, rng, out, "fusion-added-between-ack-and-frontier", w, actorTemplate(a, rng, w, fund),
				momentumAt(a, lo+uint64(rng.Int63n(int64(before.Height-lo+1)))), fr.Identifier(), changed)
		}
	}
	// the valid direction: acknowledges a momentum that has the fusion (the first one, or any up to the frontier) and
	// declares plasma that did not exist one momentum before the change
	fr := FrontierOf(a.Ch)
	ackH := changed + uint64(rng.Int63n(int64(fr.Height-changed+1)))
	if pa := prevAck(a, w.Address); pa > ackH {
		ackH = pa
	}
	b := p.validBlock(a, rng, out, "fusion-added:acknowledges-a-momentum-that-has-it", w, fund, momentumAt(a, ackH), before.Identifier(), changed)
	bystanders(a, rng, out, w.Address)
	a.Momentum()
	if b == nil {
		return
	}
	// the plasma of that block is committed by the momentum that confirmed it: a further block that acknowledges the
	// momentum before has less to spend than one that acknowledges the frontier
	k := FrontierOf(a.Ch)
	if h, _ := a.Ch.GetFrontierMomentumStore().GetBlockConfirmationHeight(b.Hash); h == k.Height {
		p.probe(a, rng, out, "own-block-confirmed-between-ack-and-frontier", w, actorTemplate(a, rng, w, nil), momentumAt(a, k.Height-1), k.Identifier(), k.Height)
	}
}

// a receive that acknowledges the momentum before the one that confirmed its send
func (p *depPlan) receiveProbe(a *Node, rng *rand.Rand, out *Out, sb *nom.AccountBlock, confirmed uint64) {
	kp := KeyOf(sb.ToAddress)
	if kp == nil || confirmed < 3 {
		return
	}
	ack := momentumAt(a, confirmed-1)
	if availAt(a, kp.Address, ack.Identifier()) < constants.AccountBlockBasePlasma {
		return
	}
	p.probe(a, rng, out, "send-confirmed-between-ack-and-frontier", kp,
		&nom.AccountBlock{BlockType: nom.BlockTypeUserReceive, Address: kp.Address, FromBlockHash: sb.Hash, FusedPlasma: constants.AccountBlockBasePlasma},
		ack, FrontierOf(a.Ch).Identifier(), confirmed)
}

func (p *depPlan) episode(a *Node, rng *rand.Rand, out *Out, step int) {
	kind, ok := p.episodes[step]
	if !ok {
		return
	}
	switch kind {
	case epCancelExact:
		p.cancelEpisode(a, rng, out, true)
	case epCancel:
		p.cancelEpisode(a, rng, out, false)
	case epFuse:
		p.fuseEpisode(a, rng, out)
	case epSpork:
		p.sporkEpisode(a, rng, out)
	}
}

// ---- spork: the set of methods (and their plasma) a send is checked against is the one of the acknowledged momentum

// The implemented accelerator spork is identified by a constant; the tests of the repository point it at the spork
// their history created (vm/embedded/tests: types.AcceleratorSpork.SporkId = id). Every node of this process sees the
// same value; restored after the history.
func (p *depPlan) restoreSpork() {
	if p.sporkSet {
		types.AcceleratorSpork.SporkId = p.sporkOrig
		delete(types.ImplementedSporksMap, p.sporkId)
		p.sporkSet = false
	}
}

func sporkInfo(a *Node, id types.Hash) *definition.Spork {
	return definition.GetSporkInfoById(a.Ch.GetFrontierAccountStore(types.SporkContract).Storage(), id)
}

// calls that the ledger takes only where the accelerator spork is enforced
func sporkTemplate(rng *rand.Rand, x *wallet.KeyPair) *nom.AccountBlock {
	if rng.Intn(2) == 0 {
		// CollectReward costs EmbeddedSimple + EmbeddedWWithdraw before the spork and EmbeddedSimple with it
		c := []types.Address{types.PillarContract, types.SentinelContract, types.StakeContract}[rng.Intn(3)]
		return &nom.AccountBlock{BlockType: nom.BlockTypeUserSend, Address: x.Address, ToAddress: c, TokenStandard: types.ZnnTokenStandard, Amount: big.NewInt(0),
			Data: definition.ABICommon.PackMethodPanic(definition.CollectRewardMethodName), FusedPlasma: uint64(constants.EmbeddedSimplePlasma) + uint64(rng.Intn(int(constants.EmbeddedWResponse)))}
	}
	// the accelerator contract has no CreateProject before the spork
	return &nom.AccountBlock{BlockType: nom.BlockTypeUserSend, Address: x.Address, ToAddress: types.AcceleratorContract, TokenStandard: types.ZnnTokenStandard,
		Amount: new(big.Int).Set(constants.ProjectCreationAmount), FusedPlasma: uint64(constants.EmbeddedSimplePlasma) + uint64(rng.Intn(50000)),
		Data: definition.ABIAccelerator.PackMethodPanic(definition.CreateProjectMethodName, fmt.Sprintf("project %d", rng.Intn(1000)), "a project", "zenon.network",
			big.NewInt(int64(1+rng.Intn(100))*g.Zexp), big.NewInt(int64(1+rng.Intn(1000))*g.Zexp))}
}

func (p *depPlan) sporkEpisode(a *Node, rng *rand.Rand, out *Out) {
	if p.sporkSet {
		return
	}
	create := safeSend(a, &nom.AccountBlock{Address: g.Spork.Address, ToAddress: types.SporkContract,
		Data: definition.ABISpork.PackMethodPanic(definition.SporkCreateMethodName, "spork-accelerator", "the accelerator spork of this history")})
	if create == nil {
		out.Count("history:spork-episode-skipped(create refused)")
		return
	}
	for k := 0; k < 4 && sporkInfo(a, create.Hash) == nil; k++ {
		a.Momentum()
	}
	if sporkInfo(a, create.Hash) == nil {
		out.Count("history:spork-episode-skipped(not created after 4 momentums)")
		return
	}
	p.sporkOrig, p.sporkId, p.sporkSet = types.AcceleratorSpork.SporkId, create.Hash, true
	types.AcceleratorSpork.SporkId = create.Hash
	types.ImplementedSporksMap[create.Hash] = true
	if safeSend(a, &nom.AccountBlock{Address: g.Spork.Address, ToAddress: types.SporkContract,
		Data: definition.ABISpork.PackMethodPanic(definition.SporkActivateMethodName, create.Hash)}) == nil {
		out.Count("history:spork-episode-skipped(activate refused)")
		return
	}
	for k := 0; k < 4 && !sporkInfo(a, create.Hash).Activated; k++ {
		a.Momentum()
	}
	info := sporkInfo(a, create.Hash)
	if !info.Activated {
		out.Count("history:spork-episode-skipped(not activated after 4 momentums)")
		return
	}
	out.Count("history:spork-activated")
	enf := info.EnforcementHeight
	for FrontierOf(a.Ch).Height < enf {
		bystanders(a, rng, out, types.ZeroAddress)
		a.Momentum()
	}
	if FrontierOf(a.Ch).Height != enf {
		out.Count("history:spork-episode-skipped(frontier beyond the enforcement height)")
		return
	}
	for round := 0; round < 2; round++ {
		fr := FrontierOf(a.Ch)
		var x *wallet.KeyPair
		for _, i := range rng.Perm(len(users)) {
			u := users[i]
			if settled(a, u.Address) && prevAck(a, u.Address) < enf && availAt(a, u.Address, momentumAt(a, enf-1).Identifier()) >= 400000 &&
				availAt(a, u.Address, fr.Identifier()) >= 400000 && balance(a, u.Address, types.ZnnTokenStandard).Cmp(big.NewInt(3*g.Zexp)) > 0 {
				x = u
				break
			}
		}
		if x == nil {
			out.Count("history:spork-blocks-skipped(no settled account with plasma)")
			break
		}
		// not valid: acknowledges a momentum in whose ledger the spork is not enforced yet
		lo := maxU(prevAck(a, x.Address), 1)
		if fr.Height > 5 && fr.Height-5 > lo {
			lo = fr.Height - 5
		}
		if lo <= enf-1 {
			p.probe(a, rng, out, "spork-enforced-between-ack-and-frontier", x, sporkTemplate(rng, x), momentumAt(a, lo+uint64(rng.Int63n(int64(enf-lo)))), fr.Identifier(), enf)
		}
		// valid: acknowledges a momentum that has it (the first one or a later one)
		tpl := sporkTemplate(rng, x)
		ack := momentumAt(a, enf+uint64(rng.Int63n(int64(fr.Height-enf+1))))
		tpl.MomentumAcknowledged = ack.Identifier()
		b, refusal := insertValid(a, tpl, nil)
		out.Oracle(b != nil, "block-judged-in-state-of-acknowledged-momentum", M{"expected": "accepted", "kind": "spork-enforced:acknowledges-a-momentum-that-has-it",
			"address": x.Address.String(), "acknowledged_height": U64(ack.Height), "frontier_height": U64(fr.Height), "spork_enforced_from_height": U64(enf),
			"to": tpl.ToAddress.String(), "fused_plasma_of_block": U64(tpl.FusedPlasma), "producer_said": refusal})
		if b != nil {
			kind := "spork-enforced:acknowledges-a-momentum-that-has-it"
			d := &depBlock{kind: kind, hash: b.Hash, addr: x.Address, ack: ack.Identifier(), builtAt: fr.Height, changed: enf, other: enf - 1, fused: b.FusedPlasma, incl: -1}
			p.blocks[b.Hash] = d
			out.Count("history:dependent-block:" + kind)
			out.Count(fmt.Sprintf("history:dependent-block:%s:distance-%d", kind, fr.Height-ack.Height))
		}
		for k := 1 + rng.Intn(3); k > 0; k-- {
			bystanders(a, rng, out, x.Address)
			a.Momentum()
		}
	}
}

// ---- receivers

type depLog struct {
	what    []string // one entry per event
	verdict []string
	detail  []M
}

func (l *depLog) add(what, verdict string, detail M) {
	l.what = append(l.what, what)
	l.verdict = append(l.verdict, verdict)
	l.detail = append(l.detail, detail)
}

func dependentSchedules(rng *rand.Rand, out *Out, chainD []*nom.DetailedMomentum, chainT interface{}, refDump []byte, fr *nom.Momentum, plan *depPlan) {
	n := len(chainD)
	incl := map[int][]*depBlock{}
	for i, d := range chainD {
		pos := 0
		for _, b := range d.AccountBlocks {
			if b.BlockType == nom.BlockTypeContractSend {
				continue
			}
			if db := plan.blocks[b.Hash]; db != nil {
				db.incl, db.pos = i, pos
				incl[i] = append(incl[i], db)
				out.Count("replay:dependent-block:" + db.kind)
				out.Count(fmt.Sprintf("replay:dependent-block:%s:distance-%d", db.kind, db.builtAt-db.ack.Height))
				out.Count(fmt.Sprintf("replay:dependent-block:acknowledged-momentum-%d-below-the-momentum-that-contains-it", i+2-int(db.ack.Height)))
			}
			pos++
		}
	}
	probesAt := map[uint64][]*depProbe{}
	for _, p := range plan.probes {
		probesAt[p.at] = append(probesAt[p.at], p)
	}
	// the restarted receiver: a restart costs as much as 10..20 momentums, so at most 3 per history - one before a momentum
	// with a block that acknowledges m right after the momentum m+1 that changed the state, the others taken in turn from:
	// momentums with other dependent blocks, probes gossiped right after the momentum that changed the state, other probes
	restartAt := map[uint64]bool{}
	{
		classes := make([][]uint64, 4)
		for i, l := range incl {
			c := 1
			for _, db := range l {
				if int(db.changed) == i+1 && int(db.ack.Height) == i {
					c = 0
				}
			}
			classes[c] = append(classes[c], uint64(i+1))
		}
		for _, p := range plan.probes {
			if p.validFrom == p.at {
				classes[2] = append(classes[2], p.at)
			} else {
				classes[3] = append(classes[3], p.at)
			}
		}
		for _, l := range classes {
			sort.Slice(l, func(i, j int) bool { return l[i] < l[j] })
			rng.Shuffle(len(l), func(i, j int) { l[i], l[j] = l[j], l[i] })
		}
		for k := 0; k < 8 && len(restartAt) < 3; k++ {
			for _, l := range classes {
				if k < len(l) && len(restartAt) < 3 {
					restartAt[l[k]] = true
				}
			}
		}
	}
	describeAll := func(i int) []M {
		var l []M
		for _, db := range incl[i] {
			l = append(l, db.describe())
		}
		return l
	}

	// mode: 0 long-running, one momentum per call; 1 restarted before every dependent block / probe, one momentum per call;
	// 2 long-running, batches
	drive := func(mode int) (*receiver, *depLog) {
		name := []string{"dependent-running", "dependent-restarted", "dependent-running-batches"}[mode]
		r := &receiver{b: OpenBare(""), allOk: true}
		lg := &depLog{}
		for r.height() < n {
			pos := r.height()
			fh := uint64(pos + 1)
			if ps := probesAt[fh]; len(ps) > 0 {
				if mode == 1 && restartAt[fh] {
					r.restart()
					out.Count("replay:restart-right-before-dependent-probe")
				}
				for _, p := range ps {
					took := r.gossip(WireCopyBlock(p.b), true) && r.b.Ch.GetPatch(p.b.Address, p.b.Identifier()) != nil
					v := "refused"
					if took {
						v = "pooled"
					}
					d := p.describe()
					d["schedule"] = name
					lg.add("gossip of "+fmt.Sprint(p.b.Header()), v, d)
					// a block an honest node refuses is refused by every honest node with the same momentums
					out.Oracle(!took, "block-refused-by-producer-refused-by-receiver", d)
					out.Count("replay:dependent-probe:" + p.kind)
					out.Count(fmt.Sprintf("replay:dependent-probe:%s:distance-%d", p.kind, p.at-p.b.MomentumAcknowledged.Height))
					if p.validFrom == p.at && mode != 1 {
						out.Count("replay:dependent-probe:gossiped-to-running-receiver-right-after-the-momentum-that-changed-the-state")
					}
				}
			}
			length := 1
			if mode == 2 {
				length = 1 + rng.Intn(6)
				// a batch ends where a probe is due
				for k := 1; k < length; k++ {
					if len(probesAt[fh+uint64(k)]) > 0 {
						length = k
						break
					}
				}
				for k := 0; k < length && pos+k < n; k++ {
					for range incl[pos+k] {
						out.Count("replay:dependent-block:delivered-in-a-batch-to-running-receiver")
					}
				}
			} else if len(incl[pos]) > 0 {
				if mode == 1 {
					if restartAt[fh] && len(probesAt[fh]) == 0 {
						r.restart()
					}
					if restartAt[fh] {
						out.Count("replay:restart-right-before-momentum-with-dependent-block")
					}
				} else {
					for _, db := range incl[pos] {
						out.Count("replay:dependent-block:delivered-to-running-receiver-one-momentum-per-call")
						if int(db.changed) == pos+1 && int(db.ack.Height) == pos {
							// frontier m+1 = the momentum that changed the state, block acknowledges m
							out.Count("replay:dependent-block:delivered-right-after-m+1-to-running-receiver")
							if db.pos == 0 {
								out.Count("replay:dependent-block:delivered-right-after-m+1-to-running-receiver:first-block-of-its-momentum")
							}
						}
					}
				}
			}
			idx, err := r.deliver(chainD, pos, length)
			if err != nil {
				r.allOk = false
				d := M{"schedule": name, "index": idx, "height": pos + idx + 2, "err": err.Error(), "dependent_blocks_in_momentum": describeAll(pos + idx)}
				lg.add(fmt.Sprintf("momentum %d", pos+idx+2), "refused", d)
				out.Oracle(false, "producer-momentum-accepted", d)
				break
			}
			lg.add(fmt.Sprintf("momentum %d", pos+2), "accepted", nil)
		}
		if r.allOk {
			out.Oracle(true, "producer-momentum-accepted", nil)
		}
		out.Case("replay", Tup(chainT, r.events), Tup(r.results, I64(int64(r.height()))), name+"-schedule")
		f := FrontierOf(r.b.Ch)
		out.Oracle(f.Hash == fr.Hash, "replay-frontier-hash-equal", M{"schedule": name, "producer": fmt.Sprint(fr.Identifier()), "receiver": fmt.Sprint(f.Identifier())})
		d := dumpStore(r.b.Ch.GetFrontierMomentumStore())
		out.Oracle(bytes.Equal(d, refDump), "replay-ledger-dump-equal", M{"schedule": name, "first_difference": firstDiff(refDump, d), "size": len(d)})
		return r, lg
	}

	run, runLog := drive(0)
	run.b.Destroy()
	cold, coldLog := drive(1)
	cold.b.Destroy()
	// same momentums, same probes, one process run vs restarts: same verdict for every single one
	same, where := true, M{}
	for i := 0; i < len(runLog.what) || i < len(coldLog.what); i++ {
		if i >= len(runLog.what) || i >= len(coldLog.what) || runLog.what[i] != coldLog.what[i] || runLog.verdict[i] != coldLog.verdict[i] {
			same = false
			where["event"] = i
			if i < len(runLog.what) {
				where["running_receiver"] = runLog.what[i] + ": " + runLog.verdict[i]
				where["running_receiver_detail"] = runLog.detail[i]
			}
			if i < len(coldLog.what) {
				where["restarted_receiver"] = coldLog.what[i] + ": " + coldLog.verdict[i]
				where["restarted_receiver_detail"] = coldLog.detail[i]
			}
			break
		}
	}
	out.Oracle(same, "running-receiver-accepts-what-restarted-receiver-accepts", where)
	if rng.Intn(3) == 0 {
		b, _ := drive(2)
		b.b.Destroy()
	}
}
