package main

import (
	"bytes"
	"encoding/json"
	"fmt"
	"math/big"
	"math/rand"
	"os"
	. "zharness/hz"

	"github.com/zenon-network/go-zenon/chain"
	g "github.com/zenon-network/go-zenon/chain/genesis/mock"
	"github.com/zenon-network/go-zenon/chain/nom"
	"github.com/zenon-network/go-zenon/chain/store"
	"github.com/zenon-network/go-zenon/common/db"
	"github.com/zenon-network/go-zenon/common/types"
	"github.com/zenon-network/go-zenon/consensus"
	"github.com/zenon-network/go-zenon/vm/constants"
	"github.com/zenon-network/go-zenon/vm/embedded/definition"
	"github.com/zenon-network/go-zenon/wallet"
	"github.com/zenon-network/go-zenon/zenon/mock"
)

func id40(b []byte) interface{} { return Big(new(big.Int).SetBytes(b[:5])) }

var users = []*wallet.KeyPair{g.User1, g.User2, g.User3, g.User4, g.User5}

// full key/value content of a momentum store (the whole ledger as of that momentum)
func dumpStore(st store.Momentum) []byte {
	it := st.(interface {
		NewIterator(prefix []byte) db.StorageIterator
	}).NewIterator(nil)
	defer it.Release()
	var buf bytes.Buffer
	for it.Next() {
		k, v := it.Key(), it.Value()
		fmt.Fprintf(&buf, "%x=%x\n", k, v)
	}
	return buf.Bytes()
}

func firstDiff(a, b []byte) string {
	la, lb := bytes.Split(a, []byte("\n")), bytes.Split(b, []byte("\n"))
	for i := 0; i < len(la) && i < len(lb); i++ {
		if !bytes.Equal(la[i], lb[i]) {
			x, y := string(la[i]), string(lb[i])
			if len(x) > 120 {
				x = x[:120]
			}
			if len(y) > 120 {
				y = y[:120]
			}
			return x + " | " + y
		}
	}
	return fmt.Sprintf("lengths %d %d", len(la), len(lb))
}

func balance(nd *Node, a types.Address, zts types.ZenonTokenStandard) *big.Int {
	b, _ := nd.Ch.GetFrontierAccountStore(a).GetBalance(zts)
	return b
}

// safeSend: the mock's InsertSendBlock calls t.Fatalf (a panic here) when the block is refused; a refused block is
// simply not part of the history
func safeSend(a *Node, b *nom.AccountBlock) (res *nom.AccountBlock) {
	defer func() {
		if r := recover(); r != nil {
			res = nil
		}
	}()
	return a.Z.InsertSendBlock(b, nil, mock.SkipVmChanges)
}

// the producer's history: transfers with their receives, contract calls, momentums (with auto-receives / updates)
func produceHistory(a *Node, rng *rand.Rand, out *Out, steps int, plan *depPlan) {
	var pending []*nom.AccountBlock // sends waiting to be received by a user
	zexp := big.NewInt(g.Zexp)
	for s := 0; s < steps; s++ {
		for k := 0; k < rng.Intn(4); k++ {
			u := users[rng.Intn(len(users))]
			switch rng.Intn(9) {
			case 0, 1, 2:
				to := users[rng.Intn(len(users))]
				zts := []types.ZenonTokenStandard{types.ZnnTokenStandard, types.QsrTokenStandard}[rng.Intn(2)]
				if balance(a, u.Address, zts).Cmp(zexp) > 0 {
					tpl := &nom.AccountBlock{Address: u.Address, ToAddress: to.Address, TokenStandard: zts,
						Amount: big.NewInt(int64(1 + rng.Intn(1000000))), Data: make([]byte, rng.Intn(20))}
					if fh := FrontierOf(a.Ch).Height; rng.Intn(3) == 0 && fh > 4 {
						// acknowledge an older momentum: the block is executed against the ledger as of that momentum
						old, _ := a.Ch.GetFrontierMomentumStore().GetMomentumByHeight(fh - uint64(1+rng.Intn(3)))
						tpl.MomentumAcknowledged = old.Identifier()
						out.Count("history:send-acknowledging-older-momentum")
					}
					b := safeSend(a, tpl)
					if b != nil {
						pending = append(pending, b)
					}
					out.Count("history:send")
				}
			case 3:
				if balance(a, u.Address, types.QsrTokenStandard).Cmp(new(big.Int).Mul(big.NewInt(60), zexp)) > 0 {
					safeSend(a, &nom.AccountBlock{Address: u.Address, ToAddress: types.PlasmaContract, TokenStandard: types.QsrTokenStandard,
						Amount: new(big.Int).Mul(big.NewInt(int64(10+rng.Intn(40))), zexp),
						Data:   definition.ABIPlasma.PackMethodPanic(definition.FuseMethodName, users[rng.Intn(len(users))].Address)})
					out.Count("history:fuse")
				}
			case 4:
				name := []string{g.Pillar1Name, g.Pillar2Name, g.Pillar3Name, "no-such-pillar"}[rng.Intn(4)]
				safeSend(a, &nom.AccountBlock{Address: u.Address, ToAddress: types.PillarContract,
					Data: definition.ABIPillars.PackMethodPanic(definition.DelegateMethodName, name)})
				out.Count("history:delegate")
			case 5:
				if rng.Intn(4) == 0 {
					// every backer of one pillar leaves it: an active pillar with delegated weight exactly zero (its entry in
					// a stored election has an empty weight; a restarted receiver reads it back from its consensus DB)
					name := []string{g.Pillar1Name, g.Pillar2Name, g.Pillar3Name}[rng.Intn(3)]
					if dl, err := definition.GetDelegationsList(a.Ch.GetFrontierAccountStore(types.PillarContract).Storage()); err == nil {
						for _, d := range dl {
							if kp := KeyOf(d.Backer); kp != nil && d.Name == name {
								safeSend(a, &nom.AccountBlock{Address: kp.Address, ToAddress: types.PillarContract,
									Data: definition.ABIPillars.PackMethodPanic(definition.UndelegateMethodName)})
							}
						}
						out.Count("history:pillar-drained-of-all-backers")
					}
					break
				}
				safeSend(a, &nom.AccountBlock{Address: u.Address, ToAddress: types.PillarContract,
					Data: definition.ABIPillars.PackMethodPanic(definition.UndelegateMethodName)})
				out.Count("history:undelegate")
			case 6:
				if balance(a, u.Address, types.ZnnTokenStandard).Cmp(new(big.Int).Mul(big.NewInt(20), zexp)) > 0 {
					safeSend(a, &nom.AccountBlock{Address: u.Address, ToAddress: types.StakeContract, TokenStandard: types.ZnnTokenStandard,
						Amount: new(big.Int).Mul(big.NewInt(int64(1+rng.Intn(5))), zexp),
						Data:   definition.ABIStake.PackMethodPanic(definition.StakeMethodName, int64(constants.StakeTimeMinSec))})
					out.Count("history:stake")
				}
			case 7:
				// a call that the contract refuses (amount below the minimum): executed, refunded
				if balance(a, u.Address, types.QsrTokenStandard).Cmp(zexp) > 0 {
					safeSend(a, &nom.AccountBlock{Address: u.Address, ToAddress: types.PlasmaContract, TokenStandard: types.QsrTokenStandard,
						Amount: big.NewInt(5), Data: definition.ABIPlasma.PackMethodPanic(definition.FuseMethodName, u.Address)})
					out.Count("history:refused-call")
				}
			default:
				if len(pending) > 0 {
					i := rng.Intn(len(pending))
					sb := pending[i]
					if h, _ := a.Ch.GetFrontierMomentumStore().GetBlockConfirmationHeight(sb.Hash); h != 0 {
						if rng.Intn(2) == 0 {
							plan.receiveProbe(a, rng, out, sb, h)
						}
						// an account whose fusion was cancelled cannot pay for the receive: stays pending
						if rb, _ := insertValid(a, &nom.AccountBlock{BlockType: nom.BlockTypeUserReceive}, sb); rb != nil {
							pending = append(pending[:i], pending[i+1:]...)
							out.Count("history:receive")
						}
					}
				}
			}
		}
		// a burst: one account publishes more blocks than a momentum takes (MaxAccountBlocksInMomentum = 100), so the tail
		// of the burst is confirmed one momentum later than its predecessor although it acknowledges an older momentum
		if rng.Intn(14) == 0 {
			u := users[rng.Intn(len(users))]
			to := users[rng.Intn(len(users))]
			n := 101 + rng.Intn(8)
			for k := 0; k < n; k++ {
				if safeSend(a, &nom.AccountBlock{Address: u.Address, ToAddress: to.Address, TokenStandard: types.ZnnTokenStandard,
					Amount: big.NewInt(int64(1 + k))}) == nil {
					break
				}
			}
			out.Count("history:burst-of-more-blocks-than-a-momentum-takes")
		}
		// the mock's own producer also generates contract receives and updates right away; the plain producer does not,
		// so calls stay unreceived for a while and are then executed against the (older) momentum that confirmed them
		if rng.Intn(3) == 0 {
			for k := 0; k < 1+rng.Intn(3); k++ {
				if err := ProduceAt(a, 10); err != nil {
					panic(err)
				}
			}
			out.Count("history:momentums-without-auto-receive")
		} else {
			a.Momentum()
		}
		// blocks whose verdict depends on the ledger of the momentum they acknowledge (dependent.go)
		plan.episode(a, rng, out, s)
	}
	// the wallets collect what is still waiting for them (up to 3 receives, one momentum)
	got := 0
	for _, sb := range pending {
		if h, _ := a.Ch.GetFrontierMomentumStore().GetBlockConfirmationHeight(sb.Hash); h != 0 && got < 3 {
			if rb, _ := insertValid(a, &nom.AccountBlock{BlockType: nom.BlockTypeUserReceive}, sb); rb != nil {
				got++
				out.Count("history:receive")
			}
		}
	}
	a.Momentum()
	a.Momentum()
}

type schedEvent struct {
	kind       int // 0 gossip, 1 deliver, 2 restart
	id, unc    interface{}
	lo, length int
}

func (e schedEvent) term() interface{} {
	switch e.kind {
	case 0:
		return Tup(I64(0), e.id, e.unc, I64(0))
	case 1:
		return Tup(I64(1), I64(int64(e.lo)), I64(int64(e.length)), I64(0))
	}
	return Tup(I64(2), I64(0), I64(0), I64(0))
}

// receiver under a random schedule; chain[i] is the producer's momentum of height i+2
type receiver struct {
	b       *BareNode
	events  []interface{}
	results []interface{}
	allOk   bool
}

func (r *receiver) height() int { return int(FrontierOf(r.b.Ch).Height) - 1 }

func (r *receiver) gossip(blk *nom.AccountBlock, genuineUnc bool) bool {
	err := r.b.Br.AddAccountBlocks([]*nom.AccountBlock{blk})
	if err != nil {
		return false
	}
	// only a block that really entered the pool is an event of the model
	if r.b.Ch.GetPatch(blk.Address, blk.Identifier()) != nil {
		r.events = append(r.events, schedEvent{kind: 0, id: id40(blk.Hash.Bytes()), unc: id40(blk.ChangesHash.Bytes())}.term())
	}
	return true
}
func (r *receiver) deliver(chainD []*nom.DetailedMomentum, lo, length int) (int, error) {
	if lo+length > len(chainD) {
		length = len(chainD) - lo
	}
	idx, err := r.b.Br.InsertChain(WireCopyAll(chainD[lo : lo+length]))
	r.events = append(r.events, schedEvent{kind: 1, lo: lo, length: length}.term())
	if err != nil {
		r.results = append(r.results, I64(int64(idx)))
	} else {
		r.results = append(r.results, I64(-1))
	}
	return idx, err
}
func (r *receiver) restart() {
	r.b = r.b.Reopen()
	r.events = append(r.events, schedEvent{kind: 2}.term())
}

func chainTerm(chainD []*nom.DetailedMomentum) interface{} {
	l := Lst()
	for _, d := range chainD {
		bl := Lst()
		for _, b := range d.AccountBlocks {
			bl = append(bl, Tup(id40(b.Hash.Bytes()), id40(b.ChangesHash.Bytes())))
		}
		l = append(l, bl)
	}
	return l
}

func isUserBlock(b *nom.AccountBlock) bool {
	return (b.BlockType == nom.BlockTypeUserSend || b.BlockType == nom.BlockTypeUserReceive) && !types.IsEmbeddedAddress(b.Address)
}

// a competing block of the same account for the same height: the owner signs a second send (other data bytes or
// another amount) on the same predecessor. It is NOT on the producer's chain; a node that heard of it through gossip
// (whichever of the two wins the pool's priority rule) must still accept the producer's momentum. In the model it is a
// Gossip event with an identifier that does not occur in the chain.
func sibling(rng *rand.Rand, orig *nom.AccountBlock, wantSmaller bool) *nom.AccountBlock {
	if orig.BlockType != nom.BlockTypeUserSend || types.IsEmbeddedAddress(orig.ToAddress) {
		return nil
	}
	var kp *wallet.KeyPair
	for _, u := range users {
		if u.Address == orig.Address {
			kp = u
		}
	}
	if kp == nil {
		return nil
	}
	for try := 0; try < 40; try++ {
		s := WireCopyBlock(orig)
		if len(s.Data) > 0 {
			s.Data = append([]byte{}, s.Data...)
			s.Data[rng.Intn(len(s.Data))] ^= byte(1 + rng.Intn(255))
		} else if s.Amount.Cmp(big.NewInt(40)) > 0 {
			s.Amount = new(big.Int).Sub(s.Amount, big.NewInt(int64(1+try)))
		} else {
			return nil
		}
		Sign(s, kp)
		if s.Hash == orig.Hash {
			continue
		}
		if (bytes.Compare(s.Hash.Bytes(), orig.Hash.Bytes()) < 0) == wantSmaller {
			return s
		}
	}
	return nil
}

func consensusAnswers(cs consensus.Consensus) string {
	rd := cs.FrontierPillarReader()
	st, err1 := rd.EpochStats(0)
	w, err2 := rd.GetPillarWeights()
	j1, _ := json.Marshal(st)
	j2, _ := json.Marshal(w)
	return fmt.Sprintf("%s|%s|%v|%v", j1, j2, err1 == nil, err2 == nil)
}

func randomSchedule(rng *rand.Rand, out *Out, chainD []*nom.DetailedMomentum, tag string) *receiver {
	r := &receiver{b: OpenBare(""), allOk: true}
	n := len(chainD)
	for r.height() < n {
		pos := r.height()
		// gossip: account blocks of upcoming momentums (up to `lag` ahead), genuine copies, random subset and order;
		// blocks whose predecessor or acknowledged momentum the node does not have yet are refused by the node
		if rng.Intn(3) != 0 {
			lag := 0
			if rng.Intn(2) == 0 {
				lag = rng.Intn(6)
			}
			var cand []*nom.AccountBlock
			ahead := map[types.Hash]int{}
			for i := pos; i < n && i <= pos+lag; i++ {
				for _, b := range chainD[i].AccountBlocks {
					if b.BlockType != nom.BlockTypeContractSend && rng.Intn(4) != 0 {
						cand = append(cand, WireCopyBlock(b))
						ahead[b.Hash] = i - pos
					}
				}
			}
			if rng.Intn(3) == 0 {
				rng.Shuffle(len(cand), func(i, j int) { cand[i], cand[j] = cand[j], cand[i] })
			}
			// competing siblings of some of the upcoming user sends, gossiped before or after the genuine block
			withSib := cand[:0:0]
			for _, b := range cand {
				var sb *nom.AccountBlock
				if rng.Intn(3) == 0 {
					sb = sibling(rng, b, rng.Intn(2) == 0)
				}
				switch {
				case sb == nil:
					withSib = append(withSib, b)
				case rng.Intn(3) == 0:
					withSib = append(withSib, b, sb)
				case rng.Intn(2) == 0:
					withSib = append(withSib, sb, b)
				default:
					withSib = append(withSib, sb) // only the sibling is heard of before the momentum arrives
				}
				if sb != nil {
					ahead[sb.Hash] = -1
				}
			}
			cand = withSib
			for _, b := range cand {
				if ahead[b.Hash] == -1 {
					if r.gossip(b, true) {
						out.Count("replay:gossip-accepted:sibling-of-a-chain-block")
					} else {
						out.Count("replay:gossip-refused:sibling-of-a-chain-block")
					}
					continue
				}
				if r.gossip(b, true) {
					out.Count("replay:gossip-accepted")
					kind := "user"
					if types.IsEmbeddedAddress(b.Address) {
						kind = "contract"
					}
					out.Count(fmt.Sprintf("replay:gossip-accepted:%s-block-%d-momentums-ahead-of-frontier", kind, ahead[b.Hash]))
				} else {
					out.Count("replay:gossip-refused")
				}
			}
		}
		k := 1 + rng.Intn(8)
		switch rng.Intn(12) {
		case 0, 1:
			k = 1 + rng.Intn(30)
		case 2:
			// everything the producer has, in one delivery (initial sync: the downloader hands over up to 256 momentums);
			// for most histories that is more than two election ticks ahead of the receiver's frontier
			k = n - pos
			out.Count(fmt.Sprintf("replay:deliver-rest-of-chain-in-one-call:%d-election-ticks-ahead", (pos+k)/tickMomentums()-pos/tickMomentums()))
		}
		lo := pos
		switch rng.Intn(8) {
		case 0: // overlap with what the node already has
			lo -= rng.Intn(4)
			if lo < 0 {
				lo = 0
			}
		case 1: // a batch from further ahead: cannot be linked, changes nothing
			if pos+2 < n {
				r.deliver(chainD, pos+1+rng.Intn(n-pos-1), 1+rng.Intn(3))
				out.Count("replay:deliver-gap")
			}
		}
		if idx, err := r.deliver(chainD, lo, k+(pos-lo)); err != nil {
			r.allOk = false
			out.Oracle(false, "producer-momentum-accepted", M{"schedule": tag, "index": idx, "height": lo + idx + 2, "err": err.Error()})
			break
		}
		out.Count("replay:deliver")
		if rng.Intn(3) == 0 {
			// read-only consensus queries in the middle of the replay (RPC traffic): they must not change anything
			rd := r.b.Cs.FrontierPillarReader()
			_, _ = rd.EpochStats(0)
			_, _ = rd.GetPillarWeights()
			out.Count("replay:read-only-consensus-queries")
		}
		if rng.Intn(6) == 0 {
			r.restart()
			out.Count("replay:restart")
		}
	}
	return r
}

func runReplay(rng *rand.Rand, n int, out *Out, _ []string) {
	for h := 0; h < n; h++ {
		// every third history enforces the accelerator spork on its way
		replayHistory(rng, out, h == 0, h%3 == 1)
	}
	// one long history per run (thorough: a few): old acknowledged momentums, gossip delays, large deliveries (longhist.go)
	for i := 0; i < 1+n/60; i++ {
		longHistory(rng, out)
	}
	fmt.Fprintf(os.Stderr, "pool-differs family: %v (forge %v) %v\n", poolSpent, poolForge, poolByTag)
}

func replayHistory(rng *rand.Rand, out *Out, first, withSpork bool) {
	a := NewNode()
	defer a.Stop()
	steps := 8 + rng.Intn(18) // plus 3..4 episodes of 4..10 momentums each (dependent.go)
	plan := newDepPlan(rng, steps, withSpork)
	defer plan.restoreSpork()
	produceHistory(a, rng, out, steps, plan)
	fr := FrontierOf(a.Ch)
	chainD := DetailedRange(a.Ch, 2, fr.Height)
	chainT := chainTerm(chainD)
	refDump := dumpStore(a.Ch.GetFrontierMomentumStore())
	refStats := consensusAnswers(a.Cs)

	var rs []*receiver
	for i := 0; i < 3; i++ {
		r := randomSchedule(rng, out, chainD, fmt.Sprintf("schedule-%d", i))
		rs = append(rs, r)
		out.Case("replay", Tup(chainT, r.events), Tup(r.results, I64(int64(r.height()))), "genuine-schedule")
		if r.allOk {
			out.Oracle(true, "producer-momentum-accepted", nil)
		}
		f := FrontierOf(r.b.Ch)
		out.Oracle(f.Hash == fr.Hash, "replay-frontier-hash-equal", M{"producer": fmt.Sprint(fr.Identifier()), "receiver": fmt.Sprint(f.Identifier())})
		d := dumpStore(r.b.Ch.GetFrontierMomentumStore())
		out.Oracle(bytes.Equal(d, refDump), "replay-ledger-dump-equal", M{"first_difference": firstDiff(refDump, d), "size": len(d)})
		// "answer every query identically": the consensus statistics of the running epoch and the pillar weights
		es := consensusAnswers(r.b.Cs)
		out.Oracle(es == refStats, "replay-consensus-answers-equal", M{"producer": refStats, "receiver": es})
	}
	// directed schedule: a block that acknowledges a momentum well below the momentum containing it is gossiped as early
	// as possible, i.e. when the receiver's frontier IS the acknowledged momentum; the producer executed it much later
	type early struct {
		i int
		b *nom.AccountBlock
	}
	var contractE, userE []early
	for i, d := range chainD {
		for _, b := range d.AccountBlocks {
			if b.BlockType == nom.BlockTypeContractSend || b.MomentumAcknowledged.Height+1 >= d.Momentum.Height || b.MomentumAcknowledged.Height < 2 {
				continue
			}
			if types.IsEmbeddedAddress(b.Address) {
				contractE = append(contractE, early{i, b})
			} else {
				userE = append(userE, early{i, b})
			}
		}
	}
	rng.Shuffle(len(contractE), func(i, j int) { contractE[i], contractE[j] = contractE[j], contractE[i] })
	rng.Shuffle(len(userE), func(i, j int) { userE[i], userE[j] = userE[j], userE[i] })
	if len(contractE) > 2 {
		contractE = contractE[:2]
	}
	if len(userE) > 1 {
		userE = userE[:1]
	}
	for _, e := range append(contractE, userE...) {
		i, b := e.i, e.b
		r := &receiver{b: OpenBare(""), allOk: true}
		ackIdx := int(b.MomentumAcknowledged.Height) - 2
		if idx, err := r.deliver(chainD, 0, ackIdx+1); err != nil {
			// a fresh node refuses a prefix of the producer's own chain
			out.Oracle(false, "producer-momentum-accepted", M{"schedule": "early-gossip-prefix", "index": idx, "height": idx + 2, "err": err.Error()})
			r.b.Destroy()
			continue
		}
		kind := "user"
		if types.IsEmbeddedAddress(b.Address) {
			kind = "contract"
		}
		if r.gossip(WireCopyBlock(b), true) {
			out.Count(fmt.Sprintf("replay:early-gossip-accepted:%s-block-%d-momentums-before-inclusion", kind, i-ackIdx))
		} else {
			out.Count("replay:early-gossip-refused:" + kind)
		}
		for r.height() < len(chainD) {
			if idx, err := r.deliver(chainD, r.height(), 1+rng.Intn(6)); err != nil {
				r.allOk = false
				out.Oracle(false, "producer-momentum-accepted", M{"schedule": "early-gossip", "index": idx, "err": err.Error()})
				break
			}
		}
		if r.allOk {
			out.Oracle(true, "producer-momentum-accepted", nil)
		}
		out.Case("replay", Tup(chainT, r.events), Tup(r.results, I64(int64(r.height()))), "early-gossip-schedule")
		dd := dumpStore(r.b.Ch.GetFrontierMomentumStore())
		out.Oracle(bytes.Equal(dd, refDump), "replay-ledger-dump-equal", M{"schedule": "early-gossip", "first_difference": firstDiff(refDump, dd)})
		r.b.Destroy()
	}
	// directed schedules for the blocks whose verdict depends on the acknowledged momentum's ledger
	dependentSchedules(rng, out, chainD, chainT, refDump, fr, plan)
	// receivers whose pool holds blocks the producer's chain does not contain: competing versions of user blocks (two
	// receives of one send, two sends at one height), blocks on top of them, blocks the producer never saw (poolvar.go)
	poolSchedules(rng, out, chainD, chainT, refDump, fr, "short-history", 10, 3, 2, rng.Intn(3) == 0)
	// answers from historical views: the live producer (warm caches) vs a receiver after a restart (cold)
	cold := rs[1].b.Reopen()
	rs[1].b = cold
	for q := 0; q < 4; q++ {
		h := 1 + uint64(rng.Intn(int(fr.Height)))
		m, _ := a.Ch.GetFrontierMomentumStore().GetMomentumByHeight(h)
		sa, sb := a.Ch.GetMomentumStore(m.Identifier()), cold.Ch.GetMomentumStore(m.Identifier())
		if sa == nil || sb == nil {
			out.Oracle(false, "replay-historical-view-equal", M{"height": U64(h), "missing": true})
			continue
		}
		da, dbb := dumpStore(sa), dumpStore(sb)
		out.Oracle(bytes.Equal(da, dbb), "replay-historical-view-equal", M{"height": U64(h), "first_difference": firstDiff(da, dbb)})
	}
	for _, r := range rs {
		r.b.Destroy()
	}

	if first {
		variantReproducer(rng, out, chainD, chainT, refDump)
	}
}

// F10, reproduced on every run: a relay gossips a user block with another ChangesHash (a field outside the hash and the
// signature, never compared for user blocks); the node pools it, later skips the producer's copy, and refuses the
// producer's momentum.
func variantReproducer(rng *rand.Rand, out *Out, chainD []*nom.DetailedMomentum, chainT interface{}, refDump []byte) {
	target, bi := -1, -1
	for i, d := range chainD {
		for j, b := range d.AccountBlocks {
			if isUserBlock(b) && target < 0 {
				target, bi = i, j
			}
		}
	}
	if target < 0 {
		out.Count("replay:variant-reproducer-skipped(no user block)")
		return
	}
	r := &receiver{b: OpenBare(""), allOk: true}
	defer func() { r.b.Destroy() }()
	if target > 0 {
		if _, err := r.deliver(chainD, 0, target); err != nil {
			panic(err)
		}
	}
	v := WireCopyBlock(chainD[target].AccountBlocks[bi])
	v.ChangesHash[0] ^= 0x01
	pooled := r.gossip(v, false)
	idx, err := r.deliver(chainD, target, 1)
	out.Case("replay", Tup(chainT, r.events), Tup(r.results, I64(int64(r.height()))), "variant-gossip")
	out.Oracle(err == nil, "user-block-changeshash-variant",
		M{"variant_pooled": pooled, "momentum_height": target + 2, "index": idx, "err": fmt.Sprint(err),
			"block": fmt.Sprint(v.Header())})
	if err == nil {
		// should the variant ever be accepted: the second observable is the stored bytes
		if _, e := r.deliver(chainD, r.height(), len(chainD)); e == nil {
			d := dumpStore(r.b.Ch.GetFrontierMomentumStore())
			out.Oracle(bytes.Equal(d, refDump), "replay-ledger-dump-equal", M{"schedule": "variant-gossip", "first_difference": firstDiff(refDump, d)})
		}
	}
	_ = chain.MaxAccountBlocksInMomentum
}
