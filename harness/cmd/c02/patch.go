package main

import (
	"fmt"
	"math/rand"
	. "zharness/hz"

	"github.com/zenon-network/go-zenon/common/db"
)

type recorder struct{ l []interface{} }

func (r *recorder) Put(k, v []byte) { r.l = append(r.l, Tup(Byt(k), Some(Byt(v)))) }
func (r *recorder) Delete(k []byte) { r.l = append(r.l, Tup(Byt(k), None())) }

// random write sequences on db.NewMemDB(); the same final content written in another order must give the same Changes()
func runPatch(rng *rand.Rand, n int, out *Out, _ []string) {
	for it := 0; it < n; it++ {
		nk := 1 + rng.Intn(6)
		keys := make([][]byte, nk)
		for i := range keys {
			switch rng.Intn(4) {
			case 0:
				keys[i] = []byte{byte(rng.Intn(4))}
			case 1:
				keys[i] = []byte{byte(rng.Intn(3)), byte(rng.Intn(3))} // prefixes of one another
			case 2:
				keys[i] = []byte{}
			default:
				keys[i] = make([]byte, 1+rng.Intn(4))
				rng.Read(keys[i])
			}
		}
		nops := rng.Intn(12)
		type op struct {
			k, v []byte
			del  bool
		}
		ops := make([]op, nops)
		terms := Lst()
		d := db.NewMemDB()
		for i := range ops {
			o := op{k: keys[rng.Intn(nk)]}
			if rng.Intn(4) == 0 {
				o.del = true
				d.Delete(o.k)
				terms = append(terms, Con("WDel", Byt(o.k)))
			} else {
				o.v = make([]byte, rng.Intn(3))
				rng.Read(o.v)
				d.Put(o.k, o.v)
				terms = append(terms, Con("WPut", Byt(o.k), Byt(o.v)))
			}
			ops[i] = o
		}
		p, err := d.Changes()
		if err != nil {
			panic(err)
		}
		rec := &recorder{l: Lst()}
		p.Replay(rec)
		out.Case("changes", terms, rec.l, fmt.Sprintf("%d-keys", nk))

		// direct statement: the final content written once, in a random key order, gives the same patch bytes
		final := map[string]op{}
		for _, o := range ops {
			final[string(o.k)] = o
		}
		var fk []string
		for k := range final {
			fk = append(fk, k)
		}
		rng.Shuffle(len(fk), func(i, j int) { fk[i], fk[j] = fk[j], fk[i] })
		d2 := db.NewMemDB()
		for _, k := range fk {
			if o := final[k]; o.del {
				d2.Delete(o.k)
			} else {
				d2.Put(o.k, o.v)
			}
		}
		p2, _ := d2.Changes()
		out.Oracle(string(p.Dump()) == string(p2.Dump()), "patch-independent-of-write-order", M{"ops": nops, "keys": nk})
	}
}
