package main

// ONE long history per run (>= 400 momentums, most of them empty, so it stays cheap) for the two quantifiers of the
// property that short histories cannot reach:
//
//   "distance between the acknowledged momentum and the receiver's frontier at processing time"
//       user blocks (sends, receives) that acknowledge an OLD momentum: distance frontier - acknowledged at the moment
//       the block is made and gossiped in {1, 5, 59, 60, 61, 299, 300, 301, 359, 360, 361, 400, the oldest momentum the
//       account may still acknowledge} plus random distances, by several accounts at once; each block then waits
//       k in {0, 1, 2, 5} momentums in the pools (the pillars of those slots produce without it: "their pool had not
//       received it / their momentum was full") before a momentum confirms it. The protocol's only rule for the
//       acknowledged momentum is monotonicity per account; nothing depends on the frontier of the node that verifies.
//   "delay between account-block gossip and momentum delivery", "with account blocks seen earlier through gossip or not
//   at all", "across restarts"
//       the ONLINE receiver follows momentum by momentum and hears every such block by gossip when it is made;
//       the RESTARTED receiver hears the same gossip but is restarted (empty pool) before the confirming momentum;
//       the LATE receivers see the block for the first time inside the delivered momentum (frontier = that momentum - 1).
//   "batch boundaries"
//       late receivers get the chain in ONE InsertChain call (the whole history), in batches of 31..256 (the downloader
//       delivers up to 256), or catch up from 1 / 2 / 3 / 10 election ticks behind in one call (a tick is
//       NodeCount * BlockTime = 30 momentums of the mock chain); the online receiver is their momentum-by-momentum twin.
//
// Oracles: every receiver accepts every delivery (`producer-momentum-accepted`), all schedules end with the same
// InsertChain verdicts and the same frontier as the momentum-by-momentum twin (`schedule-independent-acceptance`), and hold
// the producer's frontier hash and byte-identical ledger (`replay-frontier-hash-equal`, `replay-ledger-dump-equal`).

import (
	"bytes"
	"fmt"
	"math/big"
	"math/rand"
	"sort"
	"time"
	. "zharness/hz"

	g "github.com/zenon-network/go-zenon/chain/genesis/mock"
	"github.com/zenon-network/go-zenon/chain/nom"
	"github.com/zenon-network/go-zenon/common/types"
	"github.com/zenon-network/go-zenon/vm/constants"
	"github.com/zenon-network/go-zenon/vm/embedded/definition"
	"github.com/zenon-network/go-zenon/wallet"
)

// momentums per election tick on the mock chain (one momentum per slot)
func tickMomentums() int { return int(constants.ConsensusConfig.NodeCount) }

type oldAck struct {
	b       *nom.AccountBlock
	kind    string // send / receive
	class   string // distance class as planned ("359", "max-available", "random")
	dist    uint64 // producer's frontier height - acknowledged height when the block was made (= when it is gossiped)
	created int    // receiver height() (frontier height - 1) at which the block exists and is gossiped
	wait    int    // momentums produced without it before the one that confirms it
	incl    int    // index in chainD of the momentum that contains it (-1: never confirmed)
}

func (o *oldAck) describe() M {
	return M{"block": fmt.Sprint(o.b.Header()), "type": o.kind, "acknowledged_height": U64(o.b.MomentumAcknowledged.Height),
		"producer_frontier_when_made_and_gossiped": o.created + 1, "distance_when_gossiped": U64(o.dist),
		"momentums_produced_without_it": o.wait, "contained_in_momentum": o.incl + 2,
		"distance_for_a_node_that_first_sees_it_inside_that_momentum": o.incl + 1 - int(o.b.MomentumAcknowledged.Height)}
}

// produceSubset: the pillar elected for the next slot produces a momentum with the pooled blocks of the given accounts
// only (nil: an empty momentum); the other unconfirmed blocks stay in the pool
func produceSubset(a *Node, of map[types.Address]bool) error {
	prev := FrontierOf(a.Ch)
	t := time.Unix(int64(prev.TimestampUnix)+10, 0)
	exp, err := a.Cs.GetMomentumProducer(t)
	if err != nil {
		return err
	}
	var blocks []*nom.AccountBlock
	for _, b := range a.Ch.GetNewMomentumContent() {
		if of[b.Address] {
			blocks = append(blocks, b)
		}
	}
	m := &nom.Momentum{ChainIdentifier: a.Ch.ChainIdentifier(), PreviousHash: prev.Hash, Height: prev.Height + 1,
		TimestampUnix: uint64(t.Unix()), Content: nom.NewMomentumContent(blocks), Version: 1}
	m.EnsureCache()
	tx, err := a.Sv.GenerateMomentum(&nom.DetailedMomentum{Momentum: m, AccountBlocks: blocks}, KeyOf(*exp).Signer)
	if err != nil {
		return err
	}
	return AddMomentum(a.Ch, tx)
}

func produceLong(a *Node, rng *rand.Rand, out *Out) []*oldAck {
	busy := []*wallet.KeyPair{g.User1, g.User2}
	zexp := big.NewInt(g.Zexp)
	var toQuiet []*nom.AccountBlock // sends to the accounts that publish nothing during the quiet part
	// part 1: a little traffic of two accounts every 10..20 momentums (transfers, delegations that move the pillar weights,
	// fusions), everything else empty momentums
	target := uint64(405 + rng.Intn(25))
	for FrontierOf(a.Ch).Height < target {
		if rng.Intn(14) == 0 {
			u := busy[rng.Intn(len(busy))]
			switch rng.Intn(5) {
			case 0, 1:
				to := users[rng.Intn(len(users))]
				zts := []types.ZenonTokenStandard{types.ZnnTokenStandard, types.QsrTokenStandard}[rng.Intn(2)]
				if balance(a, u.Address, zts).Cmp(zexp) > 0 {
					if b := safeSend(a, &nom.AccountBlock{Address: u.Address, ToAddress: to.Address, TokenStandard: zts,
						Amount: big.NewInt(int64(1 + rng.Intn(1000000))), Data: make([]byte, rng.Intn(12))}); b != nil && to != g.User1 && to != g.User2 {
						toQuiet = append(toQuiet, b)
					}
					out.Count("long:history:send")
				}
			case 2:
				name := []string{g.Pillar1Name, g.Pillar2Name, g.Pillar3Name}[rng.Intn(3)]
				safeSend(a, &nom.AccountBlock{Address: u.Address, ToAddress: types.PillarContract,
					Data: definition.ABIPillars.PackMethodPanic(definition.DelegateMethodName, name)})
				out.Count("long:history:delegate")
			case 3:
				if balance(a, u.Address, types.QsrTokenStandard).Cmp(new(big.Int).Mul(big.NewInt(60), zexp)) > 0 {
					safeSend(a, &nom.AccountBlock{Address: u.Address, ToAddress: types.PlasmaContract, TokenStandard: types.QsrTokenStandard,
						Amount: new(big.Int).Mul(big.NewInt(int64(10+rng.Intn(40))), zexp),
						Data:   definition.ABIPlasma.PackMethodPanic(definition.FuseMethodName, freshUsers[rng.Intn(len(freshUsers))].Address)})
					out.Count("long:history:fuse")
				}
			default:
				safeSend(a, &nom.AccountBlock{Address: u.Address, ToAddress: types.PillarContract,
					Data: definition.ABIPillars.PackMethodPanic(definition.UndelegateMethodName)})
				out.Count("long:history:undelegate")
			}
		}
		if rng.Intn(6) == 0 {
			if err := ProduceAt(a, 10); err != nil {
				panic(err)
			}
		} else {
			a.Momentum()
		}
	}

	// part 2: the old acknowledgements, largest distance first (the acknowledged heights of an account never decrease)
	type cls struct {
		name string
		d    uint64
	}
	fh := FrontierOf(a.Ch).Height
	classes := []cls{{"max-available", 0}}
	for _, d := range []uint64{1, 5, 59, 60, 61, 299, 300, 301, 359, 360, 361, 400} {
		classes = append(classes, cls{fmt.Sprintf("%03d", d), d})
	}
	for k := 0; k < 3; k++ {
		classes = append(classes, cls{"random", 2 + uint64(rng.Intn(int(fh)-3))})
	}
	sort.SliceStable(classes[1:], func(i, j int) bool { return classes[1+i].d > classes[1+j].d })
	var res []*oldAck
	for _, c := range classes {
		for k := rng.Intn(3); k > 0; k-- {
			a.Momentum()
		}
		fr := FrontierOf(a.Ch)
		us := append([]*wallet.KeyPair{}, users...)
		rng.Shuffle(len(us), func(i, j int) { us[i], us[j] = us[j], us[i] })
		ks := []int{0, 1, 2, 5}
		rng.Shuffle(len(ks), func(i, j int) { ks[i], ks[j] = ks[j], ks[i] })
		var made []*oldAck
		for _, u := range us {
			if !settled(a, u.Address) {
				continue
			}
			ackH := uint64(0)
			if c.d == 0 {
				ackH = maxU(prevAck(a, u.Address), 1) // the oldest momentum this account may still acknowledge
				if ackH+50 > fr.Height {
					continue
				}
			} else if c.d < fr.Height && prevAck(a, u.Address) <= fr.Height-c.d {
				ackH = fr.Height - c.d
			} else {
				continue
			}
			ack := momentumAt(a, ackH)
			// a receive of a transfer that was confirmed as of the acknowledged momentum, or a transfer
			var blk *nom.AccountBlock
			kind := "send"
			if rng.Intn(3) == 0 {
				for i, sb := range toQuiet {
					if sb.ToAddress != u.Address {
						continue
					}
					if h, _ := a.Ch.GetFrontierMomentumStore().GetBlockConfirmationHeight(sb.Hash); h != 0 && h <= ackH {
						blk, _ = insertValid(a, &nom.AccountBlock{BlockType: nom.BlockTypeUserReceive, Address: u.Address, MomentumAcknowledged: ack.Identifier()}, sb)
						if blk != nil {
							kind = "receive"
							toQuiet = append(toQuiet[:i], toQuiet[i+1:]...)
						}
						break
					}
				}
			}
			if blk == nil {
				to := users[rng.Intn(len(users))]
				blk = safeSend(a, &nom.AccountBlock{Address: u.Address, ToAddress: to.Address, TokenStandard: types.ZnnTokenStandard,
					Amount: big.NewInt(int64(1 + rng.Intn(1000000))), Data: make([]byte, rng.Intn(8)), MomentumAcknowledged: ack.Identifier()})
			}
			if blk == nil {
				// the producer itself refuses the block: not part of the history
				out.Count("long:old-ack:refused-by-producer:distance-" + c.name)
				continue
			}
			o := &oldAck{b: WireCopyBlock(blk), kind: kind, class: c.name, dist: fr.Height - ackH, created: int(fr.Height) - 1, wait: ks[len(made)%len(ks)], incl: -1}
			made = append(made, o)
		}
		maxWait := 0
		for _, o := range made {
			if o.wait > maxWait {
				maxWait = o.wait
			}
		}
		for step := 0; step <= maxWait && len(made) > 0; step++ {
			of := map[types.Address]bool{}
			for _, o := range made {
				if o.wait == step {
					of[o.b.Address] = true
				}
			}
			if err := produceSubset(a, of); err != nil {
				panic(err)
			}
		}
		res = append(res, made...)
	}
	// whatever is left (auto-receives of the contracts, transfers to the busy accounts) and two more momentums
	a.Momentum()
	a.Momentum()
	a.Momentum()
	return res
}

func longHistory(rng *rand.Rand, out *Out) {
	a := NewNode()
	defer a.Stop()
	olds := produceLong(a, rng, out)
	fr := FrontierOf(a.Ch)
	chainD := DetailedRange(a.Ch, 2, fr.Height)
	chainT := chainTerm(chainD)
	refDump := dumpStore(a.Ch.GetFrontierMomentumStore())
	n := len(chainD)
	out.Count(fmt.Sprintf("long:history-of-%d+-momentums", n/100*100))

	byHash := map[types.Hash]*oldAck{}
	gossipAt := map[int][]*oldAck{}
	for _, o := range olds {
		byHash[o.b.Hash] = o
		gossipAt[o.created] = append(gossipAt[o.created], o)
	}
	inclAt := map[int][]*oldAck{}
	empty := 0
	for i, d := range chainD {
		if len(d.AccountBlocks) == 0 {
			empty++
		}
		for _, b := range d.AccountBlocks {
			if o := byHash[b.Hash]; o != nil {
				o.incl = i
				inclAt[i] = append(inclAt[i], o)
			}
		}
	}
	out.Count(fmt.Sprintf("long:empty-momentums-%d+", empty/100*100))
	for _, o := range olds {
		if o.incl < 0 {
			out.Count("long:old-ack:never-confirmed")
			continue
		}
		out.Count("long:old-ack:" + o.kind)
		out.Count(fmt.Sprintf("long:old-ack:confirmed-%d-momentums-after-the-gossip", o.incl-o.created))
		out.Count(fmt.Sprintf("long:old-ack:distance-when-gossiped:%s:confirmed-%d-momentums-later", o.class, o.incl-o.created))
	}
	describeAll := func(i int) []M {
		var l []M
		for _, o := range inclAt[i] {
			l = append(l, o.describe())
		}
		return l
	}

	type result struct {
		name     string
		ok       bool
		refused  int // height of the refused momentum (0: none)
		err      string
		frontier types.HashHeight
	}
	var results []result
	finish := func(name string, r *receiver, refused int, err error) {
		res := result{name: name, ok: r.allOk, refused: refused, frontier: FrontierOf(r.b.Ch).Identifier()}
		if err != nil {
			res.err = err.Error()
		}
		results = append(results, res)
		if r.allOk {
			out.Oracle(true, "producer-momentum-accepted", nil)
		}
		out.Case("replay", Tup(chainT, r.events), Tup(r.results, I64(int64(r.height()))), "long-history:"+name)
		out.Oracle(res.frontier.Hash == fr.Hash, "replay-frontier-hash-equal", M{"schedule": "long-history:" + name, "producer": fmt.Sprint(fr.Identifier()), "receiver": fmt.Sprint(res.frontier)})
		d := dumpStore(r.b.Ch.GetFrontierMomentumStore())
		out.Oracle(bytes.Equal(d, refDump), "replay-ledger-dump-equal", M{"schedule": "long-history:" + name, "first_difference": firstDiff(refDump, d), "size": len(d)})
		r.b.Destroy()
	}
	// one delivery; a refusal is reported with the input: the schedule so far, the frontier, the span of the delivery in
	// momentums and election ticks, and the old-acknowledgement blocks of the refused momentum
	deliver := func(name string, r *receiver, length int) (int, error) {
		pos := r.height()
		if pos+length > n {
			length = n - pos
		}
		idx, err := r.deliver(chainD, pos, length)
		if err != nil {
			r.allOk = false
			tm := tickMomentums()
			out.Oracle(false, "producer-momentum-accepted", M{"schedule": "long-history:" + name, "receiver_frontier_height": pos + 1,
				"delivered_heights": fmt.Sprintf("%d..%d", pos+2, pos+length+1), "delivery_momentums": length,
				"election_ticks_between_frontier_and_last_delivered": (pos+length)/tm - pos/tm,
				"index": idx, "refused_height": pos + idx + 2, "err": err.Error(),
				"old_acknowledgement_blocks_in_refused_momentum": describeAll(pos + idx)})
			return pos + idx + 2, err
		}
		return 0, nil
	}
	gossipDue := func(name string, r *receiver, pos int) {
		for _, o := range gossipAt[pos] {
			if r.gossip(WireCopyBlock(o.b), true) {
				out.Count("long:" + name + ":gossip-accepted")
			} else {
				out.Count("long:" + name + ":gossip-refused:distance-" + o.class)
			}
		}
	}

	// (i) online: momentum by momentum, every old-acknowledgement block by gossip when it is made. The twin of all others.
	{
		r := &receiver{b: OpenBare(""), allOk: true}
		refused, err := 0, error(nil)
		for r.height() < n && err == nil {
			gossipDue("online", r, r.height())
			for _, o := range inclAt[r.height()] {
				if r.b.Ch.GetPatch(o.b.Address, o.b.Identifier()) != nil {
					out.Count("long:online:block-in-pool-when-its-momentum-arrives")
				}
			}
			refused, err = deliver("online(momentum-by-momentum,gossip-first)", r, 1)
		}
		finish("online", r, refused, err)
	}
	// (iii) restarted: same gossip, batches below one tick that end where gossip is due; restarted between the gossip and
	// the confirming momentum (right after the gossip or right before the momentum), so the pool is empty again
	{
		r := &receiver{b: OpenBare(""), allOk: true}
		refused, err := 0, error(nil)
		restartBefore := map[int]bool{}
		for r.height() < n && err == nil {
			pos := r.height()
			if len(gossipAt[pos]) > 0 {
				gossipDue("restarted", r, pos)
				if rng.Intn(2) == 0 {
					r.restart()
					out.Count("long:restarted:restart-right-after-gossip")
				} else {
					for _, o := range gossipAt[pos] {
						if o.incl >= 0 {
							restartBefore[o.incl] = true
						}
					}
				}
			}
			if restartBefore[pos] {
				r.restart()
				out.Count("long:restarted:restart-right-before-confirming-momentum")
			}
			length := 1 + rng.Intn(25)
			for k := 1; k < length; k++ {
				if len(gossipAt[pos+k]) > 0 || restartBefore[pos+k] {
					length = k
					break
				}
			}
			for k := 0; k < length && pos+k < n; k++ {
				for _, o := range inclAt[pos+k] {
					if r.b.Ch.GetPatch(o.b.Address, o.b.Identifier()) == nil {
						out.Count("long:restarted:block-first-seen-inside-momentum-after-restart")
					}
				}
			}
			refused, err = deliver("restarted(gossip,then-restart-before-confirmation)", r, length)
		}
		finish("restarted", r, refused, err)
	}
	// (ii) late, no gossip at all: momentum by momentum (every block is first seen inside its momentum, frontier = momentum - 1)
	{
		r := &receiver{b: OpenBare(""), allOk: true}
		refused, err := 0, error(nil)
		for r.height() < n && err == nil {
			refused, err = deliver("late(momentum-by-momentum,no-gossip)", r, 1)
		}
		finish("late-momentum-by-momentum", r, refused, err)
	}
	// late: the whole history in one InsertChain call
	{
		r := &receiver{b: OpenBare(""), allOk: true}
		refused, err := deliver("late(whole-history-in-one-delivery)", r, n)
		out.Count(fmt.Sprintf("long:delivery-spanning-%02d-election-ticks", n/tickMomentums()))
		finish("late-one-delivery", r, refused, err)
	}
	// late: batches of 31..256
	{
		r := &receiver{b: OpenBare(""), allOk: true}
		refused, err := 0, error(nil)
		for r.height() < n && err == nil {
			length := 31 + rng.Intn(226)
			if rng.Intn(5) == 0 {
				length = 256
			}
			out.Count(fmt.Sprintf("long:batch-of-%03d+", length/50*50))
			refused, err = deliver("late(batches-of-31..256)", r, length)
		}
		finish("late-large-batches", r, refused, err)
	}
	// late: 1 / 2 / 3 / 10 election ticks behind, caught up in one delivery each (exactly k ticks, one momentum more, up to
	// one tick more), a few single momentums in between
	{
		r := &receiver{b: OpenBare(""), allOk: true}
		refused, err := 0, error(nil)
		behind := []int{1, 2, 3, 10}
		rng.Shuffle(len(behind), func(i, j int) { behind[i], behind[j] = behind[j], behind[i] })
		for i, k := range behind { // the ten-tick catch-up among the first two, so that the history is long enough for it
			if k == 10 && i > 1 {
				j := rng.Intn(2)
				behind[i], behind[j] = behind[j], behind[i]
			}
		}
		long := rng.Intn(len(behind))
		for i, k := range behind {
			for s := rng.Intn(4); s > 0 && r.height() < n && err == nil; s-- {
				refused, err = deliver("late(ticks-behind):single", r, 1)
			}
			if err != nil || r.height() >= n {
				break
			}
			extra := []int{0, 1, 2 + rng.Intn(8)}[rng.Intn(3)]
			if i == long {
				extra = tickMomentums() - 1
			}
			length := k*tickMomentums() + extra
			if r.height()+length > n {
				out.Count(fmt.Sprintf("long:receiver-%02d-ticks-behind:capped-by-end-of-history", k))
			} else {
				out.Count(fmt.Sprintf("long:receiver-%02d-ticks-behind", k))
			}
			refused, err = deliver(fmt.Sprintf("late(%d-election-ticks-behind,one-delivery)", k), r, length)
		}
		for r.height() < n && err == nil {
			refused, err = deliver("late(ticks-behind):rest", r, 31+rng.Intn(226))
		}
		finish("late-ticks-behind", r, refused, err)
	}

	// receivers whose pool holds other versions of the user blocks (other acknowledged momentum, near or far), blocks on top
	// of them and blocks the producer never saw (poolvar.go); their twin is the forge
	poolSchedules(rng, out, chainD, chainT, refDump, fr, "long-history", 24, 6, 1, rng.Intn(2) == 0)

	// the clause itself: whatever the schedule, the same deliveries succeed and the same frontier is reached
	twin := results[0]
	for _, x := range results[1:] {
		out.Oracle(x.ok == twin.ok && x.frontier == twin.frontier, "schedule-independent-acceptance",
			M{"history_momentums": n, "schedule": x.name, "all_deliveries_accepted": x.ok, "first_refused_height": x.refused, "err": x.err, "frontier": fmt.Sprint(x.frontier),
				"twin_schedule": twin.name + " (one momentum per InsertChain call, account blocks gossiped first)", "twin_all_deliveries_accepted": twin.ok,
				"twin_first_refused_height": twin.refused, "twin_err": twin.err, "twin_frontier": fmt.Sprint(twin.frontier), "producer_frontier": fmt.Sprint(fr.Identifier())})
	}
}
