package main

// Receivers whose POOL differs from the producer's when a momentum arrives.
//
// The property quantifies over "account blocks seen earlier through gossip or not at all". The other families gossip
// genuine copies of chain blocks (and siblings of plain transfers that differ in data / amount). This family covers what a
// receiver may hold in its unconfirmed pool that the producer's chain does NOT contain:
//
//   competing versions   the owner of an account signs a second version of a block for the same account height (a wallet
//                        that re-creates its receive / its transfer: newer or older MomentumAcknowledged, other data, other
//                        amount, more fused plasma = higher pool priority); the producer confirmed one version, the
//                        receiver got the other one by gossip: only the other one, the other one first, the confirmed one
//                        first; right before the momentum or many momentums earlier (the version then survives the pool
//                        rebuilds of the momentums in between); with genuine predecessors of the same momentum before it and
//                        genuine successors after it;
//   children             blocks the owner signed on top of the losing version (never confirmable);
//   strays               blocks the producer never saw at all: a transfer or a receive (of a send that the chain receives in
//                        another block, later, maybe at another height, or never) on the head of an account at some point of
//                        the history; if the chain later has a block at that height the stray competes with it, otherwise it
//                        stays pooled for the rest of the history.
//
// All these blocks are made by a real wallet: vm.Supervisor.GenerateFromTemplate with the owner's key on a FORGE node that
// follows the producer's chain momentum by momentum and holds nothing but genuine blocks when a momentum arrives (what it
// pools for making children is withdrawn before the next delivery). They are valid for every node that has the
// predecessor and the acknowledged momentum. The receivers of this family get them through ChainBridge.AddAccountBlocks
// at a position between "valid for the first time" and "right before the momentum of the confirmed version".
//
// Oracles (the clause: a momentum accepted by the producer is accepted by every honest node that has its predecessor,
// however the data reached it): `producer-momentum-accepted` for every delivery (failing input: the schedule, the refused
// height, and every foreign block the receiver was given for that momentum / still holds in its pool - account, height,
// what differs from the confirmed version, both headers, when it was gossiped, in which order), `schedule-independent-acceptance`
// against the forge (same verdicts, same frontier), `replay-frontier-hash-equal`, `replay-ledger-dump-equal` against the
// producer. Every receiver is also a `replay` case of the Coq model: a foreign block is a Gossip event whose identifier does
// not occur in the chain, which the model proves harmless.

import (
	"bytes"
	"fmt"
	"math/big"
	"math/rand"
	"strings"
	"time"
	. "zharness/hz"

	"github.com/zenon-network/go-zenon/chain/nom"
	"github.com/zenon-network/go-zenon/common/types"
	"github.com/zenon-network/go-zenon/vm/constants"
)

type forged struct {
	orig     *nom.AccountBlock   // the block of the producer's chain at that account height (nil: the chain has none)
	incl     int                 // index in chainD of the momentum that contains orig (-1: none)
	b        *nom.AccountBlock   // the block the producer never saw
	children []*nom.AccountBlock // signed on top of b
	preds    []*nom.AccountBlock // genuine blocks of the account in momentum incl below orig (must be pooled for b to link)
	succs    []*nom.AccountBlock // genuine blocks of the account in momentum incl on top of orig
	earliest int                 // first receiver position (momentums applied) at which b links and its acknowledged momentum is known
	madeAt   int                 // forge position when it was signed
	class    string              // competing-receive / competing-send / stray-receive / stray-send
	differs  []string
	priority string // against orig, by the pool's rule (plasma ratio, then smaller hash)
}

func (f *forged) describe() M {
	m := M{"class": f.class, "account": f.b.Address.String(), "account_height": U64(f.b.Height), "block_the_producer_never_saw": fmt.Sprint(f.b.Header()),
		"its_acknowledged_height": U64(f.b.MomentumAcknowledged.Height), "its_fused_plasma": U64(f.b.FusedPlasma), "differs_in": strings.Join(f.differs, ","),
		"blocks_signed_on_top_of_it": len(f.children), "signed_when_frontier_height_was": f.madeAt + 1, "valid_from_frontier_height": f.earliest + 1}
	if f.orig != nil {
		m["confirmed_version"] = fmt.Sprint(f.orig.Header())
		m["confirmed_version_acknowledged_height"] = U64(f.orig.MomentumAcknowledged.Height)
		m["confirmed_in_momentum"] = f.incl + 2
		m["pool_priority_against_confirmed_version"] = f.priority
		m["genuine_blocks_of_the_account_below_in_that_momentum"] = len(f.preds)
	}
	if f.b.BlockType == nom.BlockTypeUserReceive {
		m["receives_send"] = f.b.FromBlockHash.String()
	}
	return m
}

func copyTemplate(b *nom.AccountBlock) *nom.AccountBlock {
	t := &nom.AccountBlock{Version: b.Version, ChainIdentifier: b.ChainIdentifier, BlockType: b.BlockType, PreviousHash: b.PreviousHash, Height: b.Height,
		MomentumAcknowledged: b.MomentumAcknowledged, Address: b.Address, ToAddress: b.ToAddress, TokenStandard: b.TokenStandard, FromBlockHash: b.FromBlockHash,
		Data: append([]byte{}, b.Data...), FusedPlasma: b.FusedPlasma, Difficulty: b.Difficulty, Nonce: b.Nonce}
	if b.Amount != nil {
		t.Amount = new(big.Int).Set(b.Amount)
	}
	return t
}

func poolPriority(a, b *nom.AccountBlock) string {
	l, r := a.TotalPlasma*b.BasePlasma, b.TotalPlasma*a.BasePlasma
	switch {
	case l > r:
		return "higher(plasma-ratio)"
	case l < r:
		return "lower(plasma-ratio)"
	case bytes.Compare(a.Hash.Bytes(), b.Hash.Bytes()) < 0:
		return "higher(smaller-hash)"
	}
	return "lower(larger-hash)"
}

type forge struct {
	r       *receiver
	rng     *rand.Rand
	out     *Out
	pending map[types.Hash]*nom.AccountBlock // sends to user accounts confirmed on the chain so far, not received on the chain so far
	rebuilt int
}

func (fg *forge) momentum(h uint64) *nom.Momentum {
	m, err := fg.r.b.Ch.GetFrontierMomentumStore().GetMomentumByHeight(h)
	if err != nil || m == nil {
		panic(fmt.Sprintf("forge: no momentum %d: %v", h, err))
	}
	return m
}

// lowest momentum height a block on top of `prev` may acknowledge (the predecessor's), and the first position at which a
// node has that predecessor confirmed (-1: it is not confirmed on the forge)
func (fg *forge) below(addr types.Address, prev types.HashHeight) (lowAck uint64, predPos int) {
	if prev == types.ZeroHashHeight {
		return 1, 0
	}
	st := fg.r.b.Ch.GetAccountStore(addr, prev)
	if st == nil {
		return 0, -1
	}
	pb, err := st.Frontier()
	if err != nil || pb == nil {
		return 0, -1
	}
	h, _ := fg.r.b.Ch.GetFrontierMomentumStore().GetBlockConfirmationHeight(prev.Hash)
	if h == 0 {
		return maxU(pb.MomentumAcknowledged.Height, 1), -1
	}
	return maxU(pb.MomentumAcknowledged.Height, 1), int(h) - 1
}

func (fg *forge) generate(tpl *nom.AccountBlock) *nom.AccountBlockTransaction {
	kp := KeyOf(tpl.Address)
	tx, err := fg.r.b.Sv.GenerateFromTemplate(tpl, kp.Signer)
	if err != nil || tx == nil {
		return nil
	}
	return tx
}

// a second version of chain block B (the forge's head of the account is B's predecessor): same account height, signed by
// the same owner
func (fg *forge) variant(B *nom.AccountBlock, pos int) (*nom.AccountBlockTransaction, []string) {
	rng := fg.rng
	frontier := uint64(pos + 1)
	lowAck, _ := fg.below(B.Address, B.Previous())
	if lowAck == 0 {
		return nil, nil
	}
	if B.BlockType == nom.BlockTypeUserReceive {
		h, _ := fg.r.b.Ch.GetFrontierMomentumStore().GetBlockConfirmationHeight(B.FromBlockHash)
		if h == 0 {
			return nil, nil
		}
		lowAck = maxU(lowAck, h)
	}
	toUser := B.BlockType == nom.BlockTypeUserSend && !types.IsEmbeddedAddress(B.ToAddress)
	for try := 0; try < 5; try++ {
		tpl := copyTemplate(B)
		var differs []string
		// the typical retry: everything the same, another acknowledged momentum
		if (try < 3 || !toUser) && frontier > lowAck && (rng.Intn(4) != 0 || !toUser) {
			var h uint64
			switch c := rng.Intn(4); {
			case c <= 1 && B.MomentumAcknowledged.Height < frontier: // newer than the confirmed version's
				h = B.MomentumAcknowledged.Height + 1 + uint64(rng.Intn(int(frontier-B.MomentumAcknowledged.Height)))
			case c == 2 && B.MomentumAcknowledged.Height > lowAck: // older
				h = lowAck + uint64(rng.Intn(int(B.MomentumAcknowledged.Height-lowAck)))
			default:
				h = lowAck + uint64(rng.Intn(int(frontier-lowAck+1)))
			}
			if h != B.MomentumAcknowledged.Height {
				tpl.MomentumAcknowledged = fg.momentum(h).Identifier()
				if h > B.MomentumAcknowledged.Height {
					differs = append(differs, "momentum-acknowledged(newer)")
				} else {
					differs = append(differs, "momentum-acknowledged(older)")
				}
			}
		}
		if toUser && (len(differs) == 0 || rng.Intn(3) == 0) {
			if len(tpl.Data) > 0 && rng.Intn(2) == 0 {
				tpl.Data[rng.Intn(len(tpl.Data))] ^= byte(1 + rng.Intn(255))
				differs = append(differs, "data")
			} else if tpl.Amount != nil && tpl.Amount.Cmp(big.NewInt(40)) > 0 {
				tpl.Amount.Sub(tpl.Amount, big.NewInt(int64(1+rng.Intn(30))))
				differs = append(differs, "amount")
			} else if len(tpl.Data) > 0 {
				tpl.Data[rng.Intn(len(tpl.Data))] ^= byte(1 + rng.Intn(255))
				differs = append(differs, "data")
			}
		}
		if try < 2 && tpl.Difficulty == 0 && (len(differs) == 0 || rng.Intn(3) == 0) {
			// more fused plasma than needed: the better plasma ratio wins the pool whatever the order of arrival
			add := uint64(1 + rng.Intn(2*constants.AccountBlockBasePlasma))
			if tpl.FusedPlasma+add <= constants.MaxPlasmaForAccountBlock {
				tpl.FusedPlasma += add
				differs = append(differs, "fused-plasma")
			}
		}
		if len(differs) == 0 {
			continue
		}
		if tx := fg.generate(tpl); tx != nil && tx.Block.Hash != B.Hash {
			return tx, differs
		}
	}
	return nil, nil
}

// a block nobody but its owner and the receivers ever see, on the head of a settled account
func (fg *forge) stray(addr types.Address, pos int) (*nom.AccountBlockTransaction, string) {
	rng := fg.rng
	ch := fg.r.b.Ch
	head := ch.GetFrontierAccountStore(addr).Identifier()
	if head != ch.GetFrontierMomentumStore().GetAccountStore(addr).Identifier() {
		return nil, ""
	}
	lowAck, _ := fg.below(addr, head)
	frontier := uint64(pos + 1)
	if lowAck == 0 || lowAck > frontier {
		return nil, ""
	}
	if rng.Intn(3) != 0 {
		for _, sb := range fg.pending { // map order: which send is taken does not matter, taken at most once per call
			if sb.ToAddress != addr {
				continue
			}
			h, _ := ch.GetFrontierMomentumStore().GetBlockConfirmationHeight(sb.Hash)
			if h == 0 || h > frontier {
				continue
			}
			lo := maxU(lowAck, h)
			ack := fg.momentum(lo + uint64(rng.Intn(int(frontier-lo+1))))
			if tx := fg.generate(&nom.AccountBlock{BlockType: nom.BlockTypeUserReceive, Address: addr, FromBlockHash: sb.Hash, MomentumAcknowledged: ack.Identifier()}); tx != nil {
				return tx, "stray-receive"
			}
			break
		}
	}
	bal, _ := ch.GetFrontierAccountStore(addr).GetBalance(types.ZnnTokenStandard)
	if bal == nil || bal.Cmp(big.NewInt(2000000)) <= 0 {
		return nil, ""
	}
	ack := fg.momentum(lowAck + uint64(rng.Intn(int(frontier-lowAck+1))))
	tx := fg.generate(&nom.AccountBlock{BlockType: nom.BlockTypeUserSend, Address: addr, ToAddress: users[rng.Intn(len(users))].Address,
		TokenStandard: types.ZnnTokenStandard, Amount: big.NewInt(int64(1 + rng.Intn(1000000))), Data: make([]byte, rng.Intn(12)), MomentumAcknowledged: ack.Identifier()})
	if tx == nil {
		return nil, ""
	}
	return tx, "stray-send"
}

func (fg *forge) pool(tx *nom.AccountBlockTransaction) bool {
	ins := fg.r.b.Ch.AcquireInsert("forge")
	defer ins.Unlock()
	return fg.r.b.Ch.AddAccountBlockTransaction(ins, tx) == nil
}

// blocks the owner signs on top of its (never confirmed) block: the forge pools the block, signs 1..2 transfers on top,
// and withdraws all of it again
func (fg *forge) childrenOf(tx *nom.AccountBlockTransaction, genuine *nom.AccountBlock, preds []*nom.AccountBlock) []*nom.AccountBlock {
	rng := fg.rng
	if !fg.pool(tx) {
		return nil
	}
	var res []*nom.AccountBlock
	parent := tx.Block
	for k := 1 + rng.Intn(2); k > 0; k-- {
		bal, _ := fg.r.b.Ch.GetFrontierAccountStore(parent.Address).GetBalance(types.ZnnTokenStandard)
		if bal == nil || bal.Cmp(big.NewInt(2000000)) <= 0 {
			break
		}
		tpl := &nom.AccountBlock{BlockType: nom.BlockTypeUserSend, Address: parent.Address, ToAddress: users[rng.Intn(len(users))].Address,
			TokenStandard: types.ZnnTokenStandard, Amount: big.NewInt(int64(1 + rng.Intn(1000))), Data: make([]byte, rng.Intn(6))}
		if rng.Intn(2) == 0 {
			tpl.MomentumAcknowledged = parent.MomentumAcknowledged // else: the frontier
		}
		ctx := fg.generate(tpl)
		if ctx == nil {
			break
		}
		res = append(res, WireCopyBlock(ctx.Block))
		if k > 1 && !fg.pool(ctx) {
			break
		}
		parent = ctx.Block
	}
	// withdraw: the genuine version replaces the forged one as InsertChain would do it; if that does not leave a pool of
	// genuine blocks only, the forge is restarted (its pool is memory) and pools the genuine predecessors again
	clean := false
	if genuine != nil {
		if gtx, err := fg.r.b.Sv.ApplyBlock(WireCopyBlock(genuine)); err == nil {
			ins := fg.r.b.Ch.AcquireInsert("forge")
			err = fg.r.b.Ch.ForceAddAccountBlockTransaction(ins, gtx)
			ins.Unlock()
			clean = err == nil && fg.r.b.Ch.GetPatch(tx.Block.Address, tx.Block.Identifier()) == nil
		}
	}
	if !clean {
		fg.r.restart()
		fg.rebuilt++
		for _, p := range preds {
			fg.r.gossip(WireCopyBlock(p), true)
		}
		if genuine != nil {
			fg.out.Count("pool:forge-restarted-to-withdraw-its-blocks:confirmed-version-did-not-replace-them")
		}
		fg.out.Count("pool:forge-restarted-to-withdraw-its-blocks")
	}
	return res
}

type chainSlot struct {
	idx int
	b   *nom.AccountBlock
}

// one pass of the forge over the chain; returns the foreign blocks and the forge (a receiver that followed momentum by
// momentum: the twin of the receivers of this family)
func forgeForeignBlocks(rng *rand.Rand, out *Out, chainD []*nom.DetailedMomentum, tag string, maxVariants, maxStrays int, density int) ([]*forged, *receiver, int, error) {
	fg := &forge{r: &receiver{b: OpenBare(""), allOk: true}, rng: rng, out: out, pending: map[types.Hash]*nom.AccountBlock{}}
	n := len(chainD)
	slot := map[types.Address]map[uint64]chainSlot{}
	for i, d := range chainD {
		for _, b := range d.AccountBlocks {
			if isUserBlock(b) {
				if slot[b.Address] == nil {
					slot[b.Address] = map[uint64]chainSlot{}
				}
				slot[b.Address][b.Height] = chainSlot{i, b}
			}
		}
	}
	var res []*forged
	variants, recvVariants, strays, withChildren := 0, 0, 0, 0
	for pos := 0; pos < n; pos++ {
		d := chainD[pos]
		// competing versions of the user blocks of the next momentum
		perAccount := map[types.Address][]*nom.AccountBlock{}
		var order []types.Address
		for _, b := range d.AccountBlocks {
			if isUserBlock(b) && KeyOf(b.Address) != nil {
				if perAccount[b.Address] == nil {
					order = append(order, b.Address)
				}
				perAccount[b.Address] = append(perAccount[b.Address], b)
			}
		}
		for _, addr := range order {
			blocks := perAccount[addr]
			made := 0
			var preds []*nom.AccountBlock
			for j, B := range blocks {
				isRecv := B.BlockType == nom.BlockTypeUserReceive
				// (the receives of a history come late and are few: they have their own allowance)
				if (!isRecv && variants >= maxVariants) || (isRecv && recvVariants >= maxVariants) || made >= 2 || j > 3 {
					break
				}
				if fg.r.b.Ch.GetFrontierAccountStore(addr).Identifier() != B.Previous() {
					out.Count("pool:forge-head-is-not-the-predecessor-of-the-chain-block")
					break
				}
				if rng.Intn(density) == 0 || isRecv {
					if tx, differs := fg.variant(B, pos); tx != nil {
						f := &forged{orig: B, incl: pos, b: WireCopyBlock(tx.Block), preds: append([]*nom.AccountBlock{}, preds...), madeAt: pos, differs: differs,
							class: "competing-send", priority: poolPriority(tx.Block, B)}
						if B.BlockType == nom.BlockTypeUserReceive {
							f.class = "competing-receive"
						}
						for _, s := range blocks[j+1:] {
							if len(f.succs) < 3 {
								f.succs = append(f.succs, s)
							}
						}
						_, predPos := fg.below(addr, B.Previous())
						f.earliest = pos
						if len(preds) == 0 && predPos >= 0 {
							f.earliest = predPos
							if a := int(f.b.MomentumAcknowledged.Height) - 1; a > f.earliest {
								f.earliest = a
							}
						}
						if withChildren < 4 && rng.Intn(3) == 0 {
							f.children = fg.childrenOf(tx, B, preds)
							if len(f.children) > 0 {
								withChildren++
							}
						}
						res = append(res, f)
						if isRecv {
							recvVariants++
						} else {
							variants++
						}
						made++
					} else {
						out.Count("pool:no-competing-version-possible")
					}
				}
				if j+1 < len(blocks) {
					// the next block of the account in this momentum needs this one in the pool
					if fg.r.b.Ch.GetPatch(addr, B.Identifier()) == nil && !fg.r.gossip(WireCopyBlock(B), true) {
						break
					}
					preds = append(preds, B)
				}
			}
		}
		// a stray block on the head of some account
		if strays < maxStrays && rng.Intn(2*density) == 0 {
			u := users[rng.Intn(len(users))]
			if tx, class := fg.stray(u.Address, pos); tx != nil {
				f := &forged{incl: -1, b: WireCopyBlock(tx.Block), madeAt: pos, class: class, differs: []string{"not-on-the-chain"}}
				if s, ok := slot[u.Address][tx.Block.Height]; ok {
					f.orig, f.incl, f.priority = s.b, s.idx, poolPriority(tx.Block, s.b)
					f.differs = []string{"another-block-confirmed-at-that-height-later"}
				}
				_, predPos := fg.below(u.Address, tx.Block.Previous())
				f.earliest = pos
				if predPos >= 0 {
					f.earliest = predPos
					if a := int(f.b.MomentumAcknowledged.Height) - 1; a > f.earliest {
						f.earliest = a
					}
				}
				if fg.rebuilt < 1 && rng.Intn(4) == 0 {
					f.children = fg.childrenOf(tx, nil, nil)
				}
				res = append(res, f)
				strays++
			}
		}
		idx, err := fg.r.deliver(chainD, pos, 1)
		if err != nil {
			fg.r.allOk = false
			out.Oracle(false, "producer-momentum-accepted", M{"schedule": tag + ":forge(momentum-by-momentum, pool holds genuine blocks only)", "index": idx, "refused_height": pos + 2, "err": err.Error()})
			return res, fg.r, pos + 2, err
		}
		for _, b := range d.AccountBlocks {
			if b.IsSendBlock() && !types.IsEmbeddedAddress(b.ToAddress) && KeyOf(b.ToAddress) != nil {
				fg.pending[b.Hash] = b
			} else if b.IsReceiveBlock() {
				delete(fg.pending, b.FromBlockHash)
			}
		}
	}
	return res, fg.r, 0, nil
}

// competing versions of an account's FIRST block are part of the family: /repo 417e0a5 fixed chain/account_pool.go
// canRollback, which looked up the block at height 0 for them and answered "missing previous" (known_findings.d/C02.json,
// design.d/C02.md); true = leave them out (only for experiments on older trees)
const skipFirstBlock = false

const (
	orderForeignOnly = iota
	orderForeignFirst
	orderConfirmedFirst
)

var orderNames = []string{"only-the-unconfirmed-version-heard-of", "unconfirmed-version-first-then-confirmed-version", "confirmed-version-first-then-unconfirmed-version"}

type poolGossip struct {
	f     *forged
	at    int // receiver position at which it is handed over
	order int
	succs bool
	// what happened
	pooled, childrenPooled int
	done                   bool
}

func (g *poolGossip) describe(r *receiver) M {
	m := g.f.describe()
	m["gossiped_when_receiver_frontier_height_was"] = g.at + 1
	m["order"] = orderNames[g.order]
	m["entered_the_pool_when_gossiped"] = g.pooled > 0
	m["blocks_on_top_of_it_that_entered_the_pool"] = g.childrenPooled
	m["still_in_the_pool_now"] = r.b.Ch.GetPatch(g.f.b.Address, g.f.b.Identifier()) != nil
	if g.f.incl >= 0 {
		m["momentums_between_gossip_and_confirmed_version"] = g.f.incl - g.at
	}
	return m
}

// one receiver of the family. batches: deliveries of 1..maxBatch momentums that end where gossip is due.
func poolReceiver(rng *rand.Rand, out *Out, chainD []*nom.DetailedMomentum, fs []*forged, tag, name string, maxBatch int) (*receiver, int, error) {
	n := len(chainD)
	r := &receiver{b: OpenBare(""), allOk: true}
	due := map[int][]*poolGossip{}
	var all []*poolGossip
	for _, f := range fs {
		last := f.incl
		if last < 0 {
			last = n - 1
		}
		if f.earliest > last || (skipFirstBlock && f.b.Height == 1 && f.orig != nil) {
			continue
		}
		g := &poolGossip{f: f, at: last, order: rng.Intn(3), succs: rng.Intn(2) == 0}
		if f.orig == nil || rng.Intn(2) == 0 {
			g.at = f.earliest + rng.Intn(last-f.earliest+1)
		}
		if rng.Intn(3) == 0 {
			g.order = orderForeignOnly
		}
		due[g.at] = append(due[g.at], g)
		all = append(all, g)
	}
	cnt := func(k string) { out.Count("pool:" + k) }
	hand := func(g *poolGossip) {
		f := g.f
		for _, p := range f.preds {
			if r.b.Ch.GetPatch(p.Address, p.Identifier()) == nil {
				r.gossip(WireCopyBlock(p), true)
			}
		}
		foreign := func() {
			if r.gossip(WireCopyBlock(f.b), true) && r.b.Ch.GetPatch(f.b.Address, f.b.Identifier()) != nil {
				g.pooled++
				cnt(f.class + ":pooled")
				cnt(f.class + ":pooled:" + orderNames[g.order])
				for _, d := range f.differs {
					cnt(f.class + ":pooled:differs-in-" + d)
				}
				if f.priority != "" {
					cnt(f.class + ":pooled:priority-" + f.priority)
				}
				if f.b.Height == 1 {
					cnt(f.class + ":pooled:first-block-of-the-account")
				}
			} else {
				cnt(f.class + ":not-pooled:" + orderNames[g.order])
			}
			for _, c := range f.children {
				if r.gossip(WireCopyBlock(c), true) && r.b.Ch.GetPatch(c.Address, c.Identifier()) != nil {
					g.childrenPooled++
					cnt("block-on-top-of-unconfirmed-version:pooled")
				} else {
					cnt("block-on-top-of-unconfirmed-version:not-pooled")
				}
			}
		}
		genuine := func() {
			if f.orig == nil {
				return
			}
			if r.gossip(WireCopyBlock(f.orig), true) {
				cnt("confirmed-version-gossiped:accepted")
			} else {
				cnt("confirmed-version-gossiped:refused(acknowledged momentum not known yet / lower priority)")
			}
			if g.succs {
				for _, s := range f.succs {
					r.gossip(WireCopyBlock(s), true)
				}
			}
		}
		switch g.order {
		case orderForeignOnly:
			foreign()
		case orderForeignFirst:
			foreign()
			genuine()
		default:
			genuine()
			foreign()
		}
		g.done = true
		if f.incl >= 0 {
			d := f.incl - g.at
			switch {
			case d == 0:
				cnt(f.class + ":gossiped-right-before-the-momentum-of-the-confirmed-version")
			case d <= 3:
				cnt(f.class + ":gossiped-1..3-momentums-before-the-momentum-of-the-confirmed-version")
			default:
				cnt(f.class + ":gossiped-4+-momentums-before-the-momentum-of-the-confirmed-version")
			}
		} else {
			cnt(f.class + ":never-any-block-confirmed-at-that-height")
		}
	}
	for r.height() < n {
		pos := r.height()
		for _, g := range due[pos] {
			hand(g)
		}
		length := 1
		if maxBatch > 1 {
			length = 1 + rng.Intn(maxBatch)
			for k := 1; k < length; k++ {
				if len(due[pos+k]) > 0 {
					length = k
					break
				}
			}
		}
		if pos+length > n {
			length = n - pos
		}
		// what the pool holds of the foreign blocks when the momentums arrive
		for _, g := range all {
			if g.done && g.f.incl >= pos && g.f.incl < pos+length && r.b.Ch.GetPatch(g.f.b.Address, g.f.b.Identifier()) != nil {
				cnt(g.f.class + ":in-the-pool-when-the-momentum-of-the-confirmed-version-arrives")
				if g.f.incl > pos {
					cnt(g.f.class + ":in-the-pool-when-the-momentum-of-the-confirmed-version-arrives:inside-a-batch")
				}
				if g.childrenPooled > 0 {
					cnt("block-on-top-of-unconfirmed-version:in-the-pool-when-the-momentum-of-the-confirmed-version-arrives")
				}
			}
		}
		idx, err := r.deliver(chainD, pos, length)
		if err != nil {
			r.allOk = false
			refusedIdx := pos + idx
			var inMomentum, inPool []M
			for _, g := range all {
				if !g.done {
					continue
				}
				if g.f.incl == refusedIdx {
					inMomentum = append(inMomentum, g.describe(r))
				} else if r.b.Ch.GetPatch(g.f.b.Address, g.f.b.Identifier()) != nil {
					inPool = append(inPool, g.describe(r))
				}
			}
			out.Oracle(false, "producer-momentum-accepted", M{"schedule": tag + ":" + name, "receiver_frontier_height": pos + 1,
				"delivered_heights": fmt.Sprintf("%d..%d", pos+2, pos+length+1), "index": idx, "refused_height": refusedIdx + 2, "err": err.Error(),
				"account_blocks_in_refused_momentum":                                           len(chainD[refusedIdx].AccountBlocks),
				"foreign_blocks_gossiped_to_the_receiver_for_accounts_of_the_refused_momentum": inMomentum,
				"other_foreign_blocks_in_the_receivers_pool":                                   inPool})
			return r, refusedIdx + 2, err
		}
		cnt("deliver")
	}
	return r, 0, nil
}

var poolSpent, poolForge time.Duration
var poolByTag = map[string]time.Duration{}

// the family for one producer chain
func poolSchedules(rng *rand.Rand, out *Out, chainD []*nom.DetailedMomentum, chainT interface{}, refDump []byte, fr *nom.Momentum, tag string, maxVariants, maxStrays, density int, batched bool) {
	type result struct {
		name     string
		ok       bool
		refused  int
		err      string
		frontier types.HashHeight
	}
	var results []result
	finish := func(name string, r *receiver, refused int, err error) {
		res := result{name: name, ok: r.allOk, refused: refused, frontier: FrontierOf(r.b.Ch).Identifier()}
		if err != nil {
			res.err = err.Error()
		}
		results = append(results, res)
		if r.allOk {
			out.Oracle(true, "producer-momentum-accepted", nil)
		}
		out.Case("replay", Tup(chainT, r.events), Tup(r.results, I64(int64(r.height()))), tag+":"+name)
		out.Oracle(res.frontier.Hash == fr.Hash, "replay-frontier-hash-equal", M{"schedule": tag + ":" + name, "producer": fmt.Sprint(fr.Identifier()), "receiver": fmt.Sprint(res.frontier)})
		d := dumpStore(r.b.Ch.GetFrontierMomentumStore())
		out.Oracle(bytes.Equal(d, refDump), "replay-ledger-dump-equal", M{"schedule": tag + ":" + name, "first_difference": firstDiff(refDump, d), "size": len(d)})
		r.b.Destroy()
	}
	t0 := time.Now()
	defer func() { poolSpent += time.Since(t0); poolByTag[tag] += time.Since(t0) }()
	fs, fr0, refused, err := forgeForeignBlocks(rng, out, chainD, tag, maxVariants, maxStrays, density)
	poolForge += time.Since(t0)
	finish("forge(momentum-by-momentum, pool holds genuine blocks only)", fr0, refused, err)
	for _, f := range fs {
		out.Count("pool:made:" + f.class)
		if f.b.Height == 1 {
			out.Count("pool:made:" + f.class + ":first-block-of-the-account")
		}
		for _, d := range f.differs {
			out.Count("pool:made:" + f.class + ":differs-in-" + d)
		}
		if len(f.children) > 0 {
			out.Count("pool:made:" + f.class + ":with-blocks-on-top")
		}
		if len(f.preds) > 0 {
			out.Count("pool:made:" + f.class + ":on-top-of-genuine-blocks-of-the-same-momentum")
		}
	}
	if len(fs) == 0 {
		out.Count("pool:history-without-foreign-blocks")
		return
	}
	if batched {
		name := "pool-differs(batches-of-1..6)"
		r, refused, err := poolReceiver(rng, out, chainD, fs, tag, name, 6)
		finish(name, r, refused, err)
	} else {
		name := "pool-differs(momentum-by-momentum)"
		r, refused, err := poolReceiver(rng, out, chainD, fs, tag, name, 1)
		finish(name, r, refused, err)
	}
	// the clause itself: the verdicts on the producer's momentums do not depend on what the receiver's pool holds
	twin := results[0]
	for _, x := range results[1:] {
		out.Oracle(x.ok == twin.ok && x.frontier == twin.frontier, "schedule-independent-acceptance",
			M{"history_momentums": len(chainD), "schedule": tag + ":" + x.name, "all_deliveries_accepted": x.ok, "first_refused_height": x.refused, "err": x.err, "frontier": fmt.Sprint(x.frontier),
				"twin_schedule": twin.name, "twin_all_deliveries_accepted": twin.ok, "twin_first_refused_height": twin.refused, "twin_err": twin.err,
				"twin_frontier": fmt.Sprint(twin.frontier), "producer_frontier": fmt.Sprint(fr.Identifier())})
	}
}
