package main

import . "zharness/hz"

// C02 — replay determinism: same momentums in, byte-identical ledger out.
//   replay : a producing node, receiving nodes fed through ChainBridge.InsertChain / AddAccountBlocks under random schedules
//   patch  : write sequences on the in-memory overlay (common/db), Changes() vs the model
func main() {
	Main(map[string]Runner{"replay": runReplay, "patch": runPatch})
}
