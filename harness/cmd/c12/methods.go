package main

// methods: calls of EVERY embedded method under EVERY method table on a real node, paid exactly, one below and far below
// the method's price. The sporks are activated through accepted calls of the spork contract in the nesting order of
// embedded.GetEmbeddedMethod (accelerator, then bridge-and-liquidity, then htlc); the regime of a candidate is the one of
// the momentum it acknowledges (read from the spork records of that momentum's store). The price is the one of the
// harness's own list (pricelist.go), never the implementation's GetPlasma / GetBasePlasmaForAccountBlock.
//
// The plasma check comes first in vm.applyBlock, so its verdict can be judged for every call, whether or not the
// arguments pass the method's own validation afterwards:
//   contract-call-accepted-only-with-its-method-price  an accepted call carries total plasma >= the documented price
//   underpaid-contract-call-refused-for-plasma          total < price (fused within what is available, total under the cap)
//                                                       => refused with ErrNotEnoughTotalPlasma
//   paid-contract-call-not-refused-for-plasma           total >= price => not refused for a plasma reason
//   block-without-base-cost-refused                     a method that cannot be called in the regime is refused whatever it pays
// plus the oracles the plasma histories already have (base-cost-by-type-data-method, plasma-accept-sound,
// accepted-block-carries-real-plasma-fields) and the model cases base_plasma / plasma_check with the documented price.

import (
	"fmt"
	"math/big"
	"math/rand"
	"reflect"
	"strings"
	. "zharness/hz"

	g "github.com/zenon-network/go-zenon/chain/genesis/mock"
	"github.com/zenon-network/go-zenon/chain/nom"
	"github.com/zenon-network/go-zenon/common/types"
	"github.com/zenon-network/go-zenon/vm"
	"github.com/zenon-network/go-zenon/vm/abi"
	"github.com/zenon-network/go-zenon/vm/constants"
	"github.com/zenon-network/go-zenon/vm/embedded/definition"
	"github.com/zenon-network/go-zenon/wallet"
	"github.com/zenon-network/go-zenon/zenon/mock"
)

var (
	sporkDefaults = [3]types.Hash{types.AcceleratorSpork.SporkId, types.BridgeAndLiquiditySpork.SporkId, types.HtlcSpork.SporkId}
	sporksInOrder = []*types.ImplementedSpork{types.AcceleratorSpork, types.BridgeAndLiquiditySpork, types.HtlcSpork}
)

func resetSporks() {
	for i, s := range sporksInOrder {
		s.SporkId = sporkDefaults[i]
	}
}

// regimeAt: which method table applies to a block that acknowledges this momentum (the precedence of GetEmbeddedMethod)
func regimeAt(nd *Node, id types.HashHeight) int {
	ms := nd.Ch.GetMomentumStore(id)
	if ms == nil {
		return 0
	}
	for r := 3; r >= 1; r-- {
		if on, err := ms.IsSporkActive(sporksInOrder[r-1]); err == nil && on {
			return r
		}
	}
	return 0
}

func activateSpork(nd *Node, spork *types.ImplementedSpork, name string) {
	b := nd.Z.InsertSendBlock(&nom.AccountBlock{Address: g.Spork.Address, ToAddress: types.SporkContract,
		Data: definition.ABISpork.PackMethodPanic(definition.SporkCreateMethodName, name, "activate "+name)}, nil, mock.SkipVmChanges)
	types.ImplementedSporksMap[b.Hash] = true
	nd.Momentum()
	nd.Momentum()
	nd.Z.InsertSendBlock(&nom.AccountBlock{Address: g.Spork.Address, ToAddress: types.SporkContract,
		Data: definition.ABISpork.PackMethodPanic(definition.SporkActivateMethodName, b.Hash)}, nil, mock.SkipVmChanges)
	spork.SporkId = b.Hash
	for i := 0; i < 40; i++ {
		nd.Momentum()
		if on, _ := nd.Ch.GetFrontierMomentumStore().IsSporkActive(spork); on {
			return
		}
	}
	panic("spork did not activate: " + name)
}

// ---- arguments that have a chance to pass the static validation of the method

func saneString(rng *rand.Rand, arg string) string {
	la := strings.ToLower(arg)
	switch {
	case strings.Contains(la, "symbol"):
		return "TST"
	case strings.Contains(la, "domain"):
		return "zenon.network"
	case strings.Contains(la, "url"):
		return "www.zenon.network"
	case strings.Contains(la, "pubkey") || strings.Contains(la, "publickey"):
		return g.Secp1PubKeyB64
	case strings.Contains(la, "signature"):
		return strings.Repeat("A", 87) + "="
	case strings.Contains(la, "metadata"):
		return "{}"
	case strings.Contains(la, "address"):
		return "0xb794f5ea0ba39494ce839613fffba74279579268"
	case strings.Contains(la, "name"):
		return fmt.Sprintf("name-%c%c", 'a'+rune(rng.Intn(26)), 'a'+rune(rng.Intn(26)))
	}
	return "a description"
}

func saneArg(rng *rand.Rand, t abi.Type, name string, users []*wallet.KeyPair) interface{} {
	switch t.T {
	case abi.AddressTy:
		return users[rng.Intn(len(users))].Address
	case abi.HashTy:
		var h types.Hash
		rng.Read(h[:])
		return h
	case abi.TokenStandardTy:
		return types.ZnnTokenStandard
	case abi.StringTy:
		return saneString(rng, name)
	case abi.BoolTy:
		return rng.Intn(2) == 0
	case abi.BytesTy:
		b := make([]byte, 32)
		rng.Read(b)
		return b
	case abi.SliceTy:
		s := reflect.MakeSlice(t.Type, 1, 1)
		s.Index(0).Set(reflect.ValueOf(saneArg(rng, *t.Elem, name, users)))
		return s.Interface()
	case abi.UintTy, abi.IntTy:
		if t.Type.Kind() == reflect.Ptr {
			return big.NewInt(int64(1+rng.Intn(5)) * g.Zexp)
		}
		v := reflect.New(t.Type).Elem()
		small := int64(1 + rng.Intn(3))
		if strings.Contains(strings.ToLower(name), "time") || strings.Contains(strings.ToLower(name), "duration") {
			small = constants.StakeTimeUnitSec * small
		}
		switch v.Kind() {
		case reflect.Uint8, reflect.Uint16, reflect.Uint32, reflect.Uint64:
			v.SetUint(uint64(small))
		default:
			v.SetInt(small)
		}
		return v.Interface()
	}
	return reflect.Zero(t.Type).Interface()
}

// what the method wants to be sent with it (otherwise nothing)
func naturalPayment(c *listedContract, m string) (types.ZenonTokenStandard, *big.Int) {
	z := func(v *big.Int) (types.ZenonTokenStandard, *big.Int) {
		return types.ZnnTokenStandard, new(big.Int).Set(v)
	}
	q := func(v *big.Int) (types.ZenonTokenStandard, *big.Int) {
		return types.QsrTokenStandard, new(big.Int).Set(v)
	}
	switch {
	case m == "Fuse":
		return q(big.NewInt(10 * g.Zexp))
	case m == "DepositQsr":
		return q(big.NewInt(g.Zexp))
	case m == "Stake":
		return z(constants.StakeMinAmount)
	case m == "Register" && c.name == "sentinel":
		return z(constants.SentinelZnnRegisterAmount)
	case m == "Register" || m == "RegisterLegacy":
		return z(constants.PillarStakeAmount)
	case m == "IssueToken":
		return z(constants.TokenIssueAmount)
	case m == "CreateProject":
		return z(constants.ProjectCreationAmount)
	case m == "Donate" || m == "Burn" || m == "Create" || m == "LiquidityStake" || m == "WrapToken":
		return z(big.NewInt(g.Zexp))
	}
	return types.ZnnTokenStandard, big.NewInt(0)
}

// every call of the price list (callable in the regime or not) plus every call the implementation's tables know
func allCalls() []listedCall {
	var l []listedCall
	for i := range priceList {
		for j := range priceList[i].methods {
			l = append(l, listedCall{&priceList[i], &priceList[i].methods[j]})
		}
	}
	for _, mc := range MethodCosts() {
		if _, ok := listedBySelector[string(mc.Contract[:])+string(mc.Selector)]; ok {
			continue
		}
		for i := range priceList {
			if priceList[i].addr == mc.Contract {
				// a method the implementation knows and the price list does not: judged as "no documented price"
				l = append(l, listedCall{&priceList[i], &listed{method: mc.Name, since: 99}})
			}
		}
	}
	return l
}

func runMethods(rng *rand.Rand, n int, out *Out, _ []string) {
	priceOracle(out)
	defer func(old uint64) { constants.SporkMinHeightDelay = old }(constants.SporkMinHeightDelay)
	constants.SporkMinHeightDelay = 2
	for h := 0; h < n; h++ {
		methodsHistory(rng, out, h%4)
	}
}

func methodsHistory(rng *rand.Rand, out *Out, regime int) {
	resetSporks()
	defer resetSporks()
	nd := NewNode()
	defer nd.Stop()
	dv := newDeliverer(nd)
	// accounts with 10000 fused QSR (the per-block cap of plasma), holding ZNN and QSR
	users := []*wallet.KeyPair{g.User1, g.User2, g.User3, g.Spork, g.Pillar1}
	calls := allCalls()
	rng.Shuffle(len(calls), func(i, j int) { calls[i], calls[j] = calls[j], calls[i] })
	// the sporks are activated in nesting order; a part of the calls is made BEFORE the last one is enforced, the rest
	// after it (so that blocks acknowledging momentums on both sides of the enforcement height are judged)
	for r := 1; r < regime; r++ {
		activateSpork(nd, sporksInOrder[r-1], "spork-"+RegimeNames[r])
	}
	early := 0
	if regime > 0 {
		early = len(calls) / 8
		for _, lc := range calls[:early] {
			methodCandidates(rng, out, nd, dv, users, lc)
		}
		activateSpork(nd, sporksInOrder[regime-1], "spork-"+RegimeNames[regime])
	}
	for _, lc := range calls {
		methodCandidates(rng, out, nd, dv, users, lc)
	}
}

func methodCandidates(rng *rand.Rand, out *Out, nd *Node, dv *deliverer, users []*wallet.KeyPair, lc listedCall) {
	am := lc.c.abi.Methods[lc.m.method]
	u := users[rng.Intn(len(users))]
	if lc.c.name == "spork" && rng.Intn(2) == 0 {
		u = g.Spork
	}
	args := make([]interface{}, len(am.Inputs))
	for i, a := range am.Inputs {
		args[i] = saneArg(rng, a.Type, a.Name, users)
	}
	data, err := lc.c.abi.PackMethod(lc.m.method, args...)
	if err != nil {
		out.Count("methods:pack-failed:" + lc.c.name + "." + lc.m.method)
		data = append([]byte{}, am.Id()...)
	}
	b := &nom.AccountBlock{BlockType: nom.BlockTypeUserSend, Address: u.Address, ToAddress: lc.c.addr, Data: data}
	b.TokenStandard, b.Amount = naturalPayment(lc.c, lc.m.method)
	if rng.Intn(6) == 0 && nd.FrontierHeight() > 3 {
		// acknowledge an older momentum (possibly one of the previous regime)
		// (the verifier refuses a block that acknowledges an older momentum than the account's previous block does)
		h := nd.FrontierHeight() - uint64(1+rng.Intn(3))
		if prev, err := nd.Ch.GetFrontierAccountStore(u.Address).Frontier(); err == nil && prev != nil && prev.MomentumAcknowledged.Height > h {
			h = prev.MomentumAcknowledged.Height
		}
		if m, err := nd.Ch.GetFrontierMomentumStore().GetMomentumByHeight(h); err == nil && m != nil {
			b.MomentumAcknowledged = m.Identifier()
		}
	}
	nd.Fill(b)
	st := readPlasmaState(nd, b)
	regime := regimeAt(nd, b.MomentumAcknowledged)
	rn := RegimeNames[regime]
	who := lc.c.name + "." + lc.m.method
	cost, callable := listedPrice(regime, b.ToAddress, b.Data)
	{
		implBase, baseErr := vm.GetBasePlasmaForAccountBlock(st.ctx, b)
		want := int64(-1)
		if baseErr == nil {
			want = int64(implBase)
		}
		out.Case("base_plasma", Tup(false, true, st.found, Big(MethodCostKey(regime, b.ToAddress, b.Data)), I64(int64(len(b.Data)))), I64(want), "contract-call-"+rn)
		out.Oracle((baseErr == nil) == callable && (baseErr != nil || implBase == cost), "base-cost-by-type-data-method",
			M{"regime": rn, "contract": lc.c.name, "method": lc.m.method, "to": b.ToAddress.String(), "data_len": len(b.Data), "harness_base": U64(cost), "impl_base": I64(want)})
	}
	if !callable {
		out.Count("methods:not-callable:" + rn)
		b.FusedPlasma = 200000
		Sign(b, u)
		err, _, _ := dv.deliver(b, pathApply, false)
		out.Oracle(err != nil, "block-without-base-cost-refused",
			M{"path": pathName[pathApply], "regime": rn, "contract": lc.c.name, "method": lc.m.method, "to": b.ToAddress.String(), "data_len": len(b.Data)})
		return
	}
	avail, _ := vm.AvailablePlasma(nd.Ch.GetMomentumStore(b.MomentumAcknowledged), nd.Ch.GetAccountStore(b.Address, b.Previous()))
	far := []uint64{0, 1, priceBase - 1, priceBase, cost / 2, cost - priceBase}[rng.Intn(6)]
	type level struct {
		f, d uint64
		tag  string
	}
	levels := []level{{cost, 0, "exactly"}, {cost - 1, 0, "one-below"}, {far, 0, "far-below"}}
	switch rng.Intn(4) {
	case 0:
		levels = append(levels, level{cost + 1 + uint64(rng.Intn(50000)), 0, "above"})
	case 1: // a part of the price is paid by a valid proof-of-work: exactly / one short
		d := uint64(1500 * (1 + rng.Intn(20)))
		levels = append(levels, level{cost - refPowPlasma(d) - uint64(rng.Intn(2)), d, "with-pow"})
	}
	inserted := false
	for k, lv := range levels {
		path := pathApply
		insert := false
		if k == len(levels)-1 && rng.Intn(6) == 0 {
			// the last candidate reaches the node as a gossiped block / a published transaction (and stays in the pool)
			path, insert = 1+rng.Intn(nPaths-1), true
		}
		b.FusedPlasma, b.BasePlasma, b.TotalPlasma = lv.f, 0, 0
		powValid := proofOfWork(rng, b, lv.d, true)
		preset := "unset"
		if rng.Intn(4) == 0 {
			preset = presetUnhashed(rng, b, cost, lv.f+refPowPlasma(lv.d))
		}
		Sign(b, u)
		err, stored, ins := dv.deliver(b, path, insert)
		inserted = inserted || ins
		total := lv.f + refPowPlasma(lv.d)
		d := M{"regime": rn, "contract": lc.c.name, "method": lc.m.method, "documented_price": U64(cost), "fused_plasma": U64(lv.f), "difficulty": U64(lv.d),
			"total_plasma": U64(total), "available": U64(avail), "path": pathName[path], "unhashed_fields": preset, "acknowledged_height": U64(b.MomentumAcknowledged.Height),
			"verdict": fmt.Sprint(err)}
		cls := errClassPlasma(err)
		out.Count("methods:" + rn + ":" + lv.tag + ":" + []string{"accepted", "not-enough-plasma", "limit-reached", "not-enough-total", "pow-invalid", "", "", "", "refused-after-the-plasma-check", "panic"}[cls])
		if err == nil {
			out.Count("methods:accepted:" + rn + ":" + who)
			out.Oracle(total >= cost, "contract-call-accepted-only-with-its-method-price", d)
		}
		if lv.f <= avail && total <= plasmaCap {
			if total < cost {
				out.Oracle(err == constants.ErrNotEnoughTotalPlasma, "underpaid-contract-call-refused-for-plasma", d)
			} else {
				out.Oracle(cls == 0 || cls >= 8, "paid-contract-call-not-refused-for-plasma", d)
			}
		}
		if cls == 8 || (err == nil && stored == nil) {
			continue
		}
		var tot, baseOut uint64
		if err == nil {
			tot, baseOut = stored.TotalPlasma, stored.BasePlasma
		}
		tag := []string{"accepted", "not-enough-plasma", "limit-reached", "not-enough-total", "pow-invalid"}[cls%5]
		if cls == 9 {
			tag = "panic"
		}
		out.Case("plasma_check",
			Tup(Big(st.fused), Big(st.committed), Big(st.uncommitted), U64(cost), U64(lv.f), U64(lv.d), powValid),
			Tup(I64(cls), U64(tot), U64(baseOut)), tag)
		if err == nil {
			acceptOracle(out, st, b, cost, powValid, path, preset)
			out.Oracle(baseOut == cost && tot == total, "accepted-block-carries-real-plasma-fields",
				M{"path": pathName[path], "real_base_cost": U64(cost), "f": U64(lv.f), "d": U64(lv.d), "held_basePlasma": U64(baseOut), "held_totalPlasma": U64(tot),
					"sent_basePlasma": U64(b.BasePlasma), "sent_totalPlasma": U64(b.TotalPlasma)})
		}
	}
	if inserted {
		nd.Momentum()
		nd.Momentum()
	}
}
