package main

// What the plasma histories share: the base cost of a block computed by the harness itself (method table + data
// length, never the block's own field and never vm.GetBasePlasmaForAccountBlock), candidate blocks of every cost
// class, the unhashed plasma fields preset by the sender, and the three ways a block reaches a node from outside.

import (
	"encoding/json"
	"math/big"
	"math/rand"
	. "zharness/hz"

	g "github.com/zenon-network/go-zenon/chain/genesis/mock"
	"github.com/zenon-network/go-zenon/chain/nom"
	"github.com/zenon-network/go-zenon/common/types"
	"github.com/zenon-network/go-zenon/pow"
	"github.com/zenon-network/go-zenon/protocol"
	"github.com/zenon-network/go-zenon/rpc/api"
	"github.com/zenon-network/go-zenon/vm/constants"
	"github.com/zenon-network/go-zenon/vm/embedded"
	"github.com/zenon-network/go-zenon/vm/embedded/definition"
	"github.com/zenon-network/go-zenon/vm/vm_context"
	"github.com/zenon-network/go-zenon/wallet"
)

// ---- reference base cost (the model's base_plasma, evaluated by the harness)

// refBase: the base cost of a user block by its type, data length or called method, the method's price taken from the
// harness's own list (pricelist.go) under the spork regime of the acknowledged momentum. ok=false: no base cost exists
// (no such contract / method in that regime, data too long): the block has to be refused.
func refBase(b *nom.AccountBlock, regime int) (uint64, bool) {
	if b.IsReceiveBlock() {
		return priceBase, true
	}
	if types.IsEmbeddedAddress(b.ToAddress) {
		return listedPrice(regime, b.ToAddress, b.Data)
	}
	if len(b.Data) > 16384 {
		return 0, false
	}
	return priceBase + 68*uint64(len(b.Data)), true
}

// refFusedPlasma: plasma provided by an amount of fused QSR: 2100 per whole QSR, at most 5000 units
func refFusedPlasma(amt *big.Int) uint64 {
	if amt == nil || amt.Sign() <= 0 {
		return 0
	}
	units := new(big.Int).Div(amt, big.NewInt(100000000))
	if units.Cmp(big.NewInt(5000)) > 0 {
		return 5000 * 2100
	}
	return units.Uint64() * 2100
}

// refPowPlasma: plasma earned by a (valid) proof-of-work of difficulty d
func refPowPlasma(d uint64) uint64 {
	if d > 94500*1500 {
		return 94500
	}
	return d / 1500
}

// ---- candidates of every cost class

// template of a user send from u: plain transfers with 0 / 1 / … / MaxDataLength(+1) data bytes and calls of embedded
// methods of the four cost classes (52500, 73500, 94500, 105000) that pass the static validation of the method, plus
// calls that have no base cost at all
func candidateTemplate(rng *rand.Rand, u *wallet.KeyPair, users []*wallet.KeyPair, kind int) (*nom.AccountBlock, string) {
	b := &nom.AccountBlock{BlockType: nom.BlockTypeUserSend, Address: u.Address, Amount: big.NewInt(0)}
	switch kind {
	default: // plain transfer with data
		b.ToAddress = users[rng.Intn(len(users))].Address
		dl := []int{0, 0, 0, 1, 1, 10, 100, 300, 1000, 1000, 16383, 16384, 16385}[rng.Intn(13)]
		b.Data = make([]byte, dl)
		rng.Read(b.Data)
		return b, "transfer"
	case 5:
		b.ToAddress = types.PillarContract
		b.Data = definition.ABIPillars.PackMethodPanic(definition.DelegateMethodName, []string{g.Pillar1Name, g.Pillar2Name}[rng.Intn(2)])
		return b, "call-52500"
	case 6:
		var id types.Hash
		rng.Read(id[:])
		b.ToAddress = types.PlasmaContract
		b.Data = definition.ABIPlasma.PackMethodPanic(definition.CancelFuseMethodName, id)
		return b, "call-73500"
	case 7:
		b.ToAddress = types.SentinelContract
		b.Data = definition.ABISentinel.PackMethodPanic(definition.RevokeSentinelMethodName)
		return b, "call-94500"
	case 8: // affordable for the accounts that hold 15000 ZNN only; the others are refused after the plasma check
		b.ToAddress = types.PillarContract
		b.TokenStandard = types.ZnnTokenStandard
		b.Amount = new(big.Int).Set(constants.PillarStakeAmount)
		b.Data = definition.ABIPillars.PackMethodPanic(definition.RegisterMethodName, "plr-"+string(rune('a'+rng.Intn(26)))+string(rune('a'+rng.Intn(26))),
			users[rng.Intn(len(users))].Address, u.Address, uint8(rng.Intn(101)), uint8(rng.Intn(101)))
		return b, "call-105000"
	case 9:
		switch rng.Intn(4) {
		case 0: // fuse for somebody (valid for the accounts that hold QSR)
			b.ToAddress = types.PlasmaContract
			b.TokenStandard = types.QsrTokenStandard
			b.Amount = new(big.Int).Mul(big.NewInt(int64(10+rng.Intn(3))), big.NewInt(g.Zexp))
			b.Data = definition.ABIPlasma.PackMethodPanic(definition.FuseMethodName, users[rng.Intn(len(users))].Address)
			return b, "call-52500"
		case 1:
			b.ToAddress = types.AcceleratorContract
			b.TokenStandard = types.ZnnTokenStandard
			b.Data = definition.ABIAccelerator.PackMethodPanic(definition.DonateMethodName)
			return b, "call-donate"
		case 2: // unknown selector: no base cost
			b.ToAddress = types.EmbeddedContracts[rng.Intn(len(types.EmbeddedContracts))]
			b.Data = make([]byte, 4+rng.Intn(40))
			rng.Read(b.Data)
			return b, "call-unknown-method"
		default: // embedded-prefixed address that is no contract
			rng.Read(b.ToAddress[:])
			b.ToAddress[0] = types.ContractAddrByte
			return b, "call-no-contract"
		}
	}
}

// ---- unhashed fields preset by the sender

// presetUnhashed sets BasePlasma and TotalPlasma (neither is covered by the hash or the signature, both travel with the
// block in protobuf and JSON) to what a sender may claim
func presetUnhashed(rng *rand.Rand, b *nom.AccountBlock, realBase, realTotal uint64) string {
	pick := func(real uint64) uint64 {
		switch rng.Intn(8) {
		case 0:
			return 0
		case 1:
			return 1
		case 2:
			return real - 1
		case 3:
			return real
		case 4:
			return real + 1
		case 5:
			return 21000
		case 6:
			return ^uint64(0)
		default:
			return b.FusedPlasma // "what I pay is what it costs"
		}
	}
	b.BasePlasma = pick(realBase)
	b.TotalPlasma = pick(realTotal)
	switch {
	case b.BasePlasma == 0 && b.TotalPlasma == 0:
		return "unset"
	case b.BasePlasma != 0 && b.BasePlasma < realBase:
		return "base-claimed-below-real"
	case b.BasePlasma > realBase:
		return "base-claimed-above-real"
	}
	return "base-honest-or-unset"
}

// ---- delivery

const (
	pathApply  = iota // Supervisor.ApplyBlock (+ AddAccountBlockTransaction by the harness)
	pathGossip        // ChainBridge.AddAccountBlocks: what a NewBlock message of a peer ends in
	pathJSON          // ledger.publishRawTransaction with the block as JSON
	nPaths
)

var pathName = []string{"Supervisor.ApplyBlock", "ChainBridge.AddAccountBlocks", "ledger.publishRawTransaction"}

type deliverer struct {
	nd     *Node
	br     protocol.ChainBridge
	ledger *api.LedgerApi
}

func newDeliverer(nd *Node) *deliverer {
	return &deliverer{nd: nd, br: BridgeOf(nd), ledger: api.NewLedgerApi(nd.Z)}
}

// deliver hands a copy of the block (its wire form) to the node. insert: on the ApplyBlock path the harness inserts
// the transaction into the pool itself (the other two paths always do). Returns the error of the path and the block
// as the node holds it afterwards (nil if it holds none).
func (dv *deliverer) deliver(b *nom.AccountBlock, path int, insert bool) (error, *nom.AccountBlock, bool) {
	switch path {
	case pathGossip:
		if err := dv.br.AddAccountBlocks([]*nom.AccountBlock{WireCopyBlock(b)}); err != nil {
			return err, nil, false
		}
	case pathJSON:
		raw, err := json.Marshal(&api.AccountBlock{AccountBlock: *WireCopyBlock(b)})
		if err != nil {
			panic(err)
		}
		rb := new(api.AccountBlock)
		if err := json.Unmarshal(raw, rb); err != nil {
			panic(err)
		}
		if err := dv.ledger.PublishRawTransaction(rb); err != nil {
			return err, nil, false
		}
	default:
		tx, err := dv.nd.Apply(WireCopyBlock(b))
		if err != nil {
			return err, nil, false
		}
		if !insert {
			return nil, tx.Block, false
		}
		if e := dv.nd.Insert(tx); e != nil {
			return nil, tx.Block, false
		}
	}
	for _, p := range dv.nd.Ch.GetUncommittedAccountBlocksByAddress(b.Address) {
		if p.Hash == b.Hash {
			return nil, p, true
		}
	}
	return nil, nil, false
}

// proofOfWork gives the block a difficulty and a nonce: a valid one (work done), or a claimed one without the work
func proofOfWork(rng *rand.Rand, b *nom.AccountBlock, d uint64, doWork bool) bool {
	b.Difficulty = d
	if d == 0 {
		return true
	}
	if doWork {
		nonce := pow.GetPoWNonce(new(big.Int).SetUint64(d), pow.GetAccountBlockHash(b))
		b.Nonce = nom.DeSerializeNonce(nonce)
		return true
	}
	rng.Read(b.Nonce.Data[:])
	return pow.CheckPoWNonce(b)
}

// plasmaState: what the plasma check of the block reads (the stores the vm context is built from)
type plasmaState struct {
	ctx                           vm_context.AccountVmContext
	committed, uncommitted, fused *big.Int
	found                         bool
}

func readPlasmaState(nd *Node, b *nom.AccountBlock) *plasmaState {
	ms := nd.Ch.GetMomentumStore(b.MomentumAcknowledged)
	as := nd.Ch.GetAccountStore(b.Address, b.Previous())
	st := &plasmaState{ctx: vm_context.NewAccountContext(ms, as, nd.Cs.FixedPillarReader(b.MomentumAcknowledged))}
	st.committed, _ = ms.GetAccountStore(b.Address).GetChainPlasma()
	st.uncommitted, _ = as.GetChainPlasma()
	st.fused, _ = ms.GetStakeBeneficialAmount(b.Address)
	if types.IsEmbeddedAddress(b.ToAddress) {
		_, err := embedded.GetEmbeddedMethod(st.ctx, b.ToAddress, b.Data)
		st.found = err == nil
	}
	return st
}

// acceptOracle: the property's statement for one accepted block, judged with the base cost computed by the harness
func acceptOracle(out *Out, st *plasmaState, b *nom.AccountBlock, base uint64, powValid bool, path int, preset string) {
	f, d := b.FusedPlasma, b.Difficulty
	powPlasma := refPowPlasma(d)
	used := new(big.Int).Sub(st.uncommitted, st.committed)
	provided := new(big.Int).SetUint64(refFusedPlasma(st.fused))
	total := new(big.Int).Add(new(big.Int).SetUint64(f), new(big.Int).SetUint64(powPlasma))
	okBase := total.Cmp(new(big.Int).SetUint64(base)) >= 0
	okCap := total.Cmp(new(big.Int).SetUint64(10500000)) <= 0
	okFused := new(big.Int).Add(used, new(big.Int).SetUint64(f)).Cmp(provided) <= 0
	okPow := d == 0 || powValid
	out.Oracle(okBase && okCap && okFused && okPow, "plasma-accept-sound",
		M{"path": pathName[path], "fused_amount": Big(st.fused), "used_by_unconfirmed": Big(used), "f": U64(f), "d": U64(d),
			"real_base_cost": U64(base), "pow_valid": powValid, "data_len": len(b.Data), "to": b.ToAddress.String(),
			"sent_basePlasma": U64(b.BasePlasma), "sent_totalPlasma": U64(b.TotalPlasma), "unhashed_fields": preset,
			"pays_base": okBase, "under_cap": okCap, "fused_within_fusion": okFused})
}
