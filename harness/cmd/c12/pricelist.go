package main

// The harness's OWN price list of the embedded methods (C12: "a contract call costs the plasma of its method as listed
// in the plasma table (constants.AlphanetPlasmaTable), never less than the account-block base").
//
// Nothing here is read from the implementation's method tables or from Method.GetPlasma. The numbers are the documented
// price classes of the plasma table, written out from the account-block base:
//   simple            2.5 x base   a call that is answered without a response block
//   with-response     3.5 x base   the contract answers with one block (a withdrawal, a payout, a mint)
//   double-response   4.5 x base   the contract answers with two blocks
//   registration      2 x simple   pillar registration: includes the burn transaction of the QSR
//   simple+response   simple + with-response   CollectReward of the pillar / sentinel / stake contracts as priced before
//                     the accelerator spork (from that spork on it is a simple call)
// and every (contract, method) is listed with its class and with the spork regime from which it can be called
// (0 origin, 1 accelerator, 2 bridge-and-liquidity, 3 htlc: each regime contains the previous ones).
// priceOracle judges what the implementation charges (hz.MethodCosts: the same listing constdump writes into
// Consts.MethodPlasmaKeys / MethodPlasmaVals) against this list, one verdict per method and regime with the method's
// name, so that a zero or changed price is reported as a failing input rather than only as a broken proof.

import (
	. "zharness/hz"

	"github.com/zenon-network/go-zenon/common/types"
	"github.com/zenon-network/go-zenon/vm/abi"
	"github.com/zenon-network/go-zenon/vm/embedded/definition"
)

const (
	priceBase           = uint64(21000)
	priceSimple         = priceBase * 5 / 2
	priceWithResponse   = priceBase * 7 / 2
	priceDoubleResponse = priceBase * 9 / 2
	priceRegistration   = 2 * priceSimple
	priceSimpleResponse = priceSimple + priceWithResponse
	plasmaCap           = uint64(5000 * 2100) // 5000 fusion units of base/10 plasma each
)

type listed struct {
	method string
	since  int    // first regime in which the method can be called
	price  uint64 // from `since` on
	// a second price from a later regime on (CollectReward of the origin contracts)
	repricedFrom int
	repriced     uint64
}

type listedContract struct {
	name    string
	addr    types.Address
	abi     abi.ABIContract
	methods []listed
}

func simple(since int, names ...string) []listed {
	var l []listed
	for _, n := range names {
		l = append(l, listed{method: n, since: since, price: priceSimple})
	}
	return l
}
func priced(since int, price uint64, names ...string) []listed {
	var l []listed
	for _, n := range names {
		l = append(l, listed{method: n, since: since, price: price})
	}
	return l
}
func join(ls ...[]listed) []listed {
	var r []listed
	for _, l := range ls {
		r = append(r, l...)
	}
	return r
}

var collectRewardOfOriginContract = []listed{{method: "CollectReward", since: 0, price: priceSimpleResponse, repricedFrom: 1, repriced: priceSimple}}

var priceList = []listedContract{
	{"plasma", types.PlasmaContract, definition.ABIPlasma, join(
		simple(0, "Fuse"), priced(0, priceWithResponse, "CancelFuse"))},
	{"pillar", types.PillarContract, definition.ABIPillars, join(
		simple(0, "Delegate", "Undelegate", "Update", "UpdatePillar", "DepositQsr"),
		priced(0, priceRegistration, "Register", "RegisterLegacy"),
		priced(0, priceWithResponse, "Revoke", "WithdrawQsr"),
		collectRewardOfOriginContract)},
	{"token", types.TokenContract, definition.ABIToken, join(
		simple(0, "Burn", "UpdateToken"), priced(0, priceWithResponse, "IssueToken", "Mint"))},
	{"sentinel", types.SentinelContract, definition.ABISentinel, join(
		simple(0, "Register", "Update", "DepositQsr"),
		priced(0, priceDoubleResponse, "Revoke"), priced(0, priceWithResponse, "WithdrawQsr"),
		collectRewardOfOriginContract)},
	{"swap", types.SwapContract, definition.ABISwap, priced(0, priceDoubleResponse, "RetrieveAssets")},
	{"stake", types.StakeContract, definition.ABIStake, join(
		simple(0, "Stake", "Update"), priced(0, priceWithResponse, "Cancel"),
		collectRewardOfOriginContract)},
	{"spork", types.SporkContract, definition.ABISpork, simple(0, "CreateSpork", "ActivateSpork")},
	{"accelerator", types.AcceleratorContract, definition.ABIAccelerator, join(
		simple(0, "Donate"),
		simple(1, "CreateProject", "AddPhase", "UpdatePhase", "VoteByName", "VoteByProdAddress"),
		priced(1, priceWithResponse, "Update"))},
	{"liquidity", types.LiquidityContract, definition.ABILiquidity, join(
		simple(0, "Update", "Donate"),
		simple(1, "Fund", "BurnZnn"),
		simple(2, "SetTokenTuple", "LiquidityStake", "UnlockLiquidityStakeEntries", "SetIsHalted", "SetAdditionalReward",
			"ChangeAdministrator", "ProposeAdministrator", "NominateGuardians", "Emergency"),
		priced(2, priceWithResponse, "CancelLiquidityStake"),
		priced(2, priceDoubleResponse, "CollectReward"))},
	{"bridge", types.BridgeContract, definition.ABIBridge, join(
		simple(2, "WrapToken", "UpdateWrapRequest", "UnwrapToken", "RevokeUnwrapRequest", "SetNetwork", "RemoveNetwork",
			"SetTokenPair", "RemoveTokenPair", "Halt", "Unhalt", "NominateGuardians", "ProposeAdministrator", "Emergency",
			"ChangeTssECDSAPubKey", "ChangeAdministrator", "SetAllowKeyGen", "SetOrchestratorInfo", "SetBridgeMetadata",
			"SetNetworkMetadata"),
		priced(2, priceWithResponse, "Redeem"))},
	{"htlc", types.HtlcContract, definition.ABIHtlc, join(
		simple(3, "Create", "DenyProxyUnlock", "AllowProxyUnlock"),
		priced(3, priceWithResponse, "Reclaim", "Unlock"))},
}

func (l *listed) priceAt(regime int) (uint64, bool) {
	if regime < l.since {
		return 0, false
	}
	if l.repriced != 0 && regime >= l.repricedFrom {
		return l.repriced, true
	}
	return l.price, true
}

type listedCall struct {
	c *listedContract
	m *listed
}

var listedBySelector = func() map[string]listedCall {
	res := map[string]listedCall{}
	for i := range priceList {
		c := &priceList[i]
		for j := range c.methods {
			m := &c.methods[j]
			am, ok := c.abi.Methods[m.method]
			if !ok {
				panic("price list names a method the ABI of " + c.name + " does not have: " + m.method)
			}
			res[string(c.addr[:])+string(am.Id())] = listedCall{c, m}
		}
	}
	return res
}()

// listedPrice: the documented price of the call (contract, first four bytes of the data) under the regime
func listedPrice(regime int, to types.Address, data []byte) (uint64, bool) {
	if len(data) < 4 {
		return 0, false
	}
	lc, ok := listedBySelector[string(to[:])+string(data[:4])]
	if !ok {
		return 0, false
	}
	return lc.m.priceAt(regime)
}

func contractName(a types.Address) string {
	for i := range priceList {
		if priceList[i].addr == a {
			return priceList[i].name
		}
	}
	return a.String()
}

// priceOracle: every callable method of every method table is charged exactly its documented price, which is never
// below the account-block base nor above the per-block cap
func priceOracle(out *Out) {
	seen := map[string]bool{}
	for _, mc := range MethodCosts() {
		want, known := listedPrice(mc.Regime, mc.Contract, mc.Selector)
		d := M{"regime": RegimeNames[mc.Regime], "contract": contractName(mc.Contract), "method": mc.Name,
			"charged": U64(mc.Plasma), "priced_by_the_implementation": mc.Priced, "documented": U64(want), "documented_at_all": known}
		out.Oracle(mc.Priced && mc.Plasma >= priceBase && mc.Plasma <= plasmaCap, "method-price-at-least-the-account-block-base", d)
		out.Oracle(mc.Priced && known && mc.Plasma == want, "method-price-is-the-documented-one", d)
		out.Count("price:" + RegimeNames[mc.Regime] + ":" + map[uint64]string{priceSimple: "simple", priceWithResponse: "with-response",
			priceDoubleResponse: "double-response", priceRegistration: "registration", priceSimpleResponse: "simple+response"}[mc.Plasma])
		seen[string(rune(mc.Regime))+string(mc.Contract[:])+string(mc.Selector)] = true
	}
	// the other direction is not a matter of C12 (a documented method that cannot be called costs nothing); counted
	for r := 0; r < 4; r++ {
		for i := range priceList {
			c := &priceList[i]
			for j := range c.methods {
				if _, ok := c.methods[j].priceAt(r); ok && !seen[string(rune(r))+string(c.addr[:])+string(c.abi.Methods[c.methods[j].method].Id())] {
					out.Count("price:documented-method-not-callable:" + RegimeNames[r] + ":" + c.name + "." + c.methods[j].method)
				}
			}
		}
	}
}
