package main

// Sequences of unconfirmed blocks of ONE account between two momentums. Earlier blocks over-pay (fused plasma far above
// their base cost, with and without proof-of-work), later ones ask for more fused plasma than is left. After every
// candidate the account's chain plasma is read from the real stores (committed: the frontier momentum's account store,
// uncommitted: the head of the account's unconfirmed chain) and the whole sequence is replayed on the model
// (pool_trace). Oracles: an accepted block books exactly its FusedPlasma, a refused one nothing; the counter equals the
// sum over the account's unconfirmed blocks; that sum never exceeds what the fused QSR provides.

import (
	"math/big"
	"math/rand"
	. "zharness/hz"

	g "github.com/zenon-network/go-zenon/chain/genesis/mock"
	"github.com/zenon-network/go-zenon/chain/nom"
	"github.com/zenon-network/go-zenon/common/types"
	"github.com/zenon-network/go-zenon/vm/embedded/definition"
	"github.com/zenon-network/go-zenon/wallet"
	"github.com/zenon-network/go-zenon/zenon/mock"
)

func poolHistory(rng *rand.Rand, out *Out) {
	nd := NewNode()
	defer nd.Stop()
	dv := newDeliverer(nd)
	users := []*wallet.KeyPair{g.User1, g.User2, g.User3, g.Spork, g.User6, g.User7}
	// small fusions for two users without any: 21000 .. 8 x 21000 plasma (a handful of blocks at most)
	for _, u := range users[4:] {
		amt := new(big.Int).Mul(big.NewInt(int64(10*(1+rng.Intn(8))+rng.Intn(2)*rng.Intn(10))), big.NewInt(g.Zexp))
		nd.Z.InsertSendBlock(&nom.AccountBlock{
			Address: g.User1.Address, ToAddress: types.PlasmaContract,
			TokenStandard: types.QsrTokenStandard, Amount: amt,
			Data: definition.ABIPlasma.PackMethodPanic(definition.FuseMethodName, u.Address),
		}, nil, mock.SkipVmChanges)
		nd.Momentum()
		nd.Momentum()
	}
	rounds := 4 + rng.Intn(3)
	for r := 0; r < rounds; r++ {
		u := users[rng.Intn(len(users))]
		poolSequence(rng, out, nd, dv, u, users)
		if rng.Intn(4) != 0 {
			nd.Momentum()
		}
	}
}

func chainPlasmaOf(nd *Node, addr types.Address) (committed, uncommitted *big.Int) {
	committed, _ = nd.Ch.GetFrontierMomentumStore().GetAccountStore(addr).GetChainPlasma()
	uncommitted, _ = nd.Ch.GetFrontierAccountStore(addr).GetChainPlasma()
	return
}

func poolSequence(rng *rand.Rand, out *Out, nd *Node, dv *deliverer, u *wallet.KeyPair, users []*wallet.KeyPair) {
	addr := u.Address
	committed0, u0 := chainPlasmaOf(nd, addr)
	fusedAmt, _ := nd.Ch.GetFrontierMomentumStore().GetStakeBeneficialAmount(addr)
	provided := refFusedPlasma(fusedAmt)
	k := 3 + rng.Intn(5)
	overpay := 1 + rng.Intn(2)
	var cands, obs []interface{}
	accepted := 0
	for i := 0; i < k; i++ {
		kind := rng.Intn(9)
		if kind == 8 && u != g.Spork {
			kind = 0
		}
		b, ctag := candidateTemplate(rng, u, users, kind)
		if len(b.Data) > 16384 {
			b.Data = b.Data[:16384]
		}
		nd.Fill(b)
		st := readPlasmaState(nd, b)
		base, baseOk := refBase(b, regimeAt(nd, b.MomentumAcknowledged))
		if !baseOk {
			continue
		}
		uBefore := st.uncommitted
		var left uint64
		if usedNow := new(big.Int).Sub(uBefore, st.committed); usedNow.Sign() >= 0 && usedNow.IsUint64() && usedNow.Uint64() <= provided {
			left = provided - usedNow.Uint64()
		}
		var d uint64
		if rng.Intn(3) == 0 {
			d = uint64(1500 * (1 + rng.Intn(30)))
			if rng.Intn(3) == 0 {
				d += uint64(rng.Intn(1500))
			}
		}
		powPlasma := refPowPlasma(d)
		var f uint64
		if i < overpay {
			// over-pay: far above the base cost
			switch rng.Intn(6) {
			case 0:
				f = left / 2
			case 1:
				f = left - base
			case 2:
				f = base * uint64(2+rng.Intn(9))
			case 3:
				f = left - uint64(rng.Intn(60000))
			case 4:
				f = 10500000 - powPlasma - uint64(rng.Intn(2))*uint64(rng.Intn(500000))
			default:
				f = base + uint64(rng.Intn(200000))
			}
			if f > 10500000 {
				f = base * 3
			}
			out.Count("pool:over-paying-candidate")
		} else {
			// around what is left for the account
			switch rng.Intn(8) {
			case 0:
				f = left + 1
			case 1:
				f = left
			case 2:
				f = left - 1
			case 3:
				f = base
			case 4:
				f = base - powPlasma
			case 5:
				f = left + uint64(rng.Intn(100000))
			case 6:
				f = 2 * left
			default:
				f = base + uint64(rng.Intn(30000))
			}
			out.Count("pool:candidate-around-what-is-left")
		}
		b.FusedPlasma = f
		powValid := proofOfWork(rng, b, d, true)
		preset := "unset"
		if rng.Intn(2) == 0 {
			preset = presetUnhashed(rng, b, base, f+powPlasma)
		}
		Sign(b, u)
		path := rng.Intn(nPaths)
		err, stored, inserted := dv.deliver(b, path, true)
		cls := errClassPlasma(err)
		if cls == 8 {
			out.Count("pool:other-error:" + err.Error())
			continue
		}
		if err == nil && !inserted {
			out.Count("pool:accepted-block-not-inserted")
			return
		}
		_, uAfter := chainPlasmaOf(nd, addr)
		cands = append(cands, Tup(U64(base), U64(f), U64(d), powValid))
		obs = append(obs, Tup(I64(cls), Big(uAfter)))
		pooled := nd.Ch.GetUncommittedAccountBlocksByAddress(addr)
		sum := new(big.Int)
		for _, p := range pooled {
			sum.Add(sum, new(big.Int).SetUint64(p.FusedPlasma))
		}
		detail := M{"path": pathName[path], "account": addr.String(), "position_in_sequence": i, "unconfirmed_blocks": len(pooled),
			"fused_amount": Big(fusedAmt), "plasma_of_fusion": U64(provided), "committed": Big(st.committed),
			"uncommitted_before": Big(uBefore), "uncommitted_after": Big(uAfter), "sum_fused_of_unconfirmed": Big(sum),
			"f": U64(f), "d": U64(d), "real_base_cost": U64(base), "accepted": err == nil, "unhashed_fields": preset, "kind": ctag}
		grow := new(big.Int).Sub(uAfter, uBefore)
		if err == nil {
			accepted++
			out.Count("pool:accepted:" + ctag)
			acceptOracle(out, st, b, base, powValid, path, preset)
			out.Oracle(stored.BasePlasma == base && stored.TotalPlasma == f+powPlasma, "accepted-block-carries-real-plasma-fields",
				M{"path": pathName[path], "real_base_cost": U64(base), "f": U64(f), "d": U64(d), "held_basePlasma": U64(stored.BasePlasma), "held_totalPlasma": U64(stored.TotalPlasma),
					"sent_basePlasma": U64(b.BasePlasma), "sent_totalPlasma": U64(b.TotalPlasma)})
			out.Oracle(grow.Cmp(new(big.Int).SetUint64(f)) == 0, "chain-plasma-grows-by-fused-plasma", detail)
		} else {
			out.Oracle(grow.Sign() == 0, "refused-block-books-no-plasma", detail)
		}
		out.Oracle(new(big.Int).Sub(uAfter, st.committed).Cmp(sum) == 0, "chain-plasma-is-sum-of-unconfirmed-fused", detail)
		out.Oracle(sum.Cmp(new(big.Int).SetUint64(provided)) <= 0, "unconfirmed-fused-plasma-within-fusion", detail)
	}
	if len(cands) == 0 {
		return
	}
	tag := "no-block-accepted"
	switch {
	case accepted >= 3:
		tag = "three-or-more-accepted"
	case accepted == 2:
		tag = "two-accepted"
	case accepted == 1:
		tag = "one-accepted"
	}
	if u0.Cmp(committed0) != 0 {
		tag += "+on-top-of-unconfirmed"
	}
	out.Case("pool_trace", Tup(Big(fusedAmt), Big(committed0), Big(u0), Lst(cands...)), Lst(obs...), tag)
}
