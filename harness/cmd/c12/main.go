package main

import . "zharness/hz"

func main() {
	Main(map[string]Runner{"pow": runPow, "plasma": runPlasma, "methods": runMethods})
}
