package main

import (
	"math/big"
	"math/rand"
	. "zharness/hz"

	g "github.com/zenon-network/go-zenon/chain/genesis/mock"
	"github.com/zenon-network/go-zenon/chain/nom"
	"github.com/zenon-network/go-zenon/common/types"
	"github.com/zenon-network/go-zenon/verifier"
	"github.com/zenon-network/go-zenon/vm"
	"github.com/zenon-network/go-zenon/vm/constants"
	"github.com/zenon-network/go-zenon/vm/embedded/definition"
	"github.com/zenon-network/go-zenon/wallet"
	"github.com/zenon-network/go-zenon/zenon/mock"
)

func errClassPlasma(err error) int64 {
	switch err {
	case nil:
		return 0
	case constants.ErrNotEnoughPlasma:
		return 1
	case constants.ErrBlockPlasmaLimitReached:
		return 2
	case constants.ErrNotEnoughTotalPlasma:
		return 3
	case verifier.ErrABPoWInvalid:
		return 4
	case constants.ErrVmRunPanic:
		return 9
	}
	return 8
}

// one history: fuse varied amounts for users 6..10, then candidate sends with varied plasma fields
func runPlasma(rng *rand.Rand, n int, out *Out, _ []string) {
	for h := 0; h < n; h++ {
		plasmaHistory(rng, out)
		poolHistory(rng, out)
	}
}

func plasmaHistory(rng *rand.Rand, out *Out) {
	// fusions may be cancelled after a few momentums (10 hours on the real network): the plasma behind an account
	// can shrink underneath its unconfirmed blocks
	defer func(old uint64) { constants.FuseExpiration = old }(constants.FuseExpiration)
	constants.FuseExpiration = 3
	nd := NewNode()
	defer nd.Stop()
	dv := newDeliverer(nd)
	// g.Spork holds 45000 ZNN and 10000 fused QSR: the one account that can afford the 105000-plasma pillar registration
	users := []*wallet.KeyPair{g.User1, g.User2, g.User3, g.Spork, g.User6, g.User7, g.User8, g.User9, g.User10}
	// fusions for the users that have none at genesis
	for _, u := range users[4:] {
		if rng.Intn(5) == 0 {
			continue // stays without fused QSR
		}
		amt := new(big.Int).Mul(big.NewInt(int64(10+rng.Intn(70))), big.NewInt(g.Zexp))
		nd.Z.InsertSendBlock(&nom.AccountBlock{
			Address: g.User1.Address, ToAddress: types.PlasmaContract,
			TokenStandard: types.QsrTokenStandard, Amount: amt,
			Data: definition.ABIPlasma.PackMethodPanic(definition.FuseMethodName, u.Address),
		}, nil, mock.SkipVmChanges)
		nd.Momentum()
		nd.Momentum()
	}
	type scripted struct {
		u   *wallet.KeyPair
		ack uint64 // height of the acknowledged momentum, 0 = frontier
	}
	var queue []scripted
	scriptedDone := false
	steps := 30 + rng.Intn(30)
	for s := 0; s < steps || len(queue) > 0 || !scriptedDone; s++ {
		if s >= steps && len(queue) == 0 && !scriptedDone {
			// scripted epilogue: the plasma behind an account shrinks underneath its unconfirmed blocks.
			// Cancel a fusion made for one of the users, let the cancellation be received, then publish a block
			// that acknowledges the last momentum at which the fusion was still active, then blocks acknowledging
			// the frontier (where nothing is fused any more).
			scriptedDone = true
			st := nd.Ch.GetFrontierMomentumStore().GetAccountStore(types.PlasmaContract).Storage()
			list, _, err := definition.GetFusionInfoListByOwner(st, g.User1.Address)
			if err != nil {
				continue
			}
			for _, fi := range list {
				kp := KeyOf(fi.Beneficiary)
				if kp == nil || fi.Beneficiary == g.User1.Address || fi.ExpirationHeight > nd.FrontierHeight() {
					continue
				}
				if len(nd.Ch.GetUncommittedAccountBlocksByAddress(fi.Beneficiary)) != 0 {
					nd.Momentum()
				}
				tmpl := &nom.AccountBlock{BlockType: nom.BlockTypeUserSend, Address: g.User1.Address, ToAddress: types.PlasmaContract,
					Data: definition.ABIPlasma.PackMethodPanic(definition.CancelFuseMethodName, fi.Id)}
				tx, err := nd.Sv.GenerateFromTemplate(tmpl, g.User1.Signer)
				if err != nil || nd.Insert(tx) != nil {
					continue
				}
				nd.Momentum()
				nd.Momentum()
				h2 := nd.FrontierHeight()
				queue = append(queue, scripted{kp, h2 - 1}, scripted{kp, 0}, scripted{kp, 0})
				out.Count("plasma:scripted-shrinking-fusion")
				break
			}
			continue
		}
		var sc *scripted
		if len(queue) > 0 {
			sc = &queue[0]
			queue = queue[1:]
		}
		u := users[rng.Intn(len(users))]
		if sc != nil {
			u = sc.u
		}
		kind := rng.Intn(10)
		if sc != nil {
			kind = 0
		}
		b, ctag := candidateTemplate(rng, u, users, kind)
		if sc == nil && rng.Intn(4) == 0 {
			// a receive block of the user (base cost 21000 whatever it receives), if something is waiting for it
			if hs, err := nd.Ch.GetFrontierMomentumStore().GetAccountMailbox(u.Address).GetUnreceivedAccountBlockHashes(8); err == nil && len(hs) > 0 {
				b = &nom.AccountBlock{BlockType: nom.BlockTypeUserReceive, Address: u.Address, FromBlockHash: hs[rng.Intn(len(hs))], Amount: big.NewInt(0)}
				ctag = "receive"
			}
		}
		if sc != nil && sc.ack != 0 {
			if m, err := nd.Ch.GetFrontierMomentumStore().GetMomentumByHeight(sc.ack); err == nil && m != nil {
				b.MomentumAcknowledged = m.Identifier()
			}
		} else if sc == nil && rng.Intn(4) == 0 && nd.FrontierHeight() > 3 {
			// acknowledge an older momentum (not older than the one acknowledged by the account's previous block)
			h := nd.FrontierHeight() - uint64(1+rng.Intn(2))
			if m, err := nd.Ch.GetFrontierMomentumStore().GetMomentumByHeight(h); err == nil && m != nil {
				b.MomentumAcknowledged = m.Identifier()
				out.Count("plasma:candidate-acknowledges-older-momentum")
			}
		}
		nd.Fill(b)

		// context exactly as the vm will see it
		st := readPlasmaState(nd, b)
		committed, uncommitted, fusedAmt := st.committed, st.uncommitted, st.fused
		// the base cost by the harness's own table; the implementation's function is compared with the model on the
		// same inputs, and must not look at the fields a sender can set freely
		regime := regimeAt(nd, b.MomentumAcknowledged)
		base, baseOk := refBase(b, regime)
		{
			implBase, baseErr := vm.GetBasePlasmaForAccountBlock(st.ctx, b)
			toContract := types.IsEmbeddedAddress(b.ToAddress)
			key := big.NewInt(0)
			if toContract && len(b.Data) >= 4 {
				key = MethodCostKey(regime, b.ToAddress, b.Data)
			}
			want := int64(-1)
			if baseErr == nil {
				want = int64(implBase)
			}
			btag := "transfer"
			if toContract {
				btag = "contract-call"
			}
			if b.IsReceiveBlock() {
				btag = "receive"
			}
			out.Case("base_plasma", Tup(b.IsReceiveBlock(), toContract, st.found, Big(key), I64(int64(len(b.Data)))), I64(want), btag)
			out.Oracle((baseErr == nil) == baseOk && (baseErr != nil || implBase == base), "base-cost-by-type-data-method",
				M{"to": b.ToAddress.String(), "data_len": len(b.Data), "harness_base": U64(base), "impl_base": I64(want)})
		}
		if !baseOk {
			out.Count("plasma:no-base-cost:" + ctag)
			if rng.Intn(3) != 0 {
				continue
			}
			// a block without a base cost is refused whatever it claims
			b.FusedPlasma = 200000
			presetUnhashed(rng, b, 52500, 200000)
			Sign(b, u)
			path := rng.Intn(nPaths)
			err, _, _ := dv.deliver(b, path, true)
			out.Oracle(err != nil, "block-without-base-cost-refused",
				M{"path": pathName[path], "to": b.ToAddress.String(), "data_len": len(b.Data), "sent_basePlasma": U64(b.BasePlasma)})
			continue
		}
		avail, _ := vm.AvailablePlasma(nd.Ch.GetMomentumStore(b.MomentumAcknowledged), nd.Ch.GetAccountStore(b.Address, b.Previous()))

		// difficulty first (its plasma is part of what the block pays), then fused plasma around the REAL base cost
		var d uint64
		doWork := true
		dsel := rng.Intn(8)
		if sc != nil {
			dsel = 7
		}
		switch dsel {
		case 0, 1:
			d = uint64(1 + rng.Intn(40000))
		case 2:
			d = uint64(1500 * (1 + rng.Intn(60)))
		case 3: // claimed difficulty without doing the work
			d = BoundaryU64(rng)
			if d == 0 {
				d = 1
			}
			doWork = false
		}
		powPlasma := refPowPlasma(d)
		var f uint64
		switch rng.Intn(12) {
		case 0:
			f = 0
		case 1:
			f = base
		case 2:
			f = base - 1
		case 3:
			f = avail
		case 4:
			f = avail + 1
		case 5:
			f = constants.MaxPlasmaForAccountBlock + uint64(rng.Intn(3)) - 1 - uint64(rng.Intn(2))*powPlasma
		case 6:
			f = base + uint64(rng.Intn(2000))
		case 7:
			if avail > 0 {
				f = uint64(rng.Int63n(int64(avail) + 1))
			}
		case 8: // exactly the real cost together with the proof-of-work
			f = base - powPlasma
		case 9: // one short of it
			f = base - powPlasma - 1
		case 10:
			f = []uint64{1, 21000, 20999, 52500}[rng.Intn(4)]
		default:
			f = BoundaryU64(rng)
		}
		if sc != nil {
			f = base
		}
		b.FusedPlasma = f
		powValid := proofOfWork(rng, b, d, doWork)
		// the unhashed plasma fields: left empty (as the node's own template path leaves them) or claimed by the sender
		preset := "unset"
		if sc == nil && rng.Intn(5) < 3 {
			preset = presetUnhashed(rng, b, base, f+powPlasma)
		}
		out.Count("plasma:unhashed-fields:" + preset)
		if ib, e := vm.GetBasePlasmaForAccountBlock(st.ctx, b); preset != "unset" {
			out.Oracle(e == nil && ib == base, "base-cost-independent-of-unhashed-fields",
				M{"to": b.ToAddress.String(), "data_len": len(b.Data), "real_base_cost": U64(base), "impl_base": U64(ib),
					"sent_basePlasma": U64(b.BasePlasma), "sent_totalPlasma": U64(b.TotalPlasma)})
		}
		Sign(b, u)
		path := rng.Intn(nPaths)
		insert := sc != nil || rng.Intn(3) != 0
		err, stored, inserted := dv.deliver(b, path, insert)
		out.Count("plasma:path:" + pathName[path])
		cls := errClassPlasma(err)
		if cls == 8 {
			out.Count("plasma:other-error:" + err.Error())
			continue
		}
		tag := []string{"accepted", "not-enough-plasma", "limit-reached", "not-enough-total", "pow-invalid"}[cls%5]
		if cls == 9 {
			tag = "panic"
		}
		var total, baseOut uint64
		if err == nil && stored != nil {
			total, baseOut = stored.TotalPlasma, stored.BasePlasma
		} else if err == nil {
			out.Count("plasma:accepted-block-not-held")
			continue
		}
		out.Case("plasma_check",
			Tup(Big(fusedAmt), Big(committed), Big(uncommitted), U64(base), U64(f), U64(d), powValid),
			Tup(I64(cls), U64(total), U64(baseOut)), tag)

		// direct statement of the property on the implementation's verdict
		if err == nil {
			out.Count("plasma:accepted:" + ctag)
			acceptOracle(out, st, b, base, powValid, path, preset)
			out.Oracle(baseOut == base && total == f+powPlasma, "accepted-block-carries-real-plasma-fields",
				M{"path": pathName[path], "real_base_cost": U64(base), "f": U64(f), "d": U64(d), "held_basePlasma": U64(baseOut), "held_totalPlasma": U64(total),
					"sent_basePlasma": U64(b.BasePlasma), "sent_totalPlasma": U64(b.TotalPlasma)})
			if insert && !inserted {
				out.Count("plasma:insert-failed")
			}
		}
		if sc != nil || s >= steps {
			continue
		}
		if rng.Intn(6) == 0 {
			nd.Momentum()
		}
		if rng.Intn(12) == 0 {
			// the owner cancels one of the fusions it made for the other users (takes effect with the next momentums)
			st := nd.Ch.GetFrontierMomentumStore().GetAccountStore(types.PlasmaContract).Storage()
			list, _, err := definition.GetFusionInfoListByOwner(st, g.User1.Address)
			if err == nil && len(list) > 0 {
				fi := list[rng.Intn(len(list))]
				if fi.Beneficiary != g.User1.Address && fi.ExpirationHeight <= nd.FrontierHeight() {
					tmpl := &nom.AccountBlock{BlockType: nom.BlockTypeUserSend,
						Address: g.User1.Address, ToAddress: types.PlasmaContract,
						Data: definition.ABIPlasma.PackMethodPanic(definition.CancelFuseMethodName, fi.Id)}
					if tx, err := nd.Sv.GenerateFromTemplate(tmpl, g.User1.Signer); err == nil && nd.Insert(tx) == nil {
						out.Count("plasma:fusion-cancelled")
					}
				}
			}
		}
	}
}
