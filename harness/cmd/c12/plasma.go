package main

import (
	"math/big"
	"math/rand"
	. "zharness/hz"

	g "github.com/zenon-network/go-zenon/chain/genesis/mock"
	"github.com/zenon-network/go-zenon/chain/nom"
	"github.com/zenon-network/go-zenon/common/types"
	"github.com/zenon-network/go-zenon/pow"
	"github.com/zenon-network/go-zenon/verifier"
	"github.com/zenon-network/go-zenon/vm"
	"github.com/zenon-network/go-zenon/vm/constants"
	"github.com/zenon-network/go-zenon/vm/embedded"
	"github.com/zenon-network/go-zenon/vm/embedded/definition"
	"github.com/zenon-network/go-zenon/vm/vm_context"
	"github.com/zenon-network/go-zenon/wallet"
	"github.com/zenon-network/go-zenon/zenon/mock"
)

func errClassPlasma(err error) int64 {
	switch err {
	case nil:
		return 0
	case constants.ErrNotEnoughPlasma:
		return 1
	case constants.ErrBlockPlasmaLimitReached:
		return 2
	case constants.ErrNotEnoughTotalPlasma:
		return 3
	case verifier.ErrABPoWInvalid:
		return 4
	case constants.ErrVmRunPanic:
		return 9
	}
	return 8
}

// one history: fuse varied amounts for users 6..10, then candidate sends with varied plasma fields
func runPlasma(rng *rand.Rand, n int, out *Out, _ []string) {
	for h := 0; h < n; h++ {
		plasmaHistory(rng, out)
	}
}

func plasmaHistory(rng *rand.Rand, out *Out) {
	// fusions may be cancelled after a few momentums (10 hours on the real network): the plasma behind an account
	// can shrink underneath its unconfirmed blocks
	defer func(old uint64) { constants.FuseExpiration = old }(constants.FuseExpiration)
	constants.FuseExpiration = 3
	nd := NewNode()
	defer nd.Stop()
	users := []*wallet.KeyPair{g.User1, g.User2, g.User3, g.User6, g.User7, g.User8, g.User9, g.User10}
	// fusions for the users that have none at genesis
	for _, u := range users[3:] {
		if rng.Intn(5) == 0 {
			continue // stays without fused QSR
		}
		amt := new(big.Int).Mul(big.NewInt(int64(10+rng.Intn(70))), big.NewInt(g.Zexp))
		nd.Z.InsertSendBlock(&nom.AccountBlock{
			Address: g.User1.Address, ToAddress: types.PlasmaContract,
			TokenStandard: types.QsrTokenStandard, Amount: amt,
			Data: definition.ABIPlasma.PackMethodPanic(definition.FuseMethodName, u.Address),
		}, nil, mock.SkipVmChanges)
		nd.Momentum()
		nd.Momentum()
	}
	type scripted struct {
		u   *wallet.KeyPair
		ack uint64 // height of the acknowledged momentum, 0 = frontier
	}
	var queue []scripted
	scriptedDone := false
	steps := 30 + rng.Intn(30)
	for s := 0; s < steps || len(queue) > 0 || !scriptedDone; s++ {
		if s >= steps && len(queue) == 0 && !scriptedDone {
			// scripted epilogue: the plasma behind an account shrinks underneath its unconfirmed blocks.
			// Cancel a fusion made for one of the users, let the cancellation be received, then publish a block
			// that acknowledges the last momentum at which the fusion was still active, then blocks acknowledging
			// the frontier (where nothing is fused any more).
			scriptedDone = true
			st := nd.Ch.GetFrontierMomentumStore().GetAccountStore(types.PlasmaContract).Storage()
			list, _, err := definition.GetFusionInfoListByOwner(st, g.User1.Address)
			if err != nil {
				continue
			}
			for _, fi := range list {
				kp := KeyOf(fi.Beneficiary)
				if kp == nil || fi.Beneficiary == g.User1.Address || fi.ExpirationHeight > nd.FrontierHeight() {
					continue
				}
				if len(nd.Ch.GetUncommittedAccountBlocksByAddress(fi.Beneficiary)) != 0 {
					nd.Momentum()
				}
				tmpl := &nom.AccountBlock{BlockType: nom.BlockTypeUserSend, Address: g.User1.Address, ToAddress: types.PlasmaContract,
					Data: definition.ABIPlasma.PackMethodPanic(definition.CancelFuseMethodName, fi.Id)}
				tx, err := nd.Sv.GenerateFromTemplate(tmpl, g.User1.Signer)
				if err != nil || nd.Insert(tx) != nil {
					continue
				}
				nd.Momentum()
				nd.Momentum()
				h2 := nd.FrontierHeight()
				queue = append(queue, scripted{kp, h2 - 1}, scripted{kp, 0}, scripted{kp, 0})
				out.Count("plasma:scripted-shrinking-fusion")
				break
			}
			continue
		}
		var sc *scripted
		if len(queue) > 0 {
			sc = &queue[0]
			queue = queue[1:]
		}
		u := users[rng.Intn(len(users))]
		if sc != nil {
			u = sc.u
		}
		b := &nom.AccountBlock{BlockType: nom.BlockTypeUserSend, Address: u.Address}
		kind := rng.Intn(10)
		if sc != nil {
			kind = 0
		}
		switch {
		case kind < 6: // plain transfer with data
			b.ToAddress = users[rng.Intn(len(users))].Address
			dl := []int{0, 0, 0, 1, 10, 100, 300, 1000, 16383, 16384, 16385}[rng.Intn(11)]
			b.Data = make([]byte, dl)
			rng.Read(b.Data)
		case kind < 8: // contract call: plasma.Fuse with zero amount will fail validation -> use token burn of 0? keep simple: donate
			b.ToAddress = types.AcceleratorContract
			b.Data = definition.ABIAccelerator.PackMethodPanic(definition.DonateMethodName)
			b.TokenStandard = types.ZnnTokenStandard
			b.Amount = big.NewInt(0)
		default:
			b.ToAddress = types.PlasmaContract
			b.Data = definition.ABIPlasma.PackMethodPanic(definition.FuseMethodName, u.Address)
			b.TokenStandard = types.QsrTokenStandard
			b.Amount = big.NewInt(0)
		}
		if sc != nil && sc.ack != 0 {
			if m, err := nd.Ch.GetFrontierMomentumStore().GetMomentumByHeight(sc.ack); err == nil && m != nil {
				b.MomentumAcknowledged = m.Identifier()
			}
		} else if sc == nil && rng.Intn(4) == 0 && nd.FrontierHeight() > 3 {
			// acknowledge an older momentum (not older than the one acknowledged by the account's previous block)
			h := nd.FrontierHeight() - uint64(1+rng.Intn(2))
			if m, err := nd.Ch.GetFrontierMomentumStore().GetMomentumByHeight(h); err == nil && m != nil {
				b.MomentumAcknowledged = m.Identifier()
				out.Count("plasma:candidate-acknowledges-older-momentum")
			}
		}
		nd.Fill(b)

		// context exactly as the vm will see it
		ms := nd.Ch.GetMomentumStore(b.MomentumAcknowledged)
		as := nd.Ch.GetAccountStore(b.Address, b.Previous())
		ctx := vm_context.NewAccountContext(ms, as, nd.Cs.FixedPillarReader(b.MomentumAcknowledged))
		committed, _ := ms.GetAccountStore(b.Address).GetChainPlasma()
		uncommitted, _ := as.GetChainPlasma()
		fusedAmt, _ := ms.GetStakeBeneficialAmount(b.Address)
		base, baseErr := vm.GetBasePlasmaForAccountBlock(ctx, b)
		{
			// correspondence case for the base-cost model
			toContract := types.IsEmbeddedAddress(b.ToAddress)
			_, merr := embedded.GetEmbeddedMethod(ctx, b.ToAddress, b.Data)
			found := toContract && merr == nil
			key := big.NewInt(0)
			if toContract && len(b.Data) >= 4 {
				key = new(big.Int).SetBytes(append(append([]byte{}, b.ToAddress[:]...), b.Data[:4]...))
			}
			want := int64(-1)
			if baseErr == nil {
				want = int64(base)
			}
			btag := "transfer"
			if toContract {
				btag = "contract-call"
			}
			out.Case("base_plasma", Tup(false, toContract, found, Big(key), I64(int64(len(b.Data)))), I64(want), btag)
		}
		if baseErr != nil {
			out.Count("plasma:base-error")
			continue
		}
		avail, _ := vm.AvailablePlasma(ms, as)

		// choose fused plasma and difficulty
		var f uint64
		switch rng.Intn(9) {
		case 0:
			f = 0
		case 1:
			f = base
		case 2:
			f = base - 1
		case 3:
			f = avail
		case 4:
			f = avail + 1
		case 5:
			f = constants.MaxPlasmaForAccountBlock + uint64(rng.Intn(3)) - 1
		case 6:
			f = base + uint64(rng.Intn(2000))
		case 7:
			if avail > 0 {
				f = uint64(rng.Int63n(int64(avail) + 1))
			}
		default:
			f = BoundaryU64(rng)
		}
		if sc != nil {
			f = base
		}
		b.FusedPlasma = f
		var d uint64
		powValid := true
		dsel := rng.Intn(8)
		if sc != nil {
			dsel = 7
		}
		switch dsel {
		case 0, 1:
			d = uint64(1 + rng.Intn(40000))
		case 2:
			d = uint64(1 + rng.Intn(400000))
		case 3: // claimed difficulty without doing the work
			d = BoundaryU64(rng)
			if d == 0 {
				d = 1
			}
			powValid = false
		}
		b.Difficulty = d
		if d != 0 {
			if powValid {
				nonce := pow.GetPoWNonce(new(big.Int).SetUint64(d), pow.GetAccountBlockHash(b))
				b.Nonce = nom.DeSerializeNonce(nonce)
			} else {
				rng.Read(b.Nonce.Data[:])
				powValid = pow.CheckPoWNonce(b)
			}
		}
		Sign(b, u)
		tx, err := nd.Apply(b)
		cls := errClassPlasma(err)
		if cls == 8 {
			out.Count("plasma:other-error:" + err.Error())
			continue
		}
		tag := []string{"accepted", "not-enough-plasma", "limit-reached", "not-enough-total", "pow-invalid"}[cls%5]
		if cls == 9 {
			tag = "panic"
		}
		var total, baseOut uint64
		if err == nil {
			total, baseOut = tx.Block.TotalPlasma, tx.Block.BasePlasma
		}
		out.Case("plasma_check",
			Tup(Big(fusedAmt), Big(committed), Big(uncommitted), U64(base), U64(f), U64(d), powValid),
			Tup(I64(cls), U64(total), U64(baseOut)), tag)

		// direct statement of the property on the implementation's verdict
		if err == nil {
			powPlasma := d / constants.PoWDifficultyPerPlasma
			if d > constants.MaxDifficultyForAccountBlock {
				powPlasma = constants.MaxPoWPlasmaForAccountBlock
			}
			used := new(big.Int).Sub(uncommitted, committed)
			provided := new(big.Int).SetUint64(vm.FussedAmountToPlasma(fusedAmt))
			okBase := f+powPlasma >= base
			okCap := f+powPlasma <= constants.MaxPlasmaForAccountBlock
			okFused := new(big.Int).Add(used, new(big.Int).SetUint64(f)).Cmp(provided) <= 0
			okPow := d == 0 || powValid
			out.Oracle(okBase && okCap && okFused && okPow, "plasma-accept-sound",
				M{"fused_amount": Big(fusedAmt), "used_by_unconfirmed": Big(used), "f": U64(f), "d": U64(d), "base": U64(base), "pow_valid": powValid})
			if sc != nil || rng.Intn(3) != 0 {
				if e := nd.Insert(tx); e != nil {
					out.Count("plasma:insert-failed")
				}
			}
		}
		if sc != nil || s >= steps {
			continue
		}
		if rng.Intn(6) == 0 {
			nd.Momentum()
		}
		if rng.Intn(12) == 0 {
			// the owner cancels one of the fusions it made for the other users (takes effect with the next momentums)
			st := nd.Ch.GetFrontierMomentumStore().GetAccountStore(types.PlasmaContract).Storage()
			list, _, err := definition.GetFusionInfoListByOwner(st, g.User1.Address)
			if err == nil && len(list) > 0 {
				fi := list[rng.Intn(len(list))]
				if fi.Beneficiary != g.User1.Address && fi.ExpirationHeight <= nd.FrontierHeight() {
					tmpl := &nom.AccountBlock{BlockType: nom.BlockTypeUserSend,
						Address: g.User1.Address, ToAddress: types.PlasmaContract,
						Data: definition.ABIPlasma.PackMethodPanic(definition.CancelFuseMethodName, fi.Id)}
					if tx, err := nd.Sv.GenerateFromTemplate(tmpl, g.User1.Signer); err == nil && nd.Insert(tx) == nil {
						out.Count("plasma:fusion-cancelled")
					}
				}
			}
		}
	}
}
