package main

import (
	"encoding/binary"
	"math/big"
	"math/rand"
	. "zharness/hz"

	"github.com/zenon-network/go-zenon/chain/nom"
	"github.com/zenon-network/go-zenon/common/types"
	"github.com/zenon-network/go-zenon/pow"
)

func runPow(rng *rand.Rand, n int, out *Out, _ []string) {
	two64 := new(big.Int).Lsh(big.NewInt(1), 64)
	for i := 0; i < n; i++ {
		d := BoundaryU64(rng)
		var b nom.AccountBlock
		rng.Read(b.Address[:])
		rng.Read(b.PreviousHash[:])
		var nonce [8]byte
		rng.Read(nonce[:])
		b.Nonce = nom.Nonce{Data: nonce}
		b.Difficulty = d
		dataHash := pow.GetAccountBlockHash(&b)
		h8 := pow.VerifHashWithNonce(dataHash, b.Nonce.Serialize())
		// for large difficulties random digests almost never pass: steer half of the cases
		// to the neighbourhood of the threshold by comparing a crafted digest through the
		// exported comparison as well.
		tgt := pow.VerifTargetByDifficulty(d)
		res := pow.CheckPoWNonce(&b)
		out.Case("pow_check", Tup(U64(d), Byt(h8)), Tup(Byt(tgt[:]), res), "real-digest")

		// direct statement: accepted  <->  h >= 2^64 - floor(2^64/d)     (d >= 1)
		if d >= 1 {
			thr := new(big.Int).Sub(two64, new(big.Int).Quo(two64, new(big.Int).SetUint64(d)))
			h := new(big.Int).SetUint64(binary.LittleEndian.Uint64(h8))
			want := h.Cmp(thr) >= 0
			out.Oracle(res == want, "pow-threshold", M{"d": U64(d), "h": Big(h), "accepted": res})
		}
		// crafted digest around the true threshold, through greaterDifficulty + target
		if d >= 1 {
			thr := new(big.Int).Sub(two64, new(big.Int).Quo(two64, new(big.Int).SetUint64(d)))
			delta := int64(rng.Intn(5)) - 2
			hv := new(big.Int).Add(thr, big.NewInt(delta))
			if hv.Sign() >= 0 && hv.Cmp(two64) < 0 {
				var hb [8]byte
				binary.LittleEndian.PutUint64(hb[:], hv.Uint64())
				g := pow.VerifGreaterDifficulty(hb[:], tgt[:])
				out.Case("pow_check", Tup(U64(d), Byt(hb[:])), Tup(Byt(tgt[:]), g), "crafted-digest")
				out.Oracle(g == (delta >= 0), "pow-threshold", M{"d": U64(d), "h": Big(hv), "accepted": g})
			}
		}
		_ = types.ZeroHash
	}
}
