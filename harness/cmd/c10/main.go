package main

import (
	"zharness/embx"
	. "zharness/hz"
)

func main() {
	Main(map[string]Runner{"locks": embx.RunLocks, "bridgeliq": embx.RunBridgeLiq, "liqtreasury": embx.RunLiqTreasury})
}
